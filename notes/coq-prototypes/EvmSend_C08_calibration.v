From Coq Require Import List NArith Lia Bool ZifyN ZifyBool.
Import ListNotations.
Open Scope N_scope.

Definition max_sent : N := 1024.
Definition w64 : N := 18446744073709551616.

Record answers := { pending : option N; conf_read : N; build_ok : bool; sign_ok : bool; submit_ok : bool }.
Inductive result := Submitted (n : N) | Failed.

(* unchanged code *)
Definition get_nonce_v0 (ctr p : N) : N * N :=
  if p =? 0 then (ctr, 0) else
  let c1 := if ctr =? 0 then p else ctr in
  let c2 := if c1 <? p then p else c1 in (c2, c2).
(* repaired code *)
Definition get_nonce (ctr p : N) : N * N :=
  let c2 := if ctr <? p then p else ctr in (c2, c2).

Definition send_with (gn : N -> N -> N * N) (ctr : N) (a : answers) : N * result :=
  match pending a with
  | None => (ctr, Failed)
  | Some p =>
      let '(ctr1, n) := gn ctr p in
      if n <=? (conf_read a + max_sent) mod w64 then
        if build_ok a && sign_ok a && submit_ok a then (ctr1 + 1, Submitted n) else (ctr1, Failed)
      else (ctr1, Failed)
  end.
Definition send := send_with get_nonce.
Definition send_v0 := send_with get_nonce_v0.

Record st := { ctr : N; hist : list N (* submitted nonces, newest first *) }.
Definition step_with gn (s : st) (a : answers) : st :=
  let '(c, r) := send_with gn (ctr s) a in
  match r with Submitted n => {| ctr := c; hist := n :: hist s |} | Failed => {| ctr := c; hist := hist s |} end.
Definition step := step_with get_nonce.
Definition init := {| ctr := 0; hist := [] |}.

(* strictly decreasing newest-first = strictly increasing in submission order *)
Fixpoint sdec (l : list N) : Prop := match l with [] => True | x :: r => (match r with [] => True | y :: _ => y < x end) /\ sdec r end.
Definition Inv (s : st) : Prop := sdec (hist s) /\ (forall n, In n (hist s) -> n < ctr s).

Lemma send_spec c a c' r : send c a = (c', r) ->
  c <= c' /\ match r with Submitted n => c <= n /\ c' = n + 1 /\ (forall p, pending a = Some p -> p <= n) | Failed => True end.
Proof.
  unfold send, send_with, get_nonce. destruct (pending a) as [p|].
  2:{ intros [= <- <-]. split; [lia|exact I]. }
  destruct (c <? p) eqn:Hlt; destruct (_ <=? _) eqn:Hw;
  destruct (build_ok a && sign_ok a && submit_ok a) eqn:Hok;
  intros [= <- <-]; (split; [lia|]); try exact I;
  (split; [lia|split; [reflexivity|intros q [= <-]; lia]]).
Qed.

Lemma step_inv s a : Inv s -> Inv (step s a).
Proof.
  intros [Hs Hb]. unfold step, step_with. fold send.
  destruct (send (ctr s) a) as [c' r] eqn:E. apply send_spec in E. destruct E as [Hle Hr].
  destruct r as [n|]; cbn.
  - destruct Hr as (Hn & -> & _). split.
    + split; [|exact Hs]. destruct (hist s) as [|y l] eqn:Eh; [exact I|].
      specialize (Hb y (or_introl eq_refl)). lia.
    + cbn [ctr hist]. intros m [<-|Hm]; [lia|]. specialize (Hb m Hm). lia.
  - split; [exact Hs|]. cbn [ctr hist]. intros m Hm. specialize (Hb m Hm). lia.
Qed.

Theorem monotone (l : list answers) : sdec (hist (fold_left step l init)).
Proof.
  assert (H : forall s, Inv s -> Inv (fold_left step l s)).
  { induction l as [|a l IH]; cbn; intros s Hs; [exact Hs|]. apply IH, step_inv, Hs. }
  apply H. split; cbn; [exact I|intros n []].
Qed.

Definition ok p := {| pending := Some p; conf_read := 0; build_ok := true; sign_ok := true; submit_ok := true |}.
Example refuted_v0 : hist (fold_left (step_with get_nonce_v0) [ok 0; ok 0] init) = [0; 0].
Proof. vm_compute. reflexivity. Qed.
Print Assumptions monotone.
