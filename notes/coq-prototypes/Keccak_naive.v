(* Feasibility prototype (DESIGN.md Appendix B): straightforward executable Keccak-256
   (legacy 0x01 padding, as go-ethereum's crypto.Keccak256). Digests checked:
     keccak256 ""  = c5d2460186f7233c927e7db2dcc703c0e500b653ca82273b7bfad8045d85a470
   Speed under vm_compute: ~0.12 s per 136-byte block (nth/seq/nat-mod overhead);
   the production version is to use an unrolled 25-tuple state. *)
From Coq Require Import List NArith ZArith Lia String Ascii.
Import ListNotations.
Open Scope N_scope.

Definition w64 := 18446744073709551616.
Definition rotl (x : N) (n : N) : N :=
  if n =? 0 then x else N.lor (N.modulo (N.shiftl x n) w64) (N.shiftr x (64 - n)).
Definition xor := N.lxor.
Definition andn (a b : N) : N := N.land (N.lxor a (w64 - 1)) b. (* ~a & b *)

Definition RC : list N := [
 0x0000000000000001; 0x0000000000008082; 0x800000000000808A; 0x8000000080008000;
 0x000000000000808B; 0x0000000080000001; 0x8000000080008081; 0x8000000000008009;
 0x000000000000008A; 0x0000000000000088; 0x0000000080008009; 0x000000008000000A;
 0x000000008000808B; 0x800000000000008B; 0x8000000000008089; 0x8000000000008003;
 0x8000000000008002; 0x8000000000000080; 0x000000000000800A; 0x800000008000000A;
 0x8000000080008081; 0x8000000000008080; 0x0000000080000001; 0x8000000080008008].

(* rotation offsets indexed by x + 5*y *)
Definition ROT : list N := [
  0; 1; 62; 28; 27;
  36; 44; 6; 55; 20;
  3; 10; 43; 25; 39;
  41; 45; 15; 21; 8;
  18; 2; 61; 56; 14].

Definition get (s : list N) (i : nat) : N := nth i s 0.
Definition idx (x y : nat) : nat := (x mod 5) + 5 * (y mod 5).

Definition theta (s : list N) : list N :=
  let C := map (fun x => xor (get s x) (xor (get s (x+5)) (xor (get s (x+10)) (xor (get s (x+15)) (get s (x+20)))))) [0;1;2;3;4]%nat in
  let D := map (fun x => xor (get C ((x+4) mod 5)) (rotl (get C ((x+1) mod 5)) 1)) [0;1;2;3;4]%nat in
  map (fun i => xor (get s i) (get D (i mod 5))) (seq 0 25).

(* B[y, 2x+3y] = rot(A[x,y], r[x,y]); for target (X,Y): y = X, x = (Y - 3X) * 3 mod 5 *)
Definition rhopi (s : list N) : list N :=
  map (fun i => let X := (i mod 5)%nat in let Y := (i / 5)%nat in
                let y := X in let x := (((Y + 5*3 - 3*X mod 5 + 5) * 3) mod 5)%nat in
                rotl (get s (idx x y)) (nth (idx x y) ROT 0)) (seq 0 25).

Definition chi (s : list N) : list N :=
  map (fun i => let x := (i mod 5)%nat in let y := (i / 5)%nat in
                xor (get s i) (andn (get s (idx (x+1) y)) (get s (idx (x+2) y)))) (seq 0 25).

Definition iota (rc : N) (s : list N) : list N :=
  match s with [] => [] | a :: r => xor a rc :: r end.

Definition round (s : list N) (rc : N) : list N := iota rc (chi (rhopi (theta s))).
Definition keccakf (s : list N) : list N := fold_left round RC s.

Fixpoint le64 (bs : list N) (k : nat) : N :=
  match k, bs with
  | O, _ => 0
  | S k', [] => 0
  | S k', b :: r => b + 256 * le64 r k'
  end.

Fixpoint lanes (bs : list N) (n : nat) : list N :=
  match n with O => [] | S n' => le64 bs 8 :: lanes (skipn 8 bs) n' end.

Definition absorb (s : list N) (block : list N) : list N :=
  let ls := lanes block 17 in
  keccakf (map (fun i => if Nat.ltb i 17 then xor (get s i) (get ls i) else get s i) (seq 0 25)).

Definition rate := 136%nat.
Definition pad (m : list N) : list N :=
  let q := (rate - (List.length m mod rate))%nat in
  if Nat.eqb q 1 then m ++ [0x81] else m ++ [0x01] ++ repeat 0 (q - 2) ++ [0x80].

Fixpoint blocks (fuel : nat) (m : list N) (s : list N) : list N :=
  match fuel with O => s | S f =>
    match m with [] => s | _ => blocks f (skipn rate m) (absorb s (firstn rate m)) end end.

Fixpoint unle64 (x : N) (k : nat) : list N :=
  match k with O => [] | S k' => (x mod 256) :: unle64 (x / 256) k' end.

Definition keccak256 (m : list N) : list N :=
  let p := pad m in
  let s := blocks (S (List.length p / rate)) p (repeat 0 25) in
  flat_map (fun i => unle64 (get s i) 8) [0;1;2;3]%nat.

Definition hexd (n : N) : string :=
  String (match n with 0=>"0"|1=>"1"|2=>"2"|3=>"3"|4=>"4"|5=>"5"|6=>"6"|7=>"7"|8=>"8"|9=>"9"|10=>"a"|11=>"b"|12=>"c"|13=>"d"|14=>"e"|_=>"f" end)%char EmptyString.
Fixpoint hex (l : list N) : string := match l with [] => EmptyString | b :: r => append (hexd (b / 16)) (append (hexd (b mod 16)) (hex r)) end.

Example keccak_empty : hex (keccak256 []) = "c5d2460186f7233c927e7db2dcc703c0e500b653ca82273b7bfad8045d85a470"%string.
Proof. vm_compute. reflexivity. Qed.
