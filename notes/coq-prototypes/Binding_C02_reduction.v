(* Feasibility prototype for the C02 binding theorem (DESIGN.md C02): field binding as a
   reduction to an explicit collision of the hash function, with no injectivity
   assumption. Simplified encoder: digest = K (prefix ++ sep ++ K (typeh ++ K tx ++ w1 ++ w2))
   where w1, w2 are 32-byte words. *)
From Coq Require Import List NArith Lia.
Import ListNotations.

Section Reduction.
  Variable K : list N -> list N.
  Hypothesis K_len : forall x, length (K x) = 32.

  Definition collision : Prop := exists x y, x <> y /\ K x = K y.

  Lemma K_inj_or_collision x y : K x = K y -> x = y \/ collision.
  Proof.
    intros H. destruct (list_eq_dec N.eq_dec x y) as [E|NE]; [left; exact E|].
    right. exists x, y. split; assumption.
  Qed.

  Lemma app_inv_len {A} (a b c d : list A) : length a = length c -> a ++ b = c ++ d -> a = c /\ b = d.
  Proof.
    revert c. induction a as [|x a IH]; intros [|y c] Hl H; cbn in *; try discriminate.
    - split; [reflexivity|exact H].
    - injection H as -> H. injection Hl as Hl. destruct (IH c Hl H) as [-> ->]. split; reflexivity.
  Qed.

  Variables prefix sep typeh : list N.
  Definition digest (tx w1 w2 : list N) : list N :=
    K (prefix ++ sep ++ K (typeh ++ K tx ++ w1 ++ w2)).

  Theorem binding tx1 a1 b1 tx2 a2 b2 :
    length a1 = 32 -> length a2 = 32 ->
    digest tx1 a1 b1 = digest tx2 a2 b2 ->
    (tx1 = tx2 /\ a1 = a2 /\ b1 = b2) \/ collision.
  Proof.
    intros La1 La2 H. unfold digest in H.
    apply K_inj_or_collision in H. destruct H as [H|C]; [|right; exact C].
    apply app_inv_head in H. apply app_inv_head in H.
    apply K_inj_or_collision in H. destruct H as [H|C]; [|right; exact C].
    apply app_inv_head in H.
    apply app_inv_len in H; [|rewrite !K_len; reflexivity]. destruct H as [Htx H].
    apply app_inv_len in H; [|congruence]. destruct H as [-> ->].
    apply K_inj_or_collision in Htx. destruct Htx as [->|C]; [|right; exact C].
    left. repeat split.
  Qed.
End Reduction.

(* non-vacuity: the premises are satisfiable, e.g. by a (bad) 32-byte hash *)
Definition K0 (x : list N) : list N := firstn 32 (x ++ repeat 0%N 32).
Lemma K0_len x : length (K0 x) = 32.
Proof. unfold K0. rewrite firstn_length, app_length, repeat_length. lia. Qed.
Check (binding K0 K0_len).
Print Assumptions binding.
