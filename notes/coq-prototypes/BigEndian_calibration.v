(* Feasibility prototype: fixed-width big-endian encoding (math.U256Bytes / PaddedBigBytes)
   round trip and injectivity, for C02/C03/C07/C18. *)
From Coq Require Import List NArith Lia ZifyN ZifyNat.
Import ListNotations.
Open Scope N_scope.

(* little-endian core, big-endian = rev *)
Fixpoint le (n : nat) (x : N) : list N :=
  match n with O => [] | S k => (x mod 256) :: le k (x / 256) end.
Fixpoint unle (l : list N) : N :=
  match l with [] => 0 | b :: r => b + 256 * unle r end.
Definition be (n : nat) (x : N) : list N := rev (le n x).
Definition unbe (l : list N) : N := unle (rev l).

Lemma le_length n x : length (le n x) = n.
Proof. revert x; induction n as [|k IH]; intros x; cbn; [reflexivity|]. rewrite IH. reflexivity. Qed.

Lemma unle_le n x : unle (le n x) = x mod 256 ^ N.of_nat n.
Proof.
  revert x. induction n as [|k IH]; intros x.
  - cbn. rewrite N.mod_1_r. reflexivity.
  - cbn [le unle]. rewrite IH.
    replace (N.of_nat (S k)) with (N.succ (N.of_nat k)) by lia.
    rewrite N.pow_succ_r'.
    assert (Hp : 256 ^ N.of_nat k <> 0) by (apply N.pow_nonzero; lia).
    rewrite N.mod_mul_r by (try assumption; lia). lia.
Qed.

Lemma unbe_be n x : x < 256 ^ N.of_nat n -> unbe (be n x) = x.
Proof. intros H. unfold unbe, be. rewrite rev_involutive, unle_le. apply N.mod_small, H. Qed.

Theorem be_inj n x y : x < 256 ^ N.of_nat n -> y < 256 ^ N.of_nat n -> be n x = be n y -> x = y.
Proof. intros Hx Hy H. rewrite <- (unbe_be n x Hx), <- (unbe_be n y Hy), H. reflexivity. Qed.

Example be_ex : be 4 258 = [0;0;1;2]. Proof. vm_compute. reflexivity. Qed.
Print Assumptions be_inj.
