(* Feasibility prototype for C13_chunking: an incremental length-prefixed frame reader fed
   with arbitrary chunks yields the same frames as one-shot parsing of the concatenation.
   Simplified: 1-byte length prefix (the 4-byte big-endian prefix only changes `hdr`). *)
From Coq Require Import List Arith Lia.
Import ListNotations.

Definition byte := nat.
Section Reader.
Variable limit : nat.

Inductive pres := Frame (p rest : list byte) | Incomplete | TooLarge.

Definition parse1 (buf : list byte) : pres :=
  match buf with
  | [] => Incomplete
  | n :: body =>
      if limit <? n then TooLarge
      else if length body <? n then Incomplete
      else Frame (firstn n body) (skipn n body)
  end.

(* drain as many frames as possible; fuel bounds the number of frames *)
Fixpoint drain (fuel : nat) (buf : list byte) : list (list byte) * list byte * bool :=
  match fuel with
  | O => ([], buf, false)
  | S f =>
      match parse1 buf with
      | Frame p rest => let '(fs, r, d) := drain f rest in (p :: fs, r, d)
      | Incomplete => ([], buf, false)
      | TooLarge => ([], buf, true)
      end
  end.
Definition D (buf : list byte) := drain (S (length buf)) buf.

Record rstate := { rbuf : list byte; dead : bool; out : list (list byte) }.
Definition feed (s : rstate) (chunk : list byte) : rstate :=
  if dead s then s else
  let '(fs, r, d) := D (rbuf s ++ chunk) in {| rbuf := r; dead := d; out := out s ++ fs |}.
Definition init := {| rbuf := []; dead := false; out := [] |}.

Lemma parse1_frame_app buf p rest c : parse1 buf = Frame p rest -> parse1 (buf ++ c) = Frame p (rest ++ c).
Proof.
  destruct buf as [|n body]; cbn [parse1 app]; [intros [=]|].
  destruct (limit <? n); [intros [=]|].
  destruct (length body <? n) eqn:E; [intros [=]|]. intros [= <- <-].
  apply Nat.ltb_ge in E.
  rewrite app_length. destruct (length body + length c <? n) eqn:E2; [apply Nat.ltb_lt in E2; lia|].
  rewrite firstn_app, skipn_app. replace (n - length body) with 0 by lia. cbn. rewrite app_nil_r. reflexivity.
Qed.

Lemma parse1_large_app buf c : parse1 buf = TooLarge -> parse1 (buf ++ c) = TooLarge.
Proof. destruct buf as [|n body]; cbn [parse1 app]; [intros [=]|]. destruct (limit <? n); [reflexivity|]. destruct (_ <? _); intros [=]. Qed.

Lemma parse1_shrinks buf p rest : parse1 buf = Frame p rest -> length rest < length buf.
Proof.
  destruct buf as [|n body]; cbn [parse1]; [intros [=]|]. destruct (limit <? n); [intros [=]|].
  destruct (length body <? n); [intros [=]|]. intros [= <- <-]. rewrite skipn_length. cbn [length]. lia.
Qed.

(* enough fuel is enough *)
Lemma drain_fuel f g buf : length buf < f -> length buf < g -> drain f buf = drain g buf.
Proof.
  revert g buf. induction f as [|f IH]; intros g buf Hf Hg; [lia|]. destruct g as [|g]; [lia|].
  cbn. destruct (parse1 buf) as [p rest| |] eqn:E; try reflexivity.
  apply parse1_shrinks in E. rewrite (IH g rest) by lia. reflexivity.
Qed.

Lemma drain_app f buf c fs r d : length buf < f -> drain f buf = (fs, r, d) ->
  D (buf ++ c) = if d then (fs, r ++ c, true) else let '(fs', r', d') := D (r ++ c) in (fs ++ fs', r', d').
Proof.
  revert buf fs r d. induction f as [|f IH]; intros buf fs r d Hf H; [lia|].
  cbn [drain] in H. destruct (parse1 buf) as [p rest| |] eqn:E.
  - destruct (drain f rest) as [[fs0 r0] d0] eqn:E0. injection H as <- <- <-.
    pose proof (parse1_shrinks _ _ _ E) as Hs.
    specialize (IH rest fs0 r0 d0 ltac:(lia) E0).
    unfold D at 1. cbn [drain]. rewrite (parse1_frame_app _ _ _ c E).
    replace (drain (length (buf ++ c)) (rest ++ c)) with (D (rest ++ c)).
    2:{ unfold D. apply drain_fuel; rewrite ?app_length; lia. }
    rewrite IH. destruct d0; [reflexivity|].
    destruct (D (r0 ++ c)) as [[fs' r'] d']. reflexivity.
  - injection H as <- <- <-. cbn [app]. destruct (D (buf ++ c)) as [[a b] e]. reflexivity.
  - injection H as <- <- <-. unfold D. cbn [drain]. rewrite (parse1_large_app _ c E). reflexivity.
Qed.

Lemma D_app buf c fs r d : D buf = (fs, r, d) ->
  D (buf ++ c) = if d then (fs, r ++ c, true) else let '(fs', r', d') := D (r ++ c) in (fs ++ fs', r', d').
Proof. unfold D at 1. apply drain_app. lia. Qed.

(* the remainder of a drain is stable: draining it again yields nothing *)
Lemma drain_rest_stable f buf fs r : length buf < f -> drain f buf = (fs, r, false) -> D r = ([], r, false).
Proof.
  revert buf fs r. induction f as [|f IH]; intros buf fs r Hf H; [lia|].
  cbn [drain] in H. destruct (parse1 buf) as [p rest| |] eqn:E.
  - destruct (drain f rest) as [[fs0 r0] d0] eqn:E0. injection H as <- <- ->.
    apply (IH rest fs0 r0); [apply parse1_shrinks in E; lia|exact E0].
  - injection H as <- <-. unfold D. cbn [drain]. rewrite E. reflexivity.
  - discriminate.
Qed.

Definition Stable (s : rstate) := dead s = false -> D (rbuf s) = ([], rbuf s, false).

Lemma feed_spec s c fs r d : Stable s -> dead s = false -> D (rbuf s ++ c) = (fs, r, d) ->
  feed s c = {| rbuf := r; dead := d; out := out s ++ fs |} /\ Stable (feed s c).
Proof.
  intros St Hd H. unfold feed. rewrite Hd, H. split; [reflexivity|].
  unfold Stable; cbn [dead rbuf]. intros ->.
  unfold D in H. eapply drain_rest_stable; [|exact H]. lia.
Qed.

Lemma fold_dead l s : dead s = true -> fold_left feed l s = s.
Proof.
  induction l as [|x l IH]; intros H; cbn [fold_left]; [reflexivity|].
  assert (E : feed s x = s) by (unfold feed; rewrite H; reflexivity).
  rewrite E. apply IH, H.
Qed.

Theorem chunking (cs : list (list byte)) (s : rstate) :
  Stable s -> dead s = false ->
  let s' := fold_left feed cs s in
  let '(fs, r, d) := D (rbuf s ++ concat cs) in
  out s' = out s ++ fs /\ dead s' = d /\ (d = false -> rbuf s' = r).
Proof.
  revert s. induction cs as [|c cs IH]; intros s St Hd; cbn [fold_left concat].
  - rewrite app_nil_r, (St Hd), app_nil_r. auto.
  - destruct (D (rbuf s ++ c)) as [[fs1 r1] d1] eqn:E1.
    destruct (feed_spec s c fs1 r1 d1 St Hd E1) as [Ef St1].
    rewrite app_assoc. rewrite (D_app _ (concat cs) _ _ _ E1).
    destruct d1.
    + (* reader died: further chunks are ignored *)
      rewrite fold_dead by (rewrite Ef; reflexivity).
      rewrite Ef. cbn [out dead rbuf]. repeat split. discriminate.
    + specialize (IH (feed s c) St1 ltac:(rewrite Ef; reflexivity)).
      cbv zeta in IH. 
      assert (Eb : rbuf (feed s c) = r1) by (rewrite Ef; reflexivity).
      assert (Eo : out (feed s c) = out s ++ fs1) by (rewrite Ef; reflexivity).
      rewrite Eb, Eo in IH.
      destruct (D (r1 ++ concat cs)) as [[fs2 r2] d2].
      rewrite <- app_assoc in IH. exact IH.
Qed.
End Reader.

Print Assumptions chunking.
