#!/usr/bin/env python3
"""Shared machinery of /verif/bin/check and /verif/bin/setup (see DESIGN.md section 2)."""
import fcntl
import glob
import hashlib
import json
import os
import re
import shutil
import subprocess
import sys
import time

VERIF = os.path.dirname(os.path.dirname(os.path.abspath(__file__)))
REPO = os.environ.get("VERIF_REPO", "/repo")
WORK = os.path.join(VERIF, ".work")
COQ_MAIN = os.path.join(VERIF, "coq")
if os.path.realpath(REPO) != "/repo":
    # checks pointed at a scratch copy of the repository (VERIF_REPO) use a private copy of the
    # Coq tree, so that a differing Generated.v never disturbs checks running against /repo
    _tag = hashlib.sha1(os.path.realpath(REPO).encode()).hexdigest()[:8]
    WORK = os.path.join(WORK, "alt-" + _tag)
    COQ = os.path.join(WORK, "coq")
else:
    COQ = COQ_MAIN
PROPS = os.path.join(VERIF, "harness", "props")
OVERLAYS = os.path.join(VERIF, "harness", "overlays")
GOENV = dict(os.environ, GOFLAGS="-mod=mod", GOPROXY="off", GOSUMDB="off", GOTOOLCHAIN="local")
FORBIDDEN = r"Admitted|admit|Axiom|Parameter|Conjecture|Unset Guard|bypass_check|Hypothesis|Variable"
ALLOWED_AXIOMS = set()  # none needed so far; any standard-library axiom used must be named here and in DESIGN.md


def prop_ids():
    return sorted(os.path.basename(p)[:-5] for p in glob.glob(os.path.join(PROPS, "C*.json")))


def load_prop(pid):
    with open(os.path.join(PROPS, pid + ".json")) as f:
        return json.load(f)


def sh(cmd, cwd=None, env=None, timeout=None, stdin=None):
    t0 = time.time()
    try:
        p = subprocess.run(cmd, cwd=cwd, env=env, timeout=timeout, stdout=subprocess.PIPE,
                           stderr=subprocess.STDOUT, input=stdin, text=True, errors="replace")
        return p.returncode, p.stdout, time.time() - t0
    except subprocess.TimeoutExpired as e:
        out = e.stdout if isinstance(e.stdout, str) else (e.stdout or b"").decode("utf8", "replace")
        return 124, out + "\n[timeout after %ss]" % timeout, time.time() - t0


class BuildLock:
    """exclusive while Generated.v is rewritten and the Coq tree is built; shared while case shards are
    compiled against the built tree (so that no other check rebuilds the tree under them)"""

    def __init__(self, shared=False):
        self.shared = shared

    def __enter__(self):
        os.makedirs(WORK, exist_ok=True)
        self.f = open(os.path.join(WORK, "build.lock"), "a")
        fcntl.flock(self.f, fcntl.LOCK_SH if self.shared else fcntl.LOCK_EX)
        return self

    def __exit__(self, *a):
        fcntl.flock(self.f, fcntl.LOCK_UN)
        self.f.close()


# ---------------------------------------------------------------------------------------------
# Generated.v  (DESIGN.md 3.1)
# ---------------------------------------------------------------------------------------------

def build_extractor():
    exe = os.path.join(WORK, "extract")
    srcs = glob.glob(os.path.join(VERIF, "harness", "extract", "*.go"))
    if os.path.exists(exe) and all(os.path.getmtime(exe) >= os.path.getmtime(s) for s in srcs):
        return exe
    rc, out, _ = sh(["go", "build", "-o", exe, "."], cwd=os.path.join(VERIF, "harness", "extract"), env=GOENV,
                    timeout=300)
    if rc != 0:
        raise RuntimeError("extractor build failed:\n" + out)
    return exe


def modelled_files(prop):
    """the Go files a property's model is written from: named in `modelled` and in the `generated` anchors"""
    files = set()
    for m in prop.get("modelled", []):
        files.update(re.findall(r"(?:pkg|rpc|cmd)/[\w/.\-]+\.go", m))
    for g in prop.get("generated", []):
        if g.get("file", "").endswith(".go") and not g["file"].startswith(".."):
            files.add(g["file"])
    return sorted(f for f in files if os.path.exists(os.path.join(REPO, f)))


def fingerprints(files):
    """sha1 per file of its comment-free, gofmt-normalised function sources and constant values (from the extractor)"""
    if not files:
        return {}
    exe = build_extractor()
    rc, out, _ = sh([exe, REPO] + list(files), timeout=120)
    try:
        data = json.loads(out[out.index("{"):])
    except ValueError:
        return {}
    fps = {}
    for f in files:
        d = data.get(f)
        if not d:
            fps[f] = "unparseable"
            continue
        h = hashlib.sha1()
        for name in sorted(d["funcs"]):
            h.update(name.encode() + b"\0" + d["funcs"][name]["src"].encode() + b"\0")
        for name in sorted(d["consts"]):
            h.update(name.encode() + b"=" + d["consts"][name]["value"].encode() + b"\0")
        fps[f] = h.hexdigest()
    return fps


FP_BASE = os.path.join(VERIF, "harness", "fingerprints.json")


def changed_model_sources(prop):
    """modelled files whose fingerprint differs from the committed baseline (the tree the models were written
    from): used only to search harder, never to raise an alarm"""
    files = modelled_files(prop)
    try:
        base = json.load(open(FP_BASE))
    except Exception:
        return []
    now = fingerprints(files)
    return sorted(f for f in files if f in base and now.get(f) != base[f])


def coq_string_bytes(s):
    return '(x "%s")' % s.encode("utf8").hex()


def _val_to_coq(v, typ):
    if v is None or v.get("kind", "") == "":
        return None
    if typ in ("Z", "N"):
        if v["kind"] != "int":
            return None
        return "(%s)%%%s" % (v["value"], typ)
    if typ == "bytes":
        if v["kind"] != "string":
            return None
        return coq_string_bytes(v["value"])
    return None


def generate_coq(all_specs):
    """all_specs: list of generated-entry dicts (from every props file). Returns Generated.v text."""
    files = sorted({s["file"] for s in all_specs})
    exe = build_extractor()
    rc, out, _ = sh([exe, REPO] + files, timeout=120)
    if rc != 0:
        raise RuntimeError("extractor failed:\n" + out)
    # the extractor prints parse errors on stderr (merged); JSON starts at first '{'
    data = json.loads(out[out.index("{"):])
    # func_gallina: Gallina definitions translated from Go function bodies / statement ranges by
    # harness/extract/gallina.go (the accepted fragment is documented there); refused => no definition
    gspecs = {s["name"]: s for s in all_specs if s.get("kind") == "func_gallina"}
    gallina = {}
    if gspecs:
        import tempfile
        with tempfile.NamedTemporaryFile("w", suffix=".json", prefix="gallina-", delete=False) as tf:
            json.dump([gspecs[k] for k in sorted(gspecs)], tf)
        try:
            rc, gout, _ = sh([exe, "-gallina", tf.name, REPO], timeout=120)
            if rc == 0:
                gallina = json.loads(gout[gout.index("{"):])
        except (ValueError, OSError):
            gallina = {}
        finally:
            os.unlink(tf.name)
    lines = ["(* GENERATED from %s by bin/check (harness/extract) -- do not edit. *)" % REPO,
             "From Coq Require Import String List NArith ZArith.",
             "From MevVerif Require Import lib.Bytes.",
             "Import ListNotations.", ""]
    seen = set()
    for s in sorted(all_specs, key=lambda s: s["name"]):
        name = s["name"]
        if name in seen:
            continue
        seen.add(name)
        f = data.get(s["file"])
        term, typ, comment = None, None, ""
        try:
            kind = s["kind"]
            if f is None:
                raise KeyError("file")
            if kind == "const":
                typ = s["type"]
                term = _val_to_coq(f["consts"].get(s["const"]), typ)
                if f["consts"].get(s["const"]) and typ == "bytes":
                    comment = f["consts"][s["const"]]["value"]
            elif kind == "func_strings":
                fn = f["funcs"][s["func"]]
                typ = "list bytes"
                strs = fn["strings"]
                if "select" in s:
                    strs = [strs[i] for i in s["select"]]
                term = "[" + "; ".join(coq_string_bytes(t) for t in strs) + "]"
                comment = " | ".join(strs)
            elif kind == "func_ints":
                fn = f["funcs"][s["func"]]
                typ = "list Z"
                term = "[" + "; ".join("(%s)%%Z" % t for t in fn["ints"]) + "]"
            elif kind == "call_args":
                fn = f["funcs"][s["func"]]
                typ = "list " + s["type"]
                vals = []
                for c in fn["calls"]:
                    if c["callee"] == s["callee"] or c["callee"].endswith("." + s["callee"]):
                        if s["arg"] >= len(c["argvals"]):
                            raise KeyError("arg")
                        t = _val_to_coq(c["argvals"][s["arg"]], s["type"])
                        if t is None:
                            raise KeyError("non-constant argument")
                        vals.append(t)
                if not vals:
                    raise KeyError("no call")
                term = "[" + "; ".join(vals) + "]"
            elif kind == "call_arg_src":
                # source text of the arguments of every call to callee inside func (wiring tables)
                fn = f["funcs"][s["func"]]
                typ = "list (list bytes)"
                rows = []
                for c in fn["calls"]:
                    if c["callee"] == s["callee"] or c["callee"].endswith("." + s["callee"]):
                        rows.append("[" + "; ".join(coq_string_bytes(re.sub(r"\s+", " ", a)) for a in c["args"]) + "]")
                        comment += " (" + ", ".join(re.sub(r"\s+", " ", a) for a in c["args"]) + ")"
                if not rows:
                    raise KeyError("no call")
                term = "[" + "; ".join(rows) + "]"
            elif kind == "assign_src":
                # source text of the right-hand side of every assignment / var declaration of `lhs` inside func
                fn = f["funcs"][s["func"]]
                typ = "list bytes"
                rhs = [re.sub(r"\s+", " ", a["rhs"]) for a in fn.get("assigns", []) if a["lhs"] == s["lhs"]]
                if not rhs:
                    raise KeyError("no assignment")
                term = "[" + "; ".join(coq_string_bytes(t) for t in rhs) + "]"
                comment = " | ".join(rhs)
            elif kind == "assign_count":
                # how many times func assigns to (or increments / decrements) lhs: 0 = never written there
                fn = f["funcs"][s["func"]]
                typ = "N"
                term = "(%d)%%N" % sum(1 for a in fn.get("assigns", []) if a["lhs"] == s["lhs"])
            elif kind == "defer_calls":
                # source text of every deferred call of func, in source order (nested blocks included)
                fn = f["funcs"][s["func"]]
                typ = "list bytes"
                ds = [re.sub(r"\s+", " ", d) for d in fn.get("defers", [])]
                term = "[" + "; ".join(coq_string_bytes(t) for t in ds) + "]"
                comment = " | ".join(ds)
            elif kind == "func_params":
                # "name type" of every parameter of func, in order (pins parameter order of same-typed parameters)
                fn = f["funcs"][s["func"]]
                typ = "list bytes"
                ps = [re.sub(r"\s+", " ", d) for d in fn.get("params", [])]
                term = "[" + "; ".join(coq_string_bytes(t) for t in ps) + "]"
                comment = " | ".join(ps)
            elif kind == "struct_fields":
                # "name type" of every field of struct type `type`, in order (pins "the object has no other state")
                typ = "list bytes"
                fs = [re.sub(r"\s+", " ", d) for d in f.get("structs", {})[s["type"]]]
                term = "[" + "; ".join(coq_string_bytes(t) for t in fs) + "]"
                comment = " | ".join(fs)
            elif kind == "top_stmts":
                # source text (whitespace collapsed, cut at 200 characters) of the first `first` top-level statements
                # of func's body, in order: pins "the lock is taken first", "X happens before Y"
                fn = f["funcs"][s["func"]]
                typ = "list bytes"
                st = [re.sub(r"\s+", " ", d)[:200] for d in fn.get("stmts", [])][:int(s.get("first", 3))]
                if not st:
                    raise KeyError("empty body")
                term = "[" + "; ".join(coq_string_bytes(t) for t in st) + "]"
                comment = " | ".join(st)
            elif kind == "composite_fields":
                # (key source, value source) of every keyed element of the FIRST composite literal (source order,
                # nested ones and &T{...} included) whose type prints as `type`, searched in the body of `func`
                # or in the initialiser of the package-level variable `var`
                typ = "list (bytes * bytes)"
                scope = ("func:" + s["func"]) if "func" in s else ("var:" + s["var"])
                lits = [c for c in f.get("composites", []) if c["scope"] == scope and c["type"] == s["type"]]
                if not lits:
                    raise KeyError("no composite literal of type %s in %s" % (s["type"], scope))
                if not lits[0]["keyed"]:
                    raise KeyError("non-keyed element in the literal")
                term = "[" + "; ".join("(%s, %s)" % (coq_string_bytes(k), coq_string_bytes(v))
                                       for k, v in lits[0]["fields"]) + "]"
                # (double quotes would open a string inside the Coq comment; the cut at 300 characters could unbalance them)
                comment = " | ".join("%s: %s" % (k, v) for k, v in lits[0]["fields"]).replace('"', "'")
            elif kind == "func_gallina":
                g = gallina.get(name)
                if not g or g.get("err") or not g.get("term"):
                    raise KeyError("not translated: %s" % ((g or {}).get("err") or "translator failed"))
                typ, term, comment = g["type"], g["term"], g.get("comment", "").replace('"', "'")
            elif kind == "has_call":
                fn = f["funcs"][s["func"]]
                typ = "bool"
                ok = any((c["callee"] == s["callee"] or c["callee"].endswith("." + s["callee"])) and
                         all(a in [re.sub(r"\s+", " ", y) for y in c["args"]] for a in s.get("with_args", []))
                         for c in fn["calls"])
                term = "true" if ok else "false"
            else:
                raise KeyError("kind " + kind)
        except (KeyError, IndexError, TypeError) as ex:
            term = None
            comment = "anchor not found: %r" % (ex,)
        comment = comment.replace("*)", "* )").replace("(*", "( *").replace("\n", " ")
        if term is None:
            lines.append("(* MISSING %s : %s *)" % (name, comment))
        else:
            if comment:
                lines.append("(* %s *)" % comment[:300])
            lines.append("Definition %s : %s := %s." % (name, typ, term))
    return "\n".join(lines) + "\n"


def sync_alt_coq():
    """for VERIF_REPO runs: mirror /verif/coq (sources and compiled files, timestamps kept) into COQ"""
    if COQ == COQ_MAIN:
        return
    os.makedirs(COQ, exist_ok=True)
    sh(["rsync", "-a", "--delete", "--exclude", "gen/Generated.v*", "--exclude", "gen/.Generated*",
        "--exclude", "Makefile*", "--exclude", ".Makefile.d", "--exclude", "_CoqProject",
        COQ_MAIN + "/", COQ + "/"], timeout=600)


def regenerate(dry=False):
    if not dry:
        sync_alt_coq()
    specs = []
    for pid in prop_ids():
        specs.extend(load_prop(pid).get("generated", []))
    shared = os.path.join(PROPS, "shared.gen.json")
    if os.path.exists(shared):
        specs.extend(json.load(open(shared)))
    text = generate_coq(specs) if specs else "(* GENERATED: nothing requested *)\n"
    path = os.path.join(COQ, "gen", "Generated.v")
    old = open(path).read() if os.path.exists(path) else None
    if old != text:
        if not dry:
            with open(path, "w") as f:
                f.write(text)
        return True
    return False


# ---------------------------------------------------------------------------------------------
# Coq build
# ---------------------------------------------------------------------------------------------

def coq_sources():
    out = []
    for d in ("lib", "gen", "model", "proofs", "check", "Properties"):
        out.extend(sorted(glob.glob(os.path.join(COQ, d, "*.v"))))
    return [os.path.relpath(p, COQ) for p in out]


def up_to_date(targets):
    """True when Generated.v, the Makefile and the given targets need no work (so that a check can proceed
    under the shared lock only). Never writes."""
    if COQ != COQ_MAIN and not os.path.isdir(COQ):
        return False
    try:
        if regenerate(dry=True):
            return False
    except Exception:
        return False
    proj = os.path.join(COQ, "_CoqProject")
    head = "-Q . MevVerif\n-arg -w -arg -notation-overridden,-deprecated-hint-without-locality\n"
    body = head + "\n".join(coq_sources()) + "\n"
    if not os.path.exists(proj) or open(proj).read() != body or not os.path.exists(os.path.join(COQ, "Makefile")):
        return False
    if COQ != COQ_MAIN:
        return False  # scratch-repository runs always sync their private tree
    rc, out, _ = sh(["make", "-q"] + targets, cwd=COQ, timeout=300)
    return rc == 0


def ensure_makefile():
    """(Re)create coq/Makefile from _CoqProject + the current list of sources."""
    proj = os.path.join(COQ, "_CoqProject")
    head = "-Q . MevVerif\n-arg -w -arg -notation-overridden,-deprecated-hint-without-locality\n"
    body = head + "\n".join(coq_sources()) + "\n"
    old = open(proj).read() if os.path.exists(proj) else None
    if old != body or not os.path.exists(os.path.join(COQ, "Makefile")):
        with open(proj, "w") as f:
            f.write(body)
        rc, out, _ = sh(["coq_makefile", "-f", "_CoqProject", "-o", "Makefile"], cwd=COQ, timeout=60)
        if rc != 0:
            raise RuntimeError("coq_makefile failed:\n" + out)


def make(targets, timeout=1800, jobs=16):
    return sh(["make", "-j%d" % jobs, "-k"] + targets, cwd=COQ, timeout=timeout)


def dep_closure(rels):
    """transitive closure of `From MevVerif Require Import|Export a.b ...` starting at rels (paths relative to COQ)"""
    seen, todo = set(), list(rels)
    while todo:
        rel = todo.pop()
        if rel in seen or not os.path.exists(os.path.join(COQ, rel)):
            continue
        seen.add(rel)
        txt = open(os.path.join(COQ, rel), errors="replace").read()
        for m in re.finditer(r"From\s+MevVerif\s+Require\s+(?:Import\s+|Export\s+)?(.*?)\.(?=\s|$)", txt, flags=re.S):
            for mod in m.group(1).split():
                todo.append(mod.replace(".", "/") + ".v")
        for m in re.finditer(r"Require\s+(?:Import\s+|Export\s+)?(.*?)\.(?=\s|$)", txt, flags=re.S):
            for mod in m.group(1).split():
                if mod.startswith("MevVerif."):
                    todo.append(mod[len("MevVerif."):].replace(".", "/") + ".v")
    return sorted(seen)


def forbidden_scan(rels=None):
    """grep for constructs the brief forbids; returns list of 'file:line: text'."""
    hits = []
    pat = re.compile(FORBIDDEN)
    for rel in (rels if rels is not None else coq_sources()):
        with open(os.path.join(COQ, rel), errors="replace") as f:
            for i, line in enumerate(f, 1):
                if pat.search(line):
                    # Section-local Variable/Hypothesis are legal: accept only inside a Section
                    hits.append((rel, i, line.rstrip()))
    # filter Section-local declarations
    real = []
    for rel, i, line in hits:
        if re.search(r"\b(Hypothesis|Variable|Variables|Hypotheses|Context)\b", line) and \
                not re.search(r"Admitted|admit|Axiom|Parameter|Conjecture|Unset Guard|bypass_check", line):
            if _inside_section(os.path.join(COQ, rel), i):
                continue
        real.append("%s:%d: %s" % (rel, i, line))
    return real


def _inside_section(path, lineno):
    depth = 0
    with open(path, errors="replace") as f:
        for i, line in enumerate(f, 1):
            if i >= lineno:
                break
            if re.match(r"\s*Section\s+\w+\s*\.", line):
                depth += 1
            elif re.match(r"\s*End\s+\w+\s*\.", line) and depth > 0:
                depth -= 1
    return depth > 0


def coqchk(pid, timeout=3000):
    """independent re-check of Properties/<pid>.vo and everything it depends on (thorough tier); cached by the
    hash of the compiled files of the dependency closure. Returns (ok, summary text)."""
    closure = dep_closure(["Properties/%s.v" % pid])
    h = hashlib.sha1()
    for rel in closure:
        vo = os.path.join(COQ, rel[:-2] + ".vo")
        if os.path.exists(vo):
            h.update(open(vo, "rb").read())
    cache_dir = os.path.join(WORK, "coqchk")
    os.makedirs(cache_dir, exist_ok=True)
    cf = os.path.join(cache_dir, "%s-%s.txt" % (pid, h.hexdigest()[:16]))
    if os.path.exists(cf):
        out = open(cf).read()
    else:
        rc, out, _ = sh(["coqchk", "-silent", "-o", "-Q", ".", "MevVerif", "MevVerif.Properties.%s" % pid], cwd=COQ,
                        timeout=timeout)
        out = "rc=%d\n%s" % (rc, out)
        with open(cf, "w") as f:
            f.write(out)
    ok = out.startswith("rc=0") and "* Axioms: <none>" in out.replace("\n  ", " ")
    m = re.search(r"CONTEXT SUMMARY.*", out, flags=re.S)
    return ok, (m.group(0) if m else out[-1500:])


def fallback_tree(pid, check_mod, workdir):
    """The model of a property could not be built against the regenerated Generated.v (an anchor vanished from the
    source). To still look for a failing input, build model + checker in a private tree against the committed
    baseline gen/Generated.baseline (the constants of the unchanged tree). Returns the tree or None."""
    base = os.path.join(COQ_MAIN, "gen", "Generated.baseline")
    if not os.path.exists(base):
        return None
    tree = os.path.join(workdir, "fallback-coq")
    os.makedirs(tree, exist_ok=True)
    sh(["rsync", "-a", "--delete", "--exclude", "gen/Generated.v*", "--exclude", "gen/.Generated*",
        "--exclude", "gen/Generated.glob", COQ + "/", tree + "/"], timeout=600)
    shutil.copy(base, os.path.join(tree, "gen", "Generated.v"))
    rc, out, _ = sh(["make", "-j16", "-k", "check/%s.vo" % check_mod], cwd=tree, timeout=1800)
    return tree if rc == 0 else None


def theorems_in(path):
    txt = open(path).read()
    return re.findall(r"^\s*Theorem\s+(\w+)", txt, flags=re.M)


def parse_assumptions(output):
    """Split coqc output of a Properties file into per-Print-Assumptions blocks."""
    blocks = []
    cur = None
    for line in output.splitlines():
        if line.startswith("Closed under the global context"):
            blocks.append({"closed": True, "axioms": []})
            cur = None
        elif line.startswith("Axioms:") or line.startswith("Section Variables:"):
            cur = {"closed": False, "axioms": [], "text": line}
            blocks.append(cur)
        elif cur is not None and line.strip():
            cur["text"] += "\n" + line
            m = re.match(r"^(\S+)\s*:", line)
            if m:
                cur["axioms"].append(m.group(1))
    return blocks


# ---------------------------------------------------------------------------------------------
# Go drivers
# ---------------------------------------------------------------------------------------------

def prepare_overlay(pid, prop, workdir):
    """Write overlay.json mapping files under REPO to driver sources, plus a private go.mod/go.sum."""
    replace = {}
    pkgs = {}
    for rel in prop["overlays"]:
        src = os.path.join(OVERLAYS, rel)
        replace[os.path.join(REPO, rel)] = src
        d = os.path.dirname(rel)
        with open(src) as f:
            m = re.search(r"^package\s+(\w+)", f.read(), flags=re.M)
        pkgs.setdefault(d, set()).add(m.group(1))
    tmpl = open(os.path.join(OVERLAYS, "_shared", "zz_verif_util_test.go.tmpl")).read()
    for d, names in pkgs.items():
        for name in names:
            fn = "zz_verif_util_%s_test.go" % name
            p = os.path.join(workdir, d.replace("/", "_") + "_" + fn)
            with open(p, "w") as f:
                f.write(tmpl.replace("package PACKAGE", "package " + name))
            replace[os.path.join(REPO, d, fn)] = p
    for extra in prop.get("overlay_extra", []):  # {"dst": rel path in repo, "src": rel path under overlays}
        replace[os.path.join(REPO, extra["dst"])] = os.path.join(OVERLAYS, extra["src"])
    ov = os.path.join(workdir, "overlay.json")
    with open(ov, "w") as f:
        json.dump({"Replace": replace}, f, indent=1)
    shutil.copy(os.path.join(REPO, "go.mod"), os.path.join(workdir, "go.mod"))
    shutil.copy(os.path.join(REPO, "go.sum"), os.path.join(workdir, "go.sum"))
    return ov, os.path.join(workdir, "go.mod")


def run_driver(pid, prop, workdir, tier, seed, n, out_path, inputs=None, only_inputs=False, slow=1, tag="run"):
    ov, modfile = prepare_overlay(pid, prop, workdir)
    env = dict(GOENV, VERIF_OUT=out_path, VERIF_SEED=str(seed), VERIF_N=str(n), VERIF_TIER=tier,
               VERIF_SLOW=str(slow))
    if inputs is not None:
        ip = os.path.join(workdir, tag + ".inputs.jsonl")
        with open(ip, "w") as f:
            for i in inputs:
                f.write(json.dumps(i) + "\n")
        env["VERIF_INPUTS"] = ip
        if only_inputs:
            env["VERIF_ONLY_INPUTS"] = "1"
    to = prop.get("go_timeout_s", {}).get(tier if tier in ("quick", "thorough") else "thorough", 600)
    pkgs = prop["pkg"] if isinstance(prop["pkg"], list) else [prop["pkg"]]
    rc_all, out_all, dt_all, cases = 0, "", 0.0, []
    procs = []
    for i, pkg in enumerate(pkgs):
        # several packages: one go test per package, run concurrently, ids made disjoint by VERIF_ID_BASE
        op = out_path if len(pkgs) == 1 else "%s.%d" % (out_path, i)
        penv = dict(env, VERIF_OUT=op, VERIF_ID_BASE=str(i * 1000000))
        cmd = ["go", "test", "-overlay", ov, "-modfile", modfile, "-vet=off", "-count=1",
               "-timeout", "%ds" % to, "-run", "^%s$" % prop["test"]] + prop.get("go_flags", []) + [pkg]
        procs.append((op, subprocess.Popen(["timeout", str(to + 120)] + cmd, cwd=REPO, env=penv, stdout=subprocess.PIPE,
                                           stderr=subprocess.STDOUT, text=True, errors="replace")))
    t0 = time.time()
    for op, p in procs:
        out, _ = p.communicate()
        rc_all = rc_all or p.returncode
        out_all += out
        if os.path.exists(op):
            with open(op) as f:
                for line in f:
                    line = line.strip()
                    if line:
                        try:
                            cases.append(json.loads(line))
                        except ValueError:
                            pass
    dt_all = time.time() - t0
    return rc_all, out_all, dt_all, cases


# ---------------------------------------------------------------------------------------------
# evaluation inside Coq
# ---------------------------------------------------------------------------------------------

def write_shard(pid, prop, path, cases):
    mod = prop.get("check_module", "Check_" + pid)
    extra = prop.get("case_imports", [])
    lines = ["From Coq Require Import String List NArith ZArith.",
             "From MevVerif Require Import lib.Bytes %s check.%s." % (" ".join(extra), mod),
             "Import ListNotations.", "Open Scope N_scope.", "",
             "Definition cases : list %s.case := [" % mod]
    lines.append(";\n".join("  " + c["coq"] for c in cases))
    lines.append("].")
    lines.append("Definition M := Eval vm_compute in %s.mismatches cases. Print M." % mod)
    lines.append("Definition V := Eval vm_compute in %s.violations cases. Print V." % mod)
    lines.append("Definition T := Eval vm_compute in %s.nontrivial cases. Print T." % mod)
    with open(path, "w") as f:
        f.write("\n".join(lines) + "\n")


def _parse_printed(out, name):
    m = re.search(r"^%s\s*=\s*(.*?)\n\s*:\s" % name, out, flags=re.S | re.M)
    if not m:
        return None
    return re.sub(r"\s+", " ", m.group(1)).strip()


def parse_id_list(s):
    if s is None:
        return None
    return [int(t) for t in re.findall(r"(\d+)(?:%N)?", s)] if s != "[]" else []


def parse_id_key_list(s):
    if s is None:
        return None
    if s == "[]":
        return []
    return [(int(a), b) for a, b in re.findall(r'\(\s*(\d+)(?:%N)?\s*,\s*"([^"]*)"(?:%string)?\s*\)', s)]


def eval_cases(pid, prop, workdir, cases, tag, jobs=16, coq_dir=None):
    """Returns dict(mismatch=[ids], violation=[(id,key)], nontrivial=[ids], errors=[text])."""
    shard_n = prop.get("shard", 500)
    shards = [cases[i:i + shard_n] for i in range(0, len(cases), shard_n)]
    procs = []
    res = {"mismatch": [], "violation": [], "nontrivial": [], "errors": [], "coq_s": 0.0}
    t0 = time.time()
    pending = list(enumerate(shards))
    running = []
    to = prop.get("coq_timeout_s", 900)
    while pending or running:
        while pending and len(running) < jobs:
            i, sh_cases = pending.pop(0)
            name = "cases_%s_%s_%d" % (pid, tag, i)
            path = os.path.join(workdir, name + ".v")
            write_shard(pid, prop, path, sh_cases)
            p = subprocess.Popen(["timeout", str(to), "coqc", "-Q", coq_dir or COQ, "MevVerif", "-w", "-notation-overridden",
                                  path], cwd=workdir, stdout=subprocess.PIPE, stderr=subprocess.STDOUT, text=True,
                                 errors="replace")
            running.append((i, p, path))
        still = []
        for i, p, path in running:
            if p.poll() is None:
                still.append((i, p, path))
                continue
            out = p.stdout.read()
            M = parse_id_list(_parse_printed(out, "M"))
            V = parse_id_key_list(_parse_printed(out, "V"))
            T = parse_id_list(_parse_printed(out, "T"))
            if p.returncode != 0 or M is None or V is None or T is None:
                res["errors"].append("shard %d (%s): rc=%s\n%s" % (i, path, p.returncode, out[-3000:]))
            else:
                res["mismatch"].extend(M)
                res["violation"].extend(V)
                res["nontrivial"].extend(T)
                for ext in (".v", ".vo", ".vok", ".vos", ".glob"):
                    try:
                        os.remove(path[:-2] + ext)
                    except OSError:
                        pass
        running = still
        if running:
            time.sleep(0.05)
    res["coq_s"] = time.time() - t0
    return res
