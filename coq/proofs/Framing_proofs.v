(* Proofs about model/Framing.v: chunking independence of the incremental msgio reader, frame
   round trips, StreamMsg / Status round trips, rejection of frames without a oneof member. *)
From Coq Require Import String List NArith ZArith Bool Lia Arith.
From MevVerif Require Import lib.Bytes lib.Varint gen.Generated model.Framing check.Check_C13
  proofs.Bytes_proofs proofs.Varint_proofs.
Import ListNotations.
Open Scope N_scope.

(* ---------------------------------------------------------------------------------------- *)
(* facts about the regenerated constants and the wiring of stream.go / libp2p.go              *)
Lemma max_msg_value : max_msg = 8388608.
Proof. reflexivity. Qed.
Lemma len_size_value : len_size = 4%nat.
Proof. reflexivity. Qed.
Lemma max_fits : max_msg < 256 ^ N.of_nat len_size.
Proof. reflexivity. Qed.
Lemma max_lt_two64 : max_msg < two64.
Proof. reflexivity. Qed.
(* both stream wrappers frame with msgio.NewReadWriter (default size limit) on the network
   stream they are given *)
Lemma wiring_newstream : c13_newstream_rw = [[bos "libp2pstream"]] /\ c13_newmeta_rw = [[bos "libp2pstream"]].
Proof. split; reflexivity. Qed.
(* ReadMsg: Unmarshal(frame, StreamMsg); status.FromProto(GetError()); Unmarshal(GetData(), m) *)
Lemma wiring_readmsg :
  c13_readmsg_unmarshal = [[bos "res.buf"; bos "sMsg"]; [bos "sMsg.GetData()"; bos "m"]] /\
  c13_readmsg_fromproto = [[bos "sMsg.GetError()"]].
Proof. split; reflexivity. Qed.
(* handler epilogue: retErr, _ := status.FromError(err); mtdtStream.WriteError(ctx, retErr) *)
Lemma wiring_wrapper :
  c13_wrapper_fromerror = [[bos "err"]] /\ c13_wrapper_writeerror = [[bos "ctx"; bos "retErr"]].
Proof. split; reflexivity. Qed.

(* ---------------------------------------------------------------------------------------- *)
(* list helpers                                                                               *)
Lemma firstn_app_le {A} n (a b : list A) : (n <= length a)%nat -> firstn n (a ++ b) = firstn n a.
Proof. intros H. rewrite firstn_app. replace (n - length a)%nat with 0%nat by lia. cbn. apply app_nil_r. Qed.
Lemma skipn_app_le {A} n (a b : list A) : (n <= length a)%nat -> skipn n (a ++ b) = skipn n a ++ b.
Proof. intros H. rewrite skipn_app. replace (n - length a)%nat with 0%nat by lia. reflexivity. Qed.

Lemma len_of_app a b : len_of (a ++ b) = len_of a + len_of b.
Proof. unfold len_of. rewrite app_length. lia. Qed.

(* ---------------------------------------------------------------------------------------- *)
(* parse1                                                                                     *)
Lemma parse1_frame_app buf p rest c :
  parse1 buf = Frame p rest -> parse1 (buf ++ c) = Frame p (rest ++ c).
Proof.
  unfold parse1. destruct (Nat.ltb (length buf) len_size) eqn:E; [discriminate|].
  apply Nat.ltb_ge in E.
  assert (E' : Nat.ltb (length (buf ++ c)) len_size = false)
    by (apply Nat.ltb_ge; rewrite app_length; lia).
  rewrite E', firstn_app_le, skipn_app_le by exact E.
  set (n := unbe (firstn len_size buf)). set (r := skipn len_size buf).
  destruct (n =? 0); [intros [= <- <-]; reflexivity|].
  destruct (max_msg <? n); [discriminate|].
  destruct (len_of r <? n) eqn:E2; [discriminate|]. apply N.ltb_ge in E2.
  intros [= <- <-].
  assert (E3 : (len_of (r ++ c) <? n) = false) by (apply N.ltb_ge; rewrite len_of_app; lia).
  rewrite E3. unfold len_of in E2.
  rewrite firstn_app_le, skipn_app_le by lia. reflexivity.
Qed.

Lemma parse1_large_app buf c : parse1 buf = TooLarge -> parse1 (buf ++ c) = TooLarge.
Proof.
  unfold parse1. destruct (Nat.ltb (length buf) len_size) eqn:E; [discriminate|].
  apply Nat.ltb_ge in E.
  assert (E' : Nat.ltb (length (buf ++ c)) len_size = false)
    by (apply Nat.ltb_ge; rewrite app_length; lia).
  rewrite E', firstn_app_le, skipn_app_le by exact E.
  destruct (unbe (firstn len_size buf) =? 0); [discriminate|].
  destruct (max_msg <? unbe (firstn len_size buf)); [reflexivity|].
  destruct (len_of (skipn len_size buf) <? unbe (firstn len_size buf)); discriminate.
Qed.

Lemma parse1_shrinks buf p rest : parse1 buf = Frame p rest -> (length rest < length buf)%nat.
Proof.
  unfold parse1. destruct (Nat.ltb (length buf) len_size) eqn:E; [discriminate|].
  apply Nat.ltb_ge in E. pose proof len_size_value as L4.
  remember len_size as k eqn:Hk in *. clear Hk.
  destruct (unbe (firstn k buf) =? 0).
  { intros [= <- <-]. rewrite skipn_length. lia. }
  destruct (max_msg <? unbe (firstn k buf)); [discriminate|].
  destruct (len_of (skipn k buf) <? unbe (firstn k buf)); [discriminate|].
  intros [= <- <-]. rewrite !skipn_length. lia.
Qed.

(* ---------------------------------------------------------------------------------------- *)
(* drain: enough fuel is enough; appending bytes; stability of the remainder                  *)
Lemma drain_fuel f g buf :
  (length buf < f)%nat -> (length buf < g)%nat -> drain f buf = drain g buf.
Proof.
  revert g buf. induction f as [|f IH]; intros g buf Hf Hg; [lia|]. destruct g as [|g]; [lia|].
  cbn [drain]. destruct (parse1 buf) as [p rest| |] eqn:E; try reflexivity.
  apply parse1_shrinks in E. rewrite (IH g rest) by lia. reflexivity.
Qed.

Lemma drain_app f buf c fs r d : (length buf < f)%nat -> drain f buf = (fs, r, d) ->
  drain_all (buf ++ c) =
  if d then (fs, r ++ c, true)
  else let '(fs', r', d') := drain_all (r ++ c) in (fs ++ fs', r', d').
Proof.
  revert buf fs r d. induction f as [|f IH]; intros buf fs r d Hf H; [lia|].
  cbn [drain] in H. destruct (parse1 buf) as [p rest| |] eqn:E.
  - destruct (drain f rest) as [[fs0 r0] d0] eqn:E0. injection H as <- <- <-.
    pose proof (parse1_shrinks _ _ _ E) as Hs.
    specialize (IH rest fs0 r0 d0 ltac:(lia) E0).
    unfold drain_all at 1. cbn [drain]. rewrite (parse1_frame_app _ _ _ c E).
    replace (drain (length (buf ++ c)) (rest ++ c)) with (drain_all (rest ++ c)).
    2:{ unfold drain_all. apply drain_fuel; rewrite ?app_length; lia. }
    rewrite IH. destruct d0; [reflexivity|].
    destruct (drain_all (r0 ++ c)) as [[fs' r'] d']. reflexivity.
  - injection H as <- <- <-. cbn [app]. destruct (drain_all (buf ++ c)) as [[a b] e]. reflexivity.
  - injection H as <- <- <-. unfold drain_all. cbn [drain]. rewrite (parse1_large_app _ c E). reflexivity.
Qed.

Lemma drain_all_app buf c fs r d : drain_all buf = (fs, r, d) ->
  drain_all (buf ++ c) =
  if d then (fs, r ++ c, true)
  else let '(fs', r', d') := drain_all (r ++ c) in (fs ++ fs', r', d').
Proof. unfold drain_all at 1. apply drain_app. lia. Qed.

Lemma drain_rest_stable f buf fs r :
  (length buf < f)%nat -> drain f buf = (fs, r, false) -> drain_all r = ([], r, false).
Proof.
  revert buf fs r. induction f as [|f IH]; intros buf fs r Hf H; [lia|].
  cbn [drain] in H. destruct (parse1 buf) as [p rest| |] eqn:E.
  - destruct (drain f rest) as [[fs0 r0] d0] eqn:E0. injection H as <- <- ->.
    apply (IH rest fs0 r0); [apply parse1_shrinks in E; lia|exact E0].
  - injection H as <- <-. unfold drain_all. cbn [drain]. rewrite E. reflexivity.
  - discriminate.
Qed.

(* reader states reached by feeding: what is left in the buffer holds no complete frame *)
Definition Stable (s : rstate) : Prop := dead s = false -> drain_all (rbuf s) = ([], rbuf s, false).

Lemma rinit_stable : Stable rinit.
Proof. intros _. reflexivity. Qed.

Lemma feed_spec s c fs r d : Stable s -> dead s = false -> drain_all (rbuf s ++ c) = (fs, r, d) ->
  feed s c = {| rbuf := r; dead := d; out := out s ++ fs |} /\ Stable (feed s c).
Proof.
  intros St Hd H. unfold feed. rewrite Hd, H. split; [reflexivity|].
  unfold Stable; cbn [dead rbuf]. intros ->.
  unfold drain_all in H. eapply drain_rest_stable; [|exact H]. lia.
Qed.

Lemma fold_dead l s : dead s = true -> fold_left feed l s = s.
Proof.
  induction l as [|c l IH]; intros H; cbn [fold_left]; [reflexivity|].
  assert (E : feed s c = s) by (unfold feed; rewrite H; reflexivity).
  rewrite E. apply IH, H.
Qed.

Theorem chunking_from (cs : list bytes) (s : rstate) :
  Stable s -> dead s = false ->
  let s' := fold_left feed cs s in
  let '(fs, r, d) := drain_all (rbuf s ++ concat cs) in
  out s' = out s ++ fs /\ dead s' = d /\ (d = false -> rbuf s' = r).
Proof.
  revert s. induction cs as [|c cs IH]; intros s St Hd; cbn [fold_left concat].
  - rewrite app_nil_r, (St Hd), app_nil_r. auto.
  - destruct (drain_all (rbuf s ++ c)) as [[fs1 r1] d1] eqn:E1.
    destruct (feed_spec s c fs1 r1 d1 St Hd E1) as [Ef St1].
    rewrite app_assoc. rewrite (drain_all_app _ (concat cs) _ _ _ E1).
    destruct d1.
    + rewrite fold_dead by (rewrite Ef; reflexivity).
      rewrite Ef. cbn [out dead rbuf]. repeat split. discriminate.
    + specialize (IH (feed s c) St1 ltac:(rewrite Ef; reflexivity)).
      cbv zeta in IH.
      assert (Eb : rbuf (feed s c) = r1) by (rewrite Ef; reflexivity).
      assert (Eo : out (feed s c) = out s ++ fs1) by (rewrite Ef; reflexivity).
      rewrite Eb, Eo in IH.
      destruct (drain_all (r1 ++ concat cs)) as [[fs2 r2] d2].
      rewrite <- app_assoc in IH. exact IH.
Qed.

(* C13_chunking: for every way of cutting the byte stream into chunks (empty chunks and
   chunks cutting through length prefixes included) the reader delivers the same frames, ends
   in the same stuck/not-stuck condition and, unless stuck, holds the same undelivered bytes
   as when the whole stream arrives at once. *)
Theorem chunking (cs : list bytes) :
  out (feed_chunks cs) = out (feed_all (concat cs)) /\
  dead (feed_chunks cs) = dead (feed_all (concat cs)) /\
  (dead (feed_all (concat cs)) = false -> rbuf (feed_chunks cs) = rbuf (feed_all (concat cs))).
Proof.
  pose proof (chunking_from cs rinit rinit_stable eq_refl) as H. cbv zeta in H.
  unfold feed_chunks, feed_all, feed. cbn [dead rbuf out rinit app] in *.
  destruct (drain_all (concat cs)) as [[fs r] d]. cbn [out dead rbuf app]. exact H.
Qed.

(* ---------------------------------------------------------------------------------------- *)
(* frames                                                                                     *)
Lemma frame_length body : length (frame body) = (len_size + length body)%nat.
Proof. unfold frame. rewrite app_length, be_length. reflexivity. Qed.

Lemma firstn_be k n t : firstn k (be k n ++ t) = be k n.
Proof. pose proof (firstn_app_exact (be k n) t) as H. rewrite be_length in H. exact H. Qed.
Lemma skipn_be k n t : skipn k (be k n ++ t) = t.
Proof. pose proof (skipn_app_exact (be k n) t) as H. rewrite be_length in H. exact H. Qed.

Lemma parse1_frame body rest :
  len_of body <= max_msg -> parse1 (frame body ++ rest) = Frame body rest.
Proof.
  intros Hb. unfold parse1.
  assert (E : Nat.ltb (length (frame body ++ rest)) len_size = false)
    by (apply Nat.ltb_ge; rewrite app_length, frame_length; lia).
  rewrite E. unfold frame. rewrite <- app_assoc.
  rewrite firstn_be, skipn_be.
  rewrite unbe_be by (pose proof max_fits; lia).
  destruct (len_of body =? 0) eqn:E0.
  - apply N.eqb_eq in E0. unfold len_of in E0. destruct body; [reflexivity|cbn in E0; lia].
  - assert (E1 : (max_msg <? len_of body) = false) by (apply N.ltb_ge; exact Hb).
    assert (E2 : (len_of (body ++ rest) <? len_of body) = false)
      by (apply N.ltb_ge; rewrite len_of_app; lia).
    rewrite E1, E2. unfold len_of. rewrite Nat2N.id, firstn_app_exact, skipn_app_exact. reflexivity.
Qed.

(* a body over the limit (whose length still fits the 4-byte prefix) sticks the reader *)
Lemma parse1_frame_too_large body rest :
  max_msg < len_of body -> len_of body < 256 ^ N.of_nat len_size ->
  parse1 (frame body ++ rest) = TooLarge.
Proof.
  intros Hb Hfit. unfold parse1.
  assert (E : Nat.ltb (length (frame body ++ rest)) len_size = false)
    by (apply Nat.ltb_ge; rewrite app_length, frame_length; lia).
  rewrite E. unfold frame. rewrite <- app_assoc.
  rewrite firstn_be, skipn_be, unbe_be by exact Hfit.
  assert (E0 : (len_of body =? 0) = false) by (apply N.eqb_neq; rewrite max_msg_value in Hb; lia).
  assert (E1 : (max_msg <? len_of body) = true) by (apply N.ltb_lt; exact Hb).
  rewrite E0, E1. reflexivity.
Qed.

Definition frames_of (bodies : list bytes) : bytes := concat (map frame bodies).

Lemma drain_frames bodies : forall fuel, Forall (fun b => len_of b <= max_msg) bodies ->
  (length bodies < fuel)%nat -> drain fuel (frames_of bodies) = (bodies, [], false).
Proof.
  induction bodies as [|b bs IH]; intros fuel W Hf.
  - destruct fuel; [lia|]. reflexivity.
  - inversion W as [|? ? Hb Wr]; subst. destruct fuel as [|k]; [cbn in Hf; lia|].
    unfold frames_of. cbn [map concat drain]. rewrite parse1_frame by exact Hb.
    fold (frames_of bs). rewrite IH; [reflexivity|exact Wr|cbn in Hf; lia].
Qed.

Lemma frames_of_length bodies : (length bodies <= length (frames_of bodies))%nat.
Proof.
  induction bodies as [|b bs IH]; [cbn; lia|].
  unfold frames_of in *. cbn [map concat length]. rewrite app_length, frame_length, len_size_value. lia.
Qed.

Lemma feed_all_frames bodies : Forall (fun b => len_of b <= max_msg) bodies ->
  feed_all (frames_of bodies) = {| rbuf := []; dead := false; out := bodies |}.
Proof.
  intros W. unfold feed_all, feed. cbn [dead rinit rbuf out app]. unfold drain_all.
  rewrite drain_frames; [reflexivity|exact W|]. pose proof (frames_of_length bodies). lia.
Qed.

(* byte-level round trip under arbitrary chunking: the frames written are delivered, in order,
   with nothing left over *)
Theorem frames_roundtrip bodies cs :
  Forall (fun b => len_of b <= max_msg) bodies -> concat cs = frames_of bodies ->
  out (feed_chunks cs) = bodies /\ dead (feed_chunks cs) = false /\ rbuf (feed_chunks cs) = [].
Proof.
  intros W E. destruct (chunking cs) as (Ho & Hd & Hr). rewrite E, feed_all_frames in * by exact W.
  cbn [out dead rbuf] in *. auto.
Qed.

(* an oversized frame in the middle: everything before it is delivered, nothing after it *)
Theorem oversized_blocks bodies big tail cs :
  Forall (fun b => len_of b <= max_msg) bodies ->
  max_msg < len_of big -> len_of big < 256 ^ N.of_nat len_size ->
  concat cs = frames_of bodies ++ frame big ++ tail ->
  out (feed_chunks cs) = bodies /\ dead (feed_chunks cs) = true.
Proof.
  intros W Hb Hfit E. destruct (chunking cs) as (Ho & Hd & _). rewrite Ho, Hd, E.
  pose proof (feed_all_frames bodies W) as F. unfold feed_all, feed in *.
  cbn [dead rinit rbuf out app] in *.
  destruct (drain_all (frames_of bodies)) as [[fs0 r0] d0] eqn:E0. injection F as -> -> ->.
  assert (Eb : drain_all (frame big ++ tail) = ([], frame big ++ tail, true)).
  { unfold drain_all. cbn [drain]. rewrite parse1_frame_too_large by assumption. reflexivity. }
  rewrite (drain_all_app _ _ _ _ _ E0). cbn [app]. rewrite Eb.
  cbn [out dead]. rewrite app_nil_r. auto.
Qed.

(* ---------------------------------------------------------------------------------------- *)
(* protobuf level                                                                             *)
Lemma tfold_app {A F} (f : A -> F -> tri A) a b x :
  tfold f (a ++ b) x = tbind (tfold f a x) (tfold f b).
Proof.
  revert x. induction a as [|y a IH]; intros x; cbn [app tfold tbind]; [reflexivity|].
  destruct (f x y); cbn [tbind]; [apply IH|reflexivity|reflexivity].
Qed.

Lemma int32_roundtrip c : int32_range c -> u64_to_int32 (int32_to_u64 c) = c.
Proof.
  unfold int32_range, u64_to_int32, int32_to_u64. intros H.
  rewrite Z2N.id by (apply Z.mod_pos_bound; lia).
  destruct (Z.ltb_spec c 0) as [Hn|Hp].
  - replace (c mod 18446744073709551616)%Z with (c + 18446744073709551616)%Z.
    2:{ symmetry. rewrite <- (Z.mod_add c 1) by lia. apply Z.mod_small. lia. }
    replace ((c + 18446744073709551616) mod 4294967296)%Z with (c + 4294967296)%Z.
    2:{ symmetry. replace (c + 18446744073709551616)%Z with (c + 4294967296 + 4294967295 * 4294967296)%Z by lia.
        rewrite Z.mod_add by lia. apply Z.mod_small. lia. }
    destruct (Z.ltb_spec (c + 4294967296) 2147483648); lia.
  - rewrite (Z.mod_small c 18446744073709551616) by lia.
    rewrite (Z.mod_small c 4294967296) by lia.
    destruct (Z.ltb_spec c 2147483648); lia.
Qed.

Lemma int32_to_u64_bound c : int32_to_u64 c < two64.
Proof.
  unfold int32_to_u64, two64.
  pose proof (Z.mod_pos_bound c 18446744073709551616 ltac:(lia)). lia.
Qed.

(* lengths of the parts are bounded by the length of the whole encoding *)
Lemma enc_len_field_len num b : len_of b <= len_of (enc_field (num, WLen b)).
Proof. unfold enc_field, enc_val, enc_len. cbn [snd]. rewrite !len_of_app. lia. Qed.

Lemma enc_fields_in_len f fs : In f fs -> len_of (enc_field f) <= len_of (enc_fields fs).
Proof.
  induction fs as [|g fs IH]; intros H; [destruct H|]. cbn [enc_fields]. rewrite len_of_app.
  destruct H as [->|H]; [lia|]. specialize (IH H). lia.
Qed.

Lemma wf_any_fields a : len_of (enc_any a) < two64 -> Forall wf_field (any_fields a).
Proof.
  intros H. unfold any_fields. apply Forall_forall. intros f Hin.
  assert (Hl : len_of (enc_field f) < two64).
  { eapply N.le_lt_trans; [apply (enc_fields_in_len f (any_fields a)); exact Hin|exact H]. }
  apply in_app_or in Hin. destruct Hin as [Hin|Hin].
  - destruct (is_nil (a_url a)); [destruct Hin|]. destruct Hin as [<-|[]].
    apply wf_len_field; [lia|unfold max_field_num; lia|].
    eapply N.le_lt_trans; [apply enc_len_field_len|exact Hl].
  - destruct (is_nil (a_val a)); [destruct Hin|]. destruct Hin as [<-|[]].
    apply wf_len_field; [lia|unfold max_field_num; lia|].
    eapply N.le_lt_trans; [apply enc_len_field_len|exact Hl].
Qed.

Lemma is_nil_spec b : is_nil b = true -> b = [].
Proof. destruct b; [reflexivity|discriminate]. Qed.

Lemma decode_any_enc a :
  utf8_valid (a_url a) = true -> len_of (enc_any a) < two64 -> decode_any (enc_any a) = TOk a.
Proof.
  intros Hu Hl. unfold decode_any, parse_fields, enc_any.
  rewrite dec_fields_enc by (apply wf_any_fields; exact Hl). cbn [tbind].
  destruct a as [u v]. unfold any_fields, empty_any. cbn [a_url a_val] in *.
  destruct (is_nil u) eqn:Eu; destruct (is_nil v) eqn:Ev;
    try (apply is_nil_spec in Eu; subst u); try (apply is_nil_spec in Ev; subst v);
    cbn [app tfold any_apply tbind a_url a_val]; rewrite ?Hu; reflexivity.
Qed.

Definition detail_field (a : any) : field := (3, WLen (enc_any a)).

Lemma tfold_details ds : forall c m acc,
  Forall (fun a => utf8_valid (a_url a) = true /\ len_of (enc_any a) < two64) ds ->
  tfold status_apply (map detail_field ds) {| st_code := c; st_msg := m; st_details := acc |} =
  TOk {| st_code := c; st_msg := m; st_details := acc ++ ds |}.
Proof.
  induction ds as [|a ds IH]; intros c m acc W; cbn [map tfold].
  - rewrite app_nil_r. reflexivity.
  - inversion W as [|? ? [Hu Hl] Wr]; subst. unfold detail_field at 1. cbn [status_apply].
    rewrite decode_any_enc by assumption. cbn [tbind st_code st_msg st_details].
    rewrite IH by exact Wr. rewrite <- app_assoc. reflexivity.
Qed.

Lemma status_fields_details s f : In f (map detail_field (st_details s)) -> In f (status_fields s).
Proof. intros H. unfold status_fields. apply in_or_app. right. apply in_or_app. right. exact H. Qed.

Lemma wf_status_fields s : len_of (enc_status s) < two64 -> Forall wf_field (status_fields s).
Proof.
  intros H. apply Forall_forall. intros f Hin.
  assert (Hl : len_of (enc_field f) < two64).
  { eapply N.le_lt_trans; [apply (enc_fields_in_len f (status_fields s)); exact Hin|exact H]. }
  unfold status_fields in Hin. apply in_app_or in Hin. destruct Hin as [Hin|Hin].
  { destruct (st_code s =? 0)%Z; [destruct Hin|]. destruct Hin as [<-|[]].
    repeat split; cbn [fst snd wf_val]; [lia|unfold max_field_num; lia|apply int32_to_u64_bound]. }
  apply in_app_or in Hin. destruct Hin as [Hin|Hin].
  { destruct (is_nil (st_msg s)); [destruct Hin|]. destruct Hin as [<-|[]].
    apply wf_len_field; [lia|unfold max_field_num; lia|].
    eapply N.le_lt_trans; [apply enc_len_field_len|exact Hl]. }
  apply in_map_iff in Hin. destruct Hin as (a & <- & _).
  apply wf_len_field; [lia|unfold max_field_num; lia|].
  eapply N.le_lt_trans; [apply enc_len_field_len|exact Hl].
Qed.

Lemma details_ok s : status_marshal_ok s = true -> len_of (enc_status s) < two64 ->
  Forall (fun a => utf8_valid (a_url a) = true /\ len_of (enc_any a) < two64) (st_details s).
Proof.
  intros Hm Hl. apply andb_prop in Hm. destruct Hm as [_ Hd]. rewrite forallb_forall in Hd.
  apply Forall_forall. intros a Hin. split; [apply Hd; exact Hin|].
  assert (Hf : In (detail_field a) (status_fields s))
    by (apply status_fields_details, in_map; exact Hin).
  eapply N.le_lt_trans; [apply (enc_len_field_len 3)|].
  eapply N.le_lt_trans; [apply (enc_fields_in_len _ _ Hf)|exact Hl].
Qed.

(* Unmarshal(Marshal(s)) into an empty Status gives s back *)
Theorem decode_status_enc s :
  int32_range (st_code s) -> status_marshal_ok s = true -> len_of (enc_status s) < two64 ->
  decode_status_into empty_status (enc_status s) = TOk s.
Proof.
  intros Hc Hm Hl. unfold decode_status_into, parse_fields, enc_status.
  rewrite dec_fields_enc by (apply wf_status_fields; exact Hl). cbn [tbind].
  pose proof (details_ok s Hm Hl) as Hd. apply andb_prop in Hm. destruct Hm as [Hu _].
  destruct s as [c m ds]. unfold status_fields, empty_status. cbn [st_code st_msg st_details] in *.
  rewrite !tfold_app. fold detail_field.
  destruct (Z.eqb_spec c 0) as [->|Hn]; cbn [tfold status_apply tbind st_code st_msg st_details];
    rewrite ?int32_roundtrip by exact Hc;
    (destruct (is_nil m) eqn:En; [apply is_nil_spec in En; subst m|]);
    cbn [app tfold status_apply tbind st_code st_msg st_details]; rewrite ?Hu; cbn [tbind];
    rewrite tfold_details by exact Hd; reflexivity.
Qed.

Lemma enc_streammsg_data d : enc_streammsg (BData d) = 10 :: varint_enc (len_of d) ++ d.
Proof.
  cbn [enc_streammsg enc_fields]. rewrite app_nil_r. unfold enc_field, enc_tag, enc_val, enc_len.
  cbn [fst snd wtype]. change (varint_enc (8 * 1 + 2)) with [10]. reflexivity.
Qed.

Lemma enc_streammsg_error s : enc_streammsg (BError s) = 18 :: varint_enc (len_of (enc_status s)) ++ enc_status s.
Proof.
  cbn [enc_streammsg enc_fields]. rewrite app_nil_r. unfold enc_field, enc_tag, enc_val, enc_len.
  cbn [fst snd wtype]. change (varint_enc (8 * 2 + 2)) with [18]. reflexivity.
Qed.

Lemma inner_le_data d : len_of d <= len_of (enc_streammsg (BData d)).
Proof. rewrite enc_streammsg_data. change (10 :: ?l) with ([10] ++ l). rewrite !len_of_app. lia. Qed.
Lemma inner_le_error s : len_of (enc_status s) <= len_of (enc_streammsg (BError s)).
Proof. rewrite enc_streammsg_error. change (18 :: ?l) with ([18] ++ l). rewrite !len_of_app. lia. Qed.

Theorem read_msg_data d :
  len_of (enc_streammsg (BData d)) <= max_msg -> read_msg (enc_streammsg (BData d)) = RData d.
Proof.
  intros Hl. pose proof (inner_le_data d). pose proof max_lt_two64.
  unfold read_msg, decode_streammsg, parse_fields. cbn [enc_streammsg].
  rewrite dec_fields_enc.
  2:{ constructor; [|constructor]. apply wf_len_field; [lia|unfold max_field_num; lia|lia]. }
  reflexivity.
Qed.

Theorem read_msg_error s :
  int32_range (st_code s) -> status_marshal_ok s = true ->
  len_of (enc_streammsg (BError s)) <= max_msg ->
  read_msg (enc_streammsg (BError s)) = if (st_code s =? 0)%Z then ROkNoData else RStatus s.
Proof.
  intros Hc Hm Hl. pose proof (inner_le_error s). pose proof max_lt_two64.
  unfold read_msg, decode_streammsg, parse_fields. cbn [enc_streammsg].
  rewrite dec_fields_enc.
  2:{ constructor; [|constructor]. apply wf_len_field; [lia|unfold max_field_num; lia|lia]. }
  cbn [tbind tfold body_apply]. rewrite decode_status_enc by (try assumption; lia).
  reflexivity.
Qed.

(* C13_neither, general form: whatever else a frame contains (unknown fields, members with the
   wrong wire type), if no field is a length-delimited field 1 or 2 the read is refused *)
Definition is_member (f : field) : bool :=
  match f with (1, WLen _) => true | (2, WLen _) => true | _ => false end.

Lemma tfold_no_member fs : forallb (fun f => negb (is_member f)) fs = true ->
  tfold body_apply fs BNone = TOk BNone.
Proof.
  induction fs as [|f fs IH]; intros H; [reflexivity|]. cbn [forallb] in H.
  apply andb_prop in H. destruct H as [Hf Hr]. cbn [tfold].
  assert (E : body_apply BNone f = TOk BNone).
  { destruct f as [num w]. unfold is_member in Hf.
    destruct num as [|[[p|p|]|[p|p|]|]]; destruct w as [v|b|b|b]; try reflexivity; cbn in Hf; discriminate. }
  rewrite E. cbn [tbind]. apply IH, Hr.
Qed.

Theorem neither_rejected fr fs :
  dec_fields fr = WFields fs -> forallb (fun f => negb (is_member f)) fs = true ->
  read_msg fr = RNeither.
Proof.
  intros Hp Hn. unfold read_msg, decode_streammsg, parse_fields. rewrite Hp. cbn [tbind].
  rewrite tfold_no_member by exact Hn. reflexivity.
Qed.

Corollary empty_frame_rejected : read_msg [] = RNeither.
Proof. reflexivity. Qed.

(* soundness of a data result: data surfaces only when the frame carries a data member *)
Lemma tfold_data_sound fs : forall cur d,
  tfold body_apply fs cur = TOk (BData d) -> cur = BData d \/ In (1, WLen d) fs.
Proof.
  induction fs as [|f fs IH]; intros cur d H; cbn [tfold] in H.
  - injection H as ->. left. reflexivity.
  - destruct (body_apply cur f) as [b| |] eqn:E; cbn [tbind] in H; try discriminate.
    apply IH in H. destruct H as [->|H]; [|right; right; exact H].
    destruct f as [num w]. unfold body_apply in E.
    destruct num as [|[[p|p|]|[p|p|]|]]; destruct w as [v|x|x|x];
      try (injection E as ->; left; reflexivity).
    + destruct (decode_status_into _ x); cbn [tbind] in E; discriminate.
    + injection E as <-. right. left. reflexivity.
Qed.

Theorem data_sound fr d : read_msg fr = RData d ->
  exists fs, dec_fields fr = WFields fs /\ In (1, WLen d) fs.
Proof.
  unfold read_msg, decode_streammsg, parse_fields.
  destruct (dec_fields fr) as [fs| |] eqn:E; cbn [tbind]; try discriminate.
  destruct (tfold body_apply fs BNone) as [b| |] eqn:E2; try discriminate.
  destruct b as [d'|s|]; [|destruct (st_code s =? 0)%Z; discriminate|discriminate].
  intros [= ->]. exists fs. split; [reflexivity|].
  apply tfold_data_sound in E2. destruct E2 as [E2|E2]; [discriminate|exact E2].
Qed.

(* ---------------------------------------------------------------------------------------- *)
(* near-limit frames by length                                                                *)
Lemma data_body_len_spec d : len_of (enc_streammsg (BData d)) = data_body_len (len_of d).
Proof.
  rewrite enc_streammsg_data. change (10 :: ?l) with ([10] ++ l). rewrite !len_of_app.
  unfold data_body_len. change (len_of [10]) with 1. lia.
Qed.

Lemma data_frame_prefix_spec d :
  frame (enc_streammsg (BData d)) = data_frame_prefix (len_of d) ++ d.
Proof.
  unfold frame, data_frame_prefix. rewrite data_body_len_spec, enc_streammsg_data.
  rewrite <- app_assoc. reflexivity.
Qed.

Theorem limit_exact d rest :
  data_body_len (len_of d) < 256 ^ N.of_nat len_size ->
  parse1 (frame (enc_streammsg (BData d)) ++ rest) =
  if data_frame_accepted (len_of d) then Frame (enc_streammsg (BData d)) rest else TooLarge.
Proof.
  intros Hfit. unfold data_frame_accepted. rewrite <- data_body_len_spec in *.
  destruct (N.leb_spec (len_of (enc_streammsg (BData d))) max_msg) as [H|H].
  - apply parse1_frame. exact H.
  - apply parse1_frame_too_large; assumption.
Qed.

(* ---------------------------------------------------------------------------------------- *)
(* sessions: what is written, in order, and what the reader makes of it                       *)
Inductive item := IMsg (inner : bytes) | IErr (s : status) | IHdr (h : bytes).

Definition item_body (it : item) : bytes :=
  match it with
  | IMsg m => enc_streammsg (BData m)
  | IErr s => enc_streammsg (BError s)
  | IHdr h => h
  end.
Definition item_ok (it : item) : Prop :=
  len_of (item_body it) <= max_msg /\
  match it with
  | IErr s => int32_range (st_code s) /\ status_marshal_ok s = true
  | _ => True
  end.
(* the bytes the real writers put on the stream for an item *)
Definition item_written (it : item) : outcome bytes :=
  match it with
  | IMsg m => write_msg (Some m)
  | IErr s => write_error s
  | IHdr h => write_header (Some h)
  end.
Definition stream_of (its : list item) : bytes := frames_of (map item_body its).

Definition delivered (it : item) (fr : bytes) : Prop :=
  match it with
  | IMsg m => read_msg fr = RData m
  | IErr s => read_msg fr = if (st_code s =? 0)%Z then ROkNoData else RStatus s
  | IHdr h => read_header fr = h
  end.

Lemma item_written_ok it : item_ok it -> item_written it = Ok (frame (item_body it)).
Proof.
  destruct it as [m|s|h]; intros [_ H]; cbn [item_written item_body write_msg write_header]; try reflexivity.
  unfold write_error. destruct H as [_ ->]. reflexivity.
Qed.

Lemma delivered_body it : item_ok it -> delivered it (item_body it).
Proof.
  destruct it as [m|s|h]; intros [Hl H]; cbn [delivered item_body] in *.
  - apply read_msg_data. exact Hl.
  - destruct H as [Hc Hm]. apply read_msg_error; assumption.
  - reflexivity.
Qed.

Theorem session_roundtrip its cs :
  Forall item_ok its -> concat cs = stream_of its ->
  let s := feed_chunks cs in
  dead s = false /\ rbuf s = [] /\ Forall2 delivered its (out s).
Proof.
  intros W E. cbv zeta.
  assert (Wb : Forall (fun b => len_of b <= max_msg) (map item_body its)).
  { apply Forall_forall. intros b Hin. apply in_map_iff in Hin. destruct Hin as (it & <- & Hin).
    rewrite Forall_forall in W. apply W. exact Hin. }
  destruct (frames_roundtrip _ cs Wb E) as (Ho & Hd & Hr). rewrite Ho. repeat split; try assumption.
  clear - W. induction W as [|it its Hit _ IH]; cbn [map]; constructor; [apply delivered_body; exact Hit|exact IH].
Qed.

(* ---------------------------------------------------------------------------------------- *)
(* typed layer: equality of decoded messages rests on Unmarshal(Marshal m) = m of protobuf-go  *)
Section Typed.
  Variables M H : Type.
  Variable marshal : M -> bytes.
  Variable unmarshal : bytes -> option M.
  Variable hmarshal : H -> bytes.
  Variable hunmarshal : bytes -> option H.
  Hypothesis unmarshal_marshal : forall m, unmarshal (marshal m) = Some m.
  Hypothesis hunmarshal_hmarshal : forall h, hunmarshal (hmarshal h) = Some h.

  Inductive titem := TMsg (m : M) | TErr (s : status) | THdr (h : H).
  Definition lower (t : titem) : item :=
    match t with TMsg m => IMsg (marshal m) | TErr s => IErr s | THdr h => IHdr (hmarshal h) end.

  (* what the caller of ReadMsg(ctx, m) / ReadHeader(ctx) gets *)
  Inductive tres := GotMsg (m : M) | GotStatus (s : status) | GotHdr (h : H) | GotNothing | GotFailure.
  Definition tread_msg (fr : bytes) : tres :=
    match read_msg fr with
    | RData p => match unmarshal p with Some m => GotMsg m | None => GotFailure end
    | RStatus s => GotStatus s
    | ROkNoData => GotNothing
    | _ => GotFailure
    end.
  Definition tread_header (fr : bytes) : tres :=
    match hunmarshal (read_header fr) with Some h => GotHdr h | None => GotFailure end.

  Definition titem_ok (t : titem) : Prop :=
    item_ok (lower t) /\ match t with TErr s => st_code s <> 0%Z | _ => True end.
  Definition tdelivered (t : titem) (fr : bytes) : Prop :=
    match t with
    | TMsg m => tread_msg fr = GotMsg m
    | TErr s => tread_msg fr = GotStatus s
    | THdr h => tread_header fr = GotHdr h
    end.

  Theorem typed_roundtrip ts cs :
    Forall titem_ok ts -> concat cs = stream_of (map lower ts) ->
    let s := feed_chunks cs in
    dead s = false /\ rbuf s = [] /\ Forall2 tdelivered ts (out s).
  Proof.
    intros W E. cbv zeta.
    assert (W' : Forall item_ok (map lower ts)).
    { apply Forall_forall. intros it Hin. apply in_map_iff in Hin. destruct Hin as (t & <- & Hin).
      rewrite Forall_forall in W. apply W. exact Hin. }
    destruct (session_roundtrip _ cs W' E) as (Hd & Hr & HF). repeat split; try assumption.
    clear - W HF unmarshal_marshal hunmarshal_hmarshal.
    remember (out (feed_chunks cs)) as frs. clear Heqfrs. revert frs HF.
    induction W as [|t ts Ht _ IH]; intros frs HF; cbn [map] in HF; inversion HF as [|? fr ? frs' Hd HF']; subst;
      constructor; [|apply IH; exact HF'].
    destruct Ht as [_ Hne]. destruct t as [m|s|h]; cbn [lower delivered tdelivered] in *.
    - unfold tread_msg. rewrite Hd, unmarshal_marshal. reflexivity.
    - unfold tread_msg. rewrite Hd. destruct (Z.eqb_spec (st_code s) 0); [contradiction|reflexivity].
    - unfold tread_header. rewrite Hd, hunmarshal_hmarshal. reflexivity.
  Qed.
End Typed.

(* ---------------------------------------------------------------------------------------- *)
(* handler errors                                                                             *)
Theorem error_roundtrip s cs :
  int32_range (st_code s) -> st_code s <> 0%Z -> status_marshal_ok s = true ->
  len_of (enc_streammsg (BError s)) <= max_msg ->
  exists f, write_error s = Ok f /\
    (concat cs = f ->
     map read_msg (out (feed_chunks cs)) = [RStatus s] /\ dead (feed_chunks cs) = false /\
     rbuf (feed_chunks cs) = []).
Proof.
  intros Hc Hn Hm Hl. exists (frame (enc_streammsg (BError s))). split.
  - unfold write_error. rewrite Hm. reflexivity.
  - intros E.
    destruct (session_roundtrip [IErr s] cs) as (Hd & Hr & HF).
    { constructor; [|constructor]. split; [exact Hl|split; assumption]. }
    { rewrite E. unfold stream_of, frames_of. cbn [map concat item_body]. rewrite app_nil_r. reflexivity. }
    destruct (out (feed_chunks cs)) as [|fr frs] eqn:Eo; inversion HF as [|? ? ? ? Hdel HF']; subst.
    inversion HF'; subst. cbn [delivered] in Hdel. cbn [map]. rewrite Hdel.
    destruct (Z.eqb_spec (st_code s) 0); [contradiction|]. auto.
Qed.

Lemma write_error_ok s f : write_error s = Ok f ->
  status_marshal_ok s = true /\ f = frame (enc_streammsg (BError s)).
Proof. unfold write_error. destruct (status_marshal_ok s); [|discriminate]. intros H. split; congruence. Qed.

(* a writer never turns an error into a frame that reads as data, whatever the status *)
Theorem error_never_data s f d : write_error s = Ok f ->
  int32_range (st_code s) -> len_of (enc_streammsg (BError s)) <= max_msg ->
  forall fr rest, parse1 (f ++ rest) = Frame fr rest -> read_msg fr <> RData d.
Proof.
  intros Hw Hc Hl fr rest. apply write_error_ok in Hw. destruct Hw as [Hm ->].
  rewrite parse1_frame by exact Hl. intros H.
  assert (Efr : fr = enc_streammsg (BError s)) by congruence. subst fr. clear H.
  rewrite read_msg_error by assumption.
  destruct (st_code s =? 0)%Z; discriminate.
Qed.

(* a status that cannot be marshalled (invalid UTF-8) puts nothing on the stream *)
Lemma write_error_refused s : status_marshal_ok s = false -> write_error s = Err err_marshal.
Proof. unfold write_error. intros ->. reflexivity. Qed.

(* the status the handler epilogue sends is never OK for the errors grpc can classify as
   failures: plain errors and nil-status errors become Unknown *)
Lemma status_of_herr_code e :
  st_code (status_of_herr e) =
  match e with HPlain _ => 2%Z | HNilStatus _ => 2%Z | HStatus s => st_code s | HWrapped s _ => st_code s end.
Proof. destruct e; reflexivity. Qed.

Theorem epilogue_roundtrip e cs :
  let s := status_of_herr e in
  int32_range (st_code s) -> st_code s <> 0%Z -> status_marshal_ok s = true ->
  len_of (enc_streammsg (BError s)) <= max_msg ->
  exists f, handler_epilogue (Some e) = [AWrite f; AClose] /\
    (concat cs = f -> map read_msg (out (feed_chunks cs)) = [RStatus s]).
Proof.
  cbv zeta. intros Hc Hn Hm Hl.
  destruct (error_roundtrip _ cs Hc Hn Hm Hl) as (f & Hw & Hr).
  exists f. split; [unfold handler_epilogue; rewrite Hw; reflexivity|].
  intros E. apply Hr in E. tauto.
Qed.

(* ---------------------------------------------------------------------------------------- *)
(* non-vacuity                                                                                *)
Example ex_status : status :=
  {| st_code := 13; st_msg := x "74c3a97374206572726f72"; st_details := [{| a_url := x "747970652e782f79"; a_val := x "0801" |}] |}.

Example ex_session :
  let its := [IHdr (x "0a0b0a016b12061a0476616c"); IMsg []; IMsg (x "0a03616263"); IErr ex_status] in
  Forall item_ok its /\
  exists cs, concat cs = stream_of its /\ (2 < length cs)%nat /\
    map read_msg (skipn 1 (out (feed_chunks cs))) = [RData []; RData (x "0a03616263"); RStatus ex_status].
Proof.
  cbv zeta. split.
  - repeat constructor; vm_compute; congruence.
  - exists (map (fun b => [b]) (stream_of [IHdr (x "0a0b0a016b12061a0476616c"); IMsg []; IMsg (x "0a03616263"); IErr ex_status])).
    vm_compute. repeat split. lia.
Qed.

Example ex_neither :
  read_msg [] = RNeither /\ read_msg (x "1800") = RNeither /\ read_msg (x "0800") = RNeither /\
  read_msg (x "0a00") = RData [] /\ read_msg (x "0a0012020801") = RStatus {| st_code := 1; st_msg := []; st_details := [] |} /\
  read_msg (x "1200") = ROkNoData /\ read_msg (x "0a") = RMalformed /\ read_msg (x "1202ff00") = RMalformed.
Proof. vm_compute. repeat split. Qed.

Example ex_negative_code :
  int32_range (-7) /\
  read_msg (enc_streammsg (BError {| st_code := -7; st_msg := []; st_details := [] |})) =
  RStatus {| st_code := -7; st_msg := []; st_details := [] |}.
Proof. split; [unfold int32_range; lia|vm_compute; reflexivity]. Qed.

Example ex_limit :
  data_frame_accepted 8388603 = true /\ data_frame_accepted 8388604 = false /\
  data_frame_prefix 8388603 = x "008000000afbffff03".
Proof. vm_compute. repeat split. Qed.

Example ex_chunking_dead :
  let cs := [x "0000"; x "00020a"; x "00ff"; x "ffffff"; x "0000"] in
  out (feed_chunks cs) = [x "0a00"] /\ dead (feed_chunks cs) = true.
Proof. vm_compute. split; reflexivity. Qed.

(* the typed premises are satisfiable (identity codec), and the typed theorem then applies to a
   concrete session with a header, an empty message, a message and a non-OK status *)
Example ex_typed :
  let ts := [THdr bytes bytes (x "0a0b0a016b12061a0476616c"); TMsg bytes bytes []; TMsg bytes bytes (x "0a03616263");
             TErr bytes bytes ex_status] in
  (forall m : bytes, Some ((fun b => b) m) = Some m) /\
  Forall (titem_ok bytes bytes (fun b => b) (fun b => b)) ts /\
  Forall2 (tdelivered bytes bytes Some Some) ts
          (out (feed_chunks (map (fun b => [b]) (stream_of (map (lower bytes bytes (fun b => b) (fun b => b)) ts))))).
Proof.
  cbv zeta. split; [reflexivity|]. split.
  - repeat constructor; vm_compute; congruence.
  - apply (typed_roundtrip bytes bytes (fun b => b) Some (fun b => b) Some (fun _ => eq_refl) (fun _ => eq_refl)).
    + repeat constructor; vm_compute; congruence.
    + clear. generalize (stream_of (map (lower bytes bytes (fun b => b) (fun b => b))
        [THdr bytes bytes (x "0a0b0a016b12061a0476616c"); TMsg bytes bytes []; TMsg bytes bytes (x "0a03616263"); TErr bytes bytes ex_status])).
      intros l. induction l as [|b l IH]; cbn [map concat app]; [reflexivity|]. rewrite IH. reflexivity.
Qed.

Example ex_epilogue :
  handler_epilogue (Some (HPlain (x "626f6f6d"))) = [AWrite (x "0000000a1208080212" ++ x "04626f6f6d"); AClose] /\
  handler_epilogue (Some (HPlain (x "ff"))) = [AReset] /\
  handler_epilogue None = [AClose] /\
  read_all (x "0000000a120808021204626f6f6d") =
    ([RStatus {| st_code := 2; st_msg := x "626f6f6d"; st_details := [] |}], EndEOF).
Proof. vm_compute. repeat split. Qed.

Example ex_oversized :
  let cs := [frame (x "0a00"); x "00800001"; x "0a00"] in
  out (feed_chunks cs) = [x "0a00"] /\ dead (feed_chunks cs) = true.
Proof. vm_compute. split; reflexivity. Qed.

(* ---------------------------------------------------------------------------------------- *)
(* the property checker of check/Check_C13.v is consistent with the model: an observation that
   agrees with the model's prediction for a frame never trips the frame-level clauses
   (neither-accepted, error-as-data), and the model's own reading of a written item satisfies
   the per-item expectation used for honest sessions *)
Lemma agreeing_read_no_frame_violation fr o :
  readmsg_agrees fr o = true -> frame_clause fr 0 o = [].
Proof.
  unfold readmsg_agrees, frame_clause. cbn [N.eqb].
  destruct (read_msg fr); try reflexivity; destruct o; try discriminate; reflexivity.
Qed.

Lemma neither_clause_complete fr o :
  read_msg fr = RNeither -> accepted_as_data o = true -> frame_clause fr 0 o = ["neither-accepted"%string].
Proof. intros H Ha. unfold frame_clause. cbn [N.eqb]. rewrite H, Ha. reflexivity. Qed.

Lemma status_expectation_met s all :
  st_code s <> 0%Z ->
  expect_item all (WStatus s) (OStatus (st_code s) (st_msg s) (any_pairs s)) = None.
Proof.
  intros Hn. unfold expect_item. cbn [status_of_wop].
  destruct (Z.eqb_spec (st_code s) 0); [contradiction|].
  unfold status_matches. rewrite Z.eqb_refl, bytes_eqb_refl. cbn [andb].
  assert (E : forall l, list_eqb pair_eqb l l = true).
  { induction l as [|[a b] l IH]; [reflexivity|]. cbn [list_eqb]. unfold pair_eqb at 1. cbn [fst snd].
    rewrite !bytes_eqb_refl, IH. reflexivity. }
  rewrite E. reflexivity.
Qed.

(* ---------------------------------------------------------------------------------------- *)
(* msgio reads exactly: ReadLen does io.ReadFull on the 4-byte buffer, ReadMsg does io.ReadFull
   on a buffer of exactly the announced length, and the reader constructor puts no buffered
   reader under them.  This is the "no read-ahead" fact the two-reader theorem below needs; here
   it is pinned to the msgio source the repository builds against. *)
Lemma wiring_exact_reads :
  c13_msgio_nextlen_readlen = [[bos "s.R"; bos "s.lbuf[:]"]] /\
  c13_msgio_readlen_readfull = [[bos "r"; bos "buf"]] /\
  c13_msgio_readmsg_readfull = [[bos "s.R"; bos "msg"]] /\
  c13_msgio_reader_bufio = false /\ c13_msgio_reader_bufio_size = false.
Proof. repeat split; reflexivity. Qed.

(* ---------------------------------------------------------------------------------------- *)
(* Header maps at the level of the map framing (values opaque)                                *)
Definition hentry_field (e : hentry) : field := (1, WLen (enc_hentry e)).

Lemma decode_hentry_enc e :
  utf8_valid (fst e) = true -> len_of (enc_hentry e) < two64 -> decode_hentry (enc_hentry e) = TOk e.
Proof.
  destruct e as [k v]. cbn [fst snd]. intros Hu Hl. unfold decode_hentry, parse_fields, enc_hentry. cbn [fst snd].
  assert (W : Forall wf_field [(1, WLen k); (2, WLen v)]).
  { apply Forall_forall. intros f Hin.
    assert (Hf : len_of (enc_field f) < two64).
    { eapply N.le_lt_trans; [apply (enc_fields_in_len f _ Hin)|exact Hl]. }
    destruct Hin as [<-|[<-|[]]]; (apply wf_len_field; [lia|unfold max_field_num; lia|]);
      (eapply N.le_lt_trans; [apply enc_len_field_len|exact Hf]). }
  rewrite dec_fields_enc by exact W. cbn [tbind tfold entry_apply fst snd]. rewrite Hu. reflexivity.
Qed.

Lemma hset_fresh k v h : ~ In k (map fst h) -> hset k v h = h ++ [(k, v)].
Proof.
  induction h as [|[k' v'] h IH]; intros Hn; [reflexivity|]. cbn [hset app map fst In] in *.
  destruct (bytes_eqb k k') eqn:E.
  - apply bytes_eqb_eq in E. subst. exfalso. apply Hn. left. reflexivity.
  - rewrite IH; [reflexivity|]. intros Hin. apply Hn. right. exact Hin.
Qed.

Definition hentry_ok (e : hentry) : Prop := utf8_valid (fst e) = true /\ len_of (enc_hentry e) < two64.

Lemma tfold_header es : forall acc,
  Forall hentry_ok es -> NoDup (map fst (acc ++ es)) ->
  tfold header_apply (map hentry_field es) acc = TOk (acc ++ es).
Proof.
  induction es as [|e es IH]; intros acc W ND; cbn [map tfold].
  - rewrite app_nil_r. reflexivity.
  - inversion W as [|? ? [Hu Hl] Wr]; subst. unfold hentry_field at 1. cbn [header_apply].
    rewrite decode_hentry_enc by assumption. cbn [tbind].
    rewrite hset_fresh.
    + destruct e as [k v]. cbn [fst snd]. rewrite IH; [rewrite <- app_assoc; reflexivity|exact Wr|].
      rewrite <- app_assoc. exact ND.
    + rewrite map_app in ND. cbn [map] in ND. apply NoDup_remove_2 in ND.
      intros Hin. apply ND. apply in_or_app. left. exact Hin.
Qed.

Lemma header_entries_ok h :
  Forall (fun e => utf8_valid (fst e) = true) h -> len_of (enc_header h) < two64 ->
  Forall hentry_ok h /\ Forall wf_field (map hentry_field h).
Proof.
  intros Hu Hl.
  assert (Hbound : forall e, In e h -> len_of (enc_hentry e) < two64).
  { intros e Hin. eapply N.le_lt_trans; [apply (enc_len_field_len 1)|].
    eapply N.le_lt_trans; [|exact Hl]. apply (enc_fields_in_len (hentry_field e)).
    apply in_map. exact Hin. }
  split.
  - apply Forall_forall. intros e Hin. split; [|apply Hbound; exact Hin].
    rewrite Forall_forall in Hu. apply Hu. exact Hin.
  - apply Forall_forall. intros f Hin. apply in_map_iff in Hin. destruct Hin as (e & <- & Hin).
    apply wf_len_field; [lia|unfold max_field_num; lia|apply Hbound; exact Hin].
Qed.

(* Unmarshal(Marshal(header)) gives the same key -> value-bytes map back, whatever entry order
   Marshal picked, for distinct UTF-8 keys; the empty (or nil) map is the zero-length frame *)
Theorem decode_header_enc h :
  NoDup (map fst h) -> Forall (fun e => utf8_valid (fst e) = true) h ->
  len_of (enc_header h) <= max_msg -> decode_header (enc_header h) = TOk h.
Proof.
  intros ND Hu Hl. pose proof max_lt_two64.
  destruct (header_entries_ok h Hu ltac:(lia)) as [Hok Hwf].
  unfold decode_header, parse_fields, enc_header. fold hentry_field.
  rewrite dec_fields_enc by exact Hwf. cbn [tbind].
  rewrite tfold_header; [reflexivity|exact Hok|exact ND].
Qed.

Theorem header_roundtrip h cs :
  NoDup (map fst h) -> Forall (fun e => utf8_valid (fst e) = true) h ->
  len_of (enc_header h) <= max_msg ->
  exists f, write_header (Some (enc_header h)) = Ok f /\
    (concat cs = f ->
     map (fun fr => decode_header (read_header fr)) (out (feed_chunks cs)) = [TOk h] /\
     dead (feed_chunks cs) = false /\ rbuf (feed_chunks cs) = []).
Proof.
  intros ND Hu Hl. exists (frame (enc_header h)). split; [reflexivity|]. intros E.
  destruct (frames_roundtrip [enc_header h] cs) as (Ho & Hd & Hr).
  { constructor; [exact Hl|constructor]. }
  { rewrite E. unfold frames_of. cbn [map concat]. rewrite app_nil_r. reflexivity. }
  rewrite Ho. cbn [map]. unfold read_header. rewrite decode_header_enc by assumption. auto.
Qed.

Example ex_header :
  let h := [(x "6b", x "1a0476616c"); ([], x "0800"); (x "d0bad0bbd18ed187", [])] in
  enc_header h = x "0a0a0a016b12051a0476616c0a060a001202" ++ x "08000a0c0a08d0bad0bbd18ed1871200" /\
  decode_header (enc_header h) = TOk h /\
  decode_header [] = TOk [] /\
  (* a later entry with the same key replaces the earlier one; a key that is not UTF-8 is refused *)
  decode_header (x "0a070a016b1202080a" ++ x "0a070a016b1202080b") = TOk [(x "6b", x "080b")] /\
  decode_header (x "0a050a01ff1200") = TBad.
Proof. vm_compute. repeat split. Qed.

(* ---------------------------------------------------------------------------------------- *)
(* two reader objects over one byte source                                                    *)
Lemma firstn_len {A} (l : list A) k : length l = k -> firstn k l = l.
Proof. intros <-. apply firstn_all. Qed.
Lemma skipn_len {A} (l : list A) k : length l = k -> skipn k l = [].
Proof. intros <-. apply skipn_all. Qed.
Lemma firstn_len_app {A} (l t : list A) k : length l = k -> firstn k (l ++ t) = l.
Proof. intros <-. apply firstn_app_exact. Qed.
Lemma skipn_len_app {A} (l t : list A) k : length l = k -> skipn k (l ++ t) = t.
Proof. intros <-. apply skipn_app_exact. Qed.

Lemma want_grow k buf src : (length buf < k)%nat ->
  want 0 k buf src = (buf ++ firstn (k - length buf) src, skipn (k - length buf) src).
Proof.
  intros H. unfold want. apply Nat.ltb_lt in H. rewrite H, Nat.add_0_r. reflexivity.
Qed.

Lemma pull_exact b rest : len_of b <= max_msg ->
  pull 0 mr_init (frame b ++ rest) = (PFrame b, mr_init, rest).
Proof.
  intros Hb. unfold pull, frame. cbn [mstuck mbuf mr_init].
  pose proof len_size_value as L4.
  remember (be len_size (len_of b)) as hd eqn:Ehd.
  assert (L : length hd = len_size) by (subst hd; apply be_length).
  rewrite <- app_assoc.
  rewrite want_grow by (cbn [length]; lia). cbn [length app]. rewrite Nat.sub_0_r.
  rewrite firstn_len_app, skipn_len_app by exact L. lazy beta iota zeta.
  rewrite L, Nat.ltb_irrefl. rewrite firstn_len by exact L.
  assert (Eu : unbe hd = len_of b) by (subst hd; apply unbe_be; pose proof max_fits; lia).
  rewrite Eu.
  destruct (len_of b =? 0) eqn:E0.
  - apply N.eqb_eq in E0. unfold len_of in E0. destruct b; [|cbn in E0; lia].
    rewrite skipn_len by exact L. reflexivity.
  - assert (E1 : (max_msg <? len_of b) = false) by (apply N.ltb_ge; exact Hb). rewrite E1.
    apply N.eqb_neq in E0. unfold len_of in *. rewrite Nat2N.id.
    rewrite want_grow by lia. rewrite L.
    replace (len_size + length b - len_size)%nat with (length b) by lia.
    rewrite firstn_app_exact, skipn_app_exact. lazy beta iota zeta.
    assert (L2 : length (hd ++ b) = (len_size + length b)%nat) by (rewrite app_length, L; reflexivity).
    rewrite L2, Nat.ltb_irrefl.
    rewrite skipn_len_app by exact L. rewrite firstn_all. rewrite skipn_len by exact L2. reflexivity.
Qed.

Lemma pull_seq_frames bodies : forall which tail,
  length which = length bodies -> Forall (fun b => len_of b <= max_msg) bodies ->
  pull_seq 0 0 which mr_init mr_init (frames_of bodies ++ tail) =
  (map PFrame bodies, (mr_init, mr_init, tail)).
Proof.
  induction bodies as [|b bs IH]; intros which tail Hl W.
  - destruct which; [reflexivity|discriminate].
  - destruct which as [|w which]; [discriminate|]. injection Hl as Hl.
    inversion W as [|? ? Hb Wr]; subst.
    unfold frames_of. cbn [map concat]. rewrite <- app_assoc. fold (frames_of bs).
    destruct w; cbn [pull_seq]; rewrite pull_exact by exact Hb; rewrite IH by assumption; reflexivity.
Qed.

(* premise: neither reader object takes more bytes from the stream than the frame it returns *)
Definition exact_reads (aheadA aheadB : nat) : Prop := aheadA = 0%nat /\ aheadB = 0%nat.

(* C13 for the production arrangement: reads alternate arbitrarily between the reader of the
   metadata stream and the reader of the data stream (in particular: header first, then
   messages); every read returns the next written item, in order, and nothing is left in either
   reader or in the stream *)
Theorem two_readers_roundtrip aheadA aheadB its which :
  exact_reads aheadA aheadB -> Forall item_ok its -> length which = length its ->
  exists rs,
    pull_seq aheadA aheadB which mr_init mr_init (stream_of its) = (rs, (mr_init, mr_init, [])) /\
    Forall2 (fun it r => exists fr, r = PFrame fr /\ delivered it fr) its rs /\
    rs = map PFrame (out (feed_all (stream_of its))).
Proof.
  intros [-> ->] W Hl.
  assert (Wb : Forall (fun b => len_of b <= max_msg) (map item_body its)).
  { apply Forall_forall. intros b Hin. apply in_map_iff in Hin. destruct Hin as (it & <- & Hin).
    rewrite Forall_forall in W. apply W. exact Hin. }
  exists (map PFrame (map item_body its)). split; [|split].
  - unfold stream_of. rewrite <- (app_nil_r (frames_of (map item_body its))).
    apply pull_seq_frames; [rewrite map_length; exact Hl|exact Wb].
  - clear - W. induction W as [|it its Hit _ IH]; cbn [map]; constructor; [|exact IH].
    exists (item_body it). split; [reflexivity|apply delivered_body; exact Hit].
  - unfold stream_of. rewrite feed_all_frames by exact Wb. reflexivity.
Qed.

(* without the premise the statement is false: a reader that reads ahead (a buffered reader under
   msgio) keeps the frame that follows the header when the two arrive together *)
Lemma two_readers_readahead_refuted :
  exists aheadA its,
    Forall item_ok its /\
    fst (pull_seq aheadA 0 [true; false] mr_init mr_init (stream_of its)) <> map (fun it => PFrame (item_body it)) its /\
    fst (pull_seq aheadA 0 [true; false] mr_init mr_init (stream_of its)) = [PFrame (x "0a050a016b1200"); PEnd].
Proof.
  exists 4096%nat, [IHdr (x "0a050a016b1200"); IMsg (x "0a03616263")].
  split; [repeat constructor; vm_compute; congruence|]. split; vm_compute; congruence.
Qed.

(* ---------------------------------------------------------------------------------------- *)
(* the checker accepts the model: an honest session in which the implementation behaves as the
   model says (every write puts frame(body) on the stream, every read returns the written item,
   then end of stream) has no violation, for every chunk pattern and header oracle *)
Section CheckerAcceptsModel.
  Variable canon : bytes -> bytes.       (* the driver's canonical form of a header payload *)

  Definition wop_of (it : item) : wop :=
    match it with IMsg m => WMsg (Some m) | IErr s => WStatus s | IHdr h => WHdr (Some h) (canon h) None end.
  Definition rop_of (it : item) : N := match it with IHdr _ => 1 | _ => 0 end.
  Definition robs_of (it : item) : robs :=
    match it with
    | IMsg m => OData m
    | IErr s => if (st_code s =? 0)%Z then OOkNoData else OStatus (st_code s) (st_msg s) (any_pairs s)
    | IHdr h => OHeader (canon h)
    end.
  Definition wseen_of (it : item) : wobs := WOk (frame (item_body it)).

  Lemma written_bytes_model its : written_bytes (map wseen_of its) = stream_of its.
  Proof.
    unfold stream_of, frames_of, written_bytes. induction its as [|it its IH]; [reflexivity|].
    cbn [map flat_map concat wseen_of]. rewrite IH. reflexivity.
  Qed.

  Lemma list_eqb_pairs_refl l : list_eqb pair_eqb l l = true.
  Proof.
    induction l as [|[a b] l IH]; [reflexivity|]. cbn [list_eqb]. unfold pair_eqb at 1. cbn [fst snd].
    rewrite !bytes_eqb_refl, IH. reflexivity.
  Qed.

  Lemma frame_clauses_model its : Forall item_ok its -> forall tl,
    frame_clauses (map item_body its) (map rop_of its ++ [0]) (map robs_of its ++ tl) = [].
  Proof.
    induction 1 as [|it its Hit _ IH]; intros tl; [destruct tl; reflexivity|].
    cbn [map app frame_clauses]. rewrite IH, app_nil_r.
    pose proof (delivered_body it Hit) as Hd.
    destruct it as [m|s|h]; unfold frame_clause; cbn [rop_of robs_of item_body delivered N.eqb] in *.
    - rewrite Hd. reflexivity.
    - rewrite Hd. destruct (st_code s =? 0)%Z; reflexivity.
    - reflexivity.
  Qed.

  Lemma expect_session_model all its : Forall item_ok its ->
    expect_session all (map wop_of its) (map wseen_of its) (map robs_of its ++ [OEOF]) = [].
  Proof.
    induction 1 as [|it its Hit _ IH]; [reflexivity|].
    cbn [map app expect_session wseen_of].
    assert (E : expect_item all (wop_of it) (robs_of it) = None).
    { destruct it as [m|s|h]; cbn [wop_of robs_of expect_item status_of_wop].
      - rewrite bytes_eqb_refl. reflexivity.
      - destruct (st_code s =? 0)%Z eqn:E0; [reflexivity|].
        unfold status_matches. rewrite Z.eqb_refl, bytes_eqb_refl, list_eqb_pairs_refl. reflexivity.
      - rewrite bytes_eqb_refl. reflexivity. }
    rewrite E. exact IH.
  Qed.

  Theorem checker_accepts_model its pat hdrs :
    Forall item_ok its ->
    violation (Session true (map wop_of its) (map wseen_of its) None pat
                       (map rop_of its ++ [0]) (map robs_of its ++ [OEOF]) hdrs true) = [].
  Proof.
    intros W. cbn [violation session_stream]. rewrite written_bytes_model.
    assert (Wb : Forall (fun b => len_of b <= max_msg) (map item_body its)).
    { apply Forall_forall. intros b Hin. apply in_map_iff in Hin. destruct Hin as (it & <- & Hin).
      rewrite Forall_forall in W. apply W. exact Hin. }
    unfold stream_of. rewrite feed_all_frames by exact Wb. cbn [out].
    rewrite frame_clauses_model by exact W. rewrite expect_session_model by exact W. reflexivity.
  Qed.
End CheckerAcceptsModel.

(* an error member with code OK: ReadMsg returns nil and leaves the caller's message untouched *)
Theorem ok_status_reads_as_nothing s :
  st_code s = 0%Z -> status_marshal_ok s = true -> len_of (enc_streammsg (BError s)) <= max_msg ->
  read_msg (enc_streammsg (BError s)) = ROkNoData.
Proof.
  intros H0 Hm Hl. rewrite read_msg_error; [rewrite H0; reflexivity| |exact Hm|exact Hl].
  unfold int32_range. rewrite H0. lia.
Qed.

(* ---------------------------------------------------------------------------------------- *)
(* callers: delivery needs "no read is abandoned"                                             *)
Lemma serve_no_abandon reqs : forall frames,
  no_abandon reqs = true -> length reqs = length frames -> serve reqs frames = (frames, []).
Proof.
  induction reqs as [|r reqs IH]; intros frames Hn Hl.
  - destruct frames; [reflexivity|discriminate].
  - destruct frames as [|f fs]; [discriminate|]. injection Hl as Hl.
    destruct r; [|discriminate]. cbn [no_abandon forallb] in Hn. cbn [serve].
    rewrite IH by assumption. reflexivity.
Qed.

Lemma Forall2_len {A B} (R : A -> B -> Prop) a b : Forall2 R a b -> length a = length b.
Proof. induction 1; cbn; congruence. Qed.

(* order/delivery as the callers see it, with the explicit premise that no read is abandoned:
   one ReadMsg/ReadHeader call per written item, each running to completion, under any chunking *)
Theorem callers_roundtrip its cs reqs :
  Forall item_ok its -> concat cs = stream_of its ->
  no_abandon reqs = true -> length reqs = length its ->
  exists got, serve reqs (out (feed_chunks cs)) = (got, []) /\ Forall2 delivered its got.
Proof.
  intros W E Hn Hl. destruct (session_roundtrip its cs W E) as (_ & _ & HF).
  exists (out (feed_chunks cs)). split; [|exact HF].
  apply serve_no_abandon; [exact Hn|]. rewrite Hl. eapply Forall2_len. exact HF.
Qed.

(* without the premise it fails: a read given up before its frame arrived takes the first
   message with it; the next read returns the second message written, the first is never seen *)
Lemma abandoned_read_loses_refuted :
  exists its cs reqs,
    Forall item_ok its /\ concat cs = stream_of its /\ length reqs = S (length (fst (serve reqs (out (feed_chunks cs))))) /\
    serve reqs (out (feed_chunks cs)) = ([item_body (IMsg (x "0a0374776f"))], [item_body (IMsg (x "0a036f6e65"))]) /\
    fst (serve reqs (out (feed_chunks cs))) <> map item_body (firstn 1 its).
Proof.
  exists [IMsg (x "0a036f6e65"); IMsg (x "0a0374776f")],
         [stream_of [IMsg (x "0a036f6e65"); IMsg (x "0a0374776f")]], [ReqAbandoned; ReqRead].
  split; [repeat constructor; vm_compute; congruence|].
  split; [cbn [concat]; apply app_nil_r|]. split; [vm_compute; reflexivity|].
  split; [vm_compute; reflexivity|].
  vm_compute. discriminate.
Qed.

(* an abandoned WRITE is still written: all calls, given up or not, reach the reader in order *)
Theorem given_up_writes_still_arrive ws cs :
  Forall (fun w => len_of (enc_streammsg (BData (snd w))) <= max_msg) ws ->
  concat cs = concat (wire_of_calls ws) ->
  map read_msg (out (feed_chunks cs)) = map (fun w => RData (snd w)) ws.
Proof.
  intros W E.
  destruct (frames_roundtrip (map (fun w => enc_streammsg (BData (snd w))) ws) cs) as (Ho & _ & _).
  - apply Forall_forall. intros b Hin. apply in_map_iff in Hin. destruct Hin as (w & <- & Hin).
    rewrite Forall_forall in W. apply W. exact Hin.
  - rewrite E. unfold frames_of, wire_of_calls. rewrite map_map. reflexivity.
  - rewrite Ho, map_map. clear - W. induction W as [|w ws Hw _ IH]; [reflexivity|].
    cbn [map]. rewrite read_msg_data by exact Hw. rewrite IH. reflexivity.
Qed.

(* an error member with code OK: the call returns nil and the destination is not touched, i.e.
   the caller cannot tell it from a successfully read message that happens to equal what the
   destination already held (outside the property: it speaks of non-OK statuses) *)
Theorem ok_error_frame_view inner_ok s :
  st_code s = 0%Z -> status_marshal_ok s = true -> len_of (enc_streammsg (BError s)) <= max_msg ->
  view_of inner_ok (read_msg (enc_streammsg (BError s))) = {| returns_nil := true; dest_touched := false |}.
Proof. intros H0 Hm Hl. rewrite ok_status_reads_as_nothing by assumption. reflexivity. Qed.

(* conversely a call returns nil only for a data member or an OK-coded error member *)
Theorem returns_nil_only fr inner_ok :
  returns_nil (view_of inner_ok (read_msg fr)) = true ->
  (exists d, read_msg fr = RData d) \/ read_msg fr = ROkNoData.
Proof. destruct (read_msg fr) eqn:E; cbn; intros H; try discriminate; [left; eexists; reflexivity|right; reflexivity]. Qed.

(* ---------------------------------------------------------------------------------------- *)
(* the checker accepts every case whose observation agrees with the model: the other case kinds *)
From Coq Require Import Permutation.

(* chunking by a cycled pattern loses nothing *)
Lemma chunk_cycle_concat fuel : forall pat cur l, concat (chunk_cycle fuel pat cur l) = l.
Proof.
  induction fuel as [|k IH]; intros pat cur l; cbn [chunk_cycle concat]; [apply app_nil_r|].
  destruct l as [|b l]; [reflexivity|].
  destruct cur as [|c cur'].
  - destruct pat as [|p pat']; [cbn [concat]; apply app_nil_r|apply IH].
  - cbn [concat]. rewrite IH. apply firstn_skipn.
Qed.

Lemma chunks_of_concat pat l : concat (chunks_of pat l) = l.
Proof. apply chunk_cycle_concat. Qed.

Lemma reads_agree_no_frame_clause hdrs e frames : forall rops os,
  reads_agree hdrs e frames rops os = true -> frame_clauses frames rops os = [].
Proof.
  induction frames as [|fr frames IH]; intros rops os H; [reflexivity|].
  destruct rops as [|op rops]; [discriminate|]. destruct os as [|o os]; [discriminate|].
  cbn [reads_agree] in H. apply andb_prop in H. destruct H as [Ha Hr].
  cbn [frame_clauses]. rewrite (IH _ _ Hr), app_nil_r.
  unfold frame_clause. destruct (op =? 0) eqn:E; [|reflexivity].
  apply N.eqb_eq in E. subst op. cbn [N.eqb] in Ha.
  pose proof (agreeing_read_no_frame_violation fr o Ha) as Hv. unfold frame_clause in Hv. cbn [N.eqb] in Hv. exact Hv.
Qed.

(* sessions that are not honest round trips (hostile streams, mixed read kinds) *)
Theorem checker_accepts_agreeing_dishonest wops wseen stream pat rops rseen hdrs typed_ok :
  agrees (Session false wops wseen stream pat rops rseen hdrs typed_ok) = true ->
  violation (Session false wops wseen stream pat rops rseen hdrs typed_ok) = [].
Proof.
  cbn [agrees violation]. intros H. apply andb_prop in H. destruct H as [_ Hr].
  rewrite app_nil_r.
  destruct (chunking (chunks_of pat (session_stream wseen stream))) as (Ho & _ & _).
  rewrite chunks_of_concat in Ho. rewrite <- Ho.
  eapply reads_agree_no_frame_clause. exact Hr.
Qed.

(* end-to-end handler errors *)
Theorem checker_accepts_agreeing_e2e e o :
  agrees (E2E e o) = true -> violation (E2E e o) = [].
Proof.
  cbn [agrees violation]. unfold e2e_expect. destruct e as [h|]; [|reflexivity].
  destruct (status_marshal_ok (status_of_herr h)); [|reflexivity].
  destruct (st_code (status_of_herr h) =? 0)%Z; [reflexivity|]. cbn [negb andb].
  destruct o; try discriminate. intros ->. reflexivity.
Qed.

(* near-limit frames; the model predicts equal payloads (req = true) *)
Theorem checker_accepts_agreeing_big n whead wlen racc rlen :
  agrees (Big n whead wlen racc rlen true) = true -> violation (Big n whead wlen racc rlen true) = [].
Proof.
  cbn [agrees violation]. intros H.
  apply andb_prop in H. destruct H as [H Hl]. apply andb_prop in H. destruct H as [_ Hacc].
  apply Bool.eqb_prop in Hacc. subst racc.
  destruct (data_frame_accepted n); [|reflexivity]. rewrite Hl. reflexivity.
Qed.

(* writes behind a stalled peer *)
Lemma remove_one_spec y : forall b b', remove_one y b = Some b' ->
  exists l1 l2, b = l1 ++ y :: l2 /\ b' = l1 ++ l2.
Proof.
  induction b as [|z b IH]; intros b' H; [discriminate|]. cbn [remove_one] in H.
  destruct (bytes_eqb y z) eqn:E.
  - apply bytes_eqb_eq in E. subst z. injection H as <-. exists [], b. split; reflexivity.
  - destruct (remove_one y b) as [r|] eqn:Er; [|discriminate]. injection H as <-.
    destruct (IH r eq_refl) as (l1 & l2 & -> & ->). exists (z :: l1), l2. split; reflexivity.
Qed.

Lemma perm_b_sound a : forall b, perm_b a b = true -> Permutation a b.
Proof.
  induction a as [|y a IH]; intros b H; cbn [perm_b] in H.
  - destruct b; [constructor|discriminate].
  - destruct (remove_one y b) as [b'|] eqn:E; [|discriminate].
    destruct (remove_one_spec y b b' E) as (l1 & l2 & -> & ->).
    apply Permutation_cons_app. apply IH. exact H.
Qed.

Lemma count_b_perm x a b : Permutation a b -> count_b x a = count_b x b.
Proof. induction 1; cbn [count_b]; lia. Qed.

Lemma count_b_in x l : In x l -> (1 <= count_b x l)%nat.
Proof.
  induction l as [|y l IH]; intros H; [destruct H|]. cbn [count_b].
  destruct H as [->|H]; [rewrite bytes_eqb_refl; lia|]. specialize (IH H). lia.
Qed.

Theorem checker_accepts_agreeing_stalled inners calls wire :
  Forall (fun i => len_of (data_body i) <= max_msg) inners ->
  agrees (StalledWrites inners calls wire) = true -> violation (StalledWrites inners calls wire) = [].
Proof.
  intros W H. cbn [agrees] in H.
  apply andb_prop in H. destruct H as [H _]. apply andb_prop in H. destruct H as [_ Hp].
  apply perm_b_sound in Hp.
  assert (Hp' : Permutation wire (map frame (map data_body inners))).
  { rewrite map_map. symmetry. exact Hp. }
  destruct (Permutation_map_inv _ _ Hp') as (bs & -> & Hpb).
  assert (Wb : Forall (fun b => len_of b <= max_msg) bs).
  { apply Forall_forall. intros b Hin. apply (Permutation_in _ (Permutation_sym Hpb)) in Hin.
    apply in_map_iff in Hin. destruct Hin as (i & <- & Hin). rewrite Forall_forall in W. apply W. exact Hin. }
  cbn [violation]. fold (frames_of bs). rewrite feed_all_frames by exact Wb. cbn [out].
  assert (E1 : forallb (fun f => Nat.leb 1 (count_b f (map data_body inners)) &&
                                 Nat.leb (count_b f bs) (count_b f (map data_body inners))) bs = true).
  { apply forallb_forall. intros f Hin. apply andb_true_intro. split; apply Nat.leb_le.
    - apply count_b_in. apply (Permutation_in _ (Permutation_sym Hpb)). exact Hin.
    - rewrite (count_b_perm f _ _ Hpb). lia. }
  assert (E2 : forallb (fun b => Nat.leb 1 (count_b b bs))
                 (flat_map (fun ic => if snd ic =? 0 then [data_body (fst ic)] else []) (combine inners calls)) = true).
  { apply forallb_forall. intros b Hin. apply Nat.leb_le. apply count_b_in.
    apply (Permutation_in _ Hpb). apply in_flat_map in Hin. destruct Hin as ([i c] & Hic & Hb).
    cbn [fst snd] in Hb. destruct (c =? 0); [|destruct Hb]. destruct Hb as [<-|[]].
    apply in_map. eapply in_combine_l. exact Hic. }
  rewrite E1, E2. reflexivity.
Qed.

(* abandoned reads: inner payloads as protobuf-go marshals them (their unknown-field image is
   themselves) and within the size limit *)
Definition canonical_inner (i : bytes) : Prop := unknown_of i = TOk i /\ len_of (data_body i) <= max_msg.

Lemma all2_abandon inners : Forall canonical_inner inners -> forall got,
  all2 readmsg_agrees (map data_body inners) got = true ->
  all2 (fun i o => match o with OData u => bytes_eqb u i | _ => false end) inners got = true.
Proof.
  induction 1 as [|i inners [Hc Hl] _ IH]; intros got H; destruct got as [|o got]; try discriminate; [reflexivity|].
  cbn [map all2] in *. apply andb_prop in H. destruct H as [Ha Hr]. rewrite (IH _ Hr), andb_true_r.
  unfold readmsg_agrees, data_body in Ha. rewrite read_msg_data in Ha by exact Hl. rewrite Hc in Ha.
  destruct o; try discriminate. apply bytes_eqb_eq in Ha. subst. apply bytes_eqb_refl.
Qed.

Theorem checker_accepts_agreeing_abandon inners reqs got :
  Forall canonical_inner inners ->
  agrees (Abandon inners reqs got) = true -> violation (Abandon inners reqs got) = [].
Proof.
  intros W H. cbn [agrees violation] in *. apply andb_prop in H. destruct H as [Hl Ha].
  destruct (no_abandon (map req_of reqs)) eqn:Hn; [|reflexivity].
  apply Nat.eqb_eq in Hl.
  rewrite serve_no_abandon in Ha; [|exact Hn|rewrite !map_length; symmetry; exact Hl].
  cbn [fst] in Ha. rewrite (all2_abandon inners W got Ha). reflexivity.
Qed.

(* all of it at the level of [violations]: a list of cases of these kinds, each agreeing with the
   model, is reported clean.  Honest sessions are covered by [checker_accepts_model] in the form
   the model itself produces them. *)
Definition covered (c : cbody) : Prop :=
  match c with
  | Session honest _ _ _ _ _ _ _ _ => honest = false
  | Big _ _ _ _ _ req => req = true
  | E2E _ _ => True
  | Abandon inners _ _ => Forall canonical_inner inners
  | StalledWrites inners _ _ => Forall (fun i => len_of (data_body i) <= max_msg) inners
  | WireEnc m got back =>       (* the clause is on the implementation's bytes alone *)
      wire_back_ok m back = true /\ match got with Some b => spec_reads m b = true | None => True end
  | WireDec _ _ _ => True
  end.

Theorem agreeing_case_no_violation c : covered c -> agrees c = true -> violation c = [].
Proof.
  destruct c as [honest wops wseen stream pat rops rseen hdrs typed_ok|n whead wlen racc rlen req|e o|inners reqs got|inners calls wire|m got back|k input got];
    cbn [covered]; intros Hc Ha.
  - subst honest. apply checker_accepts_agreeing_dishonest. exact Ha.
  - subst req. apply checker_accepts_agreeing_big. exact Ha.
  - apply checker_accepts_agreeing_e2e. exact Ha.
  - apply checker_accepts_agreeing_abandon; assumption.
  - apply checker_accepts_agreeing_stalled; assumption.
  - cbn [violation]. destruct Hc as [Hb Hs]. destruct got; [rewrite Hb, Hs|]; reflexivity.
  - reflexivity.
Qed.

Theorem violations_silent_on_agreeing cs :
  Forall (fun c => covered (cb c)) cs -> mismatches cs = [] -> violations cs = [].
Proof.
  unfold mismatches, violations. induction 1 as [|c cs Hc _ IH]; intros Hm; [reflexivity|].
  cbn [filter map flat_map] in *.
  destruct (agrees (cb c)) eqn:Ea; cbn [negb] in Hm; [|discriminate].
  rewrite (agreeing_case_no_violation _ Hc Ea). cbn [app]. apply IH. exact Hm.
Qed.

(* non-vacuity: concrete agreeing cases of every covered kind *)
Example ex_covered_cases :
  let cs := [
    {| id := 0; cb := Session false [] [] (Some (x "000000021807" ++ x "0000000a120808021204626f6f6d")) [3] [0; 0; 0]
                        [OReject; OStatus 2 (x "626f6f6d") []; OEOF] [] true |};
    {| id := 1; cb := Big 8388603 (x "008000000afbffff03") 8388612 true 8388603 true |};
    {| id := 2; cb := Big 8388604 (x "008000010afcffff03") 8388613 false 0 true |};
    {| id := 3; cb := E2E (Some (HPlain (x "626f6f6d"))) (OStatus 2 (x "626f6f6d") []) |};
    {| id := 4; cb := E2E None OEOF |};
    {| id := 5; cb := Abandon [x "0a016f"; x "0a0174"] [1; 0] [OData (x "0a0174")] |};
    {| id := 6; cb := Abandon [x "0a016f"; x "0a0174"] [0; 0] [OData (x "0a016f"); OData (x "0a0174")] |};
    {| id := 7; cb := StalledWrites [x "0a016f"; x "0a0174"; x "0a0175"] [1; 1; 0]
                        [x "000000050a030a016f"; x "000000050a030a0175"; x "000000050a030a0174"] |} ] in
  Forall (fun c => covered (cb c)) cs /\ mismatches cs = [] /\ violations cs = [].
Proof.
  cbv zeta. split; [|split; vm_compute; reflexivity].
  repeat constructor; try (vm_compute; congruence).
Qed.
