(* C05 o C15: the providers SendBid contacts are the topology's provider view.

   model/PreconfBidder.v (C05) takes the set of connected peers as a free list [view]; in the node
   the preconfirmation protocol asks the Topology of C15 (anchor c05_getpeers_query:
   GetPeers(topology.Query{Type: p2p.PeerTypeProvider})).  Here [view] is instantiated with the state
   of model/Topology.v after an arbitrary event history: every peer of the topology's two maps,
   with the per-peer script (what that provider's stream will do) supplied from outside. *)
From Coq Require Import String List NArith ZArith Bool.
From MevVerif Require Import lib.Bytes gen.Generated.
From MevVerif Require model.Topology model.PreconfBidder proofs.Topology_proofs proofs.PreconfBidder_proofs.
Import ListNotations.
Open Scope N_scope.

Module T := Topology.
Module B := PreconfBidder.

(* the wire form of an address and the scripted behaviour of the peer's stream *)
Definition lift (ty : B.peer_type) (script : T.peer -> B.reply * N) (q : T.peer) : B.peer :=
  B.mkPeer (T.addr_bytes (T.p_addr q)) ty (fst (script q)) (snd (script q)).

(* everything the topology holds, as the bidder protocol sees it *)
Definition node_view (script : T.peer -> B.reply * N) (s : T.state) : list B.peer :=
  map (lift B.TProvider script) (T.get_peers T.ROLE_PROVIDER s)
  ++ map (lift B.TBidder script) (T.get_peers T.ROLE_BIDDER s).

Lemma providers_of_node_view script s :
  B.get_peers B.TProvider (node_view script s) = map (lift B.TProvider script) (T.get_peers T.ROLE_PROVIDER s).
Proof.
  unfold node_view, B.get_peers. rewrite filter_app.
  assert (H1 : forall l, filter (fun p => B.peer_type_eqb (B.p_type p) B.TProvider) (map (lift B.TProvider script) l)
                         = map (lift B.TProvider script) l)
    by (induction l as [|q l IH]; cbn; [reflexivity|rewrite IH; reflexivity]).
  assert (H2 : forall l, filter (fun p => B.peer_type_eqb (B.p_type p) B.TProvider) (map (lift B.TBidder script) l) = [])
    by (induction l as [|q l IH]; cbn; [reflexivity|exact IH]).
  rewrite H1, H2, app_nil_r. reflexivity.
Qed.

(* SendBid after any topology history: one stream attempt per provider that is live in the
   history (connected / added / proven by a completed dial and not since disconnected), addressed
   by that provider's 20-byte address, in the order GetPeers returned them; nobody else is
   contacted; what is written is the signed bid, exactly when the stream opened. *)
Theorem fanout_uses_view tr o a script evs D r :
  B.send_bid_op tr o a (node_view script (T.run evs)) D = B.XRun r ->
  Forall2 (fun q ct => fst ct = T.addr_bytes (T.p_addr q)
                       /\ snd ct = if PreconfBidder_proofs.opens_stream_op tr D (lift B.TProvider script q) then [B.xr_sent r] else [])
          (T.get_peers T.ROLE_PROVIDER (T.run evs)) (B.xr_contacted r)
  /\ (forall a0, In (T.mkPeer a0 T.ROLE_PROVIDER) (T.get_peers T.ROLE_PROVIDER (T.run evs))
                 <-> Topology_proofs.live a0 T.ROLE_PROVIDER evs)
  /\ (forall q, In q (T.get_peers T.ROLE_PROVIDER (T.run evs)) -> T.p_role q = T.ROLE_PROVIDER)
  /\ NoDup (map T.p_addr (T.get_peers T.ROLE_PROVIDER (T.run evs))).
Proof.
  intros H. destruct (PreconfBidder_proofs.op_fanout _ _ _ _ _ _ H) as (_ & F & _).
  rewrite providers_of_node_view in F. split.
  - revert F. generalize (B.xr_contacted r). induction (T.get_peers T.ROLE_PROVIDER (T.run evs)) as [|q qs IH];
      intros cs F; inversion F; subst; constructor; auto.
  - split; [intros a0; apply Topology_proofs.view_exact; left; reflexivity|].
    split; [intros q; apply Topology_proofs.view_role_of|apply Topology_proofs.view_nodup].
Qed.

(* the query is the one the source makes *)
Lemma query_is_provider_view :
  c05_getpeers_query = [[bos "topology.Query{Type: p2p.PeerTypeProvider}"]].
Proof. exact PreconfBidder_proofs.c05_src_query. Qed.
