(* C14 o C15: the topology view only holds peers that the peer registry registered.

   model/Topology.v (C15) takes its inputs -- Notifier.Connected / Disconnected, the results of the discovery
   worker's Connect calls -- as free events.  In the node they are produced by the libp2p Service, whose peer
   registry is model/PeerRegistry.v (C14):
     Notifier.Connected(p)     only by handleConnectReq, after addPeer answered "new"     (libp2p.go)
     Notifier.Disconnected(p)  only by the registry's disconnect notification (Service.disconnected)
     topo.AddPeers(p)          only by the discovery worker, with the peer Service.Connect returned
   (no other caller of these three methods exists in pkg/; the joint machine below has no other source either).
   The joint machine runs the registry and emits the topology's events from the registry's own answers. *)
From Coq Require Import List NArith ZArith Bool Lia.
From MevVerif Require Import lib.Bytes gen.Generated.
From MevVerif Require model.PeerRegistry model.Topology proofs.PeerRegistry_proofs proofs.Topology_proofs.
Import ListNotations.
Open Scope N_scope.

Module PR := MevVerif.model.PeerRegistry.
Module PRP := MevVerif.proofs.PeerRegistry_proofs.
Module TP := MevVerif.model.Topology.
Module TPP := MevVerif.proofs.Topology_proofs.

(* p2p.Peer as the registry stores it and as the topology receives it: the same (address, type) *)
Definition tpeer (pe : PR.peer) : TP.peer := TP.mkPeer (PR.p_addr pe) (PR.p_role pe).

Inductive jev :=
| JInbound (c : PR.conn) (pe : PR.peer) (closed : bool) (lk : list (TP.peer * bytes)) (ann : list (TP.peer * N))
    (* handleConnectReq after a completed handshake: addPeer; notifier.Connected when it answered "new" *)
| JDiscoveryConnect (u : bytes) (c : PR.conn) (pe : PR.peer) (closed : bool)
    (* the discovery worker's Connect(u), handshake completed with record pe on connection c: isConnected
       short cut / addPeer / getPeer test; the worker calls topo.AddPeers with what Connect returned *)
| JDiscoveryConnectFails (u : bytes)           (* that Connect failed earlier (dial, handshake): error *)
| JOtherConnect (c : PR.conn) (pe : PR.peer) (closed : bool)
    (* Connect called by anybody else (bootstrap): same registry effect, the result does not reach the topology *)
| JClosed (c : PR.conn)                        (* the network reports the connection closed *)
| JGossip (from : TP.peer) (readok : bool) (entries : list TP.wire_record)   (* a peer list arrives *)
| JRegistryOnly (e : PR.event).                (* stream-wrapper steps, blockPeer: no Enrol / ConnClosed *)

(* the registry effect of Service.Connect as registry events (C14_connect_state) *)
Definition connect_events (r : PR.reg) (c : PR.conn) (pe : PR.peer) (closed : bool) : list PR.event :=
  match PR.is_connected r (PR.remote c) with Some _ => [] | None => [PR.Enrol c pe closed] end.

Definition registry_only (e : PR.event) : bool :=
  match e with PR.Enrol _ _ _ | PR.ConnClosed _ => false | _ => true end.

(* the disconnect notifications a step appended (oldest first) *)
Definition new_notes (r r' : PR.reg) : list PR.peer := skipn (length (PR.notes r)) (PR.notes r').

(* one joint step in registry state r: the registry events performed and the topology events emitted *)
Definition jemit (r : PR.reg) (j : jev) : list PR.event * list TP.event :=
  match j with
  | JInbound c pe closed lk ann =>
      ([PR.Enrol c pe closed],
       if PR.inbound_announces r c pe closed then [TP.Connected (tpeer pe) lk ann] else [])
  | JDiscoveryConnect u c pe closed =>
      (connect_events r c pe closed, [TP.ConnectDone u (option_map tpeer (snd (PR.connect r c pe closed)))])
  | JDiscoveryConnectFails u => ([], [TP.ConnectDone u None])
  | JOtherConnect c pe closed => (connect_events r c pe closed, [])
  | JClosed c =>
      ([PR.ConnClosed c], map (fun pe => TP.Disconnected (tpeer pe)) (new_notes r (PR.step r (PR.ConnClosed c))))
  | JGossip from ok entries => ([], [TP.Gossip from ok entries])
  | JRegistryOnly e => (if registry_only e then [e] else [], [])
  end.

Definition jstep (st : list PR.event * list TP.event) (j : jev) : list PR.event * list TP.event :=
  let '(re, te) := jemit (PR.run (fst st)) j in (fst st ++ re, snd st ++ te).
Definition jrun (js : list jev) : list PR.event * list TP.event := fold_left jstep js ([], []).
Definition revents (js : list jev) : list PR.event := fst (jrun js).
Definition tevents (js : list jev) : list TP.event := snd (jrun js).

(* the peer a topology event puts into the view, if any (AddPeers from outside is never emitted) *)
Definition added_by (e : TP.event) : option TP.peer :=
  match e with
  | TP.Connected p _ _ => Some p
  | TP.ConnectDone _ (Some p) => Some p
  | _ => None
  end.

Lemma jrun_snoc js j : jrun (js ++ [j]) = jstep (jrun js) j.
Proof. unfold jrun. rewrite fold_left_app. reflexivity. Qed.

Lemma revents_snoc js j : revents (js ++ [j]) = revents js ++ fst (jemit (PR.run (revents js)) j).
Proof. unfold revents. rewrite jrun_snoc. unfold jstep. destruct (jemit _ j). reflexivity. Qed.
Lemma tevents_snoc js j : tevents (js ++ [j]) = tevents js ++ snd (jemit (PR.run (revents js)) j).
Proof. unfold tevents, revents. rewrite jrun_snoc. unfold jstep. destruct (jemit _ j). reflexivity. Qed.

Lemma revents_app_prefix pre post : exists tail, revents (pre ++ post) = revents pre ++ tail.
Proof.
  induction post as [|j post IH] using rev_ind; [exists []; rewrite !app_nil_r; reflexivity|].
  destruct IH as (tail & E). rewrite app_assoc, revents_snoc, E. eexists. rewrite <- app_assoc. reflexivity.
Qed.

(* the connect step is the registry run of its events *)
Lemma connect_is_run evs c pe closed :
  fst (PR.connect (PR.run evs) c pe closed) = PR.run (evs ++ connect_events (PR.run evs) c pe closed).
Proof.
  unfold connect_events, PR.connect, PR.connect_with.
  destruct (PR.is_connected (PR.run evs) (PR.remote c)); [rewrite app_nil_r; reflexivity|].
  rewrite PRP.run_snoc. unfold PR.step, PR.step_with.
  destruct (PR.add_peer (PR.run evs) c pe closed) as [r' ex]. cbn [fst]. destruct (_ && _ && _); reflexivity.
Qed.

(* Service.Connect hands its caller exactly the record the registry holds for that peer id when it returns *)
Lemma connect_returns_entry evs c pe closed pe' :
  PR.wf evs -> snd (PR.connect (PR.run evs) c pe closed) = Some pe' ->
  PR.get (PR.remote c) (PR.overlays (fst (PR.connect (PR.run evs) c pe closed))) = Some pe'.
Proof.
  intros W0 R.
  pose proof (PRP.is_connected_iff_registered evs (PR.remote c) W0) as Hic.
  unfold PR.connect, PR.connect_with in R |- *. replace Generated.c14_connect_checks_registered with true in * by reflexivity.
  destruct (PR.is_connected (PR.run evs) (PR.remote c)) as [pe0|] eqn:E.
  - cbn [fst snd] in *. injection R as <-. rewrite <- Hic. reflexivity.
  - symmetry in Hic. unfold PR.add_peer in *. destruct closed.
    + cbn [fst snd andb] in *. unfold PR.has in R. rewrite Hic in R. cbn in R. discriminate.
    + unfold PR.add_peer_open in *. destruct (PR.has (PR.p_addr pe) (PR.underlays (PR.run evs))) eqn:Hu; cbn [fst snd andb PR.overlays] in *.
      * unfold PR.has in R. rewrite Hic in R. cbn in R. discriminate.
      * injection R as <-. apply PRP.get_put_same.
Qed.

(* ---- one step: whoever is added to the view is registered, with that very record, after the step --------- *)
Theorem step_adds_registered evs j e q :
  PR.wf (evs ++ fst (jemit (PR.run evs) j)) ->
  In e (snd (jemit (PR.run evs) j)) -> added_by e = Some q ->
  exists p pe, PR.get p (PR.overlays (PR.run (evs ++ fst (jemit (PR.run evs) j)))) = Some pe /\ tpeer pe = q.
Proof.
  destruct j as [c pe closed lk ann|u c pe closed|u|c pe closed|c|from ok entries|e0]; cbn [jemit fst snd]; intros W Hin Ha.
  - destruct (PR.inbound_announces (PR.run evs) c pe closed) eqn:A; [|destruct Hin].
    destruct Hin as [<-|[]]. cbn in Ha. injection Ha as <-.
    destruct (PRP.announce_details evs c pe closed W A) as (_ & Hg & _). exists (PR.remote c), pe. split; [exact Hg|reflexivity].
  - destruct Hin as [<-|[]]. cbn [added_by] in Ha.
    destruct (snd (PR.connect (PR.run evs) c pe closed)) as [pe'|] eqn:R; cbn [option_map] in Ha; [|discriminate].
    injection Ha as <-. exists (PR.remote c), pe'. split; [|reflexivity].
    rewrite <- connect_is_run.
    assert (W0 : PR.wf evs) by (eapply PRP.wf_prefix; exact W).
    exact (connect_returns_entry evs c pe closed pe' W0 R).
  - destruct Hin as [<-|[]]. discriminate.
  - destruct Hin.
  - apply in_map_iff in Hin. destruct Hin as (pe & <- & _). discriminate.
  - destruct Hin as [<-|[]]. discriminate.
  - destruct Hin.
Qed.

(* ---- whole histories ------------------------------------------------------------------------------------ *)
Lemma emitted_origin js e :
  In e (tevents js) ->
  exists pre j post, js = pre ++ j :: post /\ In e (snd (jemit (PR.run (revents pre)) j)).
Proof.
  induction js as [|j js IH] using rev_ind; [intros []|].
  rewrite tevents_snoc. intros H. apply in_app_or in H. destruct H as [H|H].
  - destruct (IH H) as (pre & j0 & post & -> & Hin). exists pre, j0, (post ++ [j]).
    split; [rewrite <- app_assoc; reflexivity|exact Hin].
  - exists js, j, []. split; [reflexivity|exact H].
Qed.

Lemma emitted_never_addpeers r j ps : ~ In (TP.AddPeers ps) (snd (jemit r j)).
Proof.
  destruct j; cbn [jemit snd]; intros H.
  - destruct (PR.inbound_announces r c pe closed); [destruct H as [H|[]]; discriminate|destruct H].
  - destruct H as [H|[]]; discriminate.
  - destruct H as [H|[]]; discriminate.
  - destruct H.
  - apply in_map_iff in H. destruct H as (pe & H & _). discriminate.
  - destruct H as [H|[]]; discriminate.
  - destruct H.
Qed.

(* Every peer the topology reports (GetPeers / IsConnected / the debug API) was put there by a joint step --
   an inbound handshake whose addPeer answered "new", or a Connect of the discovery worker that returned it --
   and at the end of that very step the registry held exactly that (address, type) record for the peer. *)
Theorem view_only_registered js a r :
  PR.wf (revents js) -> TPP.is_role r ->
  In (TP.mkPeer a r) (TP.get_peers r (TP.run (tevents js))) ->
  exists pre j post e p pe,
    js = pre ++ j :: post /\
    In e (snd (jemit (PR.run (revents pre)) j)) /\ added_by e = Some (TP.mkPeer a r) /\
    PR.get p (PR.overlays (PR.run (revents (pre ++ [j])))) = Some pe /\
    PR.p_addr pe = a /\ PR.p_role pe = r /\
    PR.registered (PR.run (revents (pre ++ [j]))) p = true.
Proof.
  intros W Hr Hin. apply (TPP.view_exact _ _ _ Hr) in Hin.
  destruct Hin as (pre_t & e & post_t & Et & Hadd & _).
  assert (He : In e (tevents js)) by (rewrite Et; apply in_or_app; right; left; reflexivity).
  destruct (emitted_origin js e He) as (pre & j & post & -> & Hem).
  assert (Ha : added_by e = Some (TP.mkPeer a r)).
  { destruct e as [p lk ann|ps|p|from ok entries|u res]; cbn [TP.adds_of] in Hadd; try (destruct Hadd; fail).
    - destruct Hadd as [<-|[]]. reflexivity.
    - exfalso. exact (emitted_never_addpeers _ _ _ Hem).
    - destruct res as [p|]; [|destruct Hadd]. destruct (TP.in_flight u (TP.run pre_t)); [|destruct Hadd].
      destruct Hadd as [<-|[]]. reflexivity. }
  assert (Wp : PR.wf (revents (pre ++ [j]))).
  { destruct (revents_app_prefix (pre ++ [j]) post) as (tail & E).
    rewrite <- app_assoc in E. cbn [app] in E. rewrite E in W. eapply PRP.wf_prefix. exact W. }
  rewrite revents_snoc in Wp.
  destruct (step_adds_registered (revents pre) j e _ Wp Hem Ha) as (p & pe & Hg & Ht).
  exists pre, j, post, e, p, pe. rewrite revents_snoc. split; [reflexivity|]. split; [exact Hem|]. split; [exact Ha|].
  split; [exact Hg|]. unfold tpeer in Ht. injection Ht as H1 H2. split; [exact H1|]. split; [exact H2|].
  unfold PR.registered, PR.has. rewrite Hg. reflexivity.
Qed.

(* the worker's AddPeers in particular (C15_gossip_origin gives its gossip provenance): the peer it adds is the one
   Service.Connect returned, and Connect returns a peer only if the registry holds it (C14_connect_success_registered) *)
Theorem worker_add_registered js pre j post u q :
  PR.wf (revents js) -> js = pre ++ j :: post ->
  In (TP.ConnectDone u (Some q)) (snd (jemit (PR.run (revents pre)) j)) ->
  exists c pe closed pe',
    j = JDiscoveryConnect u c pe closed /\ snd (PR.connect (PR.run (revents pre)) c pe closed) = Some pe' /\
    tpeer pe' = q /\
    PR.get (PR.remote c) (PR.overlays (PR.run (revents (pre ++ [j])))) = Some pe'.
Proof.
  intros W -> Hin.
  assert (Wp : PR.wf (revents (pre ++ [j]))).
  { destruct (revents_app_prefix (pre ++ [j]) post) as (tail & E).
    rewrite <- app_assoc in E. cbn [app] in E. rewrite E in W. eapply PRP.wf_prefix. exact W. }
  destruct j as [c pe closed lk ann|u0 c pe closed|u0|c pe closed|c|from ok entries|e0]; cbn [jemit snd] in Hin.
  - destruct (PR.inbound_announces _ c pe closed); [destruct Hin as [H|[]]; discriminate|destruct Hin].
  - destruct Hin as [H|[]]. injection H as -> H.
    destruct (snd (PR.connect (PR.run (revents pre)) c pe closed)) as [pe'|] eqn:R; [|discriminate].
    cbn [option_map] in H. injection H as H. exists c, pe, closed, pe'. split; [reflexivity|]. split; [exact R|].
    split; [exact H|].
    rewrite revents_snoc. cbn [jemit fst]. rewrite <- connect_is_run.
    apply connect_returns_entry; [|exact R]. rewrite revents_snoc in Wp. eapply PRP.wf_prefix. exact Wp.
  - destruct Hin as [H|[]]; discriminate.
  - destruct Hin.
  - apply in_map_iff in Hin. destruct Hin as (pe & H & _). discriminate.
  - destruct Hin as [H|[]]; discriminate.
  - destruct Hin.
Qed.

(* a Disconnected reaches the topology only as the registry's notification for a peer it has just removed
   (C14_last_close: the last open enrolled connection closed); by construction of the joint step *)
Theorem disconnected_is_registry_notification js e p :
  In e (tevents js) -> e = TP.Disconnected p ->
  exists pre c post pe, js = pre ++ JClosed c :: post /\ tpeer pe = p /\
    In pe (new_notes (PR.run (revents pre)) (PR.step (PR.run (revents pre)) (PR.ConnClosed c))).
Proof.
  intros Hin ->. destruct (emitted_origin js _ Hin) as (pre & j & post & -> & Hem).
  destruct j as [c pe closed lk ann|u0 c pe closed|u0|c pe closed|c|from ok entries|e0]; cbn [jemit snd] in Hem.
  - destruct (PR.inbound_announces _ c pe closed); [destruct Hem as [H|[]]; discriminate|destruct Hem].
  - destruct Hem as [H|[]]; discriminate.
  - destruct Hem as [H|[]]; discriminate.
  - destruct Hem.
  - apply in_map_iff in Hem. destruct Hem as (pe & H & Hpe). injection H as H.
    exists pre, c, post, pe. split; [reflexivity|]. split; [exact H|exact Hpe].
  - destruct Hem as [H|[]]; discriminate.
  - destruct Hem.
Qed.

(* ---- non-vacuity ---------------------------------------------------------------------------------------- *)
Section Example.
  Let pe1 : PR.peer := {| PR.p_addr := 11; PR.p_role := 2 |}.     (* a bidder, inbound *)
  Let pe2 : PR.peer := {| PR.p_addr := 22; PR.p_role := 1 |}.     (* a provider, dialled after gossip *)
  Let u2 : bytes := [7; 7].
  Let js : list jev :=
    [JInbound (1, 0) pe1 false [] [];
     JGossip (tpeer pe1) true [(TP.addr_bytes 22, u2)];
     JDiscoveryConnect u2 (2, 0) pe2 false;
     JInbound (1, 1) pe1 false [] [];            (* a second connection of the same peer: not announced again *)
     JDiscoveryConnectFails u2;                  (* no such call in flight: nothing happens *)
     JClosed (2, 0)].
  Example ex_joint :
    PR.wf (revents js) /\
    tevents js = [TP.Connected (tpeer pe1) [] []; TP.Gossip (tpeer pe1) true [(TP.addr_bytes 22, u2)];
                  TP.ConnectDone u2 (Some (tpeer pe2)); TP.ConnectDone u2 None; TP.Disconnected (tpeer pe2)] /\
    TP.get_peers TP.ROLE_BIDDER (TP.run (tevents js)) = [tpeer pe1] /\
    TP.get_peers TP.ROLE_PROVIDER (TP.run (tevents js)) = [] /\
    TP.get_peers TP.ROLE_PROVIDER (TP.run (tevents (firstn 3 js))) = [tpeer pe2] /\
    PR.get 2 (PR.overlays (PR.run (revents (firstn 3 js)))) = Some pe2.
  Proof.
    split; [apply PRP.wfb_wf; vm_compute; reflexivity|]. repeat (split; [vm_compute; reflexivity|]).
    vm_compute. reflexivity.
  Qed.
End Example.
