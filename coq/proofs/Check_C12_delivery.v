(* The clause "double-delivery" of the C12 checker never fires on the model's own prediction, for every op
   list in which no call identifier is submitted twice (what the driver generates). *)
From Coq Require Import String List NArith ZArith Bool Lia.
From MevVerif Require Import lib.Bytes proofs.Bytes_proofs model.Rules model.ProviderSvc proofs.ProviderSvc_proofs
  check.Check_C12 proofs.Check_C12_proofs proofs.Check_C12_fields.
Import ListNotations.
Open Scope N_scope.

Definition ops_wf (l : list op) : Prop := NoDup (map fst (submitted l)).

Lemma decisions_count l d st : decisions_for l d st = cnt_look d st (flat_map events_of l).
Proof.
  unfold decisions_for, cnt_look. induction l as [|o r IH]; [reflexivity|].
  cbn [flat_map filter]. rewrite filter_app, app_length, <- IH.
  destruct o; cbn; try reflexivity; destruct (bytes_eqb d d0 && (st =? st0)%Z); reflexivity.
Qed.

Lemma in_events_lookup_ops l sid d st :
  In (Lookup sid d st) (flat_map events_of l) -> (1 <= decisions_for l d st)%nat.
Proof.
  intros H. rewrite decisions_count. unfold cnt_look.
  assert (Hin : In (Lookup sid d st) (filter (is_look d st) (flat_map events_of l))).
  { apply filter_In. split; [exact H|]. cbn. now rewrite bytes_eqb_refl, Z.eqb_refl. }
  destruct (filter (is_look d st) (flat_map events_of l)); [destruct Hin|cbn; lia].
Qed.

(* what a predicted value on a call's channel means in the model *)
Lemma predicted_value l h st :
  co_vals (predict_call (run rules_validators (flat_map events_of l)) h) = [st] ->
  exists b, nget h (submitted l) = Some b /\
            In (EDeliver h (b_dig b) st) (eff (run rules_validators (flat_map events_of l))) /\
            provider_response_ok (b_dig b) st = true /\ (1 <= decisions_for l (b_dig b) st)%nat.
Proof.
  set (s := run rules_validators (flat_map events_of l)). unfold predict_call.
  destruct (nget h (calls s)) as [[b|b|b|b]|] eqn:Hc; cbn; try discriminate.
  destruct (cget h s) eqn:Hg; cbn; try discriminate. intros [= ->].
  destruct (hist_full _ _ (run_hist rules_validators _) _ _ Hg) as (d & Hd).
  destruct (inv_deliver_ok _ _ (run_inv rules_validators _) _ _ _ Hd) as (Hv & c & Hc' & _ & Hdig).
  fold s in Hc'. rewrite Hc in Hc'. injection Hc' as <-. cbn in Hdig. subst d.
  pose proof (events_calls rules_validators l init h (PHanded b) (init_inv rules_validators) Hc) as Hb. cbn in Hb.
  exists b. split; [exact Hb|]. split; [exact Hd|]. split; [exact Hv|].
  destruct (hist_deliver _ _ (run_hist rules_validators _) _ _ _ Hd) as (sid & Hl).
  now apply (in_events_lookup_ops l sid).
Qed.

Lemma deliveries_bound l d st :
  ops_wf l ->
  let s := run rules_validators (flat_map events_of l) in
  (length (filter (fun co => match bid_of l (co_h co), co_vals co with
                             | Some b, [st'] => bytes_eqb d (b_dig b) && (st =? st')%Z
                             | _, _ => false end)
                  (map (fun hb => predict_call s (fst hb)) (submitted l))) <= cnt_deliv d st s)%nat.
Proof.
  intros Hwf s. unfold cnt_deliv.
  set (P := fun co => match bid_of l (co_h co), co_vals co with
                      | Some b, [st'] => bytes_eqb d (b_dig b) && (st =? st')%Z | _, _ => false end).
  (* the calls that hold such a value, as a duplicate-free list of identifiers *)
  set (hsel := filter (fun h => P (predict_call s h)) (map fst (submitted l))).
  assert (Hlen : length (filter P (map (fun hb => predict_call s (fst hb)) (submitted l))) = length hsel).
  { unfold hsel. clear Hwf. induction (submitted l) as [|hb r IH]; [reflexivity|]. cbn.
    destruct (P (predict_call s (fst hb))); cbn; now rewrite IH. }
  rewrite Hlen.
  assert (Hnd : NoDup hsel) by (apply NoDup_filter; exact Hwf).
  assert (Hinj : NoDup (map (fun h => EDeliver h d st) hsel)).
  { clear -Hnd. induction Hnd as [|x r Hn Hd IH]; [constructor|]. cbn. constructor; [|exact IH].
    intros Hin. apply in_map_iff in Hin. destruct Hin as (y & E & Hy). injection E as ->. contradiction. }
  assert (Hincl : incl (map (fun h => EDeliver h d st) hsel) (filter (is_deliv d st) (eff s))).
  { intros e He. apply in_map_iff in He. destruct He as (h & <- & Hh). unfold hsel in Hh. apply filter_In in Hh.
    destruct Hh as (_ & HP). unfold P in HP.
    assert (Hh0 : co_h (predict_call s h) = h).
    { unfold predict_call. destruct (match nget h (calls s) with Some (PRefused _) => 0 | Some (PAbandoned _) => 1
        | Some (PHanded _) => 2 | Some (POffered _) => 3 | None => 4 end =? 2); [destruct (cget h s)|]; reflexivity. }
    rewrite Hh0 in HP. destruct (bid_of l h) as [b|] eqn:Hb; [|discriminate].
    destruct (co_vals (predict_call s h)) as [|st' [|? ?]] eqn:Hv; try discriminate.
    apply andb_true_iff in HP. destruct HP as (Hd & Hst). apply bytes_eqb_eq in Hd. apply Z.eqb_eq in Hst. subst st'.
    destruct (predicted_value l h st Hv) as (b' & Hb' & Hin & _). unfold bid_of in Hb. rewrite Hb in Hb'. injection Hb' as <-.
    apply filter_In. split; [now rewrite Hd|]. cbn. now rewrite bytes_eqb_refl, Z.eqb_refl. }
  pose proof (NoDup_incl_length Hinj Hincl) as H. now rewrite map_length in H.
Qed.

Theorem checker_accepts_model_delivery i l : ops_wf l -> chk_delivery (model_case i l) = true.
Proof.
  intros Hwf. unfold chk_delivery. apply andb_true_iff. split.
  - unfold model_case. cbn [ob o_calls predict ops]. unfold model_state. cbn [ops].
    set (s := run rules_validators (flat_map events_of l)).
    apply forallb_forall. intros co Hin. apply in_map_iff in Hin. destruct Hin as (hb & <- & _).
    destruct (co_vals (predict_call s (fst hb))) as [|st [|? ?]] eqn:Hv; [reflexivity| |].
    + assert (Hh0 : co_h (predict_call s (fst hb)) = fst hb).
      { unfold predict_call. destruct (match nget (fst hb) (calls s) with Some (PRefused _) => 0 | Some (PAbandoned _) => 1
          | Some (PHanded _) => 2 | Some (POffered _) => 3 | None => 4 end =? 2); [destruct (cget (fst hb) s)|]; reflexivity. }
      rewrite Hh0. destruct (predicted_value l (fst hb) st Hv) as (b & Hb & Hin & Hok & Hone).
      unfold bid_of. rewrite Hb, Hok. cbn [andb]. apply andb_true_iff. split; [now apply Nat.leb_le|].
      apply Nat.leb_le. unfold deliveries_for. cbn [ob o_calls ops].
      eapply Nat.le_trans; [apply (deliveries_bound l (b_dig b) st Hwf)|].
      rewrite decisions_count. apply deliveries_le_decisions.
    + exfalso. unfold predict_call in Hv.
      destruct (match nget (fst hb) (calls s) with Some (PRefused _) => 0 | Some (PAbandoned _) => 1
          | Some (PHanded _) => 2 | Some (POffered _) => 3 | None => 4 end =? 2); [destruct (cget (fst hb) s)|]; discriminate.
  - unfold model_case. cbn [ob o_streams predict ops]. apply forallb_forall. intros so Hin.
    apply in_map_iff in Hin. destruct Hin as (sid & <- & _). unfold predict_stream. cbn [so_state].
    unfold model_state. cbn [ops]. set (s := run rules_validators (flat_map events_of l)).
    assert (Hp : panicked s = false) by apply (inv_nopanic _ _ (run_inv rules_validators (flat_map events_of l))).
    rewrite Hp. destruct (sget sid s); try reflexivity. destruct (ended_by_service s sid); reflexivity.
Qed.
