(* Proofs about model/EvmSend.v (property C08). *)
From Coq Require Import String List NArith Lia Bool ZifyN ZifyBool.
From MevVerif Require Import lib.Bytes gen.Generated model.EvmSend check.Check_C08.
Import ListNotations.
Open Scope N_scope.

(* the constant regenerated from txmonitor.go is the one the property names *)
Lemma max_sent_txs_value : max_sent_txs = 1024.
Proof. reflexivity. Qed.

Lemma w64_value : w64 = 2 ^ 64.
Proof. reflexivity. Qed.

(* ------------------------------------------------------------------------------------ *)
(* one Send                                                                               *)
(* ------------------------------------------------------------------------------------ *)

Lemma get_nonce_max ctr p : get_nonce ctr p = (N.max ctr p, N.max ctr p).
Proof.
  unfold get_nonce. destruct (ctr =? 0) eqn:E.
  - destruct (p <? p) eqn:F; f_equal; lia.
  - destruct (ctr <? p) eqn:F; f_equal; lia.
Qed.

Definition bnd (s : st) : Prop := (conf s + max_sent_txs) mod w64 + 1 < w64.

Lemma bnd_init : bnd init.
Proof. reflexivity. Qed.

Lemma send_spec ctr cf rq a c' r :
  (cf + max_sent_txs) mod w64 + 1 < w64 ->
  send ctr cf rq a = (c', r) ->
  match pending a with
  | None => c' = ctr /\ r = NoTx
  | Some p =>
      match r with
      | NoTx => c' = N.max ctr p
      | Rejected m => m = N.max ctr p /\ c' = N.max ctr p /\ m <= (cf + max_sent_txs) mod w64
      | Accepted m => m = N.max ctr p /\ c' = m + 1 /\ m <= (cf + max_sent_txs) mod w64
      end
  end.
Proof.
  intros Hb. unfold send, send_with. destruct (pending a) as [p|].
  2:{ intros [= <- <-]. split; reflexivity. }
  rewrite get_nonce_max. unfold allow_nonce.
  destruct (N.max ctr p <=? (cf + max_sent_txs) mod w64) eqn:Hw; cbn [negb].
  2:{ intros [= <- <-]. reflexivity. }
  destruct (new_tx_ok rq a); cbn [negb].
  2:{ intros [= <- <-]. reflexivity. }
  destruct (sign_ok a); cbn [negb].
  2:{ intros [= <- <-]. reflexivity. }
  destruct (submit_ok a); cbn [negb].
  2:{ intros [= <- <-]. repeat split; lia. }
  intros [= <- <-]. rewrite N.mod_small by lia. repeat split; lia.
Qed.

(* the window test alone, for arbitrary uint64 contents (no premise): the wrap only makes it
   stricter *)
Lemma send_window gn ctr cf rq a c' r n :
  send_with gn ctr cf rq a = (c', r) -> reached r = Some n -> n <= cf + max_sent_txs.
Proof.
  unfold send_with. destruct (pending a) as [p|].
  2:{ intros [= <- <-]. discriminate. }
  destruct (gn ctr p) as [c1 m]. unfold allow_nonce.
  assert (Hm : (cf + max_sent_txs) mod w64 <= cf + max_sent_txs).
  { apply N.mod_le. unfold w64. lia. }
  destruct (m <=? (cf + max_sent_txs) mod w64) eqn:Hw; cbn [negb].
  2:{ intros [= <- <-]. discriminate. }
  destruct (new_tx_ok rq a); cbn [negb].
  2:{ intros [= <- <-]. discriminate. }
  destruct (sign_ok a); cbn [negb].
  2:{ intros [= <- <-]. discriminate. }
  destruct (submit_ok a); cbn [negb]; intros [= <- <-]; cbn [reached]; intros [= <-]; lia.
Qed.

(* a failing call anywhere means nothing is accepted *)
Lemma send_needs_all_calls gn ctr cf rq a c' n :
  send_with gn ctr cf rq a = (c', Accepted n) ->
  pending a <> None /\ (gas_given rq = false -> est_ok a = true) /\ tip_ok a = true /\
  (price_given rq = false -> price_ok a = true) /\ sign_ok a = true /\ submit_ok a = true.
Proof.
  unfold send_with. destruct (pending a) as [p|]; [|discriminate].
  destruct (gn ctr p) as [c1 m].
  destruct (allow_nonce cf m); cbn [negb]; [|discriminate].
  unfold new_tx_ok.
  destruct (gas_given rq), (est_ok a), (tip_ok a), (price_given rq), (price_ok a), (sign_ok a), (submit_ok a);
    cbn [negb]; intros H; try discriminate H; repeat split; congruence.
Qed.

(* ------------------------------------------------------------------------------------ *)
(* traces: structure                                                                      *)
(* ------------------------------------------------------------------------------------ *)

Definition step := step_with get_nonce.

Lemma run_cons s o r : run s (o :: r) = snd (step s o) :: run (fst (step s o)) r.
Proof. unfold run, step. cbn [run_with]. destruct (step_with get_nonce s o). reflexivity. Qed.

Lemma final_cons s o r : final s (o :: r) = final (fst (step s o)) r.
Proof. reflexivity. Qed.

Lemma run_app s a b : run s (a ++ b) = run s a ++ run (final s a) b.
Proof.
  revert s. induction a as [|o a IH]; intros s; [reflexivity|].
  rewrite <- app_comm_cons, !run_cons, final_cons, IH. reflexivity.
Qed.

Lemma final_app s a b : final s (a ++ b) = final (final s a) b.
Proof.
  revert s. induction a as [|o a IH]; intros s; [reflexivity|].
  rewrite <- app_comm_cons, !final_cons, IH. reflexivity.
Qed.

(* a trace position corresponds to an operation position *)
Lemma run_decompose ops : forall s pre e post,
  run s ops = pre ++ e :: post ->
  exists o1 o o2, ops = o1 ++ o :: o2 /\ run s o1 = pre /\
                  snd (step (final s o1) o) = e /\
                  run (fst (step (final s o1) o)) o2 = post.
Proof.
  induction ops as [|o ops IH]; intros s pre e post H.
  - destruct pre; discriminate H.
  - rewrite run_cons in H. destruct pre as [|e0 pre].
    + cbn [app] in H. injection H as He Hp.
      exists [], o, ops. cbn [app final final_with]. repeat split; assumption.
    + rewrite <- app_comm_cons in H. injection H as He Hp.
      destruct (IH _ _ _ _ Hp) as (o1 & o' & o2 & -> & Hr & Hs & Hpost).
      exists (o :: o1), o', o2. rewrite final_cons, run_cons. repeat split; try assumption.
      rewrite He, Hr. reflexivity.
Qed.

Lemma wf_ops_app a b : wf_ops (a ++ b) <-> wf_ops a /\ wf_ops b.
Proof. unfold wf_ops. apply Forall_app. Qed.

Lemma step_bnd s o : wf_op o -> bnd s -> bnd (fst (step s o)).
Proof.
  unfold step, step_with, bnd. destruct o as [rq a|v|]; cbn [wf_op]; intros Hw Hb.
  - destruct (send_with get_nonce (ctr s) (conf s) rq a). exact Hb.
  - exact Hw.
  - exact bnd_init.
Qed.

Lemma final_bnd ops : forall s, wf_ops ops -> bnd s -> bnd (final s ops).
Proof.
  induction ops as [|o ops IH]; intros s Hw Hb; [exact Hb|].
  rewrite final_cons. inversion Hw; subst. apply IH; [assumption|]. apply step_bnd; assumption.
Qed.

(* what a step that shows an accepted submission did *)
Lemma step_accept s o p n :
  bnd s -> snd (step s o) = TSend p (Accepted n) ->
  exists q, p = Some q /\ n = N.max (ctr s) q /\ ctr (fst (step s o)) = n + 1 /\
            conf (fst (step s o)) = conf s /\ n <= (conf s + max_sent_txs) mod w64.
Proof.
  intros Hb. unfold step, step_with. destruct o as [rq a|v|]; [|discriminate|discriminate].
  destruct (send_with get_nonce (ctr s) (conf s) rq a) as [c r] eqn:E. cbn [fst snd].
  intros [= Hp ->]. apply (send_spec _ _ _ _ _ _ Hb) in E. rewrite Hp in E.
  destruct p as [q|]; [|destruct E; discriminate].
  destruct E as (-> & -> & Hw). exists q. cbn [ctr conf]. repeat split; lia.
Qed.

(* ------------------------------------------------------------------------------------ *)
(* within one client lifetime                                                             *)
(* ------------------------------------------------------------------------------------ *)

Lemma max_list_cons a l : max_list (a :: l) = N.max a (max_list l).
Proof. reflexivity. Qed.

Lemma max_list_app a b : max_list (a ++ b) = N.max (max_list a) (max_list b).
Proof.
  induction a as [|x a IH]; cbn [app]; [cbn; lia|]. rewrite !max_list_cons, IH. lia.
Qed.

Lemma pendings_app a b : pendings (a ++ b) = pendings a ++ pendings b.
Proof.
  induction a as [|e a IH]; [reflexivity|]. rewrite <- app_comm_cons.
  destruct e as [[q|] r|v|]; cbn [pendings]; rewrite IH; reflexivity.
Qed.

Lemma accepted_app a b : accepted (a ++ b) = accepted a ++ accepted b.
Proof.
  induction a as [|e a IH]; [reflexivity|]. rewrite <- app_comm_cons.
  destruct e as [p [|m|m]|v|]; cbn [accepted]; rewrite IH; reflexivity.
Qed.

Lemma confs_app a b : confs (a ++ b) = confs a ++ confs b.
Proof.
  induction a as [|e a IH]; [reflexivity|]. rewrite <- app_comm_cons.
  destruct e as [p r|v|]; cbn [confs]; rewrite IH; reflexivity.
Qed.

Lemma no_restart_cons e t : no_restart (e :: t) <-> is_restart e = false /\ no_restart t.
Proof.
  unfold no_restart. cbn [forallb]. rewrite andb_true_iff, negb_true_iff. reflexivity.
Qed.

(* the counter never decreases while the client lives, and everything accepted is at or above it *)
Lemma life_monotone ops : forall s,
  wf_ops ops -> bnd s -> no_restart (run s ops) ->
  ctr s <= ctr (final s ops) /\ forall n, In n (accepted (run s ops)) -> ctr s <= n.
Proof.
  induction ops as [|o ops IH]; intros s Hw Hb Hn.
  - cbn. split; [lia|intros n []].
  - rewrite run_cons in Hn. apply no_restart_cons in Hn. destruct Hn as [He Hn].
    inversion Hw as [|? ? Hwo Hwr]; subst.
    pose proof (step_bnd s o Hwo Hb) as Hb'.
    destruct (IH _ Hwr Hb' Hn) as [IH1 IH2].
    rewrite final_cons, run_cons.
    assert (Hstep : ctr s <= ctr (fst (step s o)) /\
                    forall p n, snd (step s o) = TSend p (Accepted n) -> ctr s <= n).
    { split.
      - unfold step, step_with. destruct o as [rq a|v|].
        + destruct (send_with get_nonce (ctr s) (conf s) rq a) as [c r] eqn:E. cbn [fst ctr].
          apply (send_spec _ _ _ _ _ _ Hb) in E. destruct (pending a) as [q|].
          * destruct r as [|m|m]; lia.
          * destruct E; lia.
        + cbn. lia.
        + unfold step, step_with in He. cbn in He. discriminate.
      - intros p n Hs. destruct (step_accept _ _ _ _ Hb Hs) as (q & _ & -> & _). lia. }
    destruct Hstep as [Hs1 Hs2]. split; [lia|].
    intros n. destruct (snd (step s o)) as [p [|m|m]|v|] eqn:Es; cbn [accepted]; intros Hin;
      try (specialize (IH2 n Hin); lia).
    destruct Hin as [<-|Hin]; [exact (Hs2 _ _ eq_refl)|specialize (IH2 n Hin); lia].
Qed.

(* with no accepted submission in between, the counter is the maximum of what it was and of the
   pending answers received: failed requests leave nothing else behind *)
Lemma life_quiet ops : forall s,
  wf_ops ops -> bnd s -> no_restart (run s ops) -> accepted (run s ops) = [] ->
  ctr (final s ops) = N.max (ctr s) (max_list (pendings (run s ops))).
Proof.
  induction ops as [|o ops IH]; intros s Hw Hb Hn Ha.
  - cbn. lia.
  - rewrite run_cons in Hn, Ha |- *. apply no_restart_cons in Hn. destruct Hn as [He Hn].
    inversion Hw as [|? ? Hwo Hwr]; subst.
    pose proof (step_bnd s o Hwo Hb) as Hb'.
    rewrite final_cons.
    assert (Ha' : accepted (run (fst (step s o)) ops) = []).
    { destruct (snd (step s o)) as [p [|m|m]|v|]; cbn [accepted] in Ha; try exact Ha. discriminate. }
    rewrite (IH _ Hwr Hb' Hn Ha').
    unfold step, step_with in *. destruct o as [rq a|v|].
    + destruct (send_with get_nonce (ctr s) (conf s) rq a) as [c r] eqn:E. cbn [fst snd ctr] in *.
      apply (send_spec _ _ _ _ _ _ Hb) in E. destruct (pending a) as [q|].
      * cbn [pendings]. rewrite max_list_cons. destruct r as [|m|m]; [lia|lia|].
        cbn [accepted] in Ha. discriminate.
      * destruct E as [-> ->]. cbn [pendings]. lia.
    + cbn [fst snd ctr pendings]. lia.
    + cbn in He. discriminate.
Qed.

(* ------------------------------------------------------------------------------------ *)
(* the clauses of C08                                                                     *)
(* ------------------------------------------------------------------------------------ *)

Ltac decompose_run H s o1 o o2 :=
  let Hr := fresh "Hrun" in let Hs := fresh "Hstep" in let Hp := fresh "Hpost" in
  apply run_decompose in H; destruct H as (o1 & o & o2 & -> & Hr & Hs & Hp).

(* strictly increasing while the client lives: any answers, any failures *)
Lemma monotone ops pre p1 n1 mid p2 n2 post :
  wf_ops ops ->
  run init ops = pre ++ TSend p1 (Accepted n1) :: mid ++ TSend p2 (Accepted n2) :: post ->
  no_restart mid -> n1 < n2.
Proof.
  intros Hw H Hn.
  apply run_decompose in H. destruct H as (o1 & o & o2 & -> & Hr1 & Hs1 & Hp1).
  apply wf_ops_app in Hw. destruct Hw as [Hw1 Hw]. inversion Hw as [|? ? Hwo Hw2]; subst.
  pose proof (final_bnd _ _ Hw1 bnd_init) as Hb1.
  destruct (step_accept _ _ _ _ Hb1 Hs1) as (q1 & _ & _ & Hc1 & _ & _).
  pose proof (step_bnd _ _ Hwo Hb1) as Hb1'.
  set (s1 := fst (step (final init o1) o)) in *.
  apply run_decompose in Hp1. destruct Hp1 as (o3 & o' & o4 & -> & Hr2 & Hs2 & Hp2).
  apply wf_ops_app in Hw2. destruct Hw2 as [Hw3 Hw4]. inversion Hw4 as [|? ? Hwo' Hw5]; subst.
  destruct (life_monotone _ _ Hw3 Hb1' Hn) as [Hm _].
  pose proof (final_bnd _ _ Hw3 Hb1') as Hb2.
  destruct (step_accept _ _ _ _ Hb2 Hs2) as (q2 & _ & -> & _). lia.
Qed.

(* never below the pending nonce reported for that request: per call, for any state (no premise) *)
Lemma ge_pending_call ctr cf rq a c r n p :
  send ctr cf rq a = (c, r) -> pending a = Some p -> reached r = Some n -> p <= n.
Proof.
  unfold send, send_with. intros H Hp Hr. rewrite Hp in H. rewrite get_nonce_max in H.
  destruct (allow_nonce cf _); cbn [negb] in H; [|injection H as _ <-; discriminate].
  destruct (new_tx_ok rq a); cbn [negb] in H; [|injection H as _ <-; discriminate].
  destruct (sign_ok a); cbn [negb] in H; [|injection H as _ <-; discriminate].
  destruct (submit_ok a); cbn [negb] in H; injection H as _ <-; cbn [reached] in Hr; injection Hr as <-; lia.
Qed.

Lemma ge_pending ops p r n :
  In (TSend (Some p) r) (run init ops) -> reached r = Some n -> p <= n.
Proof.
  intros Hin Hr. apply in_split in Hin. destruct Hin as (pre & post & H).
  apply run_decompose in H. destruct H as (o1 & o & o2 & -> & _ & Hs & _).
  unfold step, step_with in Hs. destruct o as [rq a|v|]; [|discriminate|discriminate].
  destruct (send_with get_nonce (ctr (final init o1)) (conf (final init o1)) rq a) as [c r'] eqn:E.
  cbn [snd] in Hs. injection Hs as Hp ->.
  exact (ge_pending_call _ _ _ _ _ _ _ _ E Hp Hr).
Qed.

(* exact value of the next accepted nonce after an accepted one: previous + 1, unless the node
   reported a higher pending nonce since (outside transactions); requests that failed in between
   (any number, at any call) consumed nothing *)
Lemma next_exact ops pre p1 n1 mid p2 n2 post :
  wf_ops ops ->
  run init ops = pre ++ TSend p1 (Accepted n1) :: mid ++ TSend p2 (Accepted n2) :: post ->
  no_restart mid -> accepted mid = [] ->
  n2 = N.max (n1 + 1) (max_list (pendings (mid ++ [TSend p2 (Accepted n2)]))).
Proof.
  intros Hw H Hn Ha.
  apply run_decompose in H. destruct H as (o1 & o & o2 & -> & Hr1 & Hs1 & Hp1).
  apply wf_ops_app in Hw. destruct Hw as [Hw1 Hw]. inversion Hw as [|? ? Hwo Hw2]; subst.
  pose proof (final_bnd _ _ Hw1 bnd_init) as Hb1.
  destruct (step_accept _ _ _ _ Hb1 Hs1) as (q1 & _ & _ & Hc1 & _ & _).
  pose proof (step_bnd _ _ Hwo Hb1) as Hb1'.
  set (s1 := fst (step (final init o1) o)) in *.
  apply run_decompose in Hp1. destruct Hp1 as (o3 & o' & o4 & -> & Hr2 & Hs2 & Hp2).
  apply wf_ops_app in Hw2. destruct Hw2 as [Hw3 Hw4].
  subst mid.
  pose proof (life_quiet _ _ Hw3 Hb1' Hn Ha) as Hq.
  pose proof (final_bnd _ _ Hw3 Hb1') as Hb2.
  destruct (step_accept _ _ _ _ Hb2 Hs2) as (q2 & -> & Hn2 & _).
  rewrite pendings_app, max_list_app. cbn [pendings]. rewrite max_list_cons.
  cbn [max_list fold_right]. rewrite Hn2 at 1. rewrite Hq, Hc1. lia.
Qed.

(* first accepted nonce of a client lifetime (the very first client, or after a restart) *)
Lemma first_exact_from s ops mid p n post :
  wf_ops ops -> bnd s -> ctr s = 0 ->
  run s ops = mid ++ TSend p (Accepted n) :: post ->
  no_restart mid -> accepted mid = [] ->
  n = max_list (pendings (mid ++ [TSend p (Accepted n)])).
Proof.
  intros Hw Hb Hc H Hn Ha.
  apply run_decompose in H. destruct H as (o3 & o' & o4 & -> & Hr2 & Hs2 & Hp2).
  apply wf_ops_app in Hw. destruct Hw as [Hw3 Hw4].
  subst mid.
  pose proof (life_quiet _ _ Hw3 Hb Hn Ha) as Hq.
  pose proof (final_bnd _ _ Hw3 Hb) as Hb2.
  destruct (step_accept _ _ _ _ Hb2 Hs2) as (q2 & -> & Hn2 & _).
  rewrite pendings_app, max_list_app. cbn [pendings]. rewrite max_list_cons.
  cbn [max_list fold_right]. rewrite Hn2 at 1. rewrite Hq, Hc. lia.
Qed.

Lemma first_exact ops mid p n post :
  wf_ops ops ->
  run init ops = mid ++ TSend p (Accepted n) :: post ->
  no_restart mid -> accepted mid = [] ->
  n = max_list (pendings (mid ++ [TSend p (Accepted n)])).
Proof. intros Hw. apply first_exact_from; [exact Hw|exact bnd_init|reflexivity]. Qed.

Lemma first_exact_restart ops pre mid p n post :
  wf_ops ops ->
  run init ops = pre ++ TRestart :: mid ++ TSend p (Accepted n) :: post ->
  no_restart mid -> accepted mid = [] ->
  n = max_list (pendings (mid ++ [TSend p (Accepted n)])).
Proof.
  intros Hw H Hn Ha.
  apply run_decompose in H. destruct H as (o1 & o & o2 & -> & Hr1 & Hs1 & Hp1).
  apply wf_ops_app in Hw. destruct Hw as [Hw1 Hw]. inversion Hw as [|? ? Hwo Hw2]; subst.
  assert (Hi : fst (step (final init o1) o) = init).
  { unfold step, step_with in *. destruct o as [rq a|v|]; [|discriminate|reflexivity].
    destruct (send_with get_nonce (ctr (final init o1)) (conf (final init o1)) rq a). discriminate. }
  rewrite Hi in Hp1.
  apply (first_exact_from init o2 mid p n post); try assumption; [exact bnd_init|reflexivity].
Qed.

(* window: whatever reaches the node is within maxSentTxs of a confirmed nonce the node reported
   (no premise on the inputs: the uint64 wrap only makes the test stricter) *)
Lemma run_with_decompose gn ops : forall s pre e post,
  run_with gn s ops = pre ++ e :: post ->
  exists o1 o o2, ops = o1 ++ o :: o2 /\ run_with gn s o1 = pre /\
                  snd (step_with gn (final_with gn s o1) o) = e.
Proof.
  induction ops as [|o ops IH]; intros s pre e post H.
  - destruct pre; discriminate H.
  - cbn [run_with] in H. destruct (step_with gn s o) as [s' e0] eqn:Es. destruct pre as [|e1 pre].
    + cbn [app] in H. injection H as He Hp. exists [], o, ops. cbn. rewrite Es. repeat split. exact He.
    + rewrite <- app_comm_cons in H. injection H as He Hp.
      destruct (IH _ _ _ _ Hp) as (o1 & o' & o2 & -> & Hr & Hs).
      exists (o :: o1), o', o2. cbn [run_with final_with]. rewrite Es. cbn [fst]. repeat split.
      * rewrite He, Hr. reflexivity.
      * exact Hs.
Qed.

Lemma conf_is_reported gn ops : forall s,
  conf (final_with gn s ops) <= N.max (conf s) (max_list (confs (run_with gn s ops))).
Proof.
  induction ops as [|o ops IH]; intros s.
  - cbn. lia.
  - cbn [final_with run_with]. destruct (step_with gn s o) as [s' e] eqn:Es. cbn [fst].
    specialize (IH s'). unfold step_with in Es. destruct o as [rq a|v|].
    + destruct (send_with gn (ctr s) (conf s) rq a). injection Es as <- <-. cbn [confs conf] in *. exact IH.
    + injection Es as <- <-. cbn [confs conf] in *. rewrite max_list_cons. lia.
    + injection Es as <- <-. cbn [confs conf init] in *. lia.
Qed.

Lemma window gn ops pre p r n post :
  run_with gn init ops = pre ++ TSend p r :: post -> reached r = Some n ->
  n <= max_list (confs pre) + 1024.
Proof.
  intros H Hr. apply run_with_decompose in H. destruct H as (o1 & o & o2 & -> & Hr1 & Hs).
  pose proof (conf_is_reported gn o1 init) as Hc. rewrite Hr1 in Hc. cbn [conf init] in Hc.
  unfold step_with in Hs. destruct o as [rq a|v|]; [|discriminate|discriminate].
  destruct (send_with gn (ctr (final_with gn init o1)) (conf (final_with gn init o1)) rq a) as [c r'] eqn:E.
  cbn [snd] in Hs. injection Hs as _ ->.
  pose proof (send_window _ _ _ _ _ _ _ _ E Hr) as Hwin. rewrite max_sent_txs_value in Hwin. lia.
Qed.

(* ------------------------------------------------------------------------------------ *)
(* across restarts                                                                        *)
(* ------------------------------------------------------------------------------------ *)

(* one step of the premise's bookkeeping *)
Definition sync_ok1 (u : bool) (hi : option N) (e : tev) : bool :=
  match e with
  | TSend (Some q) _ => match hi with Some h => negb u || (h <? q) | None => true end
  | _ => true
  end.
Definition sync_next (u : bool) (hi : option N) (e : tev) : bool * option N :=
  match e with
  | TRestart => (true, hi)
  | TConf _ => (u, hi)
  | TSend p (Accepted n) => (false, hi_max hi n)
  | TSend p _ => (u && match p with Some q => q =? 0 | None => true end, hi)
  end.

Lemma sync_ok_from_cons u hi e t :
  sync_ok_from u hi (e :: t) =
  sync_ok1 u hi e && sync_ok_from (fst (sync_next u hi e)) (snd (sync_next u hi e)) t.
Proof.
  destruct e as [p r|v|]; cbn [sync_ok_from sync_ok1 sync_next fst snd]; try reflexivity.
  destruct p as [q|], hi as [h|], r as [|m|m]; reflexivity.
Qed.

Definition hi_lt (hi : option N) (n : N) : Prop := match hi with Some h => h < n | None => True end.

(* invariant tying the bookkeeping to the client state *)
Definition J (s : st) (u : bool) (hi : option N) : Prop :=
  (u = true -> ctr s = 0) /\ (u = false -> hi_lt hi (ctr s)).

Lemma J_step s o u hi :
  wf_op o -> bnd s -> J s u hi -> sync_ok1 u hi (snd (step s o)) = true ->
  J (fst (step s o)) (fst (sync_next u hi (snd (step s o)))) (snd (sync_next u hi (snd (step s o)))) /\
  (forall p n, snd (step s o) = TSend p (Accepted n) -> hi_lt hi n).
Proof.
  intros Hwo Hb [J1 J2] Hok. unfold step, step_with in *. destruct o as [rq a|v|].
  - destruct (send_with get_nonce (ctr s) (conf s) rq a) as [c r] eqn:E. cbn [fst snd ctr] in *.
    apply (send_spec _ _ _ _ _ _ Hb) in E. destruct (pending a) as [q|].
    + cbn [sync_ok1] in Hok. unfold J, hi_lt, hi_max in *. destruct r as [|m|m]; cbn [sync_next fst snd ctr].
      * subst c. split; [|intros ? ? [=]]. destruct u; cbn [andb negb orb] in *.
        -- specialize (J1 eq_refl). split.
           ++ intros Hq. apply N.eqb_eq in Hq. lia.
           ++ intros Hq. apply N.eqb_neq in Hq. destruct hi as [h|]; [|exact I]. lia.
        -- split; [discriminate|]. intros _. specialize (J2 eq_refl). destruct hi as [h|]; [|exact I]. lia.
      * destruct E as (-> & -> & _). split; [|intros ? ? [=]]. destruct u; cbn [andb negb orb] in *.
        -- specialize (J1 eq_refl). split.
           ++ intros Hq. apply N.eqb_eq in Hq. lia.
           ++ intros Hq. apply N.eqb_neq in Hq. destruct hi as [h|]; [|exact I]. lia.
        -- split; [discriminate|]. intros _. specialize (J2 eq_refl). destruct hi as [h|]; [|exact I]. lia.
      * destruct E as (-> & -> & _).
        assert (Hlt : match hi with Some h => h < N.max (ctr s) q | None => True end).
        { destruct hi as [h|]; [|exact I]. destruct u; cbn [negb orb] in Hok.
          - specialize (J1 eq_refl). lia.
          - specialize (J2 eq_refl). lia. }
        split.
        -- split; [discriminate|]. intros _. destruct hi as [h|]; cbn [hi_max]; lia.
        -- intros ? ? [= _ <-]. exact Hlt.
    + destruct E as [-> ->]. cbn [sync_next fst snd]. rewrite andb_true_r.
      split; [split; assumption|intros ? ? [=]].
  - cbn [fst snd sync_next ctr]. split; [split; assumption|intros ? ? [=]].
  - cbn [fst snd sync_next ctr init]. split; [|intros ? ? [=]].
    split; [reflexivity|discriminate].
Qed.

(* everything accepted later is above the highest nonce accepted before *)
Lemma above_hi ops : forall s u hi,
  wf_ops ops -> bnd s -> J s u hi -> sync_ok_from u hi (run s ops) = true ->
  forall n, In n (accepted (run s ops)) -> hi_lt hi n.
Proof.
  induction ops as [|o ops IH]; intros s u hi Hw Hb HJ Hok n Hin.
  - destruct Hin.
  - rewrite run_cons in Hok, Hin. rewrite sync_ok_from_cons in Hok.
    apply andb_true_iff in Hok. destruct Hok as [Hok1 Hok2].
    inversion Hw as [|? ? Hwo Hwr]; subst.
    destruct (J_step _ _ _ _ Hwo Hb HJ Hok1) as [HJ' Hacc].
    pose proof (IH _ _ _ Hwr (step_bnd _ _ Hwo Hb) HJ' Hok2 n) as IHn.
    destruct (snd (step s o)) as [p [|m|m]|v|] eqn:Es; cbn [accepted sync_next fst snd] in *;
      try (exact (IHn Hin)).
    destruct Hin as [<-|Hin]; [exact (Hacc _ _ eq_refl)|].
    specialize (IHn Hin). unfold hi_lt, hi_max in *. destruct hi as [h|]; [lia|exact I].
Qed.

Lemma monotone_restart_from ops : forall s u hi pre p1 n1 rest n2,
  wf_ops ops -> bnd s -> J s u hi -> sync_ok_from u hi (run s ops) = true ->
  run s ops = pre ++ TSend p1 (Accepted n1) :: rest -> In n2 (accepted rest) -> n1 < n2.
Proof.
  induction ops as [|o ops IH]; intros s u hi pre p1 n1 rest n2 Hw Hb HJ Hok H Hin.
  - destruct pre; discriminate H.
  - rewrite run_cons in Hok, H. rewrite sync_ok_from_cons in Hok.
    apply andb_true_iff in Hok. destruct Hok as [Hok1 Hok2].
    inversion Hw as [|? ? Hwo Hwr]; subst.
    destruct (J_step _ _ _ _ Hwo Hb HJ Hok1) as [HJ' Hacc].
    pose proof (step_bnd _ _ Hwo Hb) as Hb'.
    destruct pre as [|e pre].
    + cbn [app] in H. injection H as He Hrest. rewrite He in *. cbn [sync_next fst snd] in *.
      rewrite <- Hrest in Hin.
      pose proof (above_hi _ _ _ _ Hwr Hb' HJ' Hok2 n2 Hin) as Hlt.
      unfold hi_lt, hi_max in Hlt. destruct hi as [h|]; lia.
    + rewrite <- app_comm_cons in H. injection H as He Hrest.
      exact (IH _ _ _ _ _ _ _ _ Hwr Hb' HJ' Hok2 Hrest Hin).
Qed.

Lemma J_init : J init true None.
Proof. split; [reflexivity|discriminate]. Qed.

(* strictly increasing across restarts too, when no unsynchronised client is given a stale answer *)
Lemma monotone_restart ops pre p1 n1 mid p2 n2 post :
  wf_ops ops -> sync_ok (run init ops) = true ->
  run init ops = pre ++ TSend p1 (Accepted n1) :: mid ++ TSend p2 (Accepted n2) :: post ->
  n1 < n2.
Proof.
  intros Hw Hok H.
  apply (monotone_restart_from ops init true None pre p1 n1 _ n2 Hw bnd_init J_init Hok H).
  rewrite accepted_app. apply in_or_app. right. left. reflexivity.
Qed.

Definition all_ok_rq (p : option N) : op :=
  Send {| gas_given := true; price_given := true |}
       {| pending := p; est_ok := true; tip_ok := true; price_ok := true; sign_ok := true; submit_ok := true |}.

(* while a client lives its counter is at or above every pending answer it has received *)
Lemma life_ge_pendings ops : forall s,
  wf_ops ops -> bnd s -> no_restart (run s ops) ->
  forall q, In q (pendings (run s ops)) -> q <= ctr (final s ops).
Proof.
  induction ops as [|o ops IH]; intros s Hw Hb Hn q Hin; [destruct Hin|].
  rewrite run_cons in Hn, Hin. apply no_restart_cons in Hn. destruct Hn as [He Hn].
  inversion Hw as [|? ? Hwo Hwr]; subst.
  pose proof (step_bnd s o Hwo Hb) as Hb'. rewrite final_cons.
  pose proof (life_monotone _ _ Hwr Hb' Hn) as [Hmono _].
  assert (Hhead : forall q' r', (snd (step s o) = TSend (Some q') r') -> (q' <= ctr (fst (step s o)))).
  { intros q' r'. unfold step, step_with. destruct o as [rq a|v|]; try discriminate.
    destruct (send_with get_nonce (ctr s) (conf s) rq a) as [c r] eqn:E. cbn [fst snd ctr].
    intros [= Hp _]. apply (send_spec _ _ _ _ _ _ Hb) in E. rewrite Hp in E. destruct r as [|m|m]; lia. }
  destruct (snd (step s o)) as [[q'|] r|v|] eqn:Es; cbn [pendings] in Hin.
  - destruct Hin as [<-|Hin].
    + specialize (Hhead q' r eq_refl). lia.
    + exact (IH _ Hwr Hb' Hn q Hin).
  - exact (IH _ Hwr Hb' Hn q Hin).
  - exact (IH _ Hwr Hb' Hn q Hin).
  - exact (IH _ Hwr Hb' Hn q Hin).
Qed.

(* Across a restart with a premise on the node's answers only: as soon as one pending answer given to
   the new client (up to and including the one for this request) is above a nonce accepted before the
   restart, everything the new client gets accepted from then on is above that nonce. *)
Lemma restart_fresh_answer ops pre mid p2 n2 post n1 q :
  wf_ops ops ->
  run init ops = pre ++ TRestart :: mid ++ TSend p2 (Accepted n2) :: post ->
  no_restart mid ->
  In q (pendings (mid ++ [TSend p2 (Accepted n2)])) -> n1 < q -> n1 < n2.
Proof.
  intros Hw H Hn Hq Hlt.
  apply run_decompose in H. destruct H as (o1 & o & o2 & -> & Hr1 & Hs1 & Hp1).
  apply wf_ops_app in Hw. destruct Hw as [Hw1 Hw]. inversion Hw as [|? ? Hwo Hw2]; subst.
  assert (Hi : fst (step (final init o1) o) = init).
  { unfold step, step_with in *. destruct o as [rq a|v|]; [|discriminate|reflexivity].
    destruct (send_with get_nonce (ctr (final init o1)) (conf (final init o1)) rq a). discriminate. }
  rewrite Hi in Hp1.
  apply run_decompose in Hp1. destruct Hp1 as (o3 & o' & o4 & -> & Hr2 & Hs2 & Hp2).
  apply wf_ops_app in Hw2. destruct Hw2 as [Hw3 Hw4]. subst mid.
  pose proof (final_bnd _ _ Hw3 bnd_init) as Hb2.
  destruct (step_accept _ _ _ _ Hb2 Hs2) as (q2 & -> & Hn2 & _).
  rewrite pendings_app in Hq. apply in_app_or in Hq. destruct Hq as [Hq|Hq].
  - pose proof (life_ge_pendings _ _ Hw3 bnd_init Hn q Hq). lia.
  - cbn [pendings] in Hq. destruct Hq as [<-|[]]. lia.
Qed.

(* Without any such premise the cross-restart clause is false for this code (and for every client that
   keeps no persistent state): the restarted client is given a stale first answer and reuses nonce 0. *)
Lemma restart_without_premise_refuted :
  exists ops pre p1 n1 mid p2 n2 post,
    wf_ops ops /\
    run init ops = pre ++ TSend p1 (Accepted n1) :: mid ++ TSend p2 (Accepted n2) :: post /\
    sync_ok (run init ops) = false /\ ~ n1 < n2.
Proof.
  exists [all_ok_rq (Some 0); Restart; all_ok_rq (Some 0)], [], (Some 0), 0, [TRestart], (Some 0), 0, [].
  split; [repeat constructor|]. split; [vm_compute; reflexivity|]. split; [vm_compute; reflexivity|lia].
Qed.

(* The atomicity of one [send] step (the history is a sequence of whole Send calls) rests on the client
   mutex: Send takes c.mtx and releases it by defer -- regenerated from evmclient.go on every run. *)
(* Source shape of Send / getNonce that the model's [send_with] / [get_nonce] rest on, as regenerated
   from evmclient.go on every run (source text, white space normalised):
   - exactly one call of c.mtx.Lock and exactly one of c.mtx.Unlock in Send (so no second, early Unlock);
   - the window test is applied to the value getNonce returned: c.monitor.allowNonce(nonce), and the same
     [nonce] goes into c.newTx(ctx, tx, nonce);
   - Send writes c.nonce only by ++ (once); getNonce writes it only with the node's answer (twice), which
     comes from c.ethClient.PendingNonceAt(ctx, c.owner).
   Lock first / Unlock deferred: [send_lock_first_now].  Not pinned: the order getNonce -> allowNonce ->
   newTx further down (top_stmts gives a prefix of the body only). *)
Lemma send_source_shape_now :
  c08_send_lock_calls = [[]] /\ c08_send_unlock_calls = [[]] /\
  c08_send_getnonce_args = [[bos "ctx"]] /\
  c08_send_allow_args = [[bos "nonce"]] /\
  c08_send_newtx_args = [[bos "ctx"; bos "tx"; bos "nonce"]] /\
  c08_send_nonce_writes = [bos "++"] /\
  c08_getnonce_nonce_writes = [bos "accountNonce"; bos "accountNonce"] /\
  c08_getnonce_pending_args = [[bos "ctx"; bos "c.owner"]].
Proof. repeat split; vm_compute; reflexivity. Qed.

Lemma send_serialised_now : c08_send_locks = true /\ c08_send_unlocks = true.
Proof. split; reflexivity. Qed.

(* ... as the FIRST statement, released by defer (and by nothing else: one Lock call, one Unlock call, one
   deferred call in the whole function) *)
Lemma send_lock_first_now :
  c08_send_top_stmts = [bos "c.mtx.Lock()"; bos "defer c.mtx.Unlock()"] /\ c08_send_defers = [bos "c.mtx.Unlock()"].
Proof. split; vm_compute; reflexivity. Qed.

(* ------------------------------------------------------------------------------------ *)
(* the code before commit a9d18e4 does not have the property                              *)
(* ------------------------------------------------------------------------------------ *)

Definition all_ok (p : N) : op :=
  Send {| gas_given := true; price_given := true |}
       {| pending := Some p; est_ok := true; tip_ok := true; price_ok := true; sign_ok := true;
          submit_ok := true |}.

Lemma monotone_v0_refuted :
  exists ops pre p1 n1 mid p2 n2 post,
    wf_ops ops /\
    run_v0 init ops = pre ++ TSend p1 (Accepted n1) :: mid ++ TSend p2 (Accepted n2) :: post /\
    no_restart mid /\ ~ n1 < n2.
Proof.
  exists [all_ok 0; all_ok 0; all_ok 0], [], (Some 0), 0, [TSend (Some 0) (Accepted 0)], (Some 0), 0, [].
  split; [repeat constructor|]. split; [vm_compute; reflexivity|]. split; [reflexivity|lia].
Qed.

(* ------------------------------------------------------------------------------------ *)
(* the boolean checker of check/Check_C08.v                                               *)
(* ------------------------------------------------------------------------------------ *)

Definition base_of (k : cst) : N := match k_last k with Some m => m + 1 | None => 0 end.

Definition K (s : st) (k : cst) : Prop :=
  ctr s = N.max (base_of k) (k_seen k) /\
  (k_unsync k = true -> k_last k = None /\ k_seen k = 0) /\
  (k_prem k = true -> k_unsync k = false -> hi_lt (k_hi k) (ctr s)) /\
  conf s <= k_maxconf k.

Lemma K_init : K init k0.
Proof. unfold K, base_of. cbn. repeat split; try lia; try discriminate. Qed.

Lemma K_step s o k :
  wf_op o -> bnd s -> K s k ->
  fst (check_ev k (snd (step s o))) = None /\ K (fst (step s o)) (snd (check_ev k (snd (step s o)))).
Proof.
  intros Hwo Hb (K1 & K2 & K3 & K4). unfold step, step_with. destruct o as [rq a|v|].
  - destruct (send_with get_nonce (ctr s) (conf s) rq a) as [c r] eqn:E. cbn [fst snd].
    pose proof (send_spec _ _ _ _ _ _ Hb E) as Hs.
    assert (Hmod : (conf s + max_sent_txs) mod w64 <= conf s + 1024).
    { rewrite <- max_sent_txs_value. apply N.mod_le. unfold w64. lia. }
    destruct k as [last hi seen failed unsync prem maxconf].
    unfold K, base_of, check_ev, check_send, spec_window, hi_lt in *.
    cbn [k_last k_hi k_seen k_failed k_unsync k_prem k_maxconf ctr conf] in *.
    destruct (pending a) as [q|].
    + destruct r as [|m|m]; cbn [reached first_err fst snd k_last k_hi k_seen k_failed k_unsync k_prem k_maxconf].
      * subst c. split; [reflexivity|].
        split; [lia|]. split; [|split; [|lia]].
        -- intros Hu. apply andb_true_iff in Hu. destruct Hu as [-> Hq]. apply N.eqb_eq in Hq.
           destruct (K2 eq_refl) as [-> ->]. split; [reflexivity|lia].
        -- intros Hp Hu. apply andb_true_iff in Hp. destruct Hp as [-> Hp].
           destruct hi as [h|]; [|exact I]. destruct unsync; cbn [andb negb orb] in *.
           ++ destruct (K2 eq_refl) as [-> ->]. lia.
           ++ specialize (K3 eq_refl eq_refl). lia.
      * destruct Hs as (-> & -> & Hw).
        split.
        { destruct (q <=? N.max (ctr s) q) eqn:E1; [|lia].
          destruct (N.max (ctr s) q <=? maxconf + 1024) eqn:E2; [reflexivity|lia]. }
        split; [lia|]. split; [|split; [|lia]].
        -- intros Hu. apply andb_true_iff in Hu. destruct Hu as [-> Hq]. apply N.eqb_eq in Hq.
           destruct (K2 eq_refl) as [-> ->]. split; [reflexivity|lia].
        -- intros Hp Hu. apply andb_true_iff in Hp. destruct Hp as [-> Hp].
           destruct hi as [h|]; [|exact I]. destruct unsync; cbn [andb negb orb] in *.
           ++ destruct (K2 eq_refl) as [-> ->]. lia.
           ++ specialize (K3 eq_refl eq_refl). lia.
      * destruct Hs as (-> & -> & Hw).
        assert (Hhi : prem && match hi with Some h => negb unsync || (h <? q) | None => true end = true ->
                      match hi with Some h => h < N.max (ctr s) q | None => True end).
        { intros Hp. apply andb_true_iff in Hp. destruct Hp as [-> Hp].
          destruct hi as [h|]; [|exact I]. destruct unsync; cbn [negb orb] in Hp.
          - destruct (K2 eq_refl) as [-> ->]. lia.
          - specialize (K3 eq_refl eq_refl). lia. }
        split.
        { destruct last as [l|].
          - destruct (l <? N.max (ctr s) q) eqn:E0; [|lia].
            destruct (prem && match hi with Some h => negb unsync || (h <? q) | None => true end) eqn:E3.
            + specialize (Hhi eq_refl). destruct hi as [h|].
              * destruct (h <? N.max (ctr s) q) eqn:E4; [|lia].
                destruct (q <=? N.max (ctr s) q) eqn:E1; [|lia].
                destruct (N.max (ctr s) q <=? N.max (l + 1) (N.max seen q)) eqn:E5; [|lia].
                destruct (N.max (ctr s) q <=? maxconf + 1024) eqn:E2; [reflexivity|lia].
              * destruct (q <=? N.max (ctr s) q) eqn:E1; [|lia].
                destruct (N.max (ctr s) q <=? N.max (l + 1) (N.max seen q)) eqn:E5; [|lia].
                destruct (N.max (ctr s) q <=? maxconf + 1024) eqn:E2; [reflexivity|lia].
            + destruct (q <=? N.max (ctr s) q) eqn:E1; [|lia].
              destruct (N.max (ctr s) q <=? N.max (l + 1) (N.max seen q)) eqn:E5; [|lia].
              destruct (N.max (ctr s) q <=? maxconf + 1024) eqn:E2; [reflexivity|lia].
          - destruct (prem && match hi with Some h => negb unsync || (h <? q) | None => true end) eqn:E3.
            + specialize (Hhi eq_refl). destruct hi as [h|].
              * destruct (h <? N.max (ctr s) q) eqn:E4; [|lia].
                destruct (q <=? N.max (ctr s) q) eqn:E1; [|lia].
                destruct (N.max (ctr s) q <=? N.max 0 (N.max seen q)) eqn:E5; [|lia].
                destruct (N.max (ctr s) q <=? maxconf + 1024) eqn:E2; [reflexivity|lia].
              * destruct (q <=? N.max (ctr s) q) eqn:E1; [|lia].
                destruct (N.max (ctr s) q <=? N.max 0 (N.max seen q)) eqn:E5; [|lia].
                destruct (N.max (ctr s) q <=? maxconf + 1024) eqn:E2; [reflexivity|lia].
            + destruct (q <=? N.max (ctr s) q) eqn:E1; [|lia].
              destruct (N.max (ctr s) q <=? N.max 0 (N.max seen q)) eqn:E5; [|lia].
              destruct (N.max (ctr s) q <=? maxconf + 1024) eqn:E2; [reflexivity|lia]. }
        split; [lia|]. split; [discriminate|]. split; [|lia].
        intros Hp _. specialize (Hhi Hp). destruct hi as [h|]; cbn [hi_max]; lia.
    + destruct Hs as [-> ->]. cbn [reached first_err fst snd k_last k_hi k_seen k_failed k_unsync k_prem k_maxconf].
      split; [reflexivity|]. rewrite !andb_true_r. split; [lia|]. split; [exact K2|]. split; [exact K3|lia].
  - destruct k as [last hi seen failed unsync prem maxconf].
    unfold K, base_of, check_ev, hi_lt in *.
    cbn [fst snd k_last k_hi k_seen k_failed k_unsync k_prem k_maxconf ctr conf] in *.
    split; [reflexivity|]. split; [lia|]. split; [exact K2|]. split; [exact K3|lia].
  - destruct k as [last hi seen failed unsync prem maxconf].
    unfold K, base_of, check_ev, hi_lt in *.
    cbn [fst snd k_last k_hi k_seen k_failed k_unsync k_prem k_maxconf ctr conf init] in *.
    split; [reflexivity|]. split; [lia|]. split; [intros _; split; reflexivity|]. split; [discriminate|lia].
Qed.

Lemma check_from_run ops : forall s k,
  wf_ops ops -> bnd s -> K s k -> check_from k (run s ops) = None.
Proof.
  induction ops as [|o ops IH]; intros s k Hw Hb HK; [reflexivity|].
  rewrite run_cons. cbn [check_from]. inversion Hw as [|? ? Hwo Hwr]; subst.
  destruct (K_step s o k Hwo Hb HK) as [Hnone HK'].
  destruct (check_ev k (snd (step s o))) as [e k']. cbn [fst snd] in *. subst e.
  apply IH; [assumption|apply step_bnd; assumption|exact HK'].
Qed.

(* the checker evaluated by the harness on observed histories never fires on a model history *)
Lemma checker_silent_on_model ops : wf_ops ops -> check_trace (run init ops) = None.
Proof. intros Hw. apply check_from_run; [exact Hw|exact bnd_init|exact K_init]. Qed.

(* ... and it does fire on the history of the code before a9d18e4, with the key recorded in
   KNOWN_FINDINGS.jsonl *)
Lemma checker_fires_on_v0 :
  check_trace (run_v0 init [all_ok 0; all_ok 0; all_ok 0]) = Some "nonce-reuse"%string.
Proof. vm_compute. reflexivity. Qed.

(* ------------------------------------------------------------------------------------ *)
(* non-vacuity                                                                            *)
(* ------------------------------------------------------------------------------------ *)

Definition answer (p : option N) (sub : bool) : answers :=
  {| pending := p; est_ok := true; tip_ok := true; price_ok := true; sign_ok := true; submit_ok := sub |}.
Definition rq_plain : request := {| gas_given := false; price_given := false |}.

(* fresh account; stale answers; a failed pending call; a rejected submission; an outside
   transaction; a restart with a good answer *)
Definition example_ops : list op :=
  [ Send rq_plain (answer (Some 0) true); Send rq_plain (answer (Some 0) true);
    Send rq_plain (answer None true); Send rq_plain (answer (Some 1) false);
    Send rq_plain (answer (Some 2) true); Conf 2; Send rq_plain (answer (Some 7) true);
    Restart; Send rq_plain (answer (Some 8) true); Send rq_plain (answer (Some 3) true) ].

Example example_trace :
  run init example_ops =
  [ TSend (Some 0) (Accepted 0); TSend (Some 0) (Accepted 1); TSend None NoTx;
    TSend (Some 1) (Rejected 2); TSend (Some 2) (Accepted 2); TConf 2; TSend (Some 7) (Accepted 7);
    TRestart; TSend (Some 8) (Accepted 8); TSend (Some 3) (Accepted 9) ].
Proof. vm_compute. reflexivity. Qed.

Example example_wf : wf_ops example_ops /\ sync_ok (run init example_ops) = true.
Proof.
  split; [|vm_compute; reflexivity].
  repeat constructor.
Qed.

(* the window refuses: confirmed 0, pending 1025 *)
Example example_window :
  run init [Send rq_plain (answer (Some 1024) true); Send rq_plain (answer (Some 1026) true)] =
  [TSend (Some 1024) (Accepted 1024); TSend (Some 1026) NoTx].
Proof. vm_compute. reflexivity. Qed.

(* without the input premise the uint64 counter wraps and the nonce space is exhausted *)
Example example_exhausted :
  accepted (run init [Conf (w64 - 1025); Send rq_plain (answer (Some (w64 - 1)) true);
                      Send rq_plain (answer (Some 5) true)]) = [w64 - 1; 5].
Proof. vm_compute. reflexivity. Qed.

(* ------------------------------------------------------------------------------------ *)
(* corollaries in the wording of the property, and instances of their premises            *)
(* ------------------------------------------------------------------------------------ *)

(* exactly one greater than the previous one when nothing failed in between and the node did not
   report a higher pending nonce (no outside transaction) *)
Lemma succ ops pre p1 n1 q n2 post :
  wf_ops ops ->
  run init ops = pre ++ TSend p1 (Accepted n1) :: TSend (Some q) (Accepted n2) :: post ->
  q <= n1 + 1 -> n2 = n1 + 1.
Proof.
  intros Hw H Hq.
  pose proof (next_exact ops pre p1 n1 [] (Some q) n2 post Hw H eq_refl eq_refl) as E.
  cbn in E. lia.
Qed.

(* requests that fail in between -- at any call, any number of them -- consume no nonce: as long as
   the node reports no pending nonce above previous+1, the next accepted nonce is previous+1 *)
Lemma fail_consumes_nothing ops pre p1 n1 mid p2 n2 post :
  wf_ops ops ->
  run init ops = pre ++ TSend p1 (Accepted n1) :: mid ++ TSend p2 (Accepted n2) :: post ->
  no_restart mid -> accepted mid = [] ->
  (forall q, In q (pendings (mid ++ [TSend p2 (Accepted n2)])) -> q <= n1 + 1) ->
  n2 = n1 + 1.
Proof.
  intros Hw H Hn Ha Hq.
  pose proof (next_exact ops pre p1 n1 mid p2 n2 post Hw H Hn Ha) as E.
  assert (Hm : forall l, (forall q, In q l -> q <= n1 + 1) -> max_list l <= n1 + 1).
  { induction l as [|x l IH]; intros Hl; [cbn; lia|]. rewrite max_list_cons.
    pose proof (Hl x (or_introl eq_refl)). specialize (IH (fun q Hin => Hl q (or_intror Hin))). lia. }
  specialize (Hm _ Hq). lia.
Qed.

(* premises of [monotone], [next_exact], [fail_consumes_nothing] hold on the example history:
   accepted 2, then (after a confirmed-nonce report) accepted 7 because the node reported pending 7 *)
Example example_decomposition :
  run init example_ops =
  [TSend (Some 0) (Accepted 0)] ++ TSend (Some 0) (Accepted 1) ::
  [TSend None NoTx; TSend (Some 1) (Rejected 2)] ++ TSend (Some 2) (Accepted 2) ::
  [TConf 2; TSend (Some 7) (Accepted 7); TRestart; TSend (Some 8) (Accepted 8); TSend (Some 3) (Accepted 9)]
  /\ no_restart [TSend None NoTx; TSend (Some 1) (Rejected 2)]
  /\ accepted [TSend None NoTx; TSend (Some 1) (Rejected 2)] = []
  /\ (forall q, In q (pendings ([TSend None NoTx; TSend (Some 1) (Rejected 2)] ++ [TSend (Some 2) (Accepted 2)])) -> q <= 1 + 1).
Proof.
  split; [vm_compute; reflexivity|]. split; [reflexivity|]. split; [reflexivity|].
  cbn. intros q [<-|[<-|[]]]; lia.
Qed.

(* premise of [succ]: stale answer 0 right after nonce 0 was accepted *)
Example example_succ :
  run init example_ops = [] ++ TSend (Some 0) (Accepted 0) :: TSend (Some 0) (Accepted 1) ::
    skipn 2 (run init example_ops) /\ 0 <= 0 + 1.
Proof. split; [vm_compute; reflexivity|lia]. Qed.

(* premise of [first_exact_restart] and [monotone_restart]: across the restart 7 < 8 *)
Example example_restart :
  run init example_ops =
  firstn 7 (run init example_ops) ++ TRestart :: [] ++ TSend (Some 8) (Accepted 8) :: [TSend (Some 3) (Accepted 9)]
  /\ sync_ok (run init example_ops) = true.
Proof. split; vm_compute; reflexivity. Qed.

(* a stale first answer after a restart falsifies the premise (and then nonce 0 is reused: no client
   without persistent state can avoid that) *)
Example example_stale_restart :
  let ops := [all_ok 0; Restart; all_ok 0] in
  sync_ok (run init ops) = false /\ accepted (run init ops) = [0; 0].
Proof. split; vm_compute; reflexivity. Qed.
