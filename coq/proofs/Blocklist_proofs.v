(* Proofs about model/Blocklist.v (property C17). *)
From Coq Require Import String List NArith ZArith Bool Lia.
From MevVerif Require Import lib.Bytes gen.Generated model.Blocklist check.Check_C17.
Import ListNotations.
Open Scope Z_scope.

(* --- facts read off the regenerated source tables --------------------------------------- *)
Lemma inbound_durations_now : Generated.c17_inbound_durations = [0; 0; 120000000000].
Proof. reflexivity. Qed.
Lemma outbound_durations_now : Generated.c17_outbound_durations = [0; 0; 300000000000].
Proof. reflexivity. Qed.
Lemma inbound_cases_now : Generated.c17_inbound_cases =
  [[bos "err"; failure_name SigFailed]; [bos "err"; failure_name AddrMismatch];
   [bos "err"; failure_name LowStake]].
Proof. reflexivity. Qed.
Lemma outbound_cases_now : Generated.c17_outbound_cases =
  [[bos "err"; failure_name SigFailed]; [bos "err"; failure_name AddrMismatch];
   [bos "err"; failure_name LowStake]].
Proof. reflexivity. Qed.
(* the peer that is blocked is the remote of the failed handshake *)
Lemma inbound_blocks_remote :
  map (fun r => hd [] r) Generated.c17_inbound_block_args = [bos "peerID"; bos "peerID"; bos "peerID"].
Proof. reflexivity. Qed.
Lemma outbound_blocks_remote :
  map (fun r => hd [] r) Generated.c17_outbound_block_args =
  [bos "addrInfo.ID"; bos "addrInfo.ID"; bos "addrInfo.ID"].
Proof. reflexivity. Qed.
Lemma wiring_now_wired : wired wiring_now = true.
Proof. reflexivity. Qed.
Lemma new_makes_gater : Generated.c17_new_makes_gater = true.
Proof. reflexivity. Qed.

Lemma failure_durations :
  inbound_block_duration SigFailed = Some 0 /\ inbound_block_duration AddrMismatch = Some 0 /\
  inbound_block_duration LowStake = Some 120000000000 /\
  outbound_block_duration SigFailed = Some 0 /\ outbound_block_duration AddrMismatch = Some 0 /\
  outbound_block_duration LowStake = Some 300000000000.
Proof. repeat split; reflexivity. Qed.

(* --- association list ------------------------------------------------------------------- *)
Lemma lookup_remove_same p m : lookup p (remove p m) = None.
Proof.
  induction m as [|[q e] r IH]; cbn; [reflexivity|].
  destruct (q =? p)%N eqn:E; [exact IH|]. cbn. rewrite E. exact IH.
Qed.
Lemma lookup_remove_other p q m : q <> p -> lookup q (remove p m) = lookup q m.
Proof.
  intros Hne. induction m as [|[k e] r IH]; cbn; [reflexivity|].
  destruct (k =? p)%N eqn:E.
  - apply N.eqb_eq in E. subst k. destruct (p =? q)%N eqn:E2; [apply N.eqb_eq in E2; congruence|exact IH].
  - cbn. destruct (k =? q)%N; [reflexivity|exact IH].
Qed.
Lemma lookup_set_same p e m : lookup p (set p e m) = Some e.
Proof. unfold set. cbn. rewrite N.eqb_refl. reflexivity. Qed.
Lemma lookup_set_other p q e m : q <> p -> lookup q (set p e m) = lookup q m.
Proof.
  intros Hne. unfold set. cbn. destruct (p =? q)%N eqn:E; [apply N.eqb_eq in E; congruence|].
  apply lookup_remove_other, Hne.
Qed.

(* --- the per-peer view -------------------------------------------------------------------- *)
Definition expired (info : entry) (now : Z) : bool :=
  (e_start info + e_dur info <? now) && negb (e_dur info =? 0).
Definition bp_entry (o : option entry) (d now : Z) : option entry :=
  match o with
  | Some info =>
      if e_dur info =? 0 then o
      else if negb (d =? 0) && (now + d <? e_start info + e_dur info) then o
      else Some {| e_start := now; e_dur := d |}
  | None => Some {| e_start := now; e_dur := d |}
  end.
Definition ib_entry (o : option entry) (now : Z) : option entry * bool :=
  match o with
  | None => (None, false)
  | Some info => if expired info now then (None, false) else (o, true)
  end.

Lemma lookup_block_same m p d now : lookup p (block_peer m p d now) = bp_entry (lookup p m) d now.
Proof.
  unfold block_peer, bp_entry. destruct (lookup p m) as [info|] eqn:E.
  - destruct (e_dur info =? 0); [exact E|].
    destruct (negb (d =? 0) && (now + d <? e_start info + e_dur info)); [exact E|].
    apply lookup_set_same.
  - apply lookup_set_same.
Qed.
Lemma lookup_block_other m p q d now : q <> p -> lookup q (block_peer m p d now) = lookup q m.
Proof.
  intros Hne. unfold block_peer. destruct (lookup p m) as [info|].
  - destruct (e_dur info =? 0); [reflexivity|].
    destruct (negb (d =? 0) && (now + d <? e_start info + e_dur info)); [reflexivity|].
    apply lookup_set_other, Hne.
  - apply lookup_set_other, Hne.
Qed.
Lemma is_blocked_view m p now :
  lookup p (fst (is_blocked m p now)) = fst (ib_entry (lookup p m) now) /\
  snd (is_blocked m p now) = snd (ib_entry (lookup p m) now).
Proof.
  unfold is_blocked, ib_entry, expired. destruct (lookup p m) as [info|] eqn:E; cbn.
  - destruct ((e_start info + e_dur info <? now) && negb (e_dur info =? 0)); cbn.
    + split; [apply lookup_remove_same|reflexivity].
    + split; [exact E|reflexivity].
  - split; [exact E|reflexivity].
Qed.
Lemma is_blocked_other m p q now : q <> p -> lookup q (fst (is_blocked m p now)) = lookup q m.
Proof.
  intros Hne. unfold is_blocked. destruct (lookup p m) as [info|]; cbn; [|reflexivity].
  destruct ((e_start info + e_dur info <? now) && negb (e_dur info =? 0)); cbn; [|reflexivity].
  apply lookup_remove_other, Hne.
Qed.

(* effect of one event on the entry of peer p *)
Definition estep (p : pid) (w : wiring) (o : option entry) (e : event) : option entry :=
  match e with
  | Block q d t => if (q =? p)%N then bp_entry o d t else o
  | Query q t => if (q =? p)%N then fst (ib_entry o t) else o
  | Dial q t | Secured q t => if (q =? p)%N && wired w then fst (ib_entry o t) else o
  | _ => o
  end.

Lemma gater_check_view hb m p t :
  lookup p (fst (gater_peer_check hb m p t)) = (if hb then fst (ib_entry (lookup p m) t) else lookup p m) /\
  snd (gater_peer_check hb m p t) = (if hb then negb (snd (ib_entry (lookup p m) t)) else true).
Proof.
  unfold gater_peer_check. destruct hb; [|split; reflexivity].
  destruct (is_blocked_view m p t) as [H1 H2]. destruct (is_blocked m p t) as [m' b]. cbn in *.
  split; [exact H1|rewrite H2; reflexivity].
Qed.
Lemma gater_check_other hb m p q t : q <> p -> lookup q (fst (gater_peer_check hb m p t)) = lookup q m.
Proof.
  intros Hne. unfold gater_peer_check. destruct hb; [|reflexivity].
  pose proof (is_blocked_other m p q t Hne) as H. destruct (is_blocked m p t) as [m' b]. exact H.
Qed.

Lemma lookup_step w m e p : lookup p (fst (step w m e)) = estep p w (lookup p m) e.
Proof.
  destruct e as [q d t|q t|q t|q t|q t|q t|ok t|ps t]; unfold step, step_with, estep;
    cbn [fst]; try reflexivity.
  - destruct (q =? p)%N eqn:E.
    + apply N.eqb_eq in E. subst q. apply lookup_block_same.
    + apply N.eqb_neq in E. apply lookup_block_other. congruence.
  - destruct (q =? p)%N eqn:E.
    + apply N.eqb_eq in E. subst q. destruct (is_blocked_view m p t) as [H _].
      destruct (is_blocked m p t). exact H.
    + apply N.eqb_neq in E. pose proof (is_blocked_other m q p t) as H.
      destruct (is_blocked m q t). apply H. congruence.
  - unfold intercept_peer_dial. destruct (q =? p)%N eqn:E.
    + apply N.eqb_eq in E. subst q. destruct (gater_check_view (wired w) m p t) as [H _].
      destruct (gater_peer_check (wired w) m p t). cbn [fst] in *. rewrite H. cbn.
      destruct (wired w); reflexivity.
    + apply N.eqb_neq in E. pose proof (gater_check_other (wired w) m q p t) as H.
      destruct (gater_peer_check (wired w) m q t). cbn. apply H. congruence.
  - unfold intercept_secured. destruct (q =? p)%N eqn:E.
    + apply N.eqb_eq in E. subst q. destruct (gater_check_view (wired w) m p t) as [H _].
      destruct (gater_peer_check (wired w) m p t). cbn [fst] in *. rewrite H. cbn.
      destruct (wired w); reflexivity.
    + apply N.eqb_neq in E. pose proof (gater_check_other (wired w) m q p t) as H.
      destruct (gater_peer_check (wired w) m q t). cbn. apply H. congruence.
Qed.

Lemma run_app w a b : run w (a ++ b) = fold_left (fun m e => fst (step w m e)) b (run w a).
Proof. unfold run, run_with. apply fold_left_app. Qed.
Lemma run_snoc w a e : run w (a ++ [e]) = fst (step w (run w a) e).
Proof. rewrite run_app. reflexivity. Qed.

Lemma lookup_fold w p evs m :
  lookup p (fold_left (fun m e => fst (step w m e)) evs m) = fold_left (estep p w) evs (lookup p m).
Proof.
  revert m. induction evs as [|e r IH]; intros m; cbn [fold_left]; [reflexivity|].
  rewrite IH, lookup_step. reflexivity.
Qed.
Lemma lookup_run w p evs : lookup p (run w evs) = fold_left (estep p w) evs None.
Proof. unfold run, run_with. fold (step w). rewrite lookup_fold. reflexivity. Qed.

Lemma query_answer_view w evs p t :
  query_answer w evs p t = snd (ib_entry (fold_left (estep p w) evs None) t).
Proof.
  unfold query_answer. destruct (is_blocked_view (run w evs) p t) as [_ H]. rewrite H, lookup_run.
  reflexivity.
Qed.

(* --- invariants on one peer's entry --------------------------------------------------------- *)
(* permanent *)
Definition Perm (o : option entry) : Prop := exists e, o = Some e /\ e_dur e = 0.
Lemma perm_not_expired e t : e_dur e = 0 -> expired e t = false.
Proof. intros H. unfold expired. rewrite H. cbn. apply andb_false_r. Qed.
Lemma perm_step p w o e : Perm o -> Perm (estep p w o e).
Proof.
  intros (i & -> & Hd). assert (Hib : forall t, fst (ib_entry (Some i) t) = Some i).
  { intros t. cbn. rewrite (perm_not_expired i t Hd). reflexivity. }
  destruct e as [q d t|q t|q t|q t|q t|q t|ok t|ps t]; cbn [estep];
    try (exists i; split; [reflexivity|exact Hd]).
  - destruct (q =? p)%N; [|exists i; split; [reflexivity|exact Hd]].
    cbn. rewrite Hd. cbn. exists i. split; [reflexivity|exact Hd].
  - destruct (q =? p)%N; [rewrite Hib|]; exists i; (split; [reflexivity|exact Hd]).
  - destruct ((q =? p)%N && wired w); [rewrite Hib|]; exists i; (split; [reflexivity|exact Hd]).
  - destruct ((q =? p)%N && wired w); [rewrite Hib|]; exists i; (split; [reflexivity|exact Hd]).
Qed.
Lemma perm_fold p w evs o : Perm o -> Perm (fold_left (estep p w) evs o).
Proof. revert o. induction evs as [|e r IH]; intros o H; cbn; [exact H|]. apply IH, perm_step, H. Qed.
Lemma perm_after_block o t0 : Perm (bp_entry o 0 t0).
Proof.
  destruct o as [i|]; cbn.
  - destruct (e_dur i =? 0) eqn:E.
    + exists i. split; [reflexivity|]. apply Z.eqb_eq, E.
    + cbn. eexists. split; [reflexivity|reflexivity].
  - eexists. split; [reflexivity|reflexivity].
Qed.

Lemma permanent_holds w pre post p t0 t :
  query_answer w (pre ++ Block p 0 t0 :: post) p t = true.
Proof.
  rewrite query_answer_view, fold_left_app. cbn [fold_left estep]. rewrite N.eqb_refl.
  destruct (perm_fold p w post _ (perm_after_block (fold_left (estep p w) pre None) t0)) as (i & -> & Hd).
  cbn. rewrite (perm_not_expired i t Hd). reflexivity.
Qed.

(* covering a deadline T *)
Definition Cover (T : Z) (o : option entry) : Prop :=
  exists e, o = Some e /\ (e_dur e = 0 \/ T <= e_start e + e_dur e).
Lemma cover_not_expired T e t : t <= T -> (e_dur e = 0 \/ T <= e_start e + e_dur e) -> expired e t = false.
Proof.
  intros Ht [H|H]; [apply perm_not_expired, H|].
  unfold expired. destruct (e_start e + e_dur e <? t) eqn:E; [|reflexivity].
  apply Z.ltb_lt in E. lia.
Qed.
Lemma cover_bp T o d t : Cover T o -> Cover T (bp_entry o d t).
Proof.
  intros (i & -> & Hc). cbn. destruct (e_dur i =? 0) eqn:E0.
  - exists i. split; [reflexivity|exact Hc].
  - destruct (negb (d =? 0) && (t + d <? e_start i + e_dur i)) eqn:E1.
    + exists i. split; [reflexivity|exact Hc].
    + eexists. split; [reflexivity|]. cbn. apply andb_false_iff in E1. destruct E1 as [E1|E1].
      * left. apply negb_false_iff, Z.eqb_eq in E1. exact E1.
      * right. apply Z.ltb_ge in E1. apply Z.eqb_neq in E0. destruct Hc as [Hc|Hc]; [contradiction|lia].
Qed.
Lemma cover_step T p w o e : time_of e <= T -> Cover T o -> Cover T (estep p w o e).
Proof.
  intros Ht Hc.
  assert (Hib : forall t, t <= T -> Cover T (fst (ib_entry o t))).
  { intros t Hle. destruct Hc as (i & -> & Hc). cbn. rewrite (cover_not_expired T i t Hle Hc).
    exists i. split; [reflexivity|exact Hc]. }
  destruct e as [q d t|q t|q t|q t|q t|q t|ok t|ps t]; cbn [estep time_of] in *; try exact Hc.
  - destruct (q =? p)%N; [apply cover_bp, Hc|exact Hc].
  - destruct (q =? p)%N; [apply Hib, Ht|exact Hc].
  - destruct ((q =? p)%N && wired w); [apply Hib, Ht|exact Hc].
  - destruct ((q =? p)%N && wired w); [apply Hib, Ht|exact Hc].
Qed.
Lemma cover_fold T p w evs o :
  Forall (fun e => time_of e <= T) evs -> Cover T o -> Cover T (fold_left (estep p w) evs o).
Proof.
  revert o. induction evs as [|e r IH]; intros o HF H; cbn; [exact H|].
  inversion HF; subst. apply IH; [assumption|]. apply cover_step; assumption.
Qed.
Lemma cover_after_block o d t0 : Cover (t0 + d) (bp_entry o d t0).
Proof.
  destruct o as [i|]; cbn.
  - destruct (e_dur i =? 0) eqn:E0.
    + exists i. split; [reflexivity|]. left. apply Z.eqb_eq, E0.
    + destruct (negb (d =? 0) && (t0 + d <? e_start i + e_dur i)) eqn:E1.
      * exists i. split; [reflexivity|]. right. apply andb_true_iff in E1. destruct E1 as [_ E1].
        apply Z.ltb_lt in E1. lia.
      * eexists. split; [reflexivity|]. right. cbn. lia.
  - eexists. split; [reflexivity|]. right. cbn. lia.
Qed.

Lemma timed_full_term w pre post p d t0 t :
  Forall (fun e => time_of e <= t) post -> t <= t0 + d ->
  query_answer w (pre ++ Block p d t0 :: post) p t = true.
Proof.
  intros HF Ht. rewrite query_answer_view, fold_left_app. cbn [fold_left estep]. rewrite N.eqb_refl.
  assert (HF' : Forall (fun e => time_of e <= t0 + d) post).
  { eapply Forall_impl; [|exact HF]. cbn. intros a Ha. lia. }
  destruct (cover_fold (t0 + d) p w post _ HF' (cover_after_block (fold_left (estep p w) pre None) d t0))
    as (i & -> & Hc).
  cbn. rewrite (cover_not_expired (t0 + d) i t Ht Hc). reflexivity.
Qed.

(* provenance: a stored entry is the (time, duration) of some earlier Block on that peer *)
Definition FromBlocks (p : pid) (evs : list event) (o : option entry) : Prop :=
  forall e, o = Some e -> In (Block p (e_dur e) (e_start e)) evs.
Lemma ib_entry_sub o t e : fst (ib_entry o t) = Some e -> o = Some e.
Proof.
  destruct o as [i|]; cbn; [|discriminate]. destruct (expired i t); cbn; [discriminate|]. exact (fun H => H).
Qed.
Lemma bp_entry_cases o d t e :
  bp_entry o d t = Some e -> o = Some e \/ e = {| e_start := t; e_dur := d |}.
Proof.
  destruct o as [i|]; cbn.
  - destruct (e_dur i =? 0); [intros H; left; exact H|].
    destruct (negb (d =? 0) && (t + d <? e_start i + e_dur i)); [intros H; left; exact H|].
    intros [= <-]. right. reflexivity.
  - intros [= <-]. right. reflexivity.
Qed.
Lemma from_blocks_run w p evs : FromBlocks p evs (fold_left (estep p w) evs None).
Proof.
  induction evs as [|e r IH] using rev_ind; [intros i H; discriminate|].
  rewrite fold_left_app. cbn [fold_left]. intros i Hi.
  assert (Hold : fold_left (estep p w) r None = Some i -> In (Block p (e_dur i) (e_start i)) (r ++ [e])).
  { intros H. apply in_or_app. left. apply IH, H. }
  destruct e as [q d t|q t|q t|q t|q t|q t|ok t|ps t]; cbn [estep] in Hi; try (apply Hold, Hi).
  - destruct (q =? p)%N eqn:E; [|apply Hold, Hi]. apply N.eqb_eq in E. subst q.
    apply bp_entry_cases in Hi. destruct Hi as [Hi| ->]; [apply Hold, Hi|].
    apply in_or_app. right. left. reflexivity.
  - destruct (q =? p)%N; [apply ib_entry_sub in Hi|]; apply Hold, Hi.
  - destruct ((q =? p)%N && wired w); [apply ib_entry_sub in Hi|]; apply Hold, Hi.
  - destruct ((q =? p)%N && wired w); [apply ib_entry_sub in Hi|]; apply Hold, Hi.
Qed.

Lemma lifted w evs p t :
  (forall d t0, In (Block p d t0) evs -> d <> 0 /\ t0 + d < t) ->
  query_answer w evs p t = false.
Proof.
  intros H. rewrite query_answer_view. pose proof (from_blocks_run w p evs) as HF.
  destruct (fold_left (estep p w) evs None) as [i|]; [|reflexivity].
  specialize (HF i eq_refl). apply H in HF. destruct HF as [Hd Hlt]. cbn. unfold expired.
  replace (e_start i + e_dur i <? t) with true by (symmetry; apply Z.ltb_lt; exact Hlt).
  replace (e_dur i =? 0) with false by (symmetry; apply Z.eqb_neq; exact Hd). reflexivity.
Qed.

Lemma unaffected w evs p t :
  (forall d t0, ~ In (Block p d t0) evs) -> query_answer w evs p t = false.
Proof. intros H. apply lifted. intros d t0 Hin. exfalso. exact (H d t0 Hin). Qed.

(* the answer is exactly "some placed block covers t" *)
Lemma answer_exact w evs p t :
  Forall (fun e => time_of e <= t) evs -> query_answer w evs p t = covered evs p t.
Proof.
  intros HF. destruct (covered evs p t) eqn:Ec.
  - unfold covered in Ec. apply existsb_exists in Ec. destruct Ec as (e & Hin & Hc).
    destruct e as [q d t0| | | | | | | ]; cbn in Hc; try discriminate.
    apply andb_true_iff in Hc. destruct Hc as [Hq Hc]. apply N.eqb_eq in Hq. subst q.
    apply in_split in Hin. destruct Hin as (pre & post & ->).
    apply orb_true_iff in Hc. destruct Hc as [Hc|Hc].
    + apply Z.eqb_eq in Hc. subst d. apply permanent_holds.
    + apply Z.leb_le in Hc. apply timed_full_term; [|exact Hc].
      apply Forall_app in HF. destruct HF as [_ HF]. inversion HF; assumption.
  - apply lifted. intros d t0 Hin. unfold covered in Ec.
    assert (Hn : block_covers p t (Block p d t0) = false).
    { destruct (block_covers p t (Block p d t0)) eqn:E; [|reflexivity].
      assert (existsb (block_covers p t) evs = true) by (apply existsb_exists; eauto). congruence. }
    cbn in Hn. rewrite N.eqb_refl in Hn. cbn in Hn. apply orb_false_iff in Hn. destruct Hn as [H1 H2].
    apply Z.eqb_neq in H1. apply Z.leb_gt in H2. split; [exact H1|lia].
Qed.

(* --- gater ------------------------------------------------------------------------------- *)
Lemma gater_answers w evs p t :
  wired w = true ->
  dial_answer w evs p t = negb (query_answer w evs p t) /\
  secured_answer w evs p t = negb (query_answer w evs p t).
Proof.
  intros Hw. unfold dial_answer, secured_answer, intercept_peer_dial, intercept_secured, query_answer.
  rewrite Hw. unfold gater_peer_check. destruct (is_blocked (run w evs) p t). split; reflexivity.
Qed.
Lemma gater_effect m p t :
  fst (intercept_peer_dial true m p t) = fst (is_blocked m p t) /\
  fst (intercept_secured true m p t) = fst (is_blocked m p t).
Proof.
  unfold intercept_peer_dial, intercept_secured, gater_peer_check. destruct (is_blocked m p t).
  split; reflexivity.
Qed.
Lemma gater_others m p ok :
  intercept_addr_dial m p = (m, true) /\ intercept_upgraded m p = (m, true) /\
  intercept_accept m ok = (m, ok).
Proof. repeat split. Qed.
Lemma gater_unwired m p t :
  intercept_peer_dial false m p t = (m, true) /\ intercept_secured false m p t = (m, true).
Proof. split; reflexivity. Qed.

Lemma gater_now evs p t :
  Forall (fun e => time_of e <= t) evs ->
  dial_answer wiring_now evs p t = negb (covered evs p t) /\
  secured_answer wiring_now evs p t = negb (covered evs p t).
Proof.
  intros HF. destruct (gater_answers wiring_now evs p t wiring_now_wired) as [H1 H2].
  rewrite H1, H2, (answer_exact wiring_now evs p t HF). split; reflexivity.
Qed.

Lemma gater_calls w evs p t m ok :
  (wired w = true -> dial_answer w evs p t = negb (query_answer w evs p t) /\
                     secured_answer w evs p t = negb (query_answer w evs p t)) /\
  (fst (intercept_peer_dial true m p t) = fst (is_blocked m p t) /\
   fst (intercept_secured true m p t) = fst (is_blocked m p t)) /\
  (intercept_addr_dial m p = (m, true) /\ intercept_upgraded m p = (m, true) /\
   intercept_accept m ok = (m, ok)).
Proof. exact (conj (gater_answers w evs p t) (conj (gater_effect m p t) (gater_others m p ok))). Qed.

(* --- independence of peers ------------------------------------------------------------------ *)
Definition concerns (p : pid) (e : event) : bool :=
  match e with
  | Block q _ _ | Query q _ | Dial q _ | Secured q _ => (q =? p)%N
  | _ => false
  end.
Lemma estep_unconcerned p w o e : concerns p e = false -> estep p w o e = o.
Proof.
  destruct e as [q d t|q t|q t|q t|q t|q t|ok t|ps t]; cbn; intros H; try rewrite H; reflexivity.
Qed.
Lemma independent w evs p t :
  query_answer w evs p t = query_answer w (filter (concerns p) evs) p t.
Proof.
  rewrite !query_answer_view. f_equal. f_equal. generalize (@None entry).
  induction evs as [|e r IH]; intros o; cbn [filter fold_left]; [reflexivity|].
  destruct (concerns p e) eqn:E; cbn [fold_left].
  - apply IH.
  - rewrite (estep_unconcerned p w o e E). apply IH.
Qed.

(* --- listing -------------------------------------------------------------------------------- *)
(* BlockedPeers never lists a peer that isBlocked would report unblocked, marks exactly the
   permanent entries "Forever", and lists every blocked peer except at the single instant
   now = start + duration *)
Lemma listing_sound m p t : listed m p t <> 0 -> snd (is_blocked m p t) = true.
Proof.
  unfold listed, is_blocked. destruct (lookup p m) as [i|]; [|intros H; contradiction H; reflexivity].
  destruct (e_dur i =? 0) eqn:E0; cbn.
  - rewrite andb_false_r. reflexivity.
  - destruct (t <? e_start i + e_dur i) eqn:E1; [|intros H; contradiction H; reflexivity].
    apply Z.ltb_lt in E1. replace (e_start i + e_dur i <? t) with false by (symmetry; apply Z.ltb_ge; lia).
    reflexivity.
Qed.
Lemma listing_forever m p t :
  listed m p t = 2 <-> exists i, lookup p m = Some i /\ e_dur i = 0.
Proof.
  unfold listed. destruct (lookup p m) as [i|].
  - destruct (e_dur i =? 0) eqn:E0.
    + apply Z.eqb_eq in E0. split; [intros _; exists i; split; [reflexivity|exact E0]|reflexivity].
    + apply Z.eqb_neq in E0. split.
      * destruct (t <? e_start i + e_dur i); discriminate.
      * intros (j & [= <-] & Hj). contradiction.
  - split; [discriminate|intros (j & Hj & _); discriminate].
Qed.

Lemma listing_spec m p t :
  (listed m p t <> 0 -> snd (is_blocked m p t) = true) /\
  (listed m p t = 2 <-> exists i, lookup p m = Some i /\ e_dur i = 0).
Proof. exact (conj (listing_sound m p t) (listing_forever m p t)). Qed.

(* --- the checker used on the implementation's answers accepts every answer of the model ------- *)
Lemma strictly_covered_covered evs p t : strictly_covered evs p t = true -> covered evs p t = true.
Proof.
  unfold strictly_covered, covered. rewrite !existsb_exists. intros (e & Hin & He). exists e. split; [exact Hin|].
  destruct e as [q d t0| | | | | | | ]; cbn in *; try discriminate.
  apply andb_true_iff in He. destruct He as [H1 H2]. rewrite H1. cbn.
  apply orb_true_iff in H2. destruct H2 as [H2|H2]; [rewrite H2; reflexivity|].
  apply Z.ltb_lt in H2. apply orb_true_iff. right. apply Z.leb_le. lia.
Qed.
Lemma covered_blocks evs p t : covered evs p t = true -> existsb (blocks p) evs = true.
Proof.
  unfold covered. rewrite !existsb_exists. intros (e & Hin & He). exists e. split; [exact Hin|].
  destruct e as [q d t0| | | | | | | ]; cbn in *; try discriminate.
  apply andb_true_iff in He. apply He.
Qed.
Lemma permanent_covered evs p t : existsb (blocks_permanently p) evs = true -> covered evs p t = true.
Proof.
  unfold covered. rewrite !existsb_exists. intros (e & Hin & He). exists e. split; [exact Hin|].
  destruct e as [q d t0| | | | | | | ]; cbn in *; try discriminate.
  apply andb_true_iff in He. destruct He as [H1 H2]. rewrite H1, H2. reflexivity.
Qed.

(* whatever the ordering mode, the classifier accepts the answer "covered" *)
Lemma classify_gen_covered ordered evs p t : classify_gen ordered evs p t (covered evs p t) = None.
Proof.
  unfold classify_gen. destruct (covered evs p t) eqn:Ec.
  - rewrite (covered_blocks evs p t Ec). cbn. rewrite andb_false_r. reflexivity.
  - destruct (existsb (blocks_permanently p) evs) eqn:Ep.
    + rewrite (permanent_covered evs p t Ep) in Ec. discriminate.
    + destruct (strictly_covered evs p t) eqn:Es; [|rewrite andb_false_r; reflexivity].
      rewrite (strictly_covered_covered evs p t Es) in Ec. discriminate.
Qed.

Lemma classify_model w evs p t :
  Forall (fun e => time_of e <= t) evs -> classify evs p t (query_answer w evs p t) = None.
Proof. intros HF. rewrite (answer_exact w evs p t HF). apply classify_gen_covered. Qed.
Lemma classify_gater_model evs p t :
  Forall (fun e => time_of e <= t) evs ->
  classify evs p t (negb (dial_answer wiring_now evs p t)) = None /\
  classify evs p t (negb (secured_answer wiring_now evs p t)) = None.
Proof.
  intros HF. destruct (gater_now evs p t HF) as [H1 H2]. rewrite H1, H2, !negb_involutive.
  split; apply classify_gen_covered.
Qed.
(* the order-free clauses hold of the model without any premise on the time stamps *)
Lemma classify_unordered_model w evs p t : classify_gen false evs p t (query_answer w evs p t) = None.
Proof.
  unfold classify_gen. cbn [andb]. destruct (query_answer w evs p t) eqn:Eq.
  - destruct (existsb (blocks p) evs) eqn:Eb; [reflexivity|]. exfalso.
    assert (query_answer w evs p t = false); [|congruence].
    apply unaffected. intros d t0 Hin.
    assert (existsb (blocks p) evs = true); [|congruence].
    apply existsb_exists. exists (Block p d t0). split; [exact Hin|]. cbn. apply N.eqb_refl.
  - destruct (existsb (blocks_permanently p) evs) eqn:Ep; [|reflexivity]. exfalso.
    apply existsb_exists in Ep. destruct Ep as (e & Hin & He).
    destruct e as [q d t0| | | | | | | ]; cbn in He; try discriminate.
    apply andb_true_iff in He. destruct He as [H1 H2]. apply N.eqb_eq in H1. apply Z.eqb_eq in H2. subst q d.
    apply in_split in Hin. destruct Hin as (pre & post & ->).
    rewrite permanent_holds in Eq. discriminate.
Qed.

(* the sentence of the property: while a block covers t, neither a dial to p nor a secured
   connection from p is let through *)
Lemma no_new_connection_while_blocked evs p t :
  Forall (fun e => time_of e <= t) evs -> covered evs p t = true ->
  dial_answer wiring_now evs p t = false /\ secured_answer wiring_now evs p t = false.
Proof. intros HF Hc. destruct (gater_now evs p t HF) as [H1 H2]. rewrite H1, H2, Hc. split; reflexivity. Qed.

(* BlockedPeers with its skip of ids that have no Ethereum address *)
Lemma listing_go_spec addr_ok m p t :
  (listed_go addr_ok m p t <> 0 -> snd (is_blocked m p t) = true) /\
  (addr_ok p = true -> (listed_go addr_ok m p t = 2 <-> exists i, lookup p m = Some i /\ e_dur i = 0)) /\
  (addr_ok p = false -> listed_go addr_ok m p t = 0).
Proof.
  unfold listed_go. destruct (addr_ok p).
  - split; [apply listing_sound|]. split; [intros _; apply listing_forever|discriminate].
  - split; [intros H; contradiction H; reflexivity|]. split; [discriminate|reflexivity].
Qed.
Example listing_skips_keyless :
  listed_go (fun _ => false) [(5%N, {| e_start := 0; e_dur := 0 |})] 5%N 10 = 0 /\
  snd (is_blocked [(5%N, {| e_start := 0; e_dur := 0 |})] 5%N 10) = true.
Proof. split; reflexivity. Qed.

(* --- the code before commit 6a06465 ---------------------------------------------------------- *)
Lemma permanent_refuted_v0 :
  exists pre post p t0 t, query_answer_v0 wiring_now (pre ++ Block p 0 t0 :: post) p t = false.
Proof.
  exists [], [Block 1%N 120000000000 1], 1%N, 0, 120000000003. vm_compute. reflexivity.
Qed.
Lemma timed_refuted_v0 :
  exists pre post p d t0 t,
    Forall (fun e => time_of e <= t) post /\ t <= t0 + d /\
    query_answer_v0 wiring_now (pre ++ Block p d t0 :: post) p t = false.
Proof.
  exists [], [Block 1%N 10 1], 1%N, 300000000000, 0, 100. split; [|split].
  - repeat constructor. cbn. lia.
  - lia.
  - vm_compute. reflexivity.
Qed.

(* --- non-vacuity ----------------------------------------------------------------------------- *)
Example ex_permanent :
  query_answer wiring_now ([Block 2%N 5 0] ++ Block 1%N 0 3 :: [Block 1%N 120000000000 4; Query 1%N 120000000010]) 1%N 999999999999999 = true.
Proof. vm_compute. reflexivity. Qed.
Example ex_timed :
  query_answer wiring_now ([] ++ Block 1%N 300 10 :: [Block 1%N 5 20; Query 1%N 100]) 1%N 310 = true
  /\ query_answer wiring_now ([] ++ Block 1%N 300 10 :: [Block 1%N 5 20; Query 1%N 100]) 1%N 311 = false.
Proof. split; vm_compute; reflexivity. Qed.
Example ex_lifted :
  query_answer wiring_now [Block 1%N 300 10; Block 1%N 100 20] 1%N 311 = false.
Proof. vm_compute. reflexivity. Qed.
Example ex_unaffected :
  query_answer wiring_now [Block 1%N 0 10; Block 3%N 100 20] 2%N 30 = false.
Proof. vm_compute. reflexivity. Qed.
Example ex_gater :
  dial_answer wiring_now [Block 1%N 0 10] 1%N 30 = false /\ dial_answer wiring_now [Block 1%N 0 10] 2%N 30 = true
  /\ secured_answer wiring_now [Block 1%N 7 10] 1%N 17 = false /\ secured_answer wiring_now [Block 1%N 7 10] 1%N 18 = true.
Proof. repeat split; vm_compute; reflexivity. Qed.

(* ---- the error-to-block-duration decision is the translation of the Go source -----------------------
   [c17_inbound_block_fn] / [c17_outbound_block_fn] (gen/Generated.v) are produced on every run by the
   translator of harness/extract from the switch over errors.Is alternatives in handleConnectReq and
   Connect: arguments are the answers of the three errors.Is tests in source order, the result is the
   duration handed to blockPeer (None: blockPeer is not called). *)
Definition is_failure (f g : hs_failure) : bool :=
  match f, g with SigFailed, SigFailed | AddrMismatch, AddrMismatch | LowStake, LowStake => true | _, _ => false end.
Lemma inbound_block_translation f :
  c17_inbound_block_fn (is_failure f SigFailed) (is_failure f AddrMismatch) (is_failure f LowStake)
  = inbound_block_duration f.
Proof. destruct f; reflexivity. Qed.
Lemma outbound_block_translation f :
  c17_outbound_block_fn (is_failure f SigFailed) (is_failure f AddrMismatch) (is_failure f LowStake)
  = outbound_block_duration f.
Proof. destruct f; reflexivity. Qed.
(* for arbitrary answers of the three tests (an error may wrap several sentinel values): first match wins *)
Lemma inbound_block_table s a k :
  c17_inbound_block_fn s a k =
  if s then Some 0 else if a then Some 0 else if k then Some 120000000000 else None.
Proof. destruct s, a, k; reflexivity. Qed.
Lemma outbound_block_table s a k :
  c17_outbound_block_fn s a k =
  if s then Some 0 else if a then Some 0 else if k then Some 300000000000 else None.
Proof. destruct s, a, k; reflexivity. Qed.
Example example_block_translation :
  c17_inbound_block_fn false false true = Some 120000000000 /\ c17_outbound_block_fn false false false = None.
Proof. split; reflexivity. Qed.

Lemma block_duration_translation f :
  c17_inbound_block_fn (is_failure f SigFailed) (is_failure f AddrMismatch) (is_failure f LowStake)
    = inbound_block_duration f /\
  c17_outbound_block_fn (is_failure f SigFailed) (is_failure f AddrMismatch) (is_failure f LowStake)
    = outbound_block_duration f.
Proof. split; [apply inbound_block_translation | apply outbound_block_translation]. Qed.
Lemma block_table_translation s a k :
  c17_inbound_block_fn s a k =
    (if s then Some 0 else if a then Some 0 else if k then Some 120000000000 else None) /\
  c17_outbound_block_fn s a k =
    (if s then Some 0 else if a then Some 0 else if k then Some 300000000000 else None).
Proof. split; [apply inbound_block_table | apply outbound_block_table]. Qed.
