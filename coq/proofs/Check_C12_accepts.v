(* The whole boolean checker of check/Check_C12.v is silent on the model's own prediction: the clauses
   "leak" and "decision-dropped", and the one-theorem form with its two premises and their refutations. *)
From Coq Require Import String List NArith ZArith Bool Lia.
From MevVerif Require Import lib.Bytes proofs.Bytes_proofs model.Rules model.ProviderSvc proofs.ProviderSvc_proofs
  check.Check_C12 proofs.Check_C12_proofs proofs.Check_C12_fields proofs.Check_C12_delivery.
Import ListNotations.
Open Scope N_scope.
Arguments nset {A} k v l : simpl never.
Arguments ndel {A} k l : simpl never.
Arguments pdel d l : simpl never.
Arguments pset d v l : simpl never.

Notation RV := rules_validators.

(* --- two more invariants of the machine ---------------------------------------------------------- *)
Record Inv2 (s : svc) : Prop := {
  i2_keys : NoDup (map fst (pending s));
  i2_handed : forall h b, nget h (calls s) = Some (PHanded b) -> In (EEngine h (to_engine b)) (eff s) }.

Lemma keys_pdel d l : NoDup (map fst l) -> NoDup (map fst (pdel d l)).
Proof. unfold pdel. apply NoDup_map_filter. Qed.

Lemma keys_pset d v l : NoDup (map fst l) -> NoDup (map fst (pset d v l)).
Proof.
  intros H. unfold pset. cbn. constructor; [|now apply keys_pdel].
  intros Hin. apply in_map_iff in Hin. destruct Hin as (e & Hf & He). apply In_pdel in He. tauto.
Qed.

Lemma init_inv2 : Inv2 init.
Proof. constructor; cbn; [constructor|discriminate]. Qed.

Lemma step_inv2 s e : Inv RV s -> Inv2 s -> Inv2 (step RV s e).
Proof.
  intros I [K H]. unfold step. rewrite (inv_nopanic _ _ I).
  destruct e as [h0 b|h0|h0|sid d st|sid|sid].
  - unfold submit. destruct (nget h0 (calls s)) eqn:Hc; [now constructor|].
    destruct (vbid RV (to_engine b)); constructor; cbn.
    + now apply keys_pset.
    + intros h b'. rewrite nget_nset. destruct (N.eqb_spec h h0); [discriminate|apply H].
    + exact K.
    + intros h b'. rewrite nget_nset. destruct (N.eqb_spec h h0); [discriminate|apply H].
  - unfold take. destruct (nget h0 (calls s)) as [[b|b|b|b]|] eqn:Hc; try (now constructor).
    constructor; cbn; [exact K|]. intros h b'. rewrite nget_nset. destruct (N.eqb_spec h h0).
    + intros [= <-]. subst. now left.
    + intros Hh. right. now apply H.
  - unfold abandon. destruct (nget h0 (calls s)) as [[b|b|b|b]|] eqn:Hc; try (now constructor).
    constructor; cbn; [now apply keys_pdel|]. intros h b'. rewrite nget_nset.
    destruct (N.eqb_spec h h0); [discriminate|apply H].
  - unfold lookup. destruct (sget sid s); try (now constructor).
    destruct (vresp RV d st); [destruct (pget d (pending s))|]; constructor; cbn; try exact K;
      try (now apply keys_pdel); try exact H; intros h b' Hh; right; now apply H.
  - unfold callback. destruct (sget sid s); try (now constructor).
    destruct (cget ch s); constructor; cbn; try exact K; try exact H. intros h b' Hh; right; now apply H.
  - unfold recv_err. destruct (sget sid s); try (now constructor).
    constructor; cbn; [exact K|]. intros h b' Hh; right; now apply H.
Qed.

Lemma run_inv2 evs : Inv2 (run RV evs).
Proof.
  induction evs as [|e evs IH] using rev_ind; [exact init_inv2|].
  rewrite run_app. apply step_inv2; [apply run_inv|exact IH].
Qed.

(* --- clause "leak", first half: the map is no larger than the set of live digests -------------------- *)
Lemma In_dedup_bytes x l : In x l -> In x (dedup_bytes l).
Proof.
  induction l as [|y r IH]; cbn; [tauto|]. intros [->|Hin].
  - destruct (existsb (bytes_eqb x) r) eqn:E; [|now left].
    apply existsb_exists in E. destruct E as (z & Hz & Hxz). apply bytes_eqb_eq in Hxz. subst z. now apply IH.
  - destruct (existsb (bytes_eqb y) r); [now apply IH|right; now apply IH].
Qed.

Lemma predict_call_h s h : co_h (predict_call s h) = h.
Proof.
  unfold predict_call.
  destruct (match nget h (calls s) with Some (PRefused _) => 0 | Some (PAbandoned _) => 1
            | Some (PHanded _) => 2 | Some (POffered _) => 3 | None => 4 end =? 2); [destruct (cget h s)|]; reflexivity.
Qed.

Lemma pending_is_live i l d h :
  In (d, h) (pending (run RV (flat_map events_of l))) -> In d (live_digests (model_case i l)).
Proof.
  set (s := run RV (flat_map events_of l)). intros Hin.
  pose proof (run_inv RV (flat_map events_of l)) as I. fold s in I.
  pose proof (run_inv2 (flat_map events_of l)) as [_ H2]. fold s in H2.
  destruct (inv_owner _ _ I _ _ Hin) as (c & Hc & Hlive & Hdig).
  pose proof (events_calls RV l init h c (init_inv RV) Hc) as Hb. cbn in Hb.
  assert (He : cget h s = CEmpty).
  { apply (inv_pending_empty _ _ I). apply In_vals. eauto. }
  unfold live_digests, model_case. cbn [ob o_calls predict ops]. unfold model_state. cbn [ops]. fold s.
  apply in_flat_map. exists (predict_call s h). split.
  { apply in_map_iff. exists (h, call_bid c). split; [reflexivity|now apply nget_In]. }
  rewrite predict_call_h. unfold bid_of. cbn [ops]. rewrite Hb.
  unfold was_emitted. cbn [ob o_emitted predict]. unfold model_state. cbn [ops]. fold s.
  unfold predict_call. rewrite Hc. destruct c as [b|b|b|b]; cbn in Hlive; try contradiction; cbn [call_bid call_digest] in *.
  - cbn. left. exact Hdig.
  - rewrite N.eqb_refl, He. cbn [co_res co_vals co_h].
    assert (Hw : existsb (fun he => fst he =? h) (emitted s) = true).
    { apply existsb_exists. exists (h, to_engine b). split; [|apply N.eqb_refl].
      apply In_emitted. now apply H2. }
    rewrite Hw. cbn. left. exact Hdig.
Qed.

Lemma leak_size i l :
  (o_pending (ob (model_case i l)) <=? N.of_nat (length (dedup_bytes (live_digests (model_case i l))))) = true.
Proof.
  apply N.leb_le. unfold model_case at 1. cbn [ob o_pending predict]. unfold model_state. cbn [ops].
  set (s := run RV (flat_map events_of l)).
  assert (Hle : (length (map fst (pending s)) <= length (dedup_bytes (live_digests (model_case i l))))%nat).
  { apply NoDup_incl_length; [apply (i2_keys _ (run_inv2 (flat_map events_of l)))|].
    intros d Hd. apply in_map_iff in Hd. destruct Hd as ([d' h] & <- & Hin). cbn.
    apply In_dedup_bytes. now apply (pending_is_live i l d' h). }
  rewrite map_length in Hle. lia.
Qed.

(* --- clause "decision-dropped": the checker's own bookkeeping simulates the machine ----------------- *)
Definition x_ev (x : xst) (e : event) : xst :=
  match e with
  | Submit h b => x_step x (OSubmit h b)
  | EngineTake h => x_step x (OTake h)
  | Abandon h => x_step x (OAbandon h)
  | Lookup sid d st => x_lookup x sid d st
  | Callback sid => x_callback x sid
  | RecvErr sid => x_step x (ORecvErr sid)
  end.

Lemma x_fold l : forall x, fold_left x_step l x = fold_left x_ev (flat_map events_of l) x.
Proof.
  induction l as [|o r IH]; intros x; [reflexivity|].
  cbn [flat_map fold_left]. rewrite fold_left_app, <- IH. destruct o; reflexivity.
Qed.

Record Sim (x : xst) (s : svc) : Prop := {
  sim_pend : x_pend x = pending s;
  sim_off : forall h, In h (x_offered x) <-> exists b, nget h (calls s) = Some (POffered b);
  sim_digs : forall h, nget h (x_digs x) = option_map call_digest (nget h (calls s));
  sim_ended : forall sid, existsb (N.eqb sid) (x_ended x) = true <-> sget sid s = SEnded;
  sim_calling : forall sid, nget sid (x_calling x) =
                  match sget sid s with SCalling ch _ st => Some (ch, st) | _ => None end;
  sim_expect : forall h st, In (h, st) (x_expect x) -> cget h s = CFull st }.

Lemma sim_init : Sim x_init init.
Proof.
  constructor; cbn; try reflexivity; try tauto.
  - intros h. split; [tauto|]. intros (b & Hb). discriminate.
  - intros sid. split; [discriminate|]. unfold sget. cbn. discriminate.
Qed.

Lemma sget_nset sid k v s s' :
  streams s' = nset k v (streams s) -> sget sid s' = if sid =? k then v else sget sid s.
Proof. unfold sget. intros ->. rewrite nget_nset. now destruct (sid =? k). Qed.

Lemma sget_same sid s s' : streams s' = streams s -> sget sid s' = sget sid s.
Proof. unfold sget. now intros ->. Qed.

Lemma In_filter_neq h h0 l : In h (filter (fun y => negb (y =? h0)) l) <-> In h l /\ h <> h0.
Proof.
  rewrite filter_In. split; intros [Hin Hk]; (split; [exact Hin|]).
  - intros ->. now rewrite N.eqb_refl in Hk.
  - apply negb_true_iff. now apply N.eqb_neq.
Qed.

Lemma nget_filter_fst {A} sid k (l : list (N * A)) :
  nget sid (filter (fun e => negb (fst e =? k)) l) = if sid =? k then None else nget sid l.
Proof.
  induction l as [|[k' v] r IH]; cbn; [now destruct (sid =? k)|].
  destruct (N.eqb_spec k' k) as [->|Hne]; cbn.
  - rewrite IH. destruct (N.eqb_spec sid k); reflexivity.
  - rewrite IH. destruct (N.eqb_spec sid k') as [->|Hne']; [|reflexivity].
    destruct (N.eqb_spec k' k); [contradiction|reflexivity].
Qed.

Lemma existsb_cons_eqb sid k l : existsb (N.eqb sid) (k :: l) = (sid =? k) || existsb (N.eqb sid) l.
Proof. reflexivity. Qed.

Lemma sim_step x s e : Inv RV s -> Sim x s -> Sim (x_ev x e) (step RV s e).
Proof.
  intros I [Sp So Sd Se Sc Sx]. unfold step. rewrite (inv_nopanic _ _ I).
  destruct e as [h0 b|h0|h0|sid0 d st|sid0|sid0]; cbn [x_ev x_step].
  - (* Submit *)
    unfold submit. rewrite Sd. destruct (nget h0 (calls s)) eqn:Hc; cbn [option_map]; [now constructor|].
    unfold ebid_ok. destruct (vbid RV (to_engine b)) eqn:Hv; constructor; cbn.
    + now rewrite Sp.
    + intros h. rewrite nget_nset. destruct (N.eqb_spec h h0) as [->|Hne].
      * split; [eauto|now left].
      * rewrite <- So. split; [intros [E|Hin]; [congruence|exact Hin]|now right].
    + intros h. rewrite nget_nset. destruct (h =? h0); [reflexivity|apply Sd].
    + intros sid. erewrite (sget_same sid s) by reflexivity. apply Se.
    + intros sid. erewrite (sget_same sid s) by reflexivity. apply Sc.
    + intros h st' Hin. erewrite (cget_nset h h0 CEmpty s) by reflexivity. destruct (N.eqb_spec h h0) as [->|Hne]; [|now apply Sx].
      exfalso. apply Sx in Hin. destruct (inv_chan_call _ _ I h0) as (c & Hc' & _); [rewrite Hin; discriminate|congruence].
    + exact Sp.
    + intros h. rewrite nget_nset. destruct (N.eqb_spec h h0) as [->|Hne]; [|apply So].
      split; [intros Hin; apply So in Hin; destruct Hin as (b' & Hb'); congruence|intros (b' & Hb'); discriminate].
    + intros h. rewrite nget_nset. destruct (h =? h0); [reflexivity|apply Sd].
    + intros sid. erewrite (sget_same sid s) by reflexivity. apply Se.
    + intros sid. erewrite (sget_same sid s) by reflexivity. apply Sc.
    + intros h st' Hin. erewrite (cget_same h s) by reflexivity. now apply Sx.
  - (* EngineTake *)
    unfold take.
    assert (Other : (forall b, nget h0 (calls s) <> Some (POffered b)) ->
              Sim (x_with x (x_pend x) (filter (fun y => negb (y =? h0)) (x_offered x)) (x_digs x) (x_ended x)
                          (x_calling x) (x_expect x)) s).
    { intros Hno. constructor; cbn; try assumption. intros h. rewrite In_filter_neq, So.
      split; [intros [H _]; exact H|]. intros (b' & Hb'). split; [eauto|]. intros ->. now apply (Hno b'). }
    destruct (nget h0 (calls s)) as [[b|b|b|b]|] eqn:Hc; try (apply Other; intros b'; congruence).
    constructor; cbn.
    + exact Sp.
    + intros h. rewrite In_filter_neq, nget_nset. destruct (N.eqb_spec h h0) as [->|Hne].
      * split; [intros [_ H]; now elim H|intros (b' & Hb'); discriminate].
      * rewrite So. tauto.
    + intros h. rewrite nget_nset. destruct (N.eqb_spec h h0) as [->|Hne]; [|apply Sd].
      rewrite Sd, Hc. reflexivity.
    + intros sid. erewrite (sget_same sid s) by reflexivity. apply Se.
    + intros sid. erewrite (sget_same sid s) by reflexivity. apply Sc.
    + intros h st' Hin. erewrite (cget_same h s) by reflexivity. now apply Sx.
  - (* Abandon *)
    unfold abandon. destruct (nget h0 (calls s)) as [[b|b|b|b]|] eqn:Hc.
    2-5: (destruct (existsb (N.eqb h0) (x_offered x)) eqn:E; [|now constructor];
          apply existsb_exists in E; destruct E as (y & Hy & Ey); apply N.eqb_eq in Ey; subst y;
          apply So in Hy; destruct Hy as (b' & Hb'); congruence).
    assert (E : existsb (N.eqb h0) (x_offered x) = true).
    { apply existsb_exists. exists h0. split; [apply So; eauto|apply N.eqb_refl]. }
    rewrite E, Sd, Hc. cbn [option_map call_digest]. constructor; cbn.
    + now rewrite Sp.
    + intros h. rewrite In_filter_neq, nget_nset. destruct (N.eqb_spec h h0) as [->|Hne].
      * split; [intros [_ H]; now elim H|intros (b' & Hb'); discriminate].
      * rewrite So. tauto.
    + intros h. rewrite nget_nset. destruct (N.eqb_spec h h0) as [->|Hne]; [|apply Sd].
      rewrite Sd, Hc. reflexivity.
    + intros sid. erewrite (sget_same sid s) by reflexivity. apply Se.
    + intros sid. erewrite (sget_same sid s) by reflexivity. apply Sc.
    + intros h st' Hin. erewrite (cget_same h s) by reflexivity. now apply Sx.
  - (* Lookup *)
    unfold x_lookup, lookup. destruct (sget sid0 s) as [|ch0 d0 st0|] eqn:Hs.
    + assert (E : existsb (N.eqb sid0) (x_ended x) = false).
      { destruct (existsb (N.eqb sid0) (x_ended x)) eqn:E; [|reflexivity]. apply Se in E. congruence. }
      rewrite E, Sc, Hs. change (vresp RV d st) with (provider_response_ok d st).
      destruct (provider_response_ok d st) eqn:Hv.
      * rewrite Sp. destruct (pget d (pending s)) as [ch|] eqn:Hp; [|now constructor].
        constructor; cbn.
        -- reflexivity.
        -- exact So.
        -- exact Sd.
        -- intros sid. erewrite (sget_nset sid sid0 (SCalling ch d st) s) by reflexivity.
           destruct (N.eqb_spec sid sid0) as [->|Hne]; [|apply Se]. rewrite E. split; discriminate.
        -- intros sid. erewrite (sget_nset sid sid0 (SCalling ch d st) s) by reflexivity.
           destruct (sid =? sid0); [reflexivity|apply Sc].
        -- intros h st' Hin. erewrite (cget_same h s) by reflexivity. now apply Sx.
      * constructor; cbn.
        -- exact Sp.
        -- exact So.
        -- exact Sd.
        -- intros sid. erewrite (sget_nset sid sid0 SEnded s) by reflexivity.
           destruct (N.eqb_spec sid sid0) as [->|Hne]; cbn; [tauto|apply Se].
        -- intros sid. erewrite (sget_nset sid sid0 SEnded s) by reflexivity.
           destruct (N.eqb_spec sid sid0) as [->|Hne]; [|apply Sc]. now rewrite Sc, Hs.
        -- intros h st' Hin. erewrite (cget_same h s) by reflexivity. now apply Sx.
    + destruct (existsb (N.eqb sid0) (x_ended x)); [now constructor|]. rewrite Sc, Hs. now constructor.
    + assert (E : existsb (N.eqb sid0) (x_ended x) = true) by now apply Se.
      rewrite E. now constructor.
  - (* Callback *)
    unfold x_callback, callback. rewrite Sc. destruct (sget sid0 s) as [|ch d st|] eqn:Hs; try (now constructor).
    assert (He : cget ch s = CEmpty).
    { apply (inv_calling_empty _ _ I). apply In_calling. apply sget_In, nget_In in Hs. eauto. }
    rewrite He. constructor; cbn.
    + exact Sp.
    + exact So.
    + exact Sd.
    + intros sid. erewrite (sget_nset sid sid0 SIdle s) by reflexivity.
      destruct (N.eqb_spec sid sid0) as [->|Hne]; [|apply Se].
      split; [intros H; apply Se in H; congruence|discriminate].
    + intros sid. rewrite nget_filter_fst; erewrite (sget_nset sid sid0 SIdle s) by reflexivity.
      destruct (sid =? sid0); [reflexivity|apply Sc].
    + intros h st' Hin. erewrite (cget_nset h ch (CFull st) s) by reflexivity.
      destruct (N.eqb_spec h ch) as [->|Hne].
      * destruct Hin as [[= <-]|Hin]; [reflexivity|]. apply Sx in Hin. congruence.
      * destruct Hin as [[= <- <-]|Hin]; [now elim Hne|now apply Sx].
  - (* RecvErr *)
    unfold recv_err. rewrite Sc. destruct (sget sid0 s) as [|ch d st|] eqn:Hs.
    + constructor; cbn.
      * exact Sp.
      * exact So.
      * exact Sd.
      * intros sid. erewrite (sget_nset sid sid0 SEnded s) by reflexivity.
        destruct (N.eqb_spec sid sid0) as [->|Hne]; cbn; [tauto|apply Se].
      * intros sid. erewrite (sget_nset sid sid0 SEnded s) by reflexivity.
        destruct (N.eqb_spec sid sid0) as [->|Hne]; [|apply Sc]. now rewrite Sc, Hs.
      * intros h st' Hin. erewrite (cget_same h s) by reflexivity. now apply Sx.
    + now constructor.
    + constructor; cbn; try assumption.
      intros sid. destruct (N.eqb_spec sid sid0) as [->|Hne]; cbn; [tauto|apply Se].
Qed.

Lemma sim_fold evs : forall x s, Inv RV s -> Sim x s -> Sim (fold_left x_ev evs x) (fold_left (step RV) evs s).
Proof.
  induction evs as [|e r IH]; intros x s I S; [exact S|].
  cbn [fold_left]. apply IH; [now apply step_inv|now apply sim_step].
Qed.

Theorem checker_accepts_model_not_dropped i l : chk_not_dropped (model_case i l) = true.
Proof.
  unfold chk_not_dropped. apply forallb_forall. intros [h st] Hin. apply forallb_forall. intros co Hco.
  unfold model_case in Hin, Hco. cbn [ops ob o_calls predict] in Hin, Hco.
  unfold model_state in Hco. cbn [ops] in Hco.
  unfold expected_deliveries in Hin. rewrite x_fold in Hin.
  pose proof (sim_fold (flat_map events_of l) x_init init (init_inv RV) sim_init) as S.
  change (fold_left (step RV) (flat_map events_of l) init) with (run RV (flat_map events_of l)) in S.
  set (s := run RV (flat_map events_of l)) in *.
  apply (sim_expect _ _ S) in Hin.
  apply in_map_iff in Hco. destruct Hco as (hb & <- & _). rewrite predict_call_h. cbn [fst snd].
  destruct (N.eqb_spec (fst hb) h) as [->|Hne]; [|reflexivity]. cbn [andb].
  unfold predict_call.
  destruct (nget h (calls s)) as [[b|b|b|b]|]; cbn; try reflexivity.
  rewrite Hin. cbn. now rewrite Z.eqb_refl.
Qed.

(* --- the one-theorem form ------------------------------------------------------------------------------ *)
(* the two premises on the op list: call identifiers are fresh (ops_wf, proofs/Check_C12_delivery.v) and no
   OTake reports a call whose hand-off was abandoned before (the second half of the clause "leak" is a
   function of the op list alone: an OTake records which call the driver SAW being served) *)
Definition takes_clean (l : list op) : Prop := taken_after_abandon l [] [] = false.

Theorem checker_accepts_model i l : ops_wf l -> takes_clean l -> violation (model_case i l) = None.
Proof.
  intros Hwf Htk. unfold violation.
  rewrite (checker_accepts_model_forwarded i l), (checker_accepts_model_fields i l),
          (checker_accepts_model_delivery i l Hwf), (checker_accepts_model_stream i l).
  cbn [negb]. unfold chk_leak. rewrite (leak_size i l). unfold model_case at 1. cbn [ops].
  unfold takes_clean in Htk. rewrite Htk. cbn [negb andb].
  now rewrite (checker_accepts_model_not_dropped i l).
Qed.

(* the second premise is exactly what the checker needs: silent iff takes_clean (for fresh identifiers) *)
Theorem checker_accepts_model_iff i l : ops_wf l -> (violation (model_case i l) = None <-> takes_clean l).
Proof.
  intros Hwf. split; [|now apply checker_accepts_model].
  unfold violation.
  rewrite (checker_accepts_model_forwarded i l), (checker_accepts_model_fields i l),
          (checker_accepts_model_delivery i l Hwf), (checker_accepts_model_stream i l).
  cbn [negb]. unfold chk_leak. rewrite (leak_size i l). unfold model_case at 1. cbn [ops]. unfold takes_clean.
  destruct (taken_after_abandon l [] []); [cbn; discriminate|reflexivity].
Qed.

(* every clause that looks at the observation only is silent with no premise at all *)
Theorem checker_accepts_model_observation_clauses i l :
  chk_forwarded_valid (model_case i l) = true /\ chk_fields (model_case i l) = true /\
  chk_stream (model_case i l) = true /\ chk_not_dropped (model_case i l) = true /\
  (o_pending (ob (model_case i l)) <=? N.of_nat (length (dedup_bytes (live_digests (model_case i l))))) = true.
Proof.
  repeat split; [apply checker_accepts_model_forwarded|apply checker_accepts_model_fields|
                 apply checker_accepts_model_stream|apply checker_accepts_model_not_dropped|apply leak_size].
Qed.

(* necessity of the premises: concrete op lists on which the checker fires on the model's own run *)
Definition l_double_submit : list op :=
  [OSubmit 1 (rbid 1 [1; 2; 3]); OTake 1; ODecision 0 [1; 2; 3] 1%Z; OSubmit 1 (rbid 1 [1; 2; 3])].
Example double_submit_refuted :
  ~ ops_wf l_double_submit /\ takes_clean l_double_submit /\
  violation (model_case 0 l_double_submit) = Some "double-delivery"%string.
Proof.
  split; [|split; vm_compute; reflexivity].
  unfold ops_wf. cbn. intros H. inversion H as [|? ? Hn _]. apply Hn. now left.
Qed.

Definition l_take_after_abandon : list op := [OSubmit 1 (rbid 1 [1; 2; 3]); OAbandon 1; OTake 1].
Example take_after_abandon_refuted :
  ops_wf l_take_after_abandon /\ ~ takes_clean l_take_after_abandon /\
  violation (model_case 0 l_take_after_abandon) = Some "leak"%string.
Proof.
  split; [|split].
  - unfold ops_wf. cbn. constructor; [tauto|constructor].
  - unfold takes_clean. vm_compute. discriminate.
  - vm_compute. reflexivity.
Qed.

(* non-vacuity: a list that satisfies both premises and exercises submit, take, abandon, decisions on two
   streams (one malformed), an equal digest *)
Definition l_ok : list op :=
  [OSubmit 1 (rbid 1 [1; 2; 3]); OSubmit 2 (rbid 2 [1; 2; 3]); OTake 1; OAbandon 2; OSubmit 3 (rbid 3 [4]);
   OTake 3; OAbandon 3; ODecision 0 [4] 2%Z; OLookup 1 [1; 2; 3] 1%Z; OCallback 1; ODecision 1 [9] 3%Z].
Example ex_checker_accepts_model :
  ops_wf l_ok /\ takes_clean l_ok /\ violation (model_case 7 l_ok) = None /\
  o_pending (ob (model_case 7 l_ok)) = 0 /\ length (o_emitted (ob (model_case 7 l_ok))) = 2%nat.
Proof.
  assert (W : ops_wf l_ok).
  { unfold ops_wf. cbn. repeat constructor; cbn; intuition discriminate. }
  assert (T : takes_clean l_ok) by (vm_compute; reflexivity).
  split; [exact W|]. split; [exact T|]. split; [now apply checker_accepts_model|]. vm_compute. split; reflexivity.
Qed.

(* --- entries of calls whose context ends after the hand-off ------------------------------------------- *)
(* the context of a call ending after ProcessBid returned the channel is no event of the service at all *)
Theorem cancel_after_handoff_noop s h b : nget h (calls s) = Some (PHanded b) -> step RV s (Abandon h) = s.
Proof. intros H. unfold step, abandon. rewrite H. now destruct (panicked s). Qed.

(* an entry leaves the map only through a decision for its digest, an abandon of a still-offered call with
   that digest, or a submission with that digest (which replaces it) *)
Theorem entry_persists s e d h :
  In (d, h) (pending s) ->
  In (d, h) (pending (step RV s e)) \/
  (exists sid st, e = Lookup sid d st) \/
  (exists h' b, e = Abandon h' /\ nget h' (calls s) = Some (POffered b) /\ b_dig b = d) \/
  (exists h' b, e = Submit h' b /\ b_dig b = d).
Proof.
  intros Hin. unfold step. destruct (panicked s); [now left|].
  destruct e as [h0 b|h0|h0|sid d0 st|sid|sid].
  - unfold submit. destruct (nget h0 (calls s)); [now left|].
    destruct (vbid RV (to_engine b)); [|now left]. cbn. unfold pset.
    destruct (bytes_eqb (b_dig b) d) eqn:E.
    + apply bytes_eqb_eq in E. right. right. right. eauto.
    + left. right. apply In_pdel. split; [exact Hin|]. cbn. intros ->. now rewrite bytes_eqb_refl in E.
  - unfold take. destruct (nget h0 (calls s)) as [[b|b|b|b]|]; now left.
  - unfold abandon. destruct (nget h0 (calls s)) as [[b|b|b|b]|] eqn:Hc; try (now left). cbn.
    destruct (bytes_eqb (b_dig b) d) eqn:E.
    + apply bytes_eqb_eq in E. right. right. left. eauto.
    + left. apply In_pdel. split; [exact Hin|]. cbn. intros ->. now rewrite bytes_eqb_refl in E.
  - unfold lookup. destruct (sget sid s); try (now left).
    destruct (vresp RV d0 st); [|now left]. destruct (pget d0 (pending s)); [|now left]. cbn.
    destruct (bytes_eqb d0 d) eqn:E.
    + apply bytes_eqb_eq in E. subst. right. left. eauto.
    + left. apply In_pdel. split; [exact Hin|]. cbn. intros ->. now rewrite bytes_eqb_refl in E.
  - unfold callback. destruct (sget sid s); try (now left). destruct (cget ch s); now left.
  - unfold recv_err. destruct (sget sid s); now left.
Qed.

(* exact growth: n well-formed bids with pairwise distinct digests not yet in the map, each submitted under a
   fresh identifier, handed to an engine stream, then its context ended: the map has grown by exactly n entries,
   in this order, and every one of these calls got its channel back *)
Definition handoff_timeout (hb : N * bid) : list event :=
  [Submit (fst hb) (snd hb); EngineTake (fst hb); Abandon (fst hb)].

Lemma pdel_absent d p : ~ In d (map fst p) -> pdel d p = p.
Proof.
  unfold pdel. induction p as [|[d' v] r IH]; cbn; [reflexivity|]. intros Hn.
  destruct (bytes_eqb d d') eqn:E.
  - apply bytes_eqb_eq in E. subst. elim Hn. now left.
  - cbn. rewrite IH; [reflexivity|tauto].
Qed.

Lemma handoff_timeout_grows hbs : forall s,
  panicked s = false ->
  NoDup (map fst hbs) -> (forall hb, In hb hbs -> nget (fst hb) (calls s) = None) ->
  NoDup (map (fun hb => b_dig (snd hb)) hbs) ->
  (forall hb, In hb hbs -> ~ In (b_dig (snd hb)) (map fst (pending s))) ->
  (forall hb, In hb hbs -> vbid RV (to_engine (snd hb)) = true) ->
  let s' := fold_left (step RV) (flat_map handoff_timeout hbs) s in
  pending s' = rev (map (fun hb => (b_dig (snd hb), fst hb)) hbs) ++ pending s /\
  (forall hb, In hb hbs -> nget (fst hb) (calls s') = Some (PHanded (snd hb))) /\
  (forall h c, nget h (calls s) = Some c -> nget h (calls s') = Some c) /\
  panicked s' = false.
Proof.
  induction hbs as [|[h b] r IH]; intros s Hp Hnd Hfresh Hdd Hkeys Hval.
  - cbn. repeat split; try tauto; try exact Hp.
  - cbn [flat_map handoff_timeout fst snd app fold_left].
    assert (Hh : nget h (calls s) = None) by (apply (Hfresh (h, b)); now left).
    assert (Hv : vbid RV (to_engine b) = true) by (apply (Hval (h, b)); now left).
    assert (Hk : ~ In (b_dig b) (map fst (pending s))) by (apply (Hkeys (h, b)); now left).
    set (s1 := step RV s (Submit h b)).
    assert (E1 : s1 = with_pending (pset (b_dig b) h (pending s))
                        (with_chans (nset h CEmpty (chans s)) (with_calls (nset h (POffered b) (calls s)) s))).
    { unfold s1, step, submit. now rewrite Hp, Hh, Hv. }
    set (s2 := step RV s1 (EngineTake h)).
    assert (E2 : s2 = add_eff (EEngine h (to_engine b)) (with_calls (nset h (PHanded b) (calls s1)) s1)).
    { assert (Pn1 : panicked s1 = false) by (rewrite E1; exact Hp).
      assert (C1 : nget h (calls s1) = Some (POffered b)) by (rewrite E1; cbn; apply nget_nset_eq).
      unfold s2, step, take. now rewrite Pn1, C1. }
    set (s3 := step RV s2 (Abandon h)).
    assert (E3 : s3 = s2).
    { unfold s3. apply (cancel_after_handoff_noop s2 h b). rewrite E2. cbn. apply nget_nset_eq. }
    rewrite E3.
    assert (P2 : pending s2 = (b_dig b, h) :: pending s).
    { rewrite E2, E1. cbn. unfold pset. now rewrite pdel_absent. }
    assert (C2 : forall k, nget k (calls s2) = if k =? h then Some (PHanded b) else nget k (calls s)).
    { intros k. rewrite E2. cbn. rewrite nget_nset. destruct (N.eqb_spec k h); [reflexivity|].
      rewrite E1. cbn. now rewrite nget_nset_neq by congruence. }
    assert (Pn2 : panicked s2 = false) by (rewrite E2, E1; exact Hp).
    inversion Hnd as [|? ? Hn1 Hnd']. subst. inversion Hdd as [|? ? Hn2 Hdd']. subst. cbn [fst snd] in *.
    specialize (IH s2 Pn2 Hnd').
    destruct IH as (IHp & IHc & IHk & IHn).
    + intros hb Hin. rewrite C2. destruct (N.eqb_spec (fst hb) h) as [E|_]; [|apply Hfresh; now right].
      elim Hn1. apply in_map_iff. exists hb. now split.
    + exact Hdd'.
    + intros hb Hin. rewrite P2. cbn. intros [E|Hin']; [|now apply (Hkeys hb); [right|]].
      elim Hn2. apply in_map_iff. exists hb. now split.
    + intros hb Hin. apply Hval. now right.
    + cbn zeta in *. repeat split.
      * rewrite IHp, P2. cbn. now rewrite <- app_assoc.
      * intros hb [<-|Hin]; [|now apply IHc]. cbn. apply IHk. rewrite C2. now rewrite N.eqb_refl.
      * intros k c Hc. apply IHk. rewrite C2. destruct (N.eqb_spec k h) as [->|_]; [congruence|exact Hc].
      * exact IHn.
Qed.

Theorem timeout_after_handoff_leaves_entry hbs :
  NoDup (map fst hbs) -> NoDup (map (fun hb => b_dig (snd hb)) hbs) ->
  (forall hb, In hb hbs -> vbid RV (to_engine (snd hb)) = true) ->
  let s := run RV (flat_map handoff_timeout hbs) in
  pending s = rev (map (fun hb => (b_dig (snd hb), fst hb)) hbs) /\
  length (pending s) = length hbs /\
  (forall hb, In hb hbs -> nget (fst hb) (calls s) = Some (PHanded (snd hb)) /\ cget (fst hb) s = CEmpty) /\
  delivered s = [].
Proof.
  intros Hnd Hdd Hval.
  destruct (handoff_timeout_grows hbs init eq_refl Hnd (fun _ _ => eq_refl) Hdd (fun _ _ H => H) Hval)
    as (Hp & Hc & _ & _).
  cbn zeta in *. fold (run RV (flat_map handoff_timeout hbs)) in Hp, Hc.
  set (s := run RV (flat_map handoff_timeout hbs)) in *. rewrite app_nil_r in Hp.
  assert (Hd : delivered s = []).
  { destruct (delivered s) as [|ch r] eqn:E; [reflexivity|]. exfalso.
    assert (Hin : In ch (delivered s)) by (rewrite E; now left).
    apply In_delivered in Hin. destruct Hin as (d & st & Hin).
    destruct (hist_deliver _ _ (run_hist RV _) _ _ _ Hin) as (sid & Hl).
    apply in_flat_map in Hl. destruct Hl as (hb & _ & Hl). cbn in Hl. intuition discriminate. }
  split; [exact Hp|]. split; [now rewrite Hp, rev_length, map_length|]. split; [|exact Hd].
  intros hb Hin. split; [now apply Hc|].
  destruct (cget (fst hb) s) eqn:Hg; [reflexivity| |].
  - destruct (hist_full _ _ (run_hist RV _) _ _ Hg) as (d & Hd').
    assert (Hx : In (fst hb) (delivered s)) by (apply In_delivered; eauto). rewrite Hd in Hx. destruct Hx.
  - exfalso. revert Hg. unfold s. clear. 
    (* no step of the machine drains a channel *)
    generalize (flat_map handoff_timeout hbs). intros evs. induction evs as [|e evs IH] using rev_ind; [unfold cget; cbn; discriminate|].
    rewrite run_app. set (t := run RV evs) in *. unfold step. destruct (panicked t); [exact IH|].
    destruct e as [h0 b|h0|h0|sid d st|sid|sid].
    + unfold submit. destruct (nget h0 (calls t)); [exact IH|]. destruct (vbid RV (to_engine b)); [|exact IH].
      erewrite (cget_nset _ h0 CEmpty t) by reflexivity. destruct (_ =? h0); [discriminate|exact IH].
    + unfold take. destruct (nget h0 (calls t)) as [[b|b|b|b]|]; exact IH.
    + unfold abandon. destruct (nget h0 (calls t)) as [[b|b|b|b]|]; exact IH.
    + unfold lookup. destruct (sget sid t); try exact IH. destruct (vresp RV d st); [destruct (pget d (pending t))|]; exact IH.
    + unfold callback. destruct (sget sid t); try exact IH. destruct (cget ch t) eqn:Hc.
      * erewrite (cget_nset _ ch (CFull st) t) by reflexivity. destruct (_ =? ch); [discriminate|exact IH].
      * exact IH.
      * exact IH.
    + unfold recv_err. destruct (sget sid t); exact IH.
Qed.

Example ex_timeout_after_handoff :
  let hbs := [(1, rbid 1 [1]); (2, rbid 2 [2]); (3, rbid 3 [3; 3])] in
  let s := run RV (flat_map handoff_timeout hbs) in
  length (pending s) = 3%nat /\ map fst (emitted s) = [1; 2; 3] /\
  (* only a decision removes such an entry *)
  length (pending (step RV (step RV s (Lookup 0 [2] 1%Z)) (Callback 0))) = 2%nat.
Proof. vm_compute. repeat split. Qed.

(* --- what takes_clean means: an op list whose OTake ops are all performed by the machine satisfies it ------- *)
Definition offeredb (c : cstate) : bool := match c with POffered _ => true | _ => false end.
Definition settled (s : svc) (h : N) : Prop := exists c, nget h (calls s) = Some c /\ offeredb c = false.
Definition known (s : svc) (h : N) : Prop := exists c, nget h (calls s) = Some c.

Lemma step_keeps_settled s e h : settled s h -> settled (step RV s e) h.
Proof.
  intros (c & Hc & Ho). unfold settled, step. destruct (panicked s); [exists c; auto|].
  destruct e as [h0 b|h0|h0|sid d st|sid|sid].
  - unfold submit. destruct (nget h0 (calls s)) eqn:H0; [exists c; auto|].
    assert (h <> h0) by (intros ->; congruence).
    destruct (vbid RV (to_engine b)); cbn; exists c; rewrite nget_nset_neq by congruence; auto.
  - unfold take. destruct (nget h0 (calls s)) as [[b|b|b|b]|] eqn:H0; try (exists c; auto; fail).
    cbn. destruct (N.eqb_spec h h0) as [->|Hne].
    + exists (PHanded b). rewrite nget_nset_eq. auto.
    + exists c. rewrite nget_nset_neq by congruence. auto.
  - unfold abandon. destruct (nget h0 (calls s)) as [[b|b|b|b]|] eqn:H0; try (exists c; auto; fail).
    cbn. destruct (N.eqb_spec h h0) as [->|Hne].
    + exists (PAbandoned b). rewrite nget_nset_eq. auto.
    + exists c. rewrite nget_nset_neq by congruence. auto.
  - unfold lookup. destruct (sget sid s); try (exists c; auto; fail).
    destruct (vresp RV d st); [destruct (pget d (pending s))|]; exists c; auto.
  - unfold callback. destruct (sget sid s); try (exists c; auto; fail). destruct (cget ch s); exists c; auto.
  - unfold recv_err. destruct (sget sid s); exists c; auto.
Qed.

Lemma fold_settled evs : forall s h, settled s h -> settled (fold_left (step RV) evs s) h.
Proof. induction evs as [|e r IH]; cbn; intros s h H; [exact H|apply IH, step_keeps_settled, H]. Qed.

Lemma fold_known evs : forall s h, known s h -> known (fold_left (step RV) evs s) h.
Proof.
  induction evs as [|e r IH]; cbn; intros s h H; [exact H|]. apply IH. destruct H as (c & Hc).
  destruct (step_calls_fwd RV s e h c Hc) as (c' & Hc' & _). now exists c'.
Qed.

Fixpoint takes_effective (s : svc) (l : list op) : bool :=
  match l with
  | [] => true
  | o :: r => match o with
              | OTake h => match nget h (calls s) with Some (POffered _) => true | _ => false end
              | _ => true
              end && takes_effective (fold_left (step RV) (events_of o) s) r
  end.

Lemma takes_effective_clean_gen l : forall s subm ab,
  Inv RV s -> (forall h, In h subm -> known s h) -> (forall h, In h ab -> settled s h) ->
  takes_effective s l = true -> taken_after_abandon l subm ab = false.
Proof.
  induction l as [|o r IH]; intros s subm ab I Hk Hs Ht; [reflexivity|].
  cbn [takes_effective] in Ht. apply andb_true_iff in Ht. destruct Ht as (Ho & Ht).
  pose proof (fold_inv RV (events_of o) s I) as I'.
  assert (Hk' : forall h, In h subm -> known (fold_left (step RV) (events_of o) s) h)
    by (intros h Hin; apply fold_known, Hk, Hin).
  assert (Hs' : forall h, In h ab -> settled (fold_left (step RV) (events_of o) s) h)
    by (intros h Hin; apply fold_settled, Hs, Hin).
  destruct o as [h b|h| |h|sid d st|sid|sid d st|sid]; cbn [taken_after_abandon];
    try (apply (IH _ subm ab I' Hk' Hs' Ht)).
  - apply (IH _ (h :: subm) ab I'); [|exact Hs'|exact Ht].
    intros h' [<-|Hin]; [|now apply Hk'].
    cbn [events_of fold_left]. unfold step, submit, known. rewrite (inv_nopanic _ _ I).
    destruct (nget h (calls s)) eqn:Hc; [eauto|].
    destruct (vbid RV (to_engine b)); cbn; rewrite nget_nset_eq; eauto.
  - assert (E : existsb (N.eqb h) ab = false).
    { destruct (existsb (N.eqb h) ab) eqn:E; [|reflexivity]. apply existsb_exists in E.
      destruct E as (y & Hy & Ey). apply N.eqb_eq in Ey. subst y. destruct (Hs h Hy) as (c & Hc & Hoff).
      rewrite Hc in Ho. destruct c; discriminate. }
    rewrite E. cbn [orb]. apply (IH _ _ ab I'); [|exact Hs'|exact Ht].
    intros h' Hin. apply filter_In in Hin. now apply Hk'.
  - destruct (existsb (N.eqb h) subm) eqn:E; [|apply (IH _ subm ab I' Hk' Hs' Ht)].
    apply (IH _ subm (h :: ab) I' Hk'); [|exact Ht].
    intros h' [<-|Hin]; [|now apply Hs'].
    apply existsb_exists in E. destruct E as (y & Hy & Ey). apply N.eqb_eq in Ey. subst y.
    destruct (Hk h Hy) as (c & Hc). cbn [events_of fold_left]. unfold step, abandon, settled.
    rewrite (inv_nopanic _ _ I), Hc. destruct c as [b|b|b|b]; cbn; [rewrite nget_nset_eq|rewrite Hc ..]; eauto.
Qed.

Theorem takes_effective_clean l : takes_effective init l = true -> takes_clean l.
Proof.
  intros H. apply (takes_effective_clean_gen l init [] [] (init_inv RV)); [intros h []|intros h []|exact H].
Qed.

(* corollary: the op lists the machine itself could have produced are accepted *)
Theorem checker_accepts_model_effective i l :
  ops_wf l -> takes_effective init l = true -> violation (model_case i l) = None.
Proof. intros Hwf H. apply checker_accepts_model; [exact Hwf|now apply takes_effective_clean]. Qed.

Example ex_takes_effective : takes_effective init l_ok = true /\ takes_effective init l_take_after_abandon = false.
Proof. vm_compute. split; reflexivity. Qed.
