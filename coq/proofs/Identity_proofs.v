From Coq Require Import List NArith ZArith Bool Lia ZifyN ZifyNat ZifyBool.
From MevVerif Require Import lib.Bytes proofs.Bytes_proofs model.Identity.
Import ListNotations.
Open Scope N_scope.
Ltac Zify.zify_post_hook ::= Z.div_mod_to_equations.

(* le/unle inverse on well-formed lists *)
Lemma le_unle l : wf_bytes l -> le (length l) (unle l) = l.
Proof.
  induction 1 as [|b r Hb Hr IH]; [reflexivity|].
  cbn [length le unle].
  replace ((b + 256 * unle r) mod 256) with b by lia.
  replace ((b + 256 * unle r) / 256) with (unle r) by lia.
  rewrite IH. reflexivity.
Qed.

Lemma be_unbe l : wf_bytes l -> be (length l) (unbe l) = l.
Proof.
  intros H. unfold be, unbe.
  assert (Hr : wf_bytes (rev l)) by (apply Forall_rev; exact H).
  rewrite <- (rev_length l). rewrite le_unle by exact Hr. apply rev_involutive.
Qed.

Lemma unle_app a b : unle (a ++ b) = unle a + 256 ^ N.of_nat (length a) * unle b.
Proof.
  induction a as [|c r IH]; cbn [app unle length].
  - change (N.of_nat 0) with 0. rewrite N.pow_0_r. ring.
  - rewrite IH. replace (N.of_nat (S (length r))) with (N.succ (N.of_nat (length r))) by lia.
    rewrite N.pow_succ_r'. ring.
Qed.

Lemma unle_zeros k : unle (repeat 0 k) = 0.
Proof. induction k as [|k IH]; cbn [repeat unle]; [reflexivity|]. rewrite IH. reflexivity. Qed.

Lemma unbe_zeros_app k l : unbe (repeat 0 k ++ l) = unbe l.
Proof.
  unfold unbe. rewrite rev_app_distr, unle_app.
  assert (H : rev (repeat 0 k) = repeat 0 k).
  { induction k as [|k IH]; [reflexivity|]. cbn [repeat rev]. rewrite IH.
    clear IH. induction k as [|k IH]; [reflexivity|]. cbn [repeat app]. rewrite IH. reflexivity. }
  rewrite H, unle_zeros. ring.
Qed.

Lemma wf_repeat0 k : wf_bytes (repeat 0 k).
Proof. induction k; cbn; constructor; [lia|assumption]. Qed.

Lemma size_bound v : v < 2 ^ N.size v.
Proof.
  destruct v as [|p]; [cbn; lia|]. apply N.size_gt.
Qed.

Lemma byte_len_bound v : v < 256 ^ N.of_nat (byte_len v).
Proof.
  unfold byte_len. rewrite N2Nat.id.
  replace 256 with (2 ^ 8) by reflexivity. rewrite <- N.pow_mul_r.
  eapply N.lt_le_trans; [apply size_bound|]. apply N.pow_le_mono_r; lia.
Qed.

Lemma byte_len_le32 v : v < 2 ^ 256 -> (byte_len v <= 32)%nat.
Proof.
  intros H. unfold byte_len.
  assert (Hs : N.size v <= 256).
  { destruct (N.eq_dec v 0) as [->|Hnz]; [cbn; lia|].
    rewrite N.size_log2 by exact Hnz.
    assert (N.log2 v < 256) by (apply N.log2_lt_pow2; lia). lia. }
  lia.
Qed.

Lemma unbe_min_be v : unbe (min_be v) = v.
Proof. unfold min_be. apply unbe_be, byte_len_bound. Qed.

(* PadKeyTo32Bytes(d.Bytes()) is exactly the 32-byte big-endian encoding of d. *)
Theorem pad32_min_be d : d < 2 ^ 256 -> pad32 (min_be d) = be 32 d.
Proof.
  intros Hd.
  assert (Hlen : (length (min_be d) <= 32)%nat).
  { unfold min_be. rewrite be_length. apply byte_len_le32, Hd. }
  assert (Hwf : wf_bytes (pad32 (min_be d))).
  { unfold pad32. destruct (Nat.ltb _ _).
    - apply Forall_app. split; [apply wf_repeat0|apply be_wf].
    - apply be_wf. }
  assert (Hl32 : length (pad32 (min_be d)) = 32%nat).
  { unfold pad32. destruct (Nat.ltb_spec (length (min_be d)) 32) as [Hlt|Hge].
    - rewrite app_length, repeat_length. lia.
    - lia. }
  assert (Hv : unbe (pad32 (min_be d)) = d).
  { unfold pad32. destruct (Nat.ltb _ _); [rewrite unbe_zeros_app|]; apply unbe_min_be. }
  rewrite <- (be_unbe _ Hwf), Hl32, Hv. reflexivity.
Qed.

Theorem pad32_length d : d < 2 ^ 256 -> length (pad32 (min_be d)) = 32%nat.
Proof. intros H. rewrite pad32_min_be by exact H. apply be_length. Qed.

Theorem unmarshal_padded d : d < 2 ^ 256 -> unmarshal_priv (pad32 (min_be d)) = Some d.
Proof.
  intros H. unfold unmarshal_priv. rewrite pad32_length by exact H. cbn [Nat.eqb].
  rewrite pad32_min_be by exact H. rewrite unbe_be; [reflexivity|].
  replace (256 ^ N.of_nat 32) with (2 ^ 256) by reflexivity. exact H.
Qed.

(* without padding, every key whose top byte is zero is refused by the transport library *)
Theorem unmarshal_unpadded_fails d : d < 2 ^ 248 -> unmarshal_priv (min_be d) = None.
Proof.
  intros H. unfold unmarshal_priv, min_be. rewrite be_length.
  assert (Hl : (byte_len d <= 31)%nat).
  { unfold byte_len.
    assert (Hs : N.size d <= 248).
    { destruct (N.eq_dec d 0) as [->|Hnz]; [cbn; lia|].
      rewrite N.size_log2 by exact Hnz.
      assert (N.log2 d < 248) by (apply N.log2_lt_pow2; lia). lia. }
    lia. }
  destruct (Nat.eqb_spec (byte_len d) 32); [lia|reflexivity].
Qed.

Theorem extract_peerid c : length c = 33%nat -> extract_pub (peerid c) = Some c.
Proof.
  intros H. unfold peerid, pubkey_proto. cbn [length]. rewrite H. cbn [N.of_nat Pos.of_succ_nat Pos.succ].
  cbn [extract_pub]. rewrite H. reflexivity.
Qed.

Section Coherence.
  Variable keccak : bytes -> bytes.
  Variable pub : N -> point.
  Variable compress : point -> bytes.
  Variable decompress : bytes -> option point.
  Hypothesis compress_len : forall P, length (compress P) = 33%nat.
  Hypothesis decompress_compress : forall d, decompress (compress (pub d)) = Some (pub d).

  Theorem coherent d :
    d < 2 ^ 256 ->
    node_peer_addr keccak pub compress decompress d = Some (pubkey_addr keccak pub d).
  Proof.
    intros H. unfold node_peer_addr, host_id. rewrite unmarshal_padded by exact H.
    unfold addr_of_peerid. rewrite extract_peerid by apply compress_len.
    rewrite decompress_compress. reflexivity.
  Qed.

  Theorem nopad_cannot_start d :
    d < 2 ^ 248 -> node_peer_addr_nopad keccak pub compress decompress d = None.
  Proof.
    intros H. unfold node_peer_addr_nopad, host_id. rewrite unmarshal_unpadded_fails by exact H.
    reflexivity.
  Qed.
End Coherence.

(* every transport identity libp2p.New derives from a key (of this node or of any node running this code) is canonical *)
Lemma host_id_canonical (pub : N -> point) (compress : point -> bytes) key_bytes pid :
  (forall P, length (compress P) = 33%nat) -> host_id pub compress key_bytes = Some pid -> canonical pid.
Proof.
  intros Hc H. unfold host_id in H. destruct (unmarshal_priv key_bytes) as [k|]; [|discriminate].
  injection H as <-. exists (compress (pub k)). split; [apply Hc|reflexivity].
Qed.

Example host_id_canonical_instance :
  canonical (peerid (2 :: be 32 258)).
Proof. exists (2 :: be 32 258). split; [cbn [length]; rewrite be_length; reflexivity|reflexivity]. Qed.

(* the wiring of libp2p.New as read from the source on this run *)
Lemma wiring_now : wiring_ok = true.
Proof. reflexivity. Qed.

Section SourcesCoherence.
  Variable keccak : bytes -> bytes.
  Variable pub : N -> point.
  Variable compress : point -> bytes.
  Variable decompress : bytes -> option point.
  Variable ks_priv : N -> N.
  Variable ks_addr : N -> bytes.
  Variable recover_addr : N -> bytes.
  Hypothesis compress_len : forall P, length (compress P) = 33%nat.
  Hypothesis decompress_compress : forall d, decompress (compress (pub d)) = Some (pub d).

  (* one key, three sources, one address: the bindings are premises about the scalar at hand *)
  Theorem coherent_sources d :
    d < 2 ^ 256 ->
    ks_priv d = d ->
    ks_addr d = eth_addr keccak (pub d) ->
    recover_addr d = eth_addr keccak (pub d) ->
    node_peer_addr_now keccak pub compress decompress ks_priv d = Some (ks_addr d) /\
    node_peer_addr_now keccak pub compress decompress ks_priv d = Some (recover_addr d) /\
    ks_addr d = recover_addr d.
  Proof.
    intros Hd Hp Ha Hr. unfold node_peer_addr_now. rewrite wiring_now, Hp.
    rewrite (coherent keccak pub compress decompress compress_len decompress_compress d Hd).
    unfold pubkey_addr. rewrite Ha, Hr. repeat split; reflexivity.
  Qed.

  (* each binding is needed: a signer that hands out another scalar (a left-aligned copy of a short key, say),
     or reports / signs for another address, makes the sources differ even though nothing else changed *)
  Theorem sources_differ_without_binding d :
    d < 2 ^ 256 -> ks_priv d < 2 ^ 256 ->
    (eth_addr keccak (pub (ks_priv d)) <> ks_addr d ->
     node_peer_addr_now keccak pub compress decompress ks_priv d <> Some (ks_addr d)) /\
    (eth_addr keccak (pub (ks_priv d)) <> recover_addr d ->
     node_peer_addr_now keccak pub compress decompress ks_priv d <> Some (recover_addr d)).
  Proof.
    intros Hd Hk. unfold node_peer_addr_now. rewrite wiring_now.
    rewrite (coherent keccak pub compress decompress compress_len decompress_compress _ Hk). unfold pubkey_addr.
    split; intros Hne H; apply Hne; congruence.
  Qed.
End SourcesCoherence.

(* non-vacuity of the binding premises: the toy curve below with ks_priv = id and both address functions the
   address of the public point *)
Example sources_premises_satisfiable :
  let keccak := fun m : bytes => m in
  let pub := fun d : N => (d mod 2 ^ 256, 0) in
  (fun d : N => d) 258 = 258 /\ (fun d => eth_addr keccak (pub d)) 258 = eth_addr keccak (pub 258).
Proof. split; reflexivity. Qed.

(* non-vacuity: a toy instance of the curve premises (identity "curve" on pairs) *)
Example coherence_premises_satisfiable :
  exists (compress : point -> bytes) (decompress : bytes -> option point) (pub : N -> point),
    (forall P, length (compress P) = 33%nat) /\ (forall d, decompress (compress (pub d)) = Some (pub d)).
Proof.
  exists (fun P => 2 :: be 32 (fst P)), (fun c => Some (unbe (tl c) mod 2 ^ 256, 0)), (fun d => (d mod 2 ^ 256, 0)).
  split.
  - intros P. cbn [length]. rewrite be_length. reflexivity.
  - intros d. cbn [tl fst]. rewrite unbe_be_mod.
    replace (256 ^ N.of_nat 32) with (2 ^ 256) by reflexivity.
    rewrite N.mod_mod by (apply N.pow_nonzero; lia). rewrite N.mod_mod by (apply N.pow_nonzero; lia). reflexivity.
Qed.

Example pad_example : pad32 (min_be 258) = repeat 0 30 ++ [1; 2].
Proof. vm_compute. reflexivity. Qed.
