(* The signing payload of model/EvmTxWire.v determines the transaction. *)
From Coq Require Import List NArith ZArith Bool Arith Lia.
From MevVerif Require Import lib.Bytes lib.Rlp proofs.Rlp_proofs model.EvmTx model.EvmTxWire.
Import ListNotations.
Open Scope N_scope.

Lemma z_item_inj a b i : z_item a = Some i -> z_item b = Some i -> a = b.
Proof.
  unfold z_item, rlp_uint.
  destruct (Z.ltb_spec a 0); [discriminate|]. destruct (Z.ltb_spec b 0); [discriminate|].
  intros Ha Hb. rewrite <- Hb in Ha. injection Ha as Ha. apply be_min_inj in Ha. lia.
Qed.

Lemma to_item_inj a b i : to_item a = Some i -> to_item b = Some i -> a = b.
Proof.
  unfold to_item, rlp_bytes.
  destruct a as [a|], b as [b|]; try reflexivity.
  - destruct (Nat.eqb (length a) 20); [|discriminate]. destruct (Nat.eqb (length b) 20); [|discriminate].
    intros Ha Hb. rewrite <- Hb in Ha. injection Ha as ->. reflexivity.
  - destruct (Nat.eqb_spec (length a) 20) as [E|]; [|discriminate].
    intros Ha Hb. rewrite <- Hb in Ha. injection Ha as ->. discriminate.
  - destruct (Nat.eqb_spec (length b) 20) as [E|]; [|discriminate].
    intros Ha Hb. rewrite <- Hb in Ha. injection Ha as Ha. subst b. discriminate.
Qed.

Lemma payload_items_inj t1 t2 l : payload_items t1 = Some l -> payload_items t2 = Some l -> t1 = t2.
Proof.
  unfold payload_items. destruct t1 as [c1 n1 p1 f1 g1 d1 v1 x1], t2 as [c2 n2 p2 f2 g2 d2 v2 x2]. cbn [tx_chain tx_nonce tx_tip tx_feecap tx_gas tx_to tx_value tx_data].
  destruct (z_item c1) eqn:C1; [|discriminate]. destruct (z_item p1) eqn:P1; [|discriminate].
  destruct (z_item f1) eqn:F1; [|discriminate]. destruct (to_item d1) eqn:D1; [|discriminate].
  destruct (z_item v1) eqn:V1; [|discriminate].
  destruct (z_item c2) eqn:C2; [|discriminate]. destruct (z_item p2) eqn:P2; [|discriminate].
  destruct (z_item f2) eqn:F2; [|discriminate]. destruct (to_item d2) eqn:D2; [|discriminate].
  destruct (z_item v2) eqn:V2; [|discriminate].
  intros H1 H2. rewrite <- H2 in H1. unfold rlp_uint, rlp_bytes in H1.
  injection H1 as Ec En Ep Ef Eg Ed Ev Ex. subst.
  apply be_min_inj in En. apply be_min_inj in Eg. subst.
  rewrite (z_item_inj _ _ _ C1 C2), (z_item_inj _ _ _ P1 P2), (z_item_inj _ _ _ F1 F2),
          (z_item_inj _ _ _ V1 V2), (to_item_inj _ _ _ D1 D2). reflexivity.
Qed.

(* the bytes that are signed determine all eight fields of the transaction *)
Theorem wire_payload_determines_fields t1 t2 p :
  signing_payload t1 = Some p -> signing_payload t2 = Some p -> t1 = t2.
Proof.
  unfold signing_payload.
  destruct (payload_items t1) as [l1|] eqn:L1; [|discriminate].
  destruct (payload_items t2) as [l2|] eqn:L2; [|discriminate].
  destruct (encode (rlp_list l1)) as [b1|] eqn:E1; [|discriminate].
  destruct (encode (rlp_list l2)) as [b2|] eqn:E2; [|discriminate].
  intros H1 H2. rewrite <- H2 in H1. injection H1 as ->.
  pose proof (rlp_encode_inj _ _ _ E1 E2) as H. unfold rlp_list in H. injection H as ->.
  exact (payload_items_inj _ _ _ L1 L2).
Qed.

(* the payload is readable: the decoder returns the nine items *)
Theorem wire_payload_decodes t p :
  signing_payload t = Some p ->
  exists l, payload_items t = Some l /\ match p with 2 :: b => decode b = ROk (Lst l) | _ => False end.
Proof.
  unfold signing_payload. destruct (payload_items t) as [l|]; [|discriminate].
  destruct (encode (rlp_list l)) as [b|] eqn:E; [|discriminate].
  intro H; injection H as <-. exists l; split; [reflexivity|]. exact (rlp_decode_encode _ _ E).
Qed.

(* non-vacuity: a transaction with a destination and one without have payloads, and they differ;
   the first is the EIP-1559 payload of chain 1, nonce 0, tip 1, fee cap 2, gas 21000, value 0 *)
Definition ex_tx (dst : option bytes) : dyntx :=
  {| tx_chain := 1; tx_nonce := 0; tx_tip := 1; tx_feecap := 2; tx_gas := 21000; tx_to := dst;
     tx_value := 0; tx_data := [171; 205] |}.
Example wire_payload_examples :
  signing_payload (ex_tx None) = Some [2; 205; 1; 128; 1; 2; 130; 82; 8; 128; 128; 130; 171; 205; 192] /\
  (exists p, signing_payload (ex_tx (Some (repeat 17 20%nat))) = Some p /\ length p = 35%nat) /\
  signing_payload (ex_tx (Some [1; 2])) = None /\
  signing_payload {| tx_chain := (-1); tx_nonce := 0; tx_tip := 1; tx_feecap := 2; tx_gas := 1; tx_to := None;
                     tx_value := 0; tx_data := [] |} = None.
Proof. repeat split; try reflexivity. eexists; split; vm_compute; reflexivity. Qed.
