(* C06 -- proofs over the entry classification (model/NoPanic.v) and over the Panic outcomes of
   the subsystem models (Signer, PreconfBidder, BidderApi, PreconfProvider, Handshake). *)
From Coq Require Import String List NArith ZArith Bool Lia.
From MevVerif Require Import lib.Bytes gen.Generated model.NoPanic.
Import ListNotations.
Open Scope N_scope.

(* ---- the classification: nothing panics on the tree as it is now --------------------------------- *)

(* the wiring fact read from libp2p.New on this run *)
Lemma metrics_created : metrics_always_created = true.
Proof. reflexivity. Qed.

Lemma eip_verify_in_now : forall h n s, eip_verify_in fixes_now h n s <> VPanic.
Proof.
  intros h n s. unfold eip_verify_in. cbn [f_siglen fixes_now].
  destruct (negb h); [discriminate|].
  destruct (negb (n =? 65)); [discriminate|].
  destruct s; discriminate.
Qed.

Lemma verify_bid_in_now : forall b, verify_bid_in fixes_now b <> VPanic.
Proof.
  intros b. unfold verify_bid_in.
  destruct (bi_dig b); [|discriminate].
  destruct (bi_sig b); [|discriminate].
  destruct (negb (bi_amt_ok b)); [discriminate|].
  apply eip_verify_in_now.
Qed.

Lemma verify_preconf_in_now : forall c, verify_preconf_in fixes_now c <> VPanic.
Proof.
  intros c. unfold verify_preconf_in.
  destruct (pi_dig c); [|discriminate].
  destruct (pi_sig c); [|discriminate].
  destruct (pi_bid c) as [b|]; [|cbn; discriminate].
  pose proof (verify_bid_in_now b) as Hb.
  destruct (verify_bid_in fixes_now b); try discriminate; try congruence.
  apply eip_verify_in_now.
Qed.

Lemma vpanics_false : forall o, o <> VPanic -> vpanics o = false.
Proof. intros o H. destruct o; try reflexivity. congruence. Qed.

Lemma reply_panics_now : forall r, reply_panics fixes_now r = false.
Proof.
  intros [|c]; cbn [reply_panics]; [reflexivity|].
  apply vpanics_false, verify_preconf_in_now.
Qed.

Lemma existsb_all_false : forall (A : Type) (p : A -> bool) l,
  (forall a, p a = false) -> existsb p l = false.
Proof.
  intros A p l H. induction l as [|a l IH]; cbn [existsb]; [reflexivity|].
  rewrite H, IH. reflexivity.
Qed.

(* a commitment surfaced by SendBid carries a bid *)
Lemma surfaced_has_bid : forall r c, surfaced fixes_now r = Some c -> pi_bid c <> None.
Proof.
  intros r c H. unfold surfaced in H.
  destruct r as [|c0]; [discriminate|].
  destruct (verify_preconf_in fixes_now c0) eqn:E; try discriminate.
  inversion H; subst c0. clear H.
  unfold verify_preconf_in in E.
  destruct (pi_dig c); [|discriminate].
  destruct (pi_sig c); [|discriminate].
  destruct (pi_bid c); [discriminate|].
  cbn in E. discriminate.
Qed.

Lemma api_map_now : forall r,
  match surfaced fixes_now r with Some c => api_map_panics c | None => false end = false.
Proof.
  intros r. destruct (surfaced fixes_now r) as [c|] eqn:E; [|reflexivity].
  apply surfaced_has_bid in E. unfold api_map_panics.
  destruct (pi_bid c); [reflexivity|congruence].
Qed.

Theorem panics_never : forall i, panics i = false.
Proof.
  intros i. unfold panics.
  destruct i; cbn [panics_gen]; try reflexivity.
  - apply vpanics_false, verify_bid_in_now.
  - apply vpanics_false, verify_preconf_in_now.
  - apply vpanics_false, verify_bid_in_now.
  - unfold handle_bid_panics.
    destruct (negb role_bidder); [reflexivity|].
    destruct read as [b|]; [|reflexivity].
    apply vpanics_false, verify_bid_in_now.
  - apply existsb_all_false, reply_panics_now.
  - rewrite (existsb_all_false _ _ _ reply_panics_now).
    rewrite (existsb_all_false _ _ replies api_map_now). reflexivity.
Qed.

(* ---- exactly where the snapshot panicked ------------------------------------------------------------ *)

(* eipVerify before c3de1fc: a panic exactly for a matching digest with a signature of at most 64 bytes *)
Lemma eip_verify_in_v0_iff : forall f h n s, f_siglen f = false ->
  (eip_verify_in f h n s = VPanic <-> h = true /\ n <= 64).
Proof.
  intros f h n s Hf. unfold eip_verify_in. rewrite Hf.
  destruct h; cbn [negb].
  - destruct (n <=? 64) eqn:E.
    + apply N.leb_le in E. split; [intros _; split; [reflexivity|exact E]|reflexivity].
    + apply N.leb_gt in E. split.
      * destruct ((n =? 65) && s); discriminate.
      * intros [_ H]. lia.
  - split; [discriminate|intros [H _]; discriminate].
Qed.

Lemma verify_bid_in_v0_iff : forall f b, f_siglen f = false ->
  (verify_bid_in f b = VPanic <->
   exists d n, bi_dig b = Some d /\ bi_sig b = Some n /\ bi_amt_ok b = true /\
               bi_hash_ok b = true /\ n <= 64).
Proof.
  intros f b Hf. unfold verify_bid_in.
  destruct (bi_dig b) as [d|]; [|split; [discriminate|intros (d & n & H & _); discriminate]].
  destruct (bi_sig b) as [n|]; [|split; [discriminate|intros (d' & n & _ & H & _); discriminate]].
  destruct (bi_amt_ok b); cbn [negb].
  - rewrite (eip_verify_in_v0_iff f _ _ _ Hf). split.
    + intros [H1 H2]. exists d, n. repeat split; assumption.
    + intros (d' & n' & _ & Hn & _ & Hh & Hl). inversion Hn; subst n'. split; assumption.
  - split; [discriminate|intros (d' & n' & _ & _ & H & _); discriminate].
Qed.

(* refutations: concrete witnesses for the three pre-repair variants *)
Definition short_sig_bid : bid_in :=
  {| bi_dig := Some 32; bi_sig := Some 10; bi_amt_ok := true; bi_hash_ok := true; bi_sig_ok := false |}.
Definition nil_bid_preconf : preconf_in :=
  {| pi_bid := None; pi_dig := Some 32; pi_sig := Some 65; pi_hash_ok := false; pi_sig_ok := false |}.

Lemma verify_bid_v0_refuted : exists b, panics_gen without_siglen (EVerifyBid b) = true.
Proof. exists short_sig_bid. vm_compute. reflexivity. Qed.
Lemma handle_bid_v0_refuted : exists b, panics_gen without_siglen (EHandleBid true (Some b) true 0%Z) = true.
Proof. exists short_sig_bid. vm_compute. reflexivity. Qed.
Lemma verify_preconf_v0_refuted : exists c, panics_gen without_nilbid (EVerifyPreconf c) = true.
Proof. exists nil_bid_preconf. vm_compute. reflexivity. Qed.
Lemma send_bid_reply_v0_refuted : exists c, panics_gen without_nilbid (ESendBidReply [RpErr; RpFrame c]) = true.
Proof. exists nil_bid_preconf. vm_compute. reflexivity. Qed.
Lemma e2e_v0_refuted : panics_gen without_metrics (EE2EInbound false E2ForeignSig) = true
                    /\ panics_gen without_metrics (EE2EOutbound false E2Garbage) = true.
Proof. split; vm_compute; reflexivity. Qed.

(* the keys under which the repaired defects are recorded *)
Lemma key_short_signature : panic_key (EVerifyBid short_sig_bid) = "panic:verify-short-signature"%string.
Proof. vm_compute. reflexivity. Qed.
Lemma key_nil_bid : panic_key (EVerifyPreconf nil_bid_preconf) = "panic:verify-preconf-nil-bid"%string.
Proof. vm_compute. reflexivity. Qed.
Lemma key_nil_metrics : panic_key (EE2EInbound false E2ForeignSig) = "panic:handshake-failure-nil-metrics"%string.
Proof. vm_compute. reflexivity. Qed.

(* non-vacuity: the hostile inputs above are in the domain of panics_never and are refused *)
Example short_sig_bid_refused_now : verify_bid_in fixes_now short_sig_bid = VErr.
Proof. vm_compute. reflexivity. Qed.
Example nil_bid_preconf_refused_now : verify_preconf_in fixes_now nil_bid_preconf = VErr.
Proof. vm_compute. reflexivity. Qed.

(* ================================================================================================== *)
(* The Panic outcomes of the subsystem models.  Signer / Eip712 names are imported; the other models
   are used with qualified names (they reuse the field names).                                        *)
(* ================================================================================================== *)
From MevVerif Require Import gen.Generated model.Eip712 model.Signer.
From MevVerif Require model.PreconfBidder model.BidderApi.
From MevVerif Require proofs.PreconfBidder_proofs proofs.BidderApi_proofs.

(* the crypto library does not panic by itself (go-ethereum's SigToPub returns errors) *)
Definition recover_total (cr : crypto) : Prop := forall h s, recover cr h s <> Panic.
(* the node's own key signer answers with an error or with a 65-byte signature *)
Definition sign_wellformed (cr : crypto) : Prop :=
  forall h, match sign cr h with Ok s => length s = 65%nat | Err _ => True | Panic => False end.

Lemma eip_verify_core_no_panic cr h sig :
  recover_total cr -> length sig = 65%nat -> eip_verify_core cr h sig <> Panic.
Proof.
  intros NP L. unfold eip_verify_core.
  destruct (nth_error sig 64) as [v|] eqn:E.
  - pose proof (NP h (set64 sig (v_to01 v))) as R.
    destruct (recover cr h (set64 sig (v_to01 v))); [|discriminate|contradiction].
    destruct (verify_rs cr a h _); discriminate.
  - apply nth_error_None in E. lia.
Qed.

Lemma eip_verify_no_panic' cr h e sig : recover_total cr -> eip_verify cr h e sig <> Panic.
Proof.
  intros NP. unfold eip_verify.
  destruct (negb (bytes_eqb h e)); [discriminate|].
  destruct (Nat.eqb (length sig) 65) eqn:L; cbn [negb]; [|discriminate].
  apply Nat.eqb_eq in L. apply eip_verify_core_no_panic; assumption.
Qed.

Lemma bid_hash_no_panic K b : bid_hash K b <> Panic.
Proof.
  unfold bid_hash. destruct (parse_amount (b_amt b)); [|discriminate].
  destruct (amount_out_of_range z); discriminate.
Qed.

Theorem signer_verify_bid_no_panic K cr b : recover_total cr -> verify_bid K cr b <> Panic.
Proof.
  intros NP. unfold verify_bid, verify_bid_with.
  destruct (b_dig b); [|discriminate]. destruct (b_sig b); [|discriminate].
  pose proof (bid_hash_no_panic K b) as H.
  destruct (bid_hash K b); [|discriminate|contradiction].
  apply eip_verify_no_panic', NP.
Qed.

Theorem signer_verify_preconf_no_panic K cr c : recover_total cr -> verify_preconf K cr c <> Panic.
Proof.
  intros NP. unfold verify_preconf.
  destruct (c_bid c) as [b|] eqn:Hb; [|discriminate].
  destruct (c_dig c); [|discriminate]. destruct (c_sig c); [|discriminate].
  pose proof (signer_verify_bid_no_panic K cr b NP) as Hp.
  destruct (verify_bid K cr b); [|discriminate|contradiction].
  unfold commitment_hash. rewrite Hb.
  destruct (parse_amount (b_amt b)); [|discriminate].
  destruct (amount_out_of_range z); [discriminate|].
  apply eip_verify_no_panic', NP.
Qed.

Lemma sign_normalised_no_panic cr h : sign_wellformed cr -> sign_normalised cr h <> Panic.
Proof.
  intros W. unfold sign_normalised. pose proof (W h) as Wh.
  destruct (sign cr h) as [s| |]; [|discriminate|contradiction].
  destruct (nth_error s 64) eqn:E; [discriminate|].
  apply nth_error_None in E. lia.
Qed.

(* ConstructPreConfirmation on the bid the handler decoded (never a nil pointer) *)
Theorem signer_construct_preconf_no_panic K cr b :
  recover_total cr -> sign_wellformed cr -> construct_preconf K cr (Some b) <> Panic.
Proof.
  intros NP W. unfold construct_preconf.
  pose proof (signer_verify_bid_no_panic K cr b NP) as Hp.
  destruct (verify_bid K cr b) eqn:V; [|discriminate|contradiction].
  unfold commitment_hash. cbn [c_bid].
  destruct (parse_amount (b_amt b)); [|discriminate].
  destruct (amount_out_of_range z); [discriminate|].
  pose proof (sign_normalised_no_panic cr (commitment_hash_tail K b z) W) as S.
  destruct (sign_normalised cr (commitment_hash_tail K b z)); [discriminate|discriminate|contradiction].
Qed.

(* a verified bid has an amount that parses (big.Int.SetString dialect) and is in range: the bidAmt
   that handleBid parses again after VerifyBid is never nil, so StoreCommitment's bid.Int64() cannot
   dereference nil (the one Panic outcome of model/PreconfProvider.v, whose gate is an oracle there) *)
Lemma verified_amount_parses K cr b a :
  verify_bid K cr b = Ok a -> exists z, parse_amount (b_amt b) = Some z /\ amount_out_of_range z = false.
Proof.
  unfold verify_bid, verify_bid_with.
  destruct (b_dig b); [|discriminate]. destruct (b_sig b); [|discriminate].
  unfold bid_hash. destruct (parse_amount (b_amt b)) as [z|]; [|discriminate].
  destruct (amount_out_of_range z) eqn:R; [discriminate|]. intros _. exists z. split; [reflexivity|exact R].
Qed.

(* ---- the snapshot: concrete crashing messages (the crypto oracle is never reached) ------------------ *)
Definition k0 : bytes -> bytes := fun _ => [].
Definition cr0 : crypto :=
  {| recover := fun _ _ => Err 0; verify_rs := fun _ _ _ => false; addr_of := fun p => p; sign := fun _ => Err 0 |}.
Definition short_sig_message : bid :=
  {| b_tx := bos "tx"; b_amt := bos "1"; b_bn := 1%Z; b_ds := 0%Z; b_de := 0%Z;
     b_dig := Some []; b_sig := Some [1; 2; 3] |}.
Definition nil_bid_message : preconf :=
  {| c_bid := None; c_dig := Some [1]; c_sig := Some [2]; c_prov := [] |}.

Lemma cr0_total : recover_total cr0.
Proof. intros h s. discriminate. Qed.

Lemma signer_verify_bid_v0_refuted :
  exists K cr b, recover_total cr /\ verify_bid_v0 K cr b = Panic /\ verify_bid K cr b = Err E_SIG.
Proof. exists k0, cr0, short_sig_message. split; [exact cr0_total|]. split; vm_compute; reflexivity. Qed.

Lemma signer_verify_preconf_v0_refuted :
  exists K cr c, recover_total cr /\ verify_preconf_v0 K cr c = Panic /\ verify_preconf K cr c = Err E_MISSING.
Proof. exists k0, cr0, nil_bid_message. split; [exact cr0_total|]. split; vm_compute; reflexivity. Qed.

(* ---- SendBid's reply path with the real verifier ------------------------------------------------------ *)
(* decoded bytes fields: empty and absent are the same value (nil) *)
Definition onil (b : bytes) : option bytes := match b with [] => None | _ => Some b end.
Definition conv_bid (b : PreconfBidder.bid) : bid :=
  {| b_tx := PreconfBidder.b_tx b; b_amt := PreconfBidder.b_amt b; b_bn := PreconfBidder.b_bn b;
     b_ds := PreconfBidder.b_ds b; b_de := PreconfBidder.b_de b;
     b_dig := onil (PreconfBidder.b_dig b); b_sig := onil (PreconfBidder.b_sig b) |}.
Definition conv_commitment (c : PreconfBidder.commitment) : preconf :=
  {| c_bid := option_map conv_bid (PreconfBidder.c_bid c);
     c_dig := onil (PreconfBidder.c_dig c); c_sig := onil (PreconfBidder.c_sig c);
     c_prov := PreconfBidder.c_prov c |}.

(* the signer oracle of the SendBid model instantiated with the Signer model *)
Definition real_verify (K : bytes -> bytes) (cr : crypto) (o : PreconfBidder.oracles) : Prop :=
  forall c, PreconfBidder.verify o c = verify_preconf K cr (conv_commitment c).

Theorem send_bid_replies_no_panic K cr o a view D :
  recover_total cr -> real_verify K cr o -> PreconfBidder.construct o a <> Panic ->
  PreconfBidder.send_bid o a view D <> PreconfBidder.SPanic.
Proof.
  intros NP RV C. apply PreconfBidder_proofs.no_crash; [exact C|].
  intros c. rewrite RV. apply signer_verify_preconf_no_panic, NP.
Qed.

(* ---- the bidder API loop on what SendBid surfaces ------------------------------------------------------- *)
Definition api_bid (b : PreconfBidder.bid) : BidderApi.pbid :=
  {| BidderApi.pb_tx := PreconfBidder.b_tx b; BidderApi.pb_amount := PreconfBidder.b_amt b;
     BidderApi.pb_bn := PreconfBidder.b_bn b; BidderApi.pb_ds := PreconfBidder.b_ds b;
     BidderApi.pb_de := PreconfBidder.b_de b;
     BidderApi.pb_digest := PreconfBidder.b_dig b; BidderApi.pb_sig := PreconfBidder.b_sig b |}.
Definition api_commitment (c : PreconfBidder.commitment) : option BidderApi.preconf :=
  Some {| BidderApi.pc_bid := option_map api_bid (PreconfBidder.c_bid c);
          BidderApi.pc_digest := PreconfBidder.c_dig c; BidderApi.pc_sig := PreconfBidder.c_sig c;
          BidderApi.pc_prov := PreconfBidder.c_prov c |}.
(* what the range loop of the API receives from the channel, in any order of arrival *)
Definition api_channel (r : PreconfBidder.run) : list (option BidderApi.preconf) :=
  map (fun tc => api_commitment (snd tc)) (PreconfBidder.r_delivered r).

Theorem bidder_api_no_panic o a view D r fail_at :
  PreconfBidder.send_bid o a view D = PreconfBidder.SRun r ->
  fst (BidderApi.stream_loop (api_channel r) fail_at) <> BidderApi.RPanic.
Proof.
  intros H. apply BidderApi_proofs.stream_loop_no_panic.
  destruct (PreconfBidder_proofs.surface o a view D r H) as (_ & Hd & _).
  unfold api_channel. apply Forall_forall. intros x Hx. apply in_map_iff in Hx.
  destruct Hx as ((t, c) & <- & Hin). destruct (Hd t c Hin) as (p & c0 & rest & addr & _ & _ & _ & _ & _ & _ & _ & _ & Hb).
  unfold BidderApi_proofs.complete, api_commitment. cbn [snd]. rewrite Hb. cbn [option_map].
  eexists. eexists. split; reflexivity.
Qed.

(* the premise is needed: the loop does panic on an element without a bid (not peer-reachable by
   the theorem above) *)
Example api_loop_panics_without_bid :
  fst (BidderApi.stream_loop
         [Some {| BidderApi.pc_bid := None; BidderApi.pc_digest := []; BidderApi.pc_sig := []; BidderApi.pc_prov := [] |}]
         None) = BidderApi.RPanic.
Proof. reflexivity. Qed.

(* non-vacuity: an oracle record satisfying the premises, and a run that delivers something *)
Example cr0_sign_wellformed : sign_wellformed cr0.
Proof. intros h. exact I. Qed.

Definition ex_bid : PreconfBidder.bid := PreconfBidder.mkBid [1] [49] 1%Z 0%Z 0%Z [2] [3] [].
Definition ex_args : PreconfBidder.call_args := PreconfBidder.mkArgs [1] [49] 1%Z 0%Z 0%Z.
Definition ex_oracles : PreconfBidder.oracles := PreconfBidder.mkOracles (fun _ => Ok ex_bid) (fun _ => Ok [9]).
Definition ex_view : list PreconfBidder.peer :=
  [PreconfBidder.mkPeer [7] PreconfBidder.TProvider
     (PreconfBidder.RFrames (PreconfBidder.mkCommitment (Some ex_bid) [4] [5] [] []) []) 1;
   PreconfBidder.mkPeer [8] PreconfBidder.TProvider
     (PreconfBidder.RFrames (PreconfBidder.mkCommitment None [4] [5] [] []) []) 2].
(* one honest and one bid-less reply: one commitment surfaces, and the API loop maps it *)
Example bidder_api_nonvacuous :
  exists r, PreconfBidder.send_bid ex_oracles ex_args ex_view 10 = PreconfBidder.SRun r /\
            length (PreconfBidder.r_delivered r) = 1%nat /\
            fst (BidderApi.stream_loop (api_channel r) None) = BidderApi.RNil.
Proof. eexists. split; [vm_compute; reflexivity|]. split; vm_compute; reflexivity. Qed.

(* the real verifier as the oracle of SendBid: every premise of send_bid_replies_no_panic holds,
   and the reply without a bid is refused, not a crash *)
Definition ex_real_oracles : PreconfBidder.oracles :=
  PreconfBidder.mkOracles (fun _ => Ok ex_bid) (fun c => verify_preconf k0 cr0 (conv_commitment c)).
Example send_bid_replies_nonvacuous :
  recover_total cr0 /\ real_verify k0 cr0 ex_real_oracles /\
  exists r, PreconfBidder.send_bid ex_real_oracles ex_args ex_view 10 = PreconfBidder.SRun r.
Proof.
  split; [exact cr0_total|]. split; [intros c; reflexivity|].
  eexists. vm_compute. reflexivity.
Qed.

(* ================================================================================================== *)
(* Additions after the audit: "ends with an error" on the Signer model, signer.Verify, the provider's
   handler machine, and the restatement over Handshake / Framing / Topology of what C06 needs.          *)
(* ================================================================================================== *)
From MevVerif Require model.PreconfProvider model.ProviderSvc model.Rules model.Handshake model.Framing model.Topology.
From MevVerif Require proofs.ProviderSvc_proofs proofs.Rules_proofs proofs.PreconfProvider_proofs
  proofs.PreconfProvider_traces proofs.Handshake_proofs proofs.Framing_proofs proofs.Topology_proofs.

(* ---- hostile values are REFUSED (an error, not a success) ------------------------------------------- *)
Theorem signature_length_refused K cr b s :
  b_sig b = Some s -> length s <> 65%nat -> exists e, verify_bid K cr b = Err e.
Proof.
  intros Hs L. unfold verify_bid, verify_bid_with. rewrite Hs.
  destruct (b_dig b) as [d|]; [|eexists; reflexivity].
  destruct (bid_hash K b) as [h|e|] eqn:H; [|eexists; reflexivity|exfalso; exact (bid_hash_no_panic K b H)].
  unfold eip_verify. destruct (negb (bytes_eqb h d)); [eexists; reflexivity|].
  apply Nat.eqb_neq in L. rewrite L. cbn [negb]. eexists; reflexivity.
Qed.

Theorem missing_bid_refused K cr c : c_bid c = None -> verify_preconf K cr c = Err E_MISSING.
Proof. intros H. unfold verify_preconf. rewrite H. reflexivity. Qed.

Theorem missing_member_refused K cr b : b_dig b = None \/ b_sig b = None -> verify_bid K cr b = Err E_MISSING.
Proof.
  intros [H|H]; unfold verify_bid, verify_bid_with; rewrite H; [reflexivity|].
  destruct (b_dig b); reflexivity.
Qed.

Theorem bad_amount_refused K cr b d s :
  b_dig b = Some d -> b_sig b = Some s -> parse_amount (b_amt b) = None -> verify_bid K cr b = Err E_AMOUNT.
Proof.
  intros Hd Hs Ha. unfold verify_bid, verify_bid_with. rewrite Hd, Hs. unfold bid_hash. rewrite Ha. reflexivity.
Qed.

Theorem wrong_digest_refused K cr b d s h :
  b_dig b = Some d -> b_sig b = Some s -> bid_hash K b = Ok h -> bytes_eqb h d = false ->
  verify_bid K cr b = Err E_HASH.
Proof.
  intros Hd Hs Hh Ne. unfold verify_bid, verify_bid_with. rewrite Hd, Hs, Hh. unfold eip_verify. rewrite Ne. reflexivity.
Qed.

(* ---- signer.Verify (model/NoPanic.v: signer_verify) ----------------------------------------------------- *)
(* crypto.SigToPub refuses every signature that is not 65 bytes long *)
Definition recover_len (cr : crypto) : Prop :=
  forall h s, length s <> 65%nat -> exists e, recover cr h s = Err e.

Theorem signer_verify_no_panic K cr sig msg :
  recover_total cr -> recover_len cr -> signer_verify K cr sig msg <> Panic.
Proof.
  intros NP RL. unfold signer_verify. pose proof (NP (K msg) sig) as R.
  destruct (recover cr (K msg) sig) as [pub|e|] eqn:E; [|discriminate|contradiction].
  destruct sig as [|x r]; [|discriminate].
  destruct (RL (K msg) [] ltac:(cbn; discriminate)) as [e E']. congruence.
Qed.

(* without the library's length test the slice expression is reachable: the premise is needed *)
Example signer_verify_needs_recover_len :
  exists cr, recover_total cr /\ signer_verify k0 cr [] [] = Panic.
Proof.
  exists {| recover := fun _ _ => Ok []; verify_rs := fun _ _ _ => false; addr_of := fun p => p; sign := fun _ => Err 0 |}.
  split; [intros h s; discriminate|reflexivity].
Qed.
Example cr0_recover_len : recover_len cr0.
Proof. intros h s _. exists 0. reflexivity. Qed.

(* ---- handleBid: the handler machine of model/PreconfProvider.v never ends in RPanic ------------------------ *)
Lemma provider_parse_is_parse_amount s : PreconfProvider.parse_bigint s = parse_amount s.
Proof.
  destruct s as [|c r]; [reflexivity|].
  unfold PreconfProvider.parse_bigint, parse_amount.
  destruct (N.eqb_spec c 43) as [->|N1]; [reflexivity|].
  destruct (N.eqb_spec c 45) as [->|N2]; [reflexivity|].
  destruct c as [|p]; [reflexivity|].
  do 7 (try (destruct p as [p|p|]; try reflexivity; try (exfalso; apply N1; reflexivity); try (exfalso; apply N2; reflexivity))).
Qed.

Lemma verified_amount_parses_provider K cr b a :
  verify_bid K cr b = Ok a ->
  exists z, PreconfProvider.parse_bigint (b_amt b) = Some z /\ amount_out_of_range z = false.
Proof.
  intros H. destruct (verified_amount_parses K cr b a H) as (z & P & R).
  exists z. rewrite provider_parse_is_parse_amount. split; assumption.
Qed.

(* the handler machine never ends in RPanic: proofs/PreconfProvider_traces.v, no_rpanic_node (used by Properties/C06.v) *)

(* ---- handshake.go with signer.Verify plugged in: no script makes Handle / Handshake panic ---------------------- *)
Lemma hs_guard_no_panic K cr r : recover_total cr -> recover_len cr -> hs_guard K cr r <> Panic.
Proof.
  intros NP RL. unfold hs_guard.
  rewrite (existsb_all_false _ (fun sd => is_panic (signer_verify K cr (fst sd) (snd sd))) (Handshake.verifies r)).
  - discriminate.
  - intros [sig data]. cbn [fst snd]. pose proof (signer_verify_no_panic K cr sig data NP RL) as H.
    destruct (signer_verify K cr sig data); try reflexivity. contradiction.
Qed.

Theorem handle_outcome_no_panic K cr c pid reg wfail script :
  recover_total cr -> recover_len cr -> handle_outcome K cr c pid reg wfail script <> Panic.
Proof. intros NP RL. apply hs_guard_no_panic; assumption. Qed.

Theorem handshake_outcome_no_panic K cr c pid reg wfail script :
  recover_total cr -> recover_len cr -> handshake_outcome K cr c pid reg wfail script <> Panic.
Proof. intros NP RL. apply hs_guard_no_panic; assumption. Qed.

(* the guard is not idle: with a library that accepts an empty signature the first request crashes Handle *)
Example handle_outcome_needs_recover_len :
  exists cr, recover_total cr /\
    handle_outcome k0 cr {| Handshake.own_type := 2%Z; Handshake.own_token := []; Handshake.own_addr := []; Handshake.own_sig := [] |}
      Handshake.PErr (fun _ => false) (fun _ => false)
      [{| Handshake.as_req := Some ([], [], []); Handshake.as_resp := None |}] = Panic.
Proof.
  exists {| recover := fun _ _ => Ok []; verify_rs := fun _ _ _ => false; addr_of := fun p => p; sign := fun _ => Err 0 |}.
  split; [intros h s; discriminate|vm_compute; reflexivity].
Qed.

(* the provider-API service inside the handler machine never reaches its crash state (send on a closed channel) *)
Theorem provider_service_never_panics K addr evs :
  ProviderSvc.panicked (PreconfProvider.svc
    (PreconfProvider.run K ProviderSvc.rules_validators (PreconfProvider.node_wiring addr) evs)) = false.
Proof.
  exact (ProviderSvc_proofs.inv_nopanic _ _
           (PreconfProvider_proofs.pi_svc _ _ _ _ _
              (PreconfProvider_proofs.run_pinv K ProviderSvc.rules_validators (PreconfProvider.node_wiring addr) evs))).
Qed.

(* unknown roles: FromString's default is -1, and a peer of a type that is neither provider nor bidder leaves the
   topology's views as they are (Connected / AddPeers / Disconnected) *)
Lemma unknown_role_default s :
  Handshake.role_of_string s = (-1)%Z \/ Handshake.role_of_string s = 0%Z \/
  Handshake.role_of_string s = 1%Z \/ Handshake.role_of_string s = 2%Z.
Proof.
  unfold Handshake.role_of_string. destruct Generated.c04_fromstring_strings as [|s0 [|s1 [|s2 [|]]]]; auto.
  destruct (bytes_eqb s s0); auto. destruct (bytes_eqb s s1); auto. destruct (bytes_eqb s s2); auto.
Qed.

Lemma topology_ignores_unknown_type p st :
  Topology.p_role p <> Topology.ROLE_PROVIDER -> Topology.p_role p <> Topology.ROLE_BIDDER ->
  Topology.add p st = st /\ Topology.remove p st = st.
Proof.
  intros H1 H2. unfold Topology.add, Topology.remove.
  apply Z.eqb_neq in H1. apply Z.eqb_neq in H2. rewrite H1, H2. split; reflexivity.
Qed.

(* ---- the two layers meet: the summary the drivers compute, as a function of the Signer model --------------- *)
Definition lenN (l : bytes) : N := N.of_nat (length l).
Definition core_ok (cr : crypto) (h s : bytes) : bool :=
  match eip_verify_core cr h s with Ok _ => true | _ => false end.
(* the summary the drivers compute for a Bid value, as a function of the Signer model's own ingredients *)
Definition summary (K : bytes -> bytes) (cr : crypto) (b : bid) : bid_in :=
  let amt_ok := match bid_hash K b with Ok _ => true | _ => false end in
  let hash_ok := match bid_hash K b, b_dig b with Ok h, Some d => bytes_eqb h d | _, _ => false end in
  let sig_ok := match bid_hash K b, b_sig b with
                | Ok h, Some s => hash_ok && Nat.eqb (length s) 65 && core_ok cr h s
                | _, _ => false
                end in
  {| bi_dig := option_map lenN (b_dig b); bi_sig := option_map lenN (b_sig b);
     bi_amt_ok := amt_ok; bi_hash_ok := hash_ok; bi_sig_ok := sig_ok |}.

Definition class_of {A} (o : outcome A) : vout := match o with Ok _ => VOk | Err _ => VErr | Panic => VPanic end.

Lemma lenN_65 s : (lenN s =? 65) = Nat.eqb (length s) 65.
Proof. unfold lenN. destruct (Nat.eqb_spec (length s) 65) as [E|E].
  - rewrite E. reflexivity.
  - apply N.eqb_neq. lia. Qed.
Lemma lenN_le64 s : (lenN s <=? 64) = true <-> (length s <= 64)%nat.
Proof. unfold lenN. rewrite N.leb_le. lia. Qed.

Lemma core_short cr h s : (length s <= 64)%nat -> eip_verify_core cr h s = Panic.
Proof. intros L. unfold eip_verify_core. destruct (nth_error s 64) eqn:E; [|reflexivity].
  assert (nth_error s 64 <> None) as H by congruence. apply nth_error_Some in H. lia. Qed.

Lemma set64_length s v : (64 < length s)%nat -> length (set64 s v) = length s.
Proof. intros L. unfold set64. rewrite app_length, firstn_length. cbn [length]. rewrite skipn_length. lia. Qed.

Lemma core_long cr h s : recover_len cr -> (65 < length s)%nat -> exists e, eip_verify_core cr h s = Err e.
Proof.
  intros RL L. unfold eip_verify_core. destruct (nth_error s 64) as [v|] eqn:E.
  - destruct (RL h (set64 s (v_to01 v))) as [e He]; [rewrite set64_length; lia|]. rewrite He. eexists; reflexivity.
  - apply nth_error_None in E. lia.
Qed.

Lemma core_class cr h s : recover_total cr -> length s = 65%nat ->
  class_of (eip_verify_core cr h s) = if core_ok cr h s then VOk else VErr.
Proof.
  intros NP L. unfold core_ok. pose proof (eip_verify_core_no_panic cr h s NP L) as H.
  destruct (eip_verify_core cr h s); [reflexivity|reflexivity|contradiction].
Qed.

Theorem summary_sound K cr b f : recover_total cr -> recover_len cr ->
  verify_bid_in f (summary K cr b) =
  class_of (verify_bid_with (bid_hash K) (if f_siglen f then eip_verify cr else eip_verify_v0 cr) b).
Proof.
  intros NP RL. unfold verify_bid_in, verify_bid_with, summary. cbn [bi_dig bi_sig bi_amt_ok bi_hash_ok bi_sig_ok].
  destruct (b_dig b) as [d|]; cbn [option_map]; [|reflexivity].
  destruct (b_sig b) as [s|]; cbn [option_map]; [|reflexivity].
  pose proof (bid_hash_no_panic K b) as HP.
  destruct (bid_hash K b) as [h|e|]; [|reflexivity|contradiction]. cbn [negb].
  unfold eip_verify_in. destruct (f_siglen f).
  - unfold eip_verify. destruct (bytes_eqb h d); cbn [negb andb]; [|reflexivity].
    rewrite lenN_65. destruct (Nat.eqb_spec (length s) 65) as [L|L]; cbn [negb andb]; [|reflexivity].
    rewrite (core_class cr h s NP L). reflexivity.
  - unfold eip_verify_v0. destruct (bytes_eqb h d); cbn [negb andb]; [|reflexivity].
    destruct (lenN s <=? 64) eqn:L64.
    + apply lenN_le64 in L64. rewrite (core_short cr h s L64). reflexivity.
    + assert (64 < length s)%nat as G by (destruct (Nat.le_gt_cases (length s) 64) as [X|X]; [apply lenN_le64 in X; congruence|exact X]).
      rewrite lenN_65. destruct (Nat.eqb_spec (length s) 65) as [L|L]; cbn [andb].
      * rewrite (core_class cr h s NP L). reflexivity.
      * destruct (core_long cr h s RL ltac:(lia)) as [e He]. rewrite He. reflexivity.
Qed.

Corollary summary_sound_now K cr b : recover_total cr -> recover_len cr ->
  verify_bid_in fixes_now (summary K cr b) = class_of (verify_bid K cr b).
Proof. intros NP RL. exact (summary_sound K cr b fixes_now NP RL). Qed.

(* ================================================================================================== *)
(* Round A3: the frame reader as a whole, the discovery worker semaphore, the connect wrappers.        *)
(* ================================================================================================== *)
From MevVerif Require lib.Varint proofs.Blocklist_proofs.
Module FrameReader.
Import Varint Framing Framing_proofs.
Lemma firstn_len_bound (n mx : N) (l : bytes) : n <= mx -> len_of (firstn (N.to_nat n) l) <= mx.
Proof.
  intros M. unfold len_of. rewrite firstn_length.
  pose proof (Nat.le_min_l (N.to_nat n) (length l)) as L.
  remember (Nat.min (N.to_nat n) (length l)) as m. clear Heqm. lia.
Qed.

Lemma parse1_frame_bound buf p rest : parse1 buf = Frame p rest -> len_of p <= max_msg.
Proof.
  unfold parse1. destruct (Nat.ltb (length buf) len_size); [discriminate|].
  destruct (unbe (firstn len_size buf) =? 0) eqn:Z.
  - intros H. injection H as Hp _. rewrite <- Hp. rewrite max_msg_value. discriminate.
  - destruct (max_msg <? unbe (firstn len_size buf)) eqn:M; [discriminate|].
    destruct (len_of (skipn len_size buf) <? unbe (firstn len_size buf)); [discriminate|].
    intros H. injection H as Hp _. rewrite <- Hp. apply firstn_len_bound. apply N.ltb_ge. exact M.
Qed.

Lemma drain_bound f : forall buf fs r d, drain f buf = (fs, r, d) -> Forall (fun p => len_of p <= max_msg) fs.
Proof.
  induction f as [|f IH]; intros buf fs r d H; cbn [drain] in H.
  - inversion H; subst. constructor.
  - destruct (parse1 buf) as [p rest| |] eqn:P.
    + destruct (drain f rest) as [[fs1 r1] d1] eqn:D. inversion H; subst.
      constructor; [eapply parse1_frame_bound; eauto|eapply IH; eauto].
    + inversion H; subst. constructor.
    + inversion H; subst. constructor.
Qed.

Definition WF (s : rstate) : Prop := Stable s /\ Forall (fun p => len_of p <= max_msg) (out s).

Lemma feed_wf s c : WF s -> WF (feed s c).
Proof.
  intros [St B]. destruct (dead s) eqn:D.
  - assert (E : feed s c = s) by (unfold feed; rewrite D; reflexivity). rewrite E. split; assumption.
  - destruct (drain_all (rbuf s ++ c)) as [[fs r] d] eqn:E.
    destruct (feed_spec s c fs r d St D E) as [Ef St']. split; [exact St'|].
    rewrite Ef. cbn [out]. apply Forall_app. split; [exact B|]. unfold drain_all in E. eapply drain_bound; eauto.
Qed.

Lemma rinit_wf : WF rinit.
Proof. split; [apply rinit_stable|constructor]. Qed.

Lemma fold_feed_wf cs : forall s, WF s -> WF (fold_left feed cs s).
Proof. induction cs as [|c cs IH]; intros s H; cbn [fold_left]; [exact H|]. apply IH, feed_wf, H. Qed.

Theorem frame_reader_total (cs : list bytes) :
  let s := feed_chunks cs in
  Stable s /\
  Forall (fun p => len_of p <= max_msg) (out s) /\
  Forall (fun p => read_msg_outcome p <> Panic) (out s) /\
  out s = out (feed_all (concat cs)) /\ dead s = dead (feed_all (concat cs)).
Proof.
  cbv zeta. destruct (fold_feed_wf cs rinit rinit_wf) as [St B]. fold (feed_chunks cs) in St, B.
  split; [exact St|]. split; [exact B|]. split.
  - apply Forall_forall. intros p _. unfold read_msg_outcome. destruct (read_msg p); discriminate.
  - destruct (chunking cs) as (A & C & _). split; assumption.
Qed.

(* non-vacuity: a zero-length frame, a frame with garbage, an oversized prefix and a truncated tail in one stream,
   cut into odd chunks: two frames delivered, then the reader is stuck *)
Example frame_reader_example :
  let s := feed_chunks [[0;0]; [0;0;0;0;0]; [2;255]; [255;1;0;0;0;9;9]] in
  out s = [[]; [255;255]] /\ dead s = true.
Proof. vm_compute. split; reflexivity. Qed.
End FrameReader.

Definition pool_inv (cap : N) (s : pool) : Prop := held s = workers s /\ held s <= cap.

Lemma pool_step_inv cap s e : pool_inv cap s -> exists s', pool_step cap false s e = Ok s' /\ pool_inv cap s'.
Proof.
  intros [E B]. destruct e; cbn [pool_step].
  - eexists; split; [reflexivity|]. split; cbn; assumption.
  - eexists; split; [reflexivity|]. split; assumption.
  - destruct ((0 <? queued s) && (held s <? cap)) eqn:C.
    + apply andb_prop in C. destruct C as [_ C]. apply N.ltb_lt in C.
      eexists; split; [reflexivity|]. split; cbn; lia.
    + eexists; split; [reflexivity|]. split; assumption.
  - destruct (workers s =? 0) eqn:W.
    + eexists; split; [reflexivity|]. split; assumption.
    + apply N.eqb_neq in W. assert (held s =? 0 = false) as H by (apply N.eqb_neq; lia). rewrite H.
      eexists; split; [reflexivity|]. split; cbn; lia.
Qed.

Theorem semaphore_balanced cap evs :
  exists s, pool_run cap false pool_init evs = Ok s /\ held s = workers s /\ held s <= cap.
Proof.
  assert (G : forall evs s, pool_inv cap s -> exists s', pool_run cap false s evs = Ok s' /\ pool_inv cap s').
  { clear evs. induction evs as [|e r IH]; intros s I; cbn [pool_run].
    - exists s. split; [reflexivity|exact I].
    - destruct (pool_step_inv cap s e I) as (s1 & E & I1). rewrite E. apply IH, I1. }
  destruct (G evs pool_init) as (s & E & I); [split; cbn; lia|]. exists s. split; [exact E|exact I].
Qed.

(* the handler giving a slot back that it never got (the seeded variants): the surplus release surfaces when the
   real holders finish *)
Lemma semaphore_release_on_cancel_refuted :
  pool_run 10 true pool_init [PSend; PAcquire; PCancel; PDone] = Panic.
Proof. vm_compute. reflexivity. Qed.

Example semaphore_balanced_example :
  pool_run 2 false pool_init [PSend; PSend; PSend; PAcquire; PAcquire; PAcquire; PCancel; PDone; PAcquire; PDone; PDone]
  = Ok {| held := 0; workers := 0; queued := 0 |}.
Proof. vm_compute. reflexivity. Qed.

Lemma connect_wrapper_ok K cr mkpeer nd a : recover_total cr -> recover_len cr ->
  exists nd', connect_wrapper K cr mkpeer nd a = Ok nd'.
Proof.
  intros NP RL. unfold connect_wrapper.
  assert (H : exists r, (if at_inbound a
            then handle_outcome K cr (at_cfg a) (at_pres a) (at_registered a) (at_wfail a) (at_script a)
            else handshake_outcome K cr (at_cfg a) (at_pres a) (at_registered a) (at_wfail a) (at_script a)) = Ok r).
  { destruct (at_inbound a); unfold handle_outcome, handshake_outcome, hs_guard;
      (rewrite existsb_all_false; [eexists; reflexivity|]);
      intros [sig data]; cbn [fst snd]; pose proof (signer_verify_no_panic K cr sig data NP RL) as Hs;
      destruct (signer_verify K cr sig data); try reflexivity; contradiction. }
  destruct H as [r ->]. destruct (Handshake.res r); eexists; reflexivity.
Qed.

Theorem connect_wrappers_no_panic K cr mkpeer l : recover_total cr -> recover_len cr ->
  forall nd, exists nd', connect_run K cr mkpeer nd l = Ok nd'.
Proof.
  intros NP RL. induction l as [|a r IH]; intros nd; cbn [connect_run].
  - eexists; reflexivity.
  - destruct (connect_wrapper_ok K cr mkpeer nd a NP RL) as [nd1 ->]. apply IH.
Qed.

Lemma block_after_other inbound m p now cl q : q <> p ->
  Blocklist.lookup q (block_after inbound m p now cl) = Blocklist.lookup q m.
Proof.
  intros Hq. unfold block_after.
  destruct (Handshake.block_effects _ cl) as [|e [|e2 l2]]; try reflexivity; destruct e; try reflexivity.
  apply Blocklist_proofs.lookup_block_other. exact Hq.
Qed.

(* a refused attempt leaves the registry as it was and touches at most the block entry of that remote: every
   other peer is looked up, gated and enrolled exactly as before *)
Theorem refusal_keeps_node_serving K cr mkpeer nd a nd' r cl :
  connect_wrapper K cr mkpeer nd a = Ok nd' ->
  (if at_inbound a
   then handle_outcome K cr (at_cfg a) (at_pres a) (at_registered a) (at_wfail a) (at_script a)
   else handshake_outcome K cr (at_cfg a) (at_pres a) (at_registered a) (at_wfail a) (at_script a)) = Ok r ->
  Handshake.res r = Handshake.Refuse cl ->
  n_reg nd' = n_reg nd /\
  forall q, q <> at_pid a -> Blocklist.lookup q (n_blocks nd') = Blocklist.lookup q (n_blocks nd).
Proof.
  unfold connect_wrapper. intros H Ho Hr. rewrite Ho, Hr in H. inversion H; subst nd'. cbn [n_reg n_blocks].
  split; [reflexivity|]. intros q Hq. apply block_after_other, Hq.
Qed.

(* non-vacuity: an inbound request whose signature the library refuses is refused, the remote (transport id 7) is
   blocked for ever, nothing is registered, and a second, different remote is then treated on its own *)
Definition ex_attempt (p : Blocklist.pid) : attempt :=
  {| at_inbound := true; at_pid := p; at_conn := (p, 1); at_closed := false; at_now := 5%Z;
     at_cfg := {| Handshake.own_type := 2%Z; Handshake.own_token := []; Handshake.own_addr := []; Handshake.own_sig := [] |};
     at_pres := Handshake.PErr; at_registered := fun _ => false; at_wfail := fun _ => false;
     at_script := [{| Handshake.as_req := Some ([98], [], [1; 2; 3]); Handshake.as_resp := None |}] |}.
Example connect_wrappers_example :
  match connect_run k0 cr0 (fun _ t => {| PeerRegistry.p_addr := 1; PeerRegistry.p_role := t |})
          {| n_reg := PeerRegistry.init; n_blocks := [] |} [ex_attempt 7; ex_attempt 8] with
  | Ok nd => (Blocklist.lookup 7 (n_blocks nd), Blocklist.lookup 8 (n_blocks nd), Blocklist.lookup 9 (n_blocks nd))
  | _ => (None, None, None)
  end = (Some {| Blocklist.e_start := 5; Blocklist.e_dur := 0 |}, Some {| Blocklist.e_start := 5; Blocklist.e_dur := 0 |}, None).
Proof. vm_compute. reflexivity. Qed.
