(* C06 -- proofs over the entry classification (model/NoPanic.v) and over the Panic outcomes of
   the subsystem models (Signer, PreconfBidder, BidderApi, PreconfProvider, Handshake). *)
From Coq Require Import String List NArith ZArith Bool Lia.
From MevVerif Require Import lib.Bytes model.NoPanic.
Import ListNotations.
Open Scope N_scope.

(* ---- the classification: nothing panics on the tree as it is now --------------------------------- *)

Lemma eip_verify_in_now : forall h n s, eip_verify_in fixes_now h n s <> VPanic.
Proof.
  intros h n s. unfold eip_verify_in. cbn [f_siglen fixes_now].
  destruct (negb h); [discriminate|].
  destruct (negb (n =? 65)); [discriminate|].
  destruct s; discriminate.
Qed.

Lemma verify_bid_in_now : forall b, verify_bid_in fixes_now b <> VPanic.
Proof.
  intros b. unfold verify_bid_in.
  destruct (bi_dig b); [|discriminate].
  destruct (bi_sig b); [|discriminate].
  destruct (negb (bi_amt_ok b)); [discriminate|].
  apply eip_verify_in_now.
Qed.

Lemma verify_preconf_in_now : forall c, verify_preconf_in fixes_now c <> VPanic.
Proof.
  intros c. unfold verify_preconf_in.
  destruct (pi_dig c); [|discriminate].
  destruct (pi_sig c); [|discriminate].
  destruct (pi_bid c) as [b|]; [|cbn; discriminate].
  pose proof (verify_bid_in_now b) as Hb.
  destruct (verify_bid_in fixes_now b); try discriminate; try congruence.
  apply eip_verify_in_now.
Qed.

Lemma vpanics_false : forall o, o <> VPanic -> vpanics o = false.
Proof. intros o H. destruct o; try reflexivity. congruence. Qed.

Lemma reply_panics_now : forall r, reply_panics fixes_now r = false.
Proof.
  intros [|c]; cbn [reply_panics]; [reflexivity|].
  apply vpanics_false, verify_preconf_in_now.
Qed.

Lemma existsb_all_false : forall (A : Type) (p : A -> bool) l,
  (forall a, p a = false) -> existsb p l = false.
Proof.
  intros A p l H. induction l as [|a l IH]; cbn [existsb]; [reflexivity|].
  rewrite H, IH. reflexivity.
Qed.

(* a commitment surfaced by SendBid carries a bid *)
Lemma surfaced_has_bid : forall r c, surfaced fixes_now r = Some c -> pi_bid c <> None.
Proof.
  intros r c H. unfold surfaced in H.
  destruct r as [|c0]; [discriminate|].
  destruct (verify_preconf_in fixes_now c0) eqn:E; try discriminate.
  inversion H; subst c0. clear H.
  unfold verify_preconf_in in E.
  destruct (pi_dig c); [|discriminate].
  destruct (pi_sig c); [|discriminate].
  destruct (pi_bid c); [discriminate|].
  cbn in E. discriminate.
Qed.

Lemma api_map_now : forall r,
  match surfaced fixes_now r with Some c => api_map_panics c | None => false end = false.
Proof.
  intros r. destruct (surfaced fixes_now r) as [c|] eqn:E; [|reflexivity].
  apply surfaced_has_bid in E. unfold api_map_panics.
  destruct (pi_bid c); [reflexivity|congruence].
Qed.

Theorem panics_never : forall i, panics i = false.
Proof.
  intros i. unfold panics.
  destruct i; cbn [panics_gen]; try reflexivity.
  - apply vpanics_false, verify_bid_in_now.
  - apply vpanics_false, verify_preconf_in_now.
  - apply vpanics_false, verify_bid_in_now.
  - unfold handle_bid_panics.
    destruct (negb role_bidder); [reflexivity|].
    destruct read as [b|]; [|reflexivity].
    apply vpanics_false, verify_bid_in_now.
  - apply existsb_all_false, reply_panics_now.
  - rewrite (existsb_all_false _ _ _ reply_panics_now).
    rewrite (existsb_all_false _ _ replies api_map_now). reflexivity.
Qed.

(* ---- exactly where the snapshot panicked ------------------------------------------------------------ *)

(* eipVerify before c3de1fc: a panic exactly for a matching digest with a signature of at most 64 bytes *)
Lemma eip_verify_in_v0_iff : forall f h n s, f_siglen f = false ->
  (eip_verify_in f h n s = VPanic <-> h = true /\ n <= 64).
Proof.
  intros f h n s Hf. unfold eip_verify_in. rewrite Hf.
  destruct h; cbn [negb].
  - destruct (n <=? 64) eqn:E.
    + apply N.leb_le in E. split; [intros _; split; [reflexivity|exact E]|reflexivity].
    + apply N.leb_gt in E. split.
      * destruct ((n =? 65) && s); discriminate.
      * intros [_ H]. lia.
  - split; [discriminate|intros [H _]; discriminate].
Qed.

Lemma verify_bid_in_v0_iff : forall f b, f_siglen f = false ->
  (verify_bid_in f b = VPanic <->
   exists d n, bi_dig b = Some d /\ bi_sig b = Some n /\ bi_amt_ok b = true /\
               bi_hash_ok b = true /\ n <= 64).
Proof.
  intros f b Hf. unfold verify_bid_in.
  destruct (bi_dig b) as [d|]; [|split; [discriminate|intros (d & n & H & _); discriminate]].
  destruct (bi_sig b) as [n|]; [|split; [discriminate|intros (d' & n & _ & H & _); discriminate]].
  destruct (bi_amt_ok b); cbn [negb].
  - rewrite (eip_verify_in_v0_iff f _ _ _ Hf). split.
    + intros [H1 H2]. exists d, n. repeat split; assumption.
    + intros (d' & n' & _ & Hn & _ & Hh & Hl). inversion Hn; subst n'. split; assumption.
  - split; [discriminate|intros (d' & n' & _ & _ & H & _); discriminate].
Qed.

(* refutations: concrete witnesses for the three pre-repair variants *)
Definition short_sig_bid : bid_in :=
  {| bi_dig := Some 32; bi_sig := Some 10; bi_amt_ok := true; bi_hash_ok := true; bi_sig_ok := false |}.
Definition nil_bid_preconf : preconf_in :=
  {| pi_bid := None; pi_dig := Some 32; pi_sig := Some 65; pi_hash_ok := false; pi_sig_ok := false |}.

Lemma verify_bid_v0_refuted : exists b, panics_gen without_siglen (EVerifyBid b) = true.
Proof. exists short_sig_bid. vm_compute. reflexivity. Qed.
Lemma handle_bid_v0_refuted : exists b, panics_gen without_siglen (EHandleBid true (Some b) true 0%Z) = true.
Proof. exists short_sig_bid. vm_compute. reflexivity. Qed.
Lemma verify_preconf_v0_refuted : exists c, panics_gen without_nilbid (EVerifyPreconf c) = true.
Proof. exists nil_bid_preconf. vm_compute. reflexivity. Qed.
Lemma send_bid_reply_v0_refuted : exists c, panics_gen without_nilbid (ESendBidReply [RpErr; RpFrame c]) = true.
Proof. exists nil_bid_preconf. vm_compute. reflexivity. Qed.
Lemma e2e_v0_refuted : panics_gen without_metrics (EE2EInbound false E2ForeignSig) = true
                    /\ panics_gen without_metrics (EE2EOutbound false E2Garbage) = true.
Proof. split; vm_compute; reflexivity. Qed.

(* the keys under which the repaired defects are recorded *)
Lemma key_short_signature : panic_key (EVerifyBid short_sig_bid) = "panic:verify-short-signature"%string.
Proof. vm_compute. reflexivity. Qed.
Lemma key_nil_bid : panic_key (EVerifyPreconf nil_bid_preconf) = "panic:verify-preconf-nil-bid"%string.
Proof. vm_compute. reflexivity. Qed.
Lemma key_nil_metrics : panic_key (EE2EInbound false E2ForeignSig) = "panic:handshake-failure-nil-metrics"%string.
Proof. vm_compute. reflexivity. Qed.

(* non-vacuity: the hostile inputs above are in the domain of panics_never and are refused *)
Example short_sig_bid_refused_now : verify_bid_in fixes_now short_sig_bid = VErr.
Proof. vm_compute. reflexivity. Qed.
Example nil_bid_preconf_refused_now : verify_preconf_in fixes_now nil_bid_preconf = VErr.
Proof. vm_compute. reflexivity. Qed.
