(* C04 -- proofs about model/Handshake.v. *)
From Coq Require Import String List NArith ZArith Bool Lia.
From MevVerif Require Import lib.Bytes gen.Generated model.Handshake proofs.Bytes_proofs.
Import ListNotations.
Open Scope Z_scope.

(* ---- facts about the constants regenerated from /repo ------------------------------------------ *)
Lemma peertype_strings_fact :
  c04_peertype_strings = [bos "bootnode"; bos "provider"; bos "bidder"; bos "unknown"].
Proof. reflexivity. Qed.
Lemma fromstring_strings_fact :
  c04_fromstring_strings = [bos "bootnode"; bos "provider"; bos "bidder"].
Proof. reflexivity. Qed.
Lemma inbound_durations_fact : c04_inbound_durations = [0; 0; 120000000000].
Proof. reflexivity. Qed.
Lemma outbound_durations_fact : c04_outbound_durations = [0; 0; 300000000000].
Proof. reflexivity. Qed.
Lemma inbound_errs_fact :
  c04_inbound_errs = [[bos "err"; bos "handshake.ErrSignatureVerificationFailed"];
                      [bos "err"; bos "handshake.ErrObservedAddressMismatch"];
                      [bos "err"; bos "handshake.ErrInsufficientStake"]].
Proof. reflexivity. Qed.
Lemma outbound_errs_fact : c04_outbound_errs = c04_inbound_errs.
Proof. reflexivity. Qed.

(* libp2p.New builds the handshake service from the node's key signer, role and secret, the
   real signature verifier, the configured provider registry and the real peer-id -> address
   function; it installs handleConnectReq for the handshake protocol; the wrappers pass the
   transport peer id of the connection, register exactly the peer the handshake returned and
   close the peer on failure. *)
Definition wiring_as_modelled : Prop :=
  c04_hs_wiring = [[bos "opts.KeySigner"; bos "opts.PeerType"; bos "opts.Secret"; bos "signer.New()";
                    bos "opts.Register"; bos "GetEthAddressFromPeerID"]] /\
  c04_new_sets_handler = true /\
  c04_inbound_peerid_from_conn = true /\
  c04_inbound_handle_args = [[bos "s.baseCtx"; bos "stream"; bos "peerID"]] /\
  c04_outbound_handshake_args = [[bos "ctx"; bos "addrInfo.ID"; bos "stream"]] /\
  c04_inbound_addpeer_args = [[bos "streamlibp2p.Conn()"; bos "peer"]] /\
  c04_outbound_addpeer_args = [[bos "streamlibp2p.Conn()"; bos "p"]] /\
  c04_inbound_notify_args = [[bos "*peer"]] /\
  c04_inbound_closes_peer = true /\ c04_outbound_closes_peer = true /\
  c04_verifyreq_provider_const = true /\
  (* Connect: isConnected(addrInfo.ID) short cut at the head, getPeer(addrInfo.ID) after addPeer *)
  c04_outbound_shortcut = true /\ c04_outbound_getpeer = true.
Lemma wiring_fact : wiring_as_modelled.
Proof. repeat split; reflexivity. Qed.

(* ---- role strings -------------------------------------------------------------------------------- *)
Lemma provider_string_fact : provider_string = bos "provider".
Proof. reflexivity. Qed.

Lemma role_string_valid t : (0 <= t <= 2) -> In (role_string t) valid_roles.
Proof.
  intros H. assert (t = 0 \/ t = 1 \/ t = 2) as [-> | [-> | ->]] by lia;
    unfold valid_roles; rewrite fromstring_strings_fact; cbn; auto.
Qed.

Lemma role_of_string_provider s : role_of_string s = type_provider <-> s = provider_string.
Proof.
  unfold role_of_string, type_provider. rewrite fromstring_strings_fact, provider_string_fact.
  destruct (bytes_eqb s (bos "bootnode")) eqn:E0.
  - apply bytes_eqb_eq in E0. subst s. split; intros H; discriminate H.
  - destruct (bytes_eqb s (bos "provider")) eqn:E1.
    + apply bytes_eqb_eq in E1. tauto.
    + apply bytes_eqb_neq in E1. destruct (bytes_eqb s (bos "bidder")); split; intros H;
        try discriminate H; contradiction.
Qed.

Lemma role_of_string_valid s : In s valid_roles <-> role_of_string s <> -1.
Proof.
  unfold role_of_string, valid_roles. rewrite fromstring_strings_fact.
  destruct (bytes_eqb s (bos "bootnode")) eqn:E0; [apply bytes_eqb_eq in E0|apply bytes_eqb_neq in E0].
  { subst; split; [discriminate| intros _; left; reflexivity]. }
  destruct (bytes_eqb s (bos "provider")) eqn:E1; [apply bytes_eqb_eq in E1|apply bytes_eqb_neq in E1].
  { subst; split; [discriminate| intros _; right; left; reflexivity]. }
  destruct (bytes_eqb s (bos "bidder")) eqn:E2; [apply bytes_eqb_eq in E2|apply bytes_eqb_neq in E2].
  { subst; split; [discriminate| intros _; right; right; left; reflexivity]. }
  split; [|intros H; contradiction H; reflexivity].
  intros [H | [H | [H | []]]]; symmetry in H; contradiction.
Qed.

Lemma role_of_string_role_string t : (0 <= t <= 2) -> role_of_string (role_string t) = t.
Proof. intros H. assert (t = 0 \/ t = 1 \/ t = 2) as [-> | [-> | ->]] by lia; reflexivity. Qed.

(* The signed text is role ++ token without a separator.  Between the three role strings that
   p2p.FromString accepts the split is unambiguous ... *)
Lemma role_prefix_free r1 r2 t1 t2 :
  In r1 valid_roles -> In r2 valid_roles -> r1 ++ t1 = r2 ++ t2 -> r1 = r2 /\ t1 = t2.
Proof.
  unfold valid_roles. rewrite fromstring_strings_fact. cbn [In].
  intros [<- | [<- | [<- | []]]] [<- | [<- | [<- | []]]] H;
    try (split; [reflexivity | exact (app_inv_head _ _ _ H)]);
    cbn in H; exfalso; congruence.
Qed.

(* ... but the handshake does not restrict the claimed role to those three strings, and outside
   them the split IS ambiguous: the text signed for (bidder, "x") is the text for ("bidderx", ""). *)
Lemma role_concat_ambiguous_outside_valid_roles :
  exists r1 t1 r2 t2, In r1 valid_roles /\ ~ In r2 valid_roles /\ r1 <> r2 /\
                      signed_data r1 t1 = signed_data r2 t2.
Proof.
  exists (bos "bidder"), (bos "x"), (bos "bidderx"), [].
  unfold valid_roles. rewrite fromstring_strings_fact.
  repeat split; try (cbn; intuition congruence).
Qed.

(* ---- verifyReq ------------------------------------------------------------------------------------- *)
Lemma verify_req_inl o role token sig a lk :
  verify_req o role token sig = (inl a, lk) <->
  proves o role token sig a /\ lk = (if bytes_eqb role provider_string then [a] else []).
Proof.
  unfold verify_req, proves, signed_data.
  destruct (verify o sig (role ++ token)) as [|[|] a'].
  - split; [intros H; discriminate H | intros [[H _] _]; discriminate H].
  - destruct (addr_of_pid o) as [|observed].
    + split; [intros H; discriminate H | intros [[_ [H _]] _]; discriminate H].
    + destruct (bytes_eqb observed a') eqn:E; cbn [negb].
      * apply bytes_eqb_eq in E. subst observed.
        destruct (bytes_eqb role provider_string) eqn:P.
        -- apply bytes_eqb_eq in P.
           destruct (registered o a') eqn:R.
           ++ split.
              ** intros H. inversion H. subst. repeat split; auto.
              ** intros [[H1 [H2 _]] ->]. inversion H1. reflexivity.
           ++ split; [intros H; discriminate H|].
              intros [[H1 [_ H3]] _]. inversion H1. subst a'. rewrite (H3 P) in R. discriminate R.
        -- apply bytes_eqb_neq in P. split.
           ++ intros H. inversion H. subst. repeat split; auto.
           ++ intros [[H1 _] ->]. inversion H1. reflexivity.
      * apply bytes_eqb_neq in E. split; [intros H; discriminate H|].
        intros [[H1 [H2 _]] _]. inversion H1. inversion H2. subst. contradiction.
  - split; [intros H; discriminate H | intros [[H _] _]; discriminate H].
Qed.

(* every registry question is about the address a verified signature recovered, which is also the
   address of the transport identity, and is asked because the claimed role is "provider" *)
Lemma verify_req_lookups o role token sig r lk :
  verify_req o role token sig = (r, lk) ->
  lk = [] \/ exists a, lk = [a] /\ verify o sig (role ++ token) = VOk true a /\
                       addr_of_pid o = POk a /\ role = provider_string /\
                       (registered o a = true <-> r = inl a).
Proof.
  unfold verify_req, signed_data.
  destruct (verify o sig (role ++ token)) as [|[|] a']; try (intros H; inversion H; auto; fail).
  destruct (addr_of_pid o) as [|observed]; try (intros H; inversion H; auto; fail).
  destruct (bytes_eqb observed a') eqn:E; cbn [negb]; try (intros H; inversion H; auto; fail).
  apply bytes_eqb_eq in E. subst observed.
  destruct (bytes_eqb role provider_string) eqn:P; try (intros H; inversion H; auto; fail).
  apply bytes_eqb_eq in P.
  destruct (registered o a') eqn:R; intros H; inversion H; subst; right; exists a';
    repeat split; auto; try (intros Q; discriminate Q).
  rewrite R. intros Q; discriminate Q.
Qed.

Lemma echo_ok_spec c ea er : echo_ok c ea er = true <-> echo_is_own c ea er.
Proof.
  unfold echo_ok, echo_is_own. rewrite andb_true_iff, !bytes_eqb_eq. tauto.
Qed.

(* ---- Handle (responder) ------------------------------------------------------------------------------ *)
Theorem handle_enrol_iff c o wfail script A T :
  res (handle c o wfail script) = Enrol A T <-> resp_ok c o wfail script A T.
Proof.
  split.
  - unfold handle.
    destruct script as [|f1 rest]; [intros H; discriminate H|].
    destruct (as_req f1) as [[[role token] sig]|] eqn:Q; [|intros H; discriminate H].
    destruct (verify_req o role token sig) as [[a|r] lk] eqn:V; [|intros H; discriminate H].
    destruct (wfail 0%nat) eqn:W0; [intros H; discriminate H|].
    destruct (wfail 1%nat) eqn:W1; [intros H; discriminate H|].
    destruct rest as [|f2 rest']; [intros H; discriminate H|].
    destruct (as_resp f2) as [[ea er]|] eqn:P; [|intros H; discriminate H].
    destruct (echo_ok c ea er) eqn:E; [|intros H; discriminate H].
    cbn [res mk]. intros H. inversion H. subst.
    apply verify_req_inl in V. destruct V as [V _]. apply echo_ok_spec in E.
    destruct V as (V1 & V2 & V3). destruct E as [E1 E2].
    exists role, token, sig, ea, er, f1, f2, rest'. repeat split; auto.
  - intros (role & token & sig & ea & er & f1 & f2 & rest & -> & Q & V & -> & W0 & W1 & P & E).
    unfold handle. rewrite Q.
    assert (verify_req o role token sig =
            (inl A, if bytes_eqb role provider_string then [A] else [])) as ->
        by (apply verify_req_inl; auto).
    rewrite W0, W1, P. apply echo_ok_spec in E. rewrite E. reflexivity.
Qed.

Theorem handle_lookups_enrolled c o wfail script A T :
  res (handle c o wfail script) = Enrol A T ->
  lookups (handle c o wfail script) = (if T =? type_provider then [A] else []).
Proof.
  unfold handle.
  destruct script as [|f1 rest]; [intros H; discriminate H|].
  destruct (as_req f1) as [[[role token] sig]|] eqn:Q; [|intros H; discriminate H].
  destruct (verify_req o role token sig) as [[a|r] lk] eqn:V; [|intros H; discriminate H].
  destruct (wfail 0%nat) eqn:W0; [intros H; discriminate H|].
  destruct (wfail 1%nat) eqn:W1; [intros H; discriminate H|].
  destruct rest as [|f2 rest']; [intros H; discriminate H|].
  destruct (as_resp f2) as [[ea er]|] eqn:P; [|intros H; discriminate H].
  destruct (echo_ok c ea er) eqn:E; [|intros H; discriminate H].
  cbn [res mk]. intros H. inversion H. subst.
  apply verify_req_inl in V. destruct V as [_ ->].
  destruct (bytes_eqb role provider_string) eqn:B.
  - apply bytes_eqb_eq in B. apply role_of_string_provider in B. rewrite B. reflexivity.
  - apply bytes_eqb_neq in B. destruct (role_of_string role =? type_provider) eqn:R; [|reflexivity].
    apply Z.eqb_eq, role_of_string_provider in R. contradiction.
Qed.

(* whatever the outcome: at most one registry question, and only about a proven address *)
Lemma handle_lookups_eq c o wfail f1 rest role token sig :
  as_req f1 = Some (role, token, sig) ->
  lookups (handle c o wfail (f1 :: rest)) = snd (verify_req o role token sig).
Proof.
  intros Q. unfold handle. rewrite Q.
  destruct (verify_req o role token sig) as [[a|r] lk]; [|reflexivity].
  destruct (wfail 0%nat); [reflexivity|]. destruct (wfail 1%nat); [reflexivity|].
  destruct rest as [|f2 ?]; [reflexivity|]. destruct (as_resp f2) as [[ea er]|]; [|reflexivity].
  destruct (echo_ok c ea er); reflexivity.
Qed.

Theorem handle_lookups_any c o wfail script :
  lookups (handle c o wfail script) = [] \/
  exists role token sig a f1 rest,
    script = f1 :: rest /\ as_req f1 = Some (role, token, sig) /\
    lookups (handle c o wfail script) = [a] /\
    verify o sig (role ++ token) = VOk true a /\ addr_of_pid o = POk a /\ role = provider_string.
Proof.
  destruct script as [|f1 rest]; [left; reflexivity|].
  destruct (as_req f1) as [[[role token] sig]|] eqn:Q.
  2: { left. unfold handle. rewrite Q. reflexivity. }
  rewrite (handle_lookups_eq _ _ _ _ _ _ _ _ Q).
  destruct (verify_req o role token sig) as [r lk] eqn:V. cbn [snd].
  destruct (verify_req_lookups _ _ _ _ _ _ V) as [-> | (a & -> & H1 & H2 & H3 & _)]; [left; reflexivity|].
  right. exists role, token, sig, a, f1, rest. repeat split; auto.
Qed.

(* the responder answers (echo + own request) only a request that proved its sender *)
Theorem handle_writes_only_after_proof c o wfail script :
  written (handle c o wfail script) <> [] ->
  exists role token sig A f1 rest,
    script = f1 :: rest /\ as_req f1 = Some (role, token, sig) /\ proves o role token sig A /\
    hd_error (written (handle c o wfail script)) = Some (WResp A role).
Proof.
  unfold handle.
  destruct script as [|f1 rest]; [intros H; contradiction H; reflexivity|].
  destruct (as_req f1) as [[[role token] sig]|] eqn:Q; [|intros H; contradiction H; reflexivity].
  destruct (verify_req o role token sig) as [[a|r] lk] eqn:V; [|intros H; contradiction H; reflexivity].
  apply verify_req_inl in V. destruct V as [V _].
  destruct (wfail 0%nat); [intros H; contradiction H; reflexivity|].
  intros _. exists role, token, sig, a, f1, rest. repeat split; auto; try apply V.
  destruct (wfail 1%nat); [reflexivity|].
  destruct rest as [|f2 ?]; [reflexivity|]. destruct (as_resp f2) as [[ea er]|]; [|reflexivity].
  destruct (echo_ok c ea er); reflexivity.
Qed.

(* ---- Handshake (initiator) ----------------------------------------------------------------------------- *)
Theorem handshake_enrol_iff c o wfail script A T :
  res (handshake c o wfail script) = Enrol A T <-> init_ok c o wfail script A T.
Proof.
  split.
  - unfold handshake.
    destruct (wfail 0%nat) eqn:W0; [intros H; discriminate H|].
    destruct script as [|f1 rest]; [intros H; discriminate H|].
    destruct (as_resp f1) as [[ea er]|] eqn:P; [|intros H; discriminate H].
    destruct (echo_ok c ea er) eqn:E; cbn [negb]; [|intros H; discriminate H].
    destruct rest as [|f2 rest']; [intros H; discriminate H|].
    destruct (as_req f2) as [[[role token] sig]|] eqn:Q; [|intros H; discriminate H].
    destruct (verify_req o role token sig) as [[a|r] lk] eqn:V; [|intros H; discriminate H].
    destruct (wfail 1%nat) eqn:W1; [intros H; discriminate H|].
    cbn [res mk]. intros H. inversion H. subst.
    apply verify_req_inl in V. destruct V as [V _]. apply echo_ok_spec in E.
    destruct V as (V1 & V2 & V3). destruct E as [E1 E2].
    exists role, token, sig, ea, er, f1, f2, rest'. repeat split; auto.
  - intros (role & token & sig & ea & er & f1 & f2 & rest & -> & W0 & P & E & Q & V & -> & W1).
    unfold handshake. rewrite W0, P. apply echo_ok_spec in E. rewrite E. cbn [negb]. rewrite Q.
    assert (verify_req o role token sig =
            (inl A, if bytes_eqb role provider_string then [A] else [])) as ->
        by (apply verify_req_inl; auto).
    rewrite W1. reflexivity.
Qed.

Theorem handshake_lookups_enrolled c o wfail script A T :
  res (handshake c o wfail script) = Enrol A T ->
  lookups (handshake c o wfail script) = (if T =? type_provider then [A] else []).
Proof.
  unfold handshake.
  destruct (wfail 0%nat) eqn:W0; [intros H; discriminate H|].
  destruct script as [|f1 rest]; [intros H; discriminate H|].
  destruct (as_resp f1) as [[ea er]|] eqn:P; [|intros H; discriminate H].
  destruct (echo_ok c ea er) eqn:E; cbn [negb]; [|intros H; discriminate H].
  destruct rest as [|f2 rest']; [intros H; discriminate H|].
  destruct (as_req f2) as [[[role token] sig]|] eqn:Q; [|intros H; discriminate H].
  destruct (verify_req o role token sig) as [[a|r] lk] eqn:V; [|intros H; discriminate H].
  destruct (wfail 1%nat) eqn:W1; [intros H; discriminate H|].
  cbn [res mk]. intros H. inversion H. subst.
  apply verify_req_inl in V. destruct V as [_ ->].
  destruct (bytes_eqb role provider_string) eqn:B.
  - apply bytes_eqb_eq in B. apply role_of_string_provider in B. rewrite B. reflexivity.
  - apply bytes_eqb_neq in B. destruct (role_of_string role =? type_provider) eqn:R; [|reflexivity].
    apply Z.eqb_eq, role_of_string_provider in R. contradiction.
Qed.

(* the initiator examines the remote's request only after its own request was echoed correctly:
   no signature or registry question is asked before that *)
Theorem handshake_no_question_before_echo c o wfail script :
  verifies (handshake c o wfail script) <> [] \/ lookups (handshake c o wfail script) <> [] ->
  exists ea er f1 rest, script = f1 :: rest /\ as_resp f1 = Some (ea, er) /\ echo_is_own c ea er.
Proof.
  unfold handshake.
  destruct (wfail 0%nat); [intros [H|H]; contradiction H; reflexivity|].
  destruct script as [|f1 rest]; [intros [H|H]; contradiction H; reflexivity|].
  destruct (as_resp f1) as [[ea er]|] eqn:P; [|intros [H|H]; contradiction H; reflexivity].
  destruct (echo_ok c ea er) eqn:E; cbn [negb]; [|intros [H|H]; contradiction H; reflexivity].
  intros _. apply echo_ok_spec in E. exists ea, er, f1, rest. auto.
Qed.

(* ---- the wrappers ------------------------------------------------------------------------------------------ *)
Lemma block_effects_no_announce durs c : forallb (fun e => negb (announces e)) (block_effects durs c) = true.
Proof.
  unfold block_effects. destruct durs as [|a [|b [|d [|? ?]]]]; try reflexivity; destruct c; reflexivity.
Qed.

Lemma inbound_refuse_effects has_notifier add c :
  let eff := handle_connect_req has_notifier add (Refuse c) in
  In EClosePeer eff /\ In EResetStream eff /\ forallb (fun e => negb (announces e)) eff = true.
Proof.
  unfold handle_connect_req. cbv zeta. repeat split.
  - right; left; reflexivity.
  - left; reflexivity.
  - cbn [forallb announces negb andb]. apply block_effects_no_announce.
Qed.

Lemma outbound_refuse_effects add c :
  let eff := connect add (Refuse c) in
  In EClosePeer eff /\ In (EReturnErr c) eff /\ forallb (fun e => negb (announces e)) eff = true.
Proof.
  unfold connect, connect_tail. cbv zeta. repeat split.
  - left; reflexivity.
  - right. apply in_or_app. right. left. reflexivity.
  - cbn [forallb announces negb andb]. rewrite forallb_app, block_effects_no_announce. reflexivity.
Qed.

Lemma forallb_not_in {A} (f : A -> bool) l x : forallb (fun e => negb (f e)) l = true -> In x l -> f x = false.
Proof.
  intros H I. rewrite forallb_forall in H. apply H in I. destruct (f x); [discriminate I | reflexivity].
Qed.

Lemma inbound_announce_only_enrolled has_notifier add r e :
  In e (handle_connect_req has_notifier add r) -> announces e = true ->
  exists A T, r = Enrol A T /\ (e = ERegister A T \/ e = ENotify A T).
Proof.
  destruct r as [a t|c].
  - intros I An. exists a, t. split; [reflexivity|].
    cbn in I. destruct add, has_notifier; cbn in I; intuition (subst; try discriminate An; auto).
  - intros I An. destruct (inbound_refuse_effects has_notifier add c) as (_ & _ & F).
    rewrite (forallb_not_in _ _ _ F I) in An. discriminate An.
Qed.

Lemma outbound_announce_only_enrolled add r e :
  In e (connect add r) -> announces e = true ->
  exists A T, r = Enrol A T /\ (e = ERegister A T \/ e = EReturnPeer A T).
Proof.
  destruct r as [a t|c].
  - intros I An. exists a, t. split; [reflexivity|].
    cbn in I. destruct add; cbn in I; intuition (subst; try discriminate An; auto).
  - intros I An. destruct (outbound_refuse_effects add c) as (_ & _ & F).
    rewrite (forallb_not_in _ _ _ F I) in An. discriminate An.
Qed.

(* a peer is announced as connected only together with, and after, the registration that actually
   added it (no exception any more since addPeer answers "exists" for a closed connection) *)
Lemma inbound_notify_after_register has_notifier add r A T :
  In (ENotify A T) (handle_connect_req has_notifier add r) ->
  r = Enrol A T /\ add = Added /\ has_notifier = true /\
  handle_connect_req has_notifier add r = [ERegister A T; ENotify A T].
Proof.
  destruct r as [a t|c].
  - destruct add, has_notifier; cbn [handle_connect_req In]; intros H;
      repeat (destruct H as [H|H]; try discriminate H; try contradiction H).
    inversion H. subst. repeat split; reflexivity.
  - intros I. destruct (inbound_refuse_effects has_notifier add c) as (_ & _ & F).
    pose proof (forallb_not_in _ _ _ F I) as N. discriminate N.
Qed.

(* the pre-fix wrapper announced a peer that was never registered *)
Lemma handle_connect_req_v0_refuted :
  exists add a t, In (ENotify a t) (handle_connect_req_v0 true add (Enrol a t)) /\
                  ~ In (ERegister a t) (handle_connect_req_v0 true add (Enrol a t)).
Proof.
  exists ClosedAbsent_v0, [1%N], 2. vm_compute. split; [left; reflexivity|].
  intros [H|[]]. discriminate H.
Qed.

(* Connect tells its caller "connected (A, T)" only when the remote is in the peer registry at that
   point: registered by this very call, or found there by getPeer *)
Lemma outbound_tail_refuse_effects add known c :
  let eff := connect_tail add known (Refuse c) in
  In EClosePeer eff /\ In (EReturnErr c) eff /\ forallb (fun e => negb (announces e)) eff = true.
Proof. exact (outbound_refuse_effects add c). Qed.

Lemma outbound_told_implies_known add known r A T :
  In (EReturnPeer A T) (connect_tail add known r) ->
  r = Enrol A T /\ known_after add known = true /\
  (add = Added -> connect_tail add known r = [ERegister A T; EReturnPeer A T]) /\
  (add = NotAdded -> connect_tail add known r = [EReturnPeer A T]).
Proof.
  destruct r as [a t|c].
  - destruct add, known; cbn [connect_tail In known_after]; intros H;
      repeat (destruct H as [H|H]; try discriminate H; try contradiction H);
      inversion H; subst; repeat split; try reflexivity; intros Q; discriminate Q.
  - intros I. destruct (outbound_tail_refuse_effects add known c) as (_ & _ & F).
    pose proof (forallb_not_in _ _ _ F I) as N. discriminate N.
Qed.

Lemma outbound_register_implies add known r A T :
  In (ERegister A T) (connect_tail add known r) ->
  r = Enrol A T /\ add = Added /\ connect_tail add known r = [ERegister A T; EReturnPeer A T].
Proof.
  destruct r as [a t|c].
  - destruct add, known; cbn [connect_tail In]; intros H;
      repeat (destruct H as [H|H]; try discriminate H; try contradiction H);
      inversion H; subst; repeat split; reflexivity.
  - intros I. destruct (outbound_tail_refuse_effects add known c) as (_ & _ & F).
    pose proof (forallb_not_in _ _ _ F I) as N. discriminate N.
Qed.

Lemma outbound_gone add known a t :
  known_after add known = false -> connect_tail add known (Enrol a t) = [EReturnNotFound].
Proof. destruct add, known; cbn; intros H; try discriminate H; reflexivity. Qed.

(* the wrapper before commit ad08637 reported a peer that is not in the registry *)
Lemma connect_tail_v1_refuted :
  exists add known a t, In (EReturnPeer a t) (connect_tail_v1 add known (Enrol a t)) /\
                        known_after add known = false.
Proof. exists NotAdded, false, [1%N], 2. vm_compute. split; [left|]; reflexivity. Qed.

(* ---- the composed statements ------------------------------------------------------------------------------- *)
Theorem responder_sound c o wfail script has_notifier add A T :
  In (ERegister A T) (inbound c o wfail script has_notifier add) \/
  In (ENotify A T) (inbound c o wfail script has_notifier add) ->
  exists role token sig ea er f1 f2 rest,
    script = f1 :: f2 :: rest /\
    as_req f1 = Some (role, token, sig) /\ T = role_of_string role /\
    verify o sig (role ++ token) = VOk true A /\
    addr_of_pid o = POk A /\
    (T = type_provider -> registered o A = true /\ lookups (handle c o wfail script) = [A]) /\
    (T <> type_provider -> lookups (handle c o wfail script) = []) /\
    as_resp f2 = Some (ea, er) /\ ea = own_addr c /\ er = role_string (own_type c) /\
    res (handle c o wfail script) = Enrol A T.
Proof.
  unfold inbound. intros H.
  assert (res (handle c o wfail script) = Enrol A T) as R.
  { destruct H as [H|H]; apply inbound_announce_only_enrolled in H; try reflexivity;
      destruct H as (A' & T' & -> & [E|E]); inversion E; reflexivity. }
  pose proof (handle_lookups_enrolled _ _ _ _ _ _ R) as L.
  pose proof R as R'. apply handle_enrol_iff in R'.
  destruct R' as (role & token & sig & ea & er & f1 & f2 & rest & -> & Q & (V1 & V2 & V3) & -> & W0 & W1 & P & E1 & E2).
  exists role, token, sig, ea, er, f1, f2, rest. repeat split; auto.
  - apply V3. apply role_of_string_provider. assumption.
  - rewrite L. rewrite H0. reflexivity.
  - intros N. rewrite L. apply Z.eqb_neq in N. rewrite N. reflexivity.
Qed.

Theorem initiator_sound c o wfail script add A T :
  In (ERegister A T) (outbound c o wfail script add) \/
  In (EReturnPeer A T) (outbound c o wfail script add) ->
  exists role token sig ea er f1 f2 rest,
    script = f1 :: f2 :: rest /\
    as_resp f1 = Some (ea, er) /\ ea = own_addr c /\ er = role_string (own_type c) /\
    as_req f2 = Some (role, token, sig) /\ T = role_of_string role /\
    verify o sig (role ++ token) = VOk true A /\
    addr_of_pid o = POk A /\
    (T = type_provider -> registered o A = true /\ lookups (handshake c o wfail script) = [A]) /\
    (T <> type_provider -> lookups (handshake c o wfail script) = []) /\
    res (handshake c o wfail script) = Enrol A T.
Proof.
  unfold outbound. intros H.
  assert (res (handshake c o wfail script) = Enrol A T) as R.
  { destruct H as [H|H]; apply outbound_announce_only_enrolled in H; try reflexivity;
      destruct H as (A' & T' & -> & [E|E]); inversion E; reflexivity. }
  pose proof (handshake_lookups_enrolled _ _ _ _ _ _ R) as L.
  pose proof R as R'. apply handshake_enrol_iff in R'.
  destruct R' as (role & token & sig & ea & er & f1 & f2 & rest & -> & W0 & P & (E1 & E2) & Q & (V1 & V2 & V3) & -> & W1).
  exists role, token, sig, ea, er, f1, f2, rest. repeat split; auto.
  - apply V3. apply role_of_string_provider. assumption.
  - rewrite L. rewrite H0. reflexivity.
  - intros N. rewrite L. apply Z.eqb_neq in N. rewrite N. reflexivity.
Qed.

Theorem notify_only_after_register c o wfail script has_notifier add A T :
  In (ENotify A T) (inbound c o wfail script has_notifier add) ->
  inbound c o wfail script has_notifier add = [ERegister A T; ENotify A T] /\
  add = Added /\ resp_ok c o wfail script A T.
Proof.
  unfold inbound. intros H. apply inbound_notify_after_register in H.
  destruct H as (R & Ad & _ & E). repeat split; auto. apply handle_enrol_iff. exact R.
Qed.

Theorem refuse_responder c o wfail script :
  (forall A T, ~ resp_ok c o wfail script A T) ->
  exists cl, res (handle c o wfail script) = Refuse cl /\
    forall has_notifier add,
      let eff := inbound c o wfail script has_notifier add in
      In EClosePeer eff /\ forall e, In e eff -> announces e = false.
Proof.
  intros N. destruct (res (handle c o wfail script)) as [a t|cl] eqn:R.
  - apply handle_enrol_iff in R. destruct (N _ _ R).
  - exists cl. split; [reflexivity|]. intros hn add. unfold inbound. rewrite R.
    destruct (inbound_refuse_effects hn add cl) as (H1 & _ & H3). split; [exact H1|].
    intros e I. exact (forallb_not_in _ _ _ H3 I).
Qed.

Theorem refuse_initiator c o wfail script :
  (forall A T, ~ init_ok c o wfail script A T) ->
  exists cl, res (handshake c o wfail script) = Refuse cl /\
    forall add,
      let eff := outbound c o wfail script add in
      In EClosePeer eff /\ In (EReturnErr cl) eff /\ forall e, In e eff -> announces e = false.
Proof.
  intros N. destruct (res (handshake c o wfail script)) as [a t|cl] eqn:R.
  - apply handshake_enrol_iff in R. destruct (N _ _ R).
  - exists cl. split; [reflexivity|]. intros add. unfold outbound. rewrite R.
    destruct (outbound_refuse_effects add cl) as (H1 & H2 & H3). repeat split; auto.
    intros e I. exact (forallb_not_in _ _ _ H3 I).
Qed.

(* honest transcripts are accepted (the refusal theorems are not vacuous the other way round) *)
Theorem accept_responder c o wfail script A T has_notifier :
  resp_ok c o wfail script A T ->
  inbound c o wfail script has_notifier Added =
  ERegister A T :: (if has_notifier then [ENotify A T] else []).
Proof. intros H. apply handle_enrol_iff in H. unfold inbound. rewrite H. reflexivity. Qed.

Theorem accept_initiator c o wfail script A T :
  init_ok c o wfail script A T ->
  outbound c o wfail script Added = [ERegister A T; EReturnPeer A T].
Proof. intros H. apply handshake_enrol_iff in H. unfold outbound. rewrite H. reflexivity. Qed.

(* the blocks placed on refusal (table shared with C17) *)
Theorem refusal_blocks add has_notifier :
  handle_connect_req has_notifier add (Refuse RSig) = [EResetStream; EClosePeer; EBlock 0] /\
  handle_connect_req has_notifier add (Refuse RAddr) = [EResetStream; EClosePeer; EBlock 0] /\
  handle_connect_req has_notifier add (Refuse RStake) = [EResetStream; EClosePeer; EBlock 120000000000] /\
  connect add (Refuse RSig) = [EClosePeer; EBlock 0; EReturnErr RSig] /\
  connect add (Refuse RAddr) = [EClosePeer; EBlock 0; EReturnErr RAddr] /\
  connect add (Refuse RStake) = [EClosePeer; EBlock 300000000000; EReturnErr RStake] /\
  (forall c, c <> RSig -> c <> RAddr -> c <> RStake ->
     handle_connect_req has_notifier add (Refuse c) = [EResetStream; EClosePeer] /\
     connect add (Refuse c) = [EClosePeer; EReturnErr c]).
Proof.
  repeat split; try reflexivity; destruct c; try reflexivity; contradiction.
Qed.

(* ---- non-vacuity --------------------------------------------------------------------------------------------- *)
Section Examples.
  Let A : bytes := [1; 2; 3]%N.
  Let me : bytes := [9; 9]%N.
  Let sg : bytes := [7]%N.
  Let tok : bytes := bos "tok".
  Let cfg := {| own_type := 2; own_token := tok; own_addr := me; own_sig := [8]%N |}.
  (* a verifier that accepts exactly sg over "provider"++"tok" for A, and sg over "bidderx" *)
  Let orc (stake : bool) := {|
    verify := fun s d => if bytes_eqb s sg && (bytes_eqb d (bos "providertok") || bytes_eqb d (bos "bidderx"))
                         then VOk true A else VErr;
    addr_of_pid := POk A;
    registered := fun a => stake && bytes_eqb a A |}.
  Let req := {| as_req := Some (bos "provider", tok, sg); as_resp := None |}.
  Let ack := {| as_req := None; as_resp := Some (me, bos "bidder") |}.
  Let nofail := fun _ : nat => false.

  Example responder_honest :
    resp_ok cfg (orc true) nofail [req; ack] A 1 /\
    handle cfg (orc true) nofail [req; ack] =
      mk (Enrol A 1) [WResp A (bos "provider"); WReq (bos "bidder") tok [8]%N] [A] [(sg, bos "providertok")] /\
    inbound cfg (orc true) nofail [req; ack] true Added = [ERegister A 1; ENotify A 1].
  Proof.
    split; [|split; reflexivity].
    exists (bos "provider"), tok, sg, me, (bos "bidder"), req, ack, [].
    repeat split; reflexivity.
  Qed.

  Example initiator_honest :
    init_ok cfg (orc true) nofail [ack; req] A 1 /\
    outbound cfg (orc true) nofail [ack; req] Added = [ERegister A 1; EReturnPeer A 1].
  Proof.
    split; [|reflexivity].
    exists (bos "provider"), tok, sg, me, (bos "bidder"), ack, req, [].
    repeat split; reflexivity.
  Qed.

  Example unstaked_provider_refused :
    (forall a t, ~ resp_ok cfg (orc false) nofail [req; ack] a t) /\
    inbound cfg (orc false) nofail [req; ack] true Added = [EResetStream; EClosePeer; EBlock 120000000000].
  Proof.
    split; [|reflexivity]. intros a t H. apply handle_enrol_iff in H. discriminate H.
  Qed.

  (* FINDING (not a violation of C04 as worded): a role string outside the three known ones is
     accepted; the peer is enrolled with p2p.PeerType(-1) and the registry is not consulted *)
  Example unknown_role_enrolled :
    handle cfg (orc false) nofail [{| as_req := Some (bos "bidderx", [], sg); as_resp := None |}; ack] =
      mk (Enrol A (-1)) [WResp A (bos "bidderx"); WReq (bos "bidder") tok [8]%N] [] [(sg, bos "bidderx")].
  Proof. reflexivity. Qed.
End Examples.

(* ---- the property checker of check/Check_C04.v agrees with the theorems -------------------------------------
   On a scripted case whose observation coincides with the model's prediction the checker reports nothing:
   a VIOLATION can only come from an observation the model (hence the theorems) does not allow. *)
From MevVerif Require Import check.Check_C04.

Lemma list_eqb_bytes_eq (a b : list bytes) : list_eqb bytes_eqb a b = true -> a = b.
Proof.
  revert b. induction a as [|x a IH]; destruct b as [|y b]; cbn; intros H; try discriminate H; auto.
  apply andb_true_iff in H. destruct H as [H1 H2]. apply bytes_eqb_eq in H1. subst. f_equal. auto.
Qed.

Lemma vres_eqb_refl v : vres_eqb v v = true.
Proof. destruct v as [|f a]; cbn; [reflexivity|]. rewrite eqb_reflx, bytes_eqb_refl. reflexivity. Qed.

Lemma verify_of_case c s d a :
  verify (oracles_of c) s d = VOk true a -> vlookup (vtab c) s d = Some (VOk true a).
Proof. cbn. destruct (vlookup (vtab c) s d); intros H; [congruence | discriminate H]. Qed.

Lemma enrol_violation_none c a t role token sig ea er :
  claimed c = Some (role, token, sig) -> echoed c = Some (ea, er) ->
  proves (oracles_of c) role token sig a -> t = role_of_string role ->
  echo_is_own (cfg c) ea er ->
  (t = type_provider -> mem a (o_lookups c) = true) ->
  enrol_violation c a t = None.
Proof.
  intros Cl Ec (V1 & V2 & V3) -> [E1 E2] L. unfold enrol_violation. rewrite Cl.
  rewrite (verify_of_case _ _ _ _ V1), vres_eqb_refl, Z.eqb_refl. cbn [andb negb].
  cbn in V2. rewrite V2. cbn [pres_eqb]. rewrite bytes_eqb_refl. cbn [negb].
  destruct (role_of_string role =? type_provider) eqn:P.
  - apply Z.eqb_eq in P. rewrite (L P).
    assert (mem a (staked c) = true) as -> by (apply V3, role_of_string_provider, P).
    cbn [andb negb]. rewrite Ec, E1, E2, !bytes_eqb_refl. reflexivity.
  - cbn [andb]. rewrite Ec, E1, E2, !bytes_eqb_refl. reflexivity.
Qed.

Theorem checker_accepts_model c :
  mode c = 0%N -> o_wrap c = None -> agrees c = true -> violation c = [].
Proof.
  intros M Wn Ag. unfold agrees in Ag. rewrite !andb_true_iff in Ag.
  destruct Ag as ((((((_ & R) & _) & Lk) & _) & _) & _).
  apply list_eqb_bytes_eq in Lk.
  unfold violation. rewrite Wn, app_nil_r.
  unfold res_agrees, pending in R. rewrite M in R. cbn [N.eqb] in R.
  rewrite andb_false_r in R. cbn [andb] in R.
  destruct (res (model_run c)) as [a t|k] eqn:E.
  2: { apply N.eqb_eq in R. rewrite R. destruct k; reflexivity. }
  rewrite !andb_true_iff in R. destruct R as [[R0 Ra] Rt].
  rewrite R0. apply bytes_eqb_eq in Ra. apply Z.eqb_eq in Rt. subst a t.
  unfold model_run in *. unfold claimed, echoed in *.
  assert (enrol_violation c (o_addr c) (o_role c) = None) as ->; [|reflexivity].
  destruct (dir c =? 0)%N eqn:D.
  - pose proof (handle_lookups_enrolled _ _ _ _ _ _ E) as L.
    apply handle_enrol_iff in E.
    destruct E as (role & token & sig & ea & er & f1 & f2 & rest & S & Q & V & T & _ & _ & P & Ec).
    apply (enrol_violation_none c _ _ role token sig ea er); auto.
    + unfold claimed. rewrite D, S. exact Q.
    + unfold echoed. rewrite D, S. exact P.
    + intros Tp. rewrite <- Lk, L, Tp. cbn. rewrite bytes_eqb_refl. reflexivity.
  - pose proof (handshake_lookups_enrolled _ _ _ _ _ _ E) as L.
    apply handshake_enrol_iff in E.
    destruct E as (role & token & sig & ea & er & f1 & f2 & rest & S & _ & P & Ec & Q & V & T & _).
    apply (enrol_violation_none c _ _ role token sig ea er); auto.
    + unfold claimed. rewrite D, S. exact Q.
    + unfold echoed. rewrite D, S. exact P.
    + intros Tp. rewrite <- Lk, L, Tp. cbn. rewrite bytes_eqb_refl. reflexivity.
Qed.

(* and what "no violation" means for an observed enrolment (A, T): the clauses of C04, evaluated
   on the ground truth the driver computed *)
Lemma vres_eqb_eq u v : vres_eqb u v = true -> u = v.
Proof.
  destruct u as [|f a], v as [|g b]; cbn; intros H; try discriminate H; [reflexivity|].
  apply andb_true_iff in H. destruct H as [H1 H2]. apply eqb_prop in H1. apply bytes_eqb_eq in H2.
  subst. reflexivity.
Qed.

Lemma pres_eqb_eq u v : pres_eqb u v = true -> u = v.
Proof.
  destruct u as [|a], v as [|b]; cbn; intros H; try discriminate H; [reflexivity|].
  apply bytes_eqb_eq in H. subst. reflexivity.
Qed.

Theorem checker_sound c A T :
  enrol_violation c A T = None ->
  exists role token sig ea er,
    claimed c = Some (role, token, sig) /\ echoed c = Some (ea, er) /\
    vlookup (vtab c) sig (role ++ token) = Some (VOk true A) /\ T = role_of_string role /\
    pid c = POk A /\
    (T = type_provider -> mem A (staked c) = true /\ mem A (o_lookups c) = true) /\
    ea = own_addr (cfg c) /\ er = role_string (own_type (cfg c)).
Proof.
  unfold enrol_violation.
  destruct (claimed c) as [[[role token] sig]|]; [|intros H; discriminate H].
  destruct (vlookup (vtab c) sig (role ++ token)) as [r|] eqn:V; cbn [negb andb]; [|intros H; discriminate H].
  destruct (vres_eqb r (VOk true A)) eqn:Vr; cbn [negb andb]; [|intros H; discriminate H].
  destruct (T =? role_of_string role) eqn:Tr; cbn [negb]; [|intros H; discriminate H].
  destruct (pres_eqb (pid c) (POk A)) eqn:Pp; cbn [negb]; [|intros H; discriminate H].
  apply vres_eqb_eq in Vr. apply Z.eqb_eq in Tr. apply pres_eqb_eq in Pp. subst r.
  destruct ((T =? type_provider) && negb (mem A (staked c) && mem A (o_lookups c))) eqn:St;
    [intros H; discriminate H|].
  destruct (echoed c) as [[ea er]|]; [|intros H; discriminate H].
  destruct (bytes_eqb ea (own_addr (cfg c)) && bytes_eqb er (role_string (own_type (cfg c)))) eqn:Ec;
    [|intros H; discriminate H].
  intros _. apply andb_true_iff in Ec. destruct Ec as [E1 E2].
  apply bytes_eqb_eq in E1. apply bytes_eqb_eq in E2.
  exists role, token, sig, ea, er. repeat split; auto.
  - apply Z.eqb_eq in H. rewrite H in St. cbn [andb] in St.
    apply negb_false_iff, andb_true_iff in St. apply St.
  - apply Z.eqb_eq in H. rewrite H in St. cbn [andb] in St.
    apply negb_false_iff, andb_true_iff in St. apply St.
Qed.

(* ---- sessions ---------------------------------------------------------------------------------------
   every enrolment of a session rests on the answers given during its own handshake: in particular
   a provider is enrolled only if the registry confirmed it in that very handshake, whatever it
   answered in earlier ones *)
Theorem session_stake_at_that_moment c steps k s A :
  nth_error steps k = Some s ->
  (exists r, nth_error (session c steps) k = Some r /\ res r = Enrol A type_provider) ->
  registered (s_oracles s) A = true /\ addr_of_pid (s_oracles s) = POk A /\
  exists r, nth_error (session c steps) k = Some r /\ lookups r = [A].
Proof.
  intros S (r & Hr & E). unfold session in *. rewrite nth_error_map, S in Hr. cbn in Hr.
  inversion Hr. subst r. clear Hr.
  assert (registered (s_oracles s) A = true /\ addr_of_pid (s_oracles s) = POk A /\
          lookups (run_step c s) = [A]) as (H1 & H2 & H3).
  { unfold run_step in *. destruct (s_dir s).
    - pose proof (handle_lookups_enrolled _ _ _ _ _ _ E) as L. rewrite Z.eqb_refl in L.
      apply handle_enrol_iff in E.
      destruct E as (role & token & sig & ea & er & f1 & f2 & rest & _ & _ & (V1 & V2 & V3) & T & _).
      repeat split; auto. apply V3, role_of_string_provider. symmetry. exact T.
    - pose proof (handshake_lookups_enrolled _ _ _ _ _ _ E) as L. rewrite Z.eqb_refl in L.
      apply handshake_enrol_iff in E.
      destruct E as (role & token & sig & ea & er & f1 & f2 & rest & _ & _ & _ & _ & _ & (V1 & V2 & V3) & T & _).
      repeat split; auto. apply V3, role_of_string_provider. symmetry. exact T. }
  repeat split; auto. exists (run_step c s). rewrite nth_error_map, S. auto.
Qed.

(* ---- one remote over time --------------------------------------------------------------------------------- *)
Lemma node_run_snoc c evs ev : node_run c (evs ++ [ev]) = fst (node_step c (node_run c evs) ev).
Proof. unfold node_run. rewrite fold_left_app. reflexivity. Qed.

Lemma backed_now c evs ev A T : event_proves c ev A T -> backed c (evs ++ [ev]) A T.
Proof. intros H. exists evs, ev, []. repeat split; auto. Qed.

Lemma backed_snoc c evs ev A T : backed c evs A T -> ev <> EvDisconnect -> backed c (evs ++ [ev]) A T.
Proof.
  intros (b & e0 & a & -> & P & N) D. exists b, e0, (a ++ [ev]). repeat split; auto.
  - rewrite <- app_assoc. reflexivity.
  - intros I. apply in_app_or in I. destruct I as [I|[I|[]]]; [auto | symmetry in I; auto].
Qed.

Lemma entry_after_cases entry add r A T :
  entry_after entry add r = Some (A, T) -> (r = Enrol A T /\ add = Added) \/ entry = Some (A, T).
Proof.
  unfold entry_after. destruct r as [a t|c]; [|intros H; discriminate H]. destruct add; auto.
  intros H. inversion H. subst. auto.
Qed.

Lemma eviction_no_announce entry r e : In e (eviction entry r) -> announces e = false.
Proof.
  unfold eviction. destruct r as [a t|k]; [intros []|]. destruct entry as [[a t]|]; [|intros []].
  intros [<-|[]]. reflexivity.
Qed.

(* invariant: a registry entry (A, T) is backed by an admissible handshake of the current connection period *)
Theorem node_entry_backed c evs A T : node_run c evs = Some (A, T) -> backed c evs A T.
Proof.
  revert A T. induction evs as [|ev evs IH] using rev_ind; intros A T H; [discriminate H|].
  rewrite node_run_snoc in H. destruct ev as [o wf sc hn cl|o wf sc cl|]; cbn [node_step fst] in H.
  - apply entry_after_cases in H. destruct H as [[R _]|E].
    + apply backed_now. cbn. apply handle_enrol_iff. exact R.
    + apply backed_snoc; [apply IH; exact E | discriminate].
  - destruct (node_run c evs) as [[a t]|] eqn:S; cbn [fst] in H.
    + apply backed_snoc; [apply IH; exact H | discriminate].
    + apply entry_after_cases in H. destruct H as [[R _]|E]; [|discriminate E].
      apply backed_now. cbn. apply handshake_enrol_iff. exact R.
  - discriminate H.
Qed.

(* every announcement in every history: Register and Notify only by an event whose own handshake is
   admissible with the oracle answers of that event; a peer is returned by Connect either for the same
   reason or by the short cut, and then it is the registered record, backed by an earlier admissible
   handshake since which the remote was not disconnected *)
Theorem node_announcements c evs ev e A T :
  In e (snd (node_step c (node_run c evs) ev)) ->
  (e = ERegister A T \/ e = ENotify A T -> event_proves c ev A T /\ node_run c evs = None) /\
  (e = EReturnPeer A T ->
     (event_proves c ev A T /\ node_run c evs = None /\ node_run c (evs ++ [ev]) = Some (A, T)) \/
     (exists o wf sc cl, ev = EvConnect o wf sc cl /\ node_run c evs = Some (A, T) /\ backed c evs A T /\
                         snd (node_step c (node_run c evs) ev) = [EReturnPeer A T])).
Proof.
  intros I. rewrite node_run_snoc.
  destruct ev as [o wf sc hn cl|o wf sc cl|]; cbn [node_step snd fst] in *.
  - assert (announces e = true ->
            In e (handle_connect_req hn (fst (add_outcome (node_run c evs) cl)) (res (handle c o wf sc)))) as I0.
    { intros An. apply in_app_or in I. destruct I as [I|I]; [exact I|].
      rewrite (eviction_no_announce _ _ _ I) in An. discriminate An. }
    clear I. split.
    + intros Q.
      assert (announces e = true) as An by (destruct Q as [-> | ->]; reflexivity).
      pose proof (I0 An) as I.
      destruct (inbound_announce_only_enrolled _ _ _ _ I An) as (a & t & R & Ee).
      assert (a = A /\ t = T) as [-> ->] by (destruct Q as [-> | ->]; destruct Ee as [Ee|Ee]; inversion Ee; auto).
      rewrite R in I. unfold add_outcome in I.
      destruct (node_run c evs) as [[a0 t0]|]; cbn in I.
      * destruct I as [I|[]]. subst e. destruct Q as [Q|Q]; discriminate Q.
      * split; [|reflexivity]. cbn. apply handle_enrol_iff. exact R.
    + intros ->. exfalso. pose proof (I0 eq_refl) as I.
      destruct (inbound_announce_only_enrolled _ _ _ _ I eq_refl) as (a & t & _ & [Ee|Ee]); discriminate Ee.
  - destruct (node_run c evs) as [[a0 t0]|] eqn:S; cbn [snd fst] in *.
    + destruct I as [I|[]]. subst e. split.
      * intros [Q|Q]; discriminate Q.
      * intros Q. inversion Q. subst. right. exists o, wf, sc, cl. repeat split; auto.
        apply node_entry_backed. exact S.
    + split.
      * intros [Q|Q]; subst e.
        -- apply outbound_register_implies in I. destruct I as (R & _ & _).
           split; [|reflexivity]. cbn. apply handshake_enrol_iff. exact R.
        -- exfalso. unfold add_outcome in I.
           destruct (res (handshake c o wf sc)) as [a t|k] eqn:R.
           ++ destruct cl; cbn in I; intuition discriminate.
           ++ destruct (outbound_tail_refuse_effects (fst (if cl then (NotAdded, false) else (Added, true)))
                          (snd (if cl then (NotAdded, false) else (Added, true))) k) as (_ & _ & F).
              pose proof (forallb_not_in _ _ _ F I) as N. discriminate N.
      * intros ->. left. pose proof I as I'. apply outbound_told_implies_known in I'.
        destruct I' as (R & K & _ & _).
        unfold add_outcome in *. destruct cl; cbn [fst snd known_after] in *; [discriminate K|].
        repeat split; [cbn; apply handshake_enrol_iff; exact R|]. rewrite R. reflexivity.
  - destruct I.
Qed.

(* A refused inbound handshake evicts the remote: whatever entry an earlier handshake (on this or on
   another transport connection) had created is gone afterwards, all connections of the peer are closed,
   the notifier is told Disconnected for the dropped entry, and nothing is announced. *)
Theorem refusal_evicts c evs o wf sc hn cl :
  (forall A T, ~ resp_ok c o wf sc A T) ->
  let ev := EvInbound o wf sc hn cl in
  let eff := snd (node_step c (node_run c evs) ev) in
  node_run c (evs ++ [ev]) = None /\
  In EClosePeer eff /\
  (forall a t, node_run c evs = Some (a, t) -> In (ENotifyGone a t) eff) /\
  (forall e, In e eff -> announces e = false).
Proof.
  intros N ev eff. subst ev eff. rewrite node_run_snoc. cbn [node_step fst snd].
  destruct (refuse_responder c o wf sc N) as (k & R & _). rewrite R.
  repeat split.
  - apply in_or_app. left. right. left. reflexivity.
  - intros a t S. rewrite S. apply in_or_app. right. left. reflexivity.
  - intros e I. apply in_app_or in I. destruct I as [I|I].
    + destruct (inbound_refuse_effects hn (fst (add_outcome (node_run c evs) cl)) k) as (_ & _ & F).
      exact (forallb_not_in _ _ _ F I).
    + exact (eviction_no_announce _ _ _ I).
Qed.

(* the same for Connect when it does run a handshake (no entry before): nothing is registered afterwards *)
Theorem refusal_outbound_leaves_nothing c evs o wf sc cl :
  node_run c evs = None -> (forall A T, ~ init_ok c o wf sc A T) ->
  let ev := EvConnect o wf sc cl in
  node_run c (evs ++ [ev]) = None /\ In EClosePeer (snd (node_step c (node_run c evs) ev)).
Proof.
  intros S N ev. subst ev. rewrite node_run_snoc, S. cbn [node_step fst snd].
  destruct (refuse_initiator c o wf sc N) as (k & R & _). rewrite R. split; [reflexivity|].
  left. reflexivity.
Qed.

(* ---- a remote that stalls ---------------------------------------------------------------------------------- *)
(* Responder blocked in a read after the whole script: no (A, T) is admissible for what has arrived (so
   nothing is registered or announced: C04_responder); the model's end-of-script result IS the cancelled
   read; and when the context ends the read, whatever arrives afterwards, the handshake is refused as a
   failed read: stream reset, all connections of the peer closed, no block, nothing announced. *)
Theorem stalled_responder c o wfail script :
  handle_waits c o wfail script = true ->
  (forall A T, ~ resp_ok c o wfail script A T) /\
  (forall more, handle c o wfail (script ++ eof :: more) = handle c o wfail script) /\
  res (handle c o wfail script) = Refuse RRead /\
  (forall more has_notifier add,
     inbound c o wfail (script ++ eof :: more) has_notifier add = [EResetStream; EClosePeer]).
Proof.
  intros W.
  assert ((forall more, handle c o wfail (script ++ eof :: more) = handle c o wfail script) /\
          res (handle c o wfail script) = Refuse RRead /\
          (script = [] \/ exists f1, script = [f1])) as (E & R & S).
  { unfold handle_waits in W. destruct script as [|f1 rest].
    - repeat split; auto.
    - unfold handle. cbn [app].
      destruct (as_req f1) as [[[role token] sig]|]; [|discriminate W].
      destruct (verify_req o role token sig) as [[a|r] lk]; [|discriminate W].
      destruct (wfail 0%nat); [discriminate W|]. destruct (wfail 1%nat); [discriminate W|].
      destruct rest as [|f2 rest]; [|discriminate W].
      repeat split; auto. right. exists f1. reflexivity. }
  repeat split; auto.
  - intros A T (role & token & sig & ea & er & f1 & f2 & rest & S' & _).
    destruct S as [-> | [f ->]]; discriminate S'.
  - intros more hn add. unfold inbound. rewrite E, R.
    destruct (refusal_blocks add hn) as (_ & _ & _ & _ & _ & _ & H).
    apply (H RRead); discriminate.
Qed.

Theorem stalled_initiator c o wfail script :
  handshake_waits c o wfail script = true ->
  (forall A T, ~ init_ok c o wfail script A T) /\
  (forall more, handshake c o wfail (script ++ eof :: more) = handshake c o wfail script) /\
  res (handshake c o wfail script) = Refuse RRead /\
  (forall more add,
     outbound c o wfail (script ++ eof :: more) add = [EClosePeer; EReturnErr RRead]).
Proof.
  intros W.
  assert ((forall more, handshake c o wfail (script ++ eof :: more) = handshake c o wfail script) /\
          res (handshake c o wfail script) = Refuse RRead /\
          (script = [] \/ exists f1, script = [f1])) as (E & R & S).
  { unfold handshake_waits in W. unfold handshake.
    destruct (wfail 0%nat); [discriminate W|].
    destruct script as [|f1 rest].
    - repeat split; auto.
    - cbn [app]. destruct (as_resp f1) as [[ea er]|]; [|discriminate W].
      destruct (echo_ok c ea er); cbn [negb] in *; [|discriminate W].
      destruct rest as [|f2 rest]; [|discriminate W].
      repeat split; auto. right. exists f1. reflexivity. }
  repeat split; auto.
  - intros A T (role & token & sig & ea & er & f1 & f2 & rest & S' & _).
    destruct S as [-> | [f ->]]; discriminate S'.
  - intros more add. unfold outbound. rewrite E, R.
    destruct (refusal_blocks add true) as (_ & _ & _ & _ & _ & _ & H).
    apply (H RRead); discriminate.
Qed.

(* a run that does not wait has consumed everything it will ever read: later frames change nothing *)
Theorem finished_responder_ignores_later_frames c o wfail script more :
  handle_waits c o wfail script = false -> handle c o wfail (script ++ more) = handle c o wfail script.
Proof.
  unfold handle_waits, handle. destruct script as [|f1 rest]; [intros H; discriminate H|]. cbn [app].
  destruct (as_req f1) as [[[role token] sig]|]; [|reflexivity].
  destruct (verify_req o role token sig) as [[a|r] lk]; [|reflexivity].
  destruct (wfail 0%nat); [reflexivity|]. destruct (wfail 1%nat); [reflexivity|].
  destruct rest as [|f2 rest]; [intros H; discriminate H|]. reflexivity.
Qed.

(* the stake gate is decided by the exact string "provider": enrolment as provider, and a registry
   lookup, happen for that spelling only; every other verified role string is enrolled without lookup,
   the three known spellings with their type, anything else with type -1 *)
Theorem provider_exactly c o wfail script A T role token sig f1 rest :
  script = f1 :: rest -> as_req f1 = Some (role, token, sig) ->
  res (handle c o wfail script) = Enrol A T ->
  (T = type_provider <-> role = provider_string) /\
  (lookups (handle c o wfail script) <> [] <-> role = provider_string) /\
  (T = -1 <-> ~ In role valid_roles).
Proof.
  intros -> Q R. pose proof (handle_lookups_enrolled _ _ _ _ _ _ R) as L.
  pose proof R as R'. apply handle_enrol_iff in R'.
  destruct R' as (role' & token' & sig' & ea & er & f1' & f2 & rest' & S & Q' & _ & -> & _).
  inversion S. subst f1' rest. rewrite Q in Q'. inversion Q'. subst role' token' sig'.
  repeat split.
  - apply role_of_string_provider.
  - apply role_of_string_provider.
  - intros N. rewrite L in N. destruct (role_of_string role =? type_provider) eqn:E.
    + apply Z.eqb_eq, role_of_string_provider in E. exact E.
    + contradiction N. reflexivity.
  - intros P. rewrite L. apply role_of_string_provider in P. rewrite P. discriminate.
  - intros E V. apply role_of_string_valid in V. contradiction.
  - intros NV. destruct (Z.eq_dec (role_of_string role) (-1)) as [E|E]; [exact E|].
    apply role_of_string_valid in E. contradiction.
Qed.

(* ---- the checker on end-to-end cases: silent on the model there too ----------------------------------------------
   (fresh remote: no prior entry; not a stalled case) *)
Lemma note_eqb_eq x y : note_eqb x y = true -> x = y.
Proof.
  destruct x as [a t], y as [b u]. unfold note_eqb. cbn. rewrite andb_true_iff.
  intros [H1 H2]. apply bytes_eqb_eq in H1. apply Z.eqb_eq in H2. subst. reflexivity.
Qed.
Lemma list_note_eqb_eq a b : list_eqb note_eqb a b = true -> a = b.
Proof.
  revert b. induction a as [|x a IH]; destruct b as [|y b]; cbn; intros H; try discriminate H; auto.
  apply andb_true_iff in H. destruct H as [H1 H2]. apply note_eqb_eq in H1. subst. f_equal. auto.
Qed.

(* the enrolment the model predicts passes the checker's clauses *)
Lemma model_enrolment_passes c a t :
  res (model_run c) = Enrol a t -> lookups (model_run c) = o_lookups c -> enrol_violation c a t = None.
Proof.
  intros E Lk. unfold model_run in *.
  destruct (dir c =? 0)%N eqn:D.
  - pose proof (handle_lookups_enrolled _ _ _ _ _ _ E) as L.
    apply handle_enrol_iff in E.
    destruct E as (role & token & sig & ea & er & f1 & f2 & rest & S & Q & V & T & _ & _ & P & Ec).
    apply (enrol_violation_none c _ _ role token sig ea er); auto.
    + unfold claimed. rewrite D, S. exact Q.
    + unfold echoed. rewrite D, S. exact P.
    + intros Tp. rewrite <- Lk, L, Tp. cbn. rewrite bytes_eqb_refl. reflexivity.
  - pose proof (handshake_lookups_enrolled _ _ _ _ _ _ E) as L.
    apply handshake_enrol_iff in E.
    destruct E as (role & token & sig & ea & er & f1 & f2 & rest & S & _ & P & Ec & Q & V & T & _).
    apply (enrol_violation_none c _ _ role token sig ea er); auto.
    + unfold claimed. rewrite D, S. exact Q.
    + unfold echoed. rewrite D, S. exact P.
    + intros Tp. rewrite <- Lk, L, Tp. cbn. rewrite bytes_eqb_refl. reflexivity.
Qed.

Lemma node_step_fresh c :
  prior c = None ->
  node_step (cfg c) (prior c) (event_of c) =
  match res (model_run c) with
  | Enrol a t => (Some (a, t), if (dir c =? 0)%N then [ERegister a t; ENotify a t] else [ERegister a t; EReturnPeer a t])
  | Refuse k => (None, if (dir c =? 0)%N then handle_connect_req true Added (Refuse k) else connect_tail Added true (Refuse k))
  end.
Proof.
  intros P. rewrite P. unfold event_of, model_run. destruct (dir c =? 0)%N; cbn [node_step add_outcome fst snd].
  - destruct (res (handle (cfg c) (oracles_of c) (wfail_of c) (script c))) as [a t|k]; cbn; [reflexivity|].
    rewrite app_nil_r. reflexivity.
  - destruct (res (handshake (cfg c) (oracles_of c) (wfail_of c) (script c))) as [a t|k]; reflexivity.
Qed.

Theorem checker_accepts_model_e2e c w :
  mode c <> 0%N -> o_wrap c = Some w -> prior c = None -> stall c = false ->
  agrees c = true -> violation c = [].
Proof.
  intros M Wn Pr St Ag. unfold agrees in Ag. rewrite !andb_true_iff in Ag.
  destruct Ag as ((((((_ & R) & _) & Lk) & _) & W) & _).
  apply list_eqb_bytes_eq in Lk.
  assert (pending c = false) as Pe by (unfold pending; rewrite St; reflexivity).
  unfold res_agrees in R. unfold wrap_agrees in W. rewrite Wn, Pe in W. rewrite Pe in R.
  rewrite !andb_true_iff in W.
  destruct W as ((((((Wr & Wg) & Wn') & _) & Wc) & Wrec) & W2).
  apply list_note_eqb_eq in Wn'.
  unfold violation. rewrite Wn.
  unfold entry_of, model_effects, follow_up, entry_of in *. rewrite (node_step_fresh c Pr) in *.
  destruct (res (model_run c)) as [a t|k] eqn:E.
  - rewrite !andb_true_iff in R. destruct R as [[R0 Ra] Rt].
    apply bytes_eqb_eq in Ra. apply Z.eqb_eq in Rt. subst.
    rewrite R0. rewrite (model_enrolment_passes c _ _ E Lk). cbn [app fst snd] in *.
    cbn [node_step snd] in Wrec.
    assert (w_record w = Some (o_addr c, o_role c)) as ->.
    { cbn in Wrec. destruct (w_record w) as [n|]; [|discriminate Wrec]. apply note_eqb_eq in Wrec. subst. reflexivity. }
    cbn [fst snd]. rewrite (model_enrolment_passes c _ _ E Lk).
    rewrite Wn'. destruct (dir c =? 0)%N; cbn; rewrite ?(model_enrolment_passes c _ _ E Lk); reflexivity.
  - cbn [fst snd] in *.
    assert (w_record w = None) as -> by (cbn in Wrec; destruct (w_record w); [discriminate Wrec | reflexivity]).
    assert (w_registered w = false) as -> by (destruct (w_registered w); [discriminate Wr | reflexivity]).
    assert (w_notified w = []) as ->.
    { rewrite Wn'. destruct (dir c =? 0)%N; cbn; [|rewrite flat_map_app].
      - unfold block_effects. destruct c04_inbound_durations as [|? [|? [|? [|? ?]]]]; destruct k; reflexivity.
      - unfold block_effects. destruct c04_outbound_durations as [|? [|? [|? [|? ?]]]]; destruct k; reflexivity. }
    assert (w_closed w = true) as ->.
    { apply eqb_prop in Wc. rewrite Wc. destruct (dir c =? 0)%N; reflexivity. }
    assert ((o_res c =? 0)%N = false /\ (o_res c =? 12)%N = false) as [-> ->].
    { destruct (mode c =? 0)%N eqn:M0; [apply N.eqb_eq in M0; contradiction|].
      destruct (mode c =? 1)%N; [apply N.eqb_eq in R; rewrite R; split; reflexivity|].
      destruct k; apply N.eqb_eq in R; rewrite R; split; reflexivity. }
    reflexivity.
Qed.

(* ---- PeerType.String / FromString of the model are the translation of the Go source -----------------
   [c04_role_string_fn] and [c04_role_of_string_fn] (gen/Generated.v) are produced on every run by the
   translator of harness/extract from the bodies of PeerType.String and p2p.FromString (switch on the
   value, constants PeerTypeBootnode.. evaluated with iota). *)
Lemma role_string_translation t : c04_role_string_fn t = role_string t.
Proof. reflexivity. Qed.
Lemma role_of_string_translation s : c04_role_of_string_fn s = role_of_string s.
Proof. reflexivity. Qed.
Lemma type_provider_translation : c04_role_of_string_fn (c04_role_string_fn type_provider) = type_provider.
Proof. reflexivity. Qed.
Example example_role_translation :
  c04_role_string_fn 1 = bos "provider" /\ c04_role_string_fn 7 = bos "unknown" /\
  c04_role_of_string_fn (bos "bidder") = 2 /\ c04_role_of_string_fn (bos "Bidder") = -1.
Proof. vm_compute. repeat split; reflexivity. Qed.
