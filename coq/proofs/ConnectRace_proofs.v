(* Proofs about model/ConnectRace.v (property C20): an inductive invariant of the interleaving
   semantics of the current code, the usability theorem for every schedule, progress, the
   refutation of the pre-fix wrapper and the boundary case of a responder that refuses. *)
From Coq Require Import List NArith Bool Arith Lia.
From Coq Require String.
Import String.StringSyntax.
From MevVerif Require Import lib.Bytes proofs.Bytes_proofs gen.Generated model.ConnectRace check.Check_C20.
Import ListNotations.
Open Scope N_scope.

(* ---- the tie to the source: the code carries the repair -------------------------------- *)
Lemma c20_begin_in_handle_fact : c20_begin_in_handle = true. Proof. reflexivity. Qed.
Lemma c20_wait_in_wrapper_fact : c20_wait_in_wrapper = true. Proof. reflexivity. Qed.
Lemma c20_register_in_handle_fact : c20_register_in_handle = true. Proof. reflexivity. Qed.
Lemma c20_begin_invoked_in_handle_fact : c20_begin_invoked_in_handle = true. Proof. reflexivity. Qed.
Lemma c20_wrapper_two_lookups_fact : length c20_wrapper_getpeer_args = 2%nat. Proof. reflexivity. Qed.
Lemma handle_defers_begin_fact : handle_defers_begin = true. Proof. vm_compute. reflexivity. Qed.
Lemma connect_defers_begin_fact : connect_defers_begin = true. Proof. vm_compute. reflexivity. Qed.
Lemma deployed_current : deployed = Current.
Proof.
  unfold deployed.
  rewrite c20_begin_in_handle_fact, c20_begin_invoked_in_handle_fact, c20_wait_in_wrapper_fact,
    c20_register_in_handle_fact, c20_wrapper_two_lookups_fact, handle_defers_begin_fact. reflexivity.
Qed.

(* ---- small facts ------------------------------------------------------------------------ *)
Lemma nth_app_mono {A : Type} (l : list A) (a : A) k f :
  nth_error l k = Some f -> nth_error (l ++ [a]) k = Some f.
Proof.
  intros H. rewrite nth_error_app1; auto. apply nth_error_Some. congruence.
Qed.

Lemma verify_req_self n id :
  verify_req n (req_of n) = Some id ->
  id = proven_ident n /\ sig_addr n = Some (pid_addr n) /\
  (ptype n = t_provider -> staked n = true).
Proof.
  unfold verify_req, req_of, proven_ident. destruct (sig_addr n) as [a|]; [|discriminate].
  destruct (N.eqb_spec a (pid_addr n)) as [->|]; [|discriminate].
  destruct (N.eqb_spec (ptype n) t_provider) as [E|E].
  - destruct (staked n); [|discriminate]. intros [= <-]. auto.
  - intros [= <-]. repeat split; auto; intros; contradiction.
Qed.

Lemma verify_resp_echo n :
  self_consistent n -> verify_resp n (resp_of (proven_ident n)) = true.
Proof.
  unfold self_consistent, verify_resp, resp_of, proven_ident. cbn. intros ->.
  rewrite !N.eqb_refl. reflexivity.
Qed.

Lemma upd_length {A : Type} (f : A -> A) l : forall k, length (upd k f l) = length l.
Proof. induction l as [|a l IH]; intros [|k]; cbn; auto. Qed.

Lemma upd_Forall {A : Type} (P : A -> Prop) (f : A -> A) l :
  (forall a, P a -> P (f a)) -> forall k, Forall P l -> Forall P (upd k f l).
Proof.
  intros Hf. induction l as [|a l IH]; intros [|k] H; cbn; auto; inversion H; subst; constructor; auto.
Qed.

Lemma upd_nth_same {A : Type} (f : A -> A) l : forall k a,
  nth_error l k = Some a -> nth_error (upd k f l) k = Some (f a).
Proof.
  induction l as [|b l IH]; intros [|k] a; cbn; try discriminate.
  - intros [= ->]. reflexivity.
  - apply IH.
Qed.

Lemma upd_nth_other {A : Type} (f : A -> A) l : forall k j,
  j <> k -> nth_error (upd k f l) j = nth_error l j.
Proof.
  induction l as [|b l IH]; intros [|k] [|j] Hn; cbn; auto; try congruence.
Qed.

(* ---- the invariant ---------------------------------------------------------------------- *)
Definition reqI (c : cfg) : frame := req_of (ini c).
Definition reqR (c : cfg) : frame := req_of (rsp c).
(* the responder's (resp. initiator's) verification of the other side's request succeeded
   with this identity *)
Definition vI (c : cfg) (id : ident) : Prop := verify_req (ini c) (reqI c) = Some id.
Definition vR (c : cfg) (id : ident) : Prop := verify_req (rsp c) (reqR c) = Some id.

(* why a responder may be refusing: the initiator gave up, or the initiator's request did
   not verify (nothing was ever answered), or the echo of the final message is wrong *)
Definition reason (c : cfg) (w : world) : Prop :=
  ipc w = IFailed \/ r2i w = [] \/
  (exists f, nth_error (i2r w) 1 = Some f /\ verify_resp (rsp c) f = false).

Definition inv_i (c : cfg) (w : world) : Prop :=
  match ipc w with
  | IWriteReq => i2r w = [] /\ i_rd w = 0%nat
  | IReadResp => i2r w = [reqI c] /\ i_rd w = 0%nat
  | IVerifyResp f => i2r w = [reqI c] /\ i_rd w = 1%nat /\ nth_error (r2i w) 0 = Some f
  | IReadReq => i2r w = [reqI c] /\ i_rd w = 1%nat
  | IVerifyReq f => i2r w = [reqI c] /\ i_rd w = 2%nat /\ nth_error (r2i w) 1 = Some f
  | IWriteFinal id =>
      i2r w = [reqI c] /\ i_rd w = 2%nat /\ vR c id /\ nth_error (r2i w) 1 = Some (reqR c)
  | IReturn id | IOpen id =>
      i2r w = [reqI c; resp_of id] /\ i_rd w = 2%nat /\ vR c id /\
      nth_error (r2i w) 1 = Some (reqR c)
  | IFailed => i2r w = [reqI c]
  end
  /\ (i_closed w = true <-> ipc w = IFailed)
  /\ (match ipc w with IOpen id => returned w = Some id | _ => returned w = None end)
  /\ (wr w <> [] -> exists id, ipc w = IOpen id).

(* the responder accepted the echo in the final message *)
Definition passed (c : cfg) (w : world) : Prop :=
  exists f, nth_error (i2r w) 1 = Some f /\ verify_resp (rsp c) f = true.
Definition ok_end (c : cfg) (w : world) : Prop :=
  exists id, registered w = Some id /\ vI c id /\ r_closed w = false /\
             r2i w = [resp_of id; reqR c] /\ passed c w.
Definition bad_end (c : cfg) (w : world) : Prop :=
  registered w = None /\ r_closed w = true /\ reason c w.

Definition quiet (w : world) (n : nat) : Prop :=
  inflight w = n /\ registered w = None /\ r_closed w = false.

Definition inv_r (c : cfg) (w : world) : Prop :=
  match rpc w with
  | RBegin => r2i w = [] /\ r_rd w = 0%nat /\ quiet w 0
  | RReadReq => r2i w = [] /\ r_rd w = 0%nat /\ quiet w 1
  | RVerifyReq f => r2i w = [] /\ r_rd w = 1%nat /\ quiet w 1 /\ f = reqI c
  | RWriteResp id => r2i w = [] /\ r_rd w = 1%nat /\ quiet w 1 /\ vI c id
  | RWriteReq id => r2i w = [resp_of id] /\ r_rd w = 1%nat /\ quiet w 1 /\ vI c id
  | RReadFinal id => r2i w = [resp_of id; reqR c] /\ r_rd w = 1%nat /\ quiet w 1 /\ vI c id
  | RVerifyFinal id f =>
      r2i w = [resp_of id; reqR c] /\ r_rd w = 2%nat /\ quiet w 1 /\ vI c id /\
      nth_error (i2r w) 1 = Some f
  | RRegister id =>
      r2i w = [resp_of id; reqR c] /\ r_rd w = 2%nat /\ quiet w 1 /\ vI c id /\ passed c w
  | RRefuse => quiet w 1 /\ reason c w
  | REnd => inflight w = 1%nat /\ (ok_end c w \/ bad_end c w)
  | RDone => inflight w = 0%nat /\ (ok_end c w \/ bad_end c w)
  end
  /\ (forall f, nth_error (r2i w) 1 = Some f -> f = reqR c).

Definition inv_w1 (w : world) (s : wstate) : Prop :=
  match s with
  | WNew | WWait => True
  | WLook2 => rpc w = RDone
  | WHandled id => registered w = Some id
  | WUnknown => registered w = None /\ rpc w = RDone
  | WTorn => r_closed w = true
  end.
Definition inv_w (w : world) : Prop := Forall (inv_w1 w) (wr w).

Definition Inv (c : cfg) (w : world) : Prop := inv_i c w /\ inv_r c w /\ inv_w w.

Lemma inv_init c : Inv c init.
Proof.
  unfold Inv, inv_i, inv_r, inv_w, quiet; cbn. repeat split; auto; try discriminate.
  all: intros; try contradiction; try discriminate.
Qed.


Ltac dest :=
  repeat match goal with
         | H : _ /\ _ |- _ => destruct H
         | H : exists _, _ |- _ => destruct H
         end.

Ltac simp :=
  cbn [ipc rpc i2r r_rd r2i i_rd i_closed r_closed inflight registered returned wr ga_calls
       set_ipc set_rpc send_i2r send_r2i adv_i_rd adv_r_rd set_i_closed set_r_closed
       set_inflight set_registered set_returned set_wr count_ga fail_i] in *.

(* the head of the initiator's log is always its request *)
Lemma i2r_head c w f : inv_i c w -> nth_error (i2r w) 0 = Some f -> f = reqI c.
Proof.
  unfold inv_i. intros (H & _) Hn.
  destruct (ipc w); dest;
    match goal with H : i2r w = _ |- _ => rewrite H in Hn end; cbn in Hn; congruence.
Qed.

(* ---- frame lemmas: what each part of the invariant depends on ------------------------------ *)
Lemma inv_i_frame c w w' :
  ipc w' = ipc w -> i2r w' = i2r w -> i_rd w' = i_rd w -> i_closed w' = i_closed w ->
  returned w' = returned w -> (wr w' <> [] -> wr w <> []) ->
  (forall k f, nth_error (r2i w) k = Some f -> nth_error (r2i w') k = Some f) ->
  inv_i c w -> inv_i c w'.
Proof.
  unfold inv_i. intros E1 E2 E3 E4 E5 E6 M (H1 & H2 & H3 & H4).
  rewrite E1, E2, E3, E4, E5. repeat split; auto.
  - destruct (ipc w); dest; repeat split; auto.
  - apply H2.
  - apply H2.
Qed.

Lemma inv_r_frame c w w' :
  rpc w' = rpc w -> r2i w' = r2i w -> r_rd w' = r_rd w -> inflight w' = inflight w ->
  registered w' = registered w -> r_closed w' = r_closed w ->
  (ipc w = IFailed -> ipc w' = IFailed) ->
  (forall f, nth_error (i2r w) 1 = Some f -> nth_error (i2r w') 1 = Some f) ->
  inv_r c w -> inv_r c w'.
Proof.
  unfold inv_r. intros E1 E2 E3 E4 E5 E6 F M (H1 & H2).
  assert (R : reason c w -> reason c w').
  { unfold reason. rewrite E2. intros [H|[H|(f & Ha & Hb)]]; auto. right; right; eauto. }
  assert (P : passed c w -> passed c w').
  { unfold passed. intros (f & Ha & Hb); eauto. }
  rewrite E1, E2. split; auto.
  destruct (rpc w); unfold quiet, ok_end, bad_end in *; rewrite ?E2, ?E3, ?E4, ?E5, ?E6;
    dest; repeat split; auto.
  - destruct H0 as [H0|H0]; [left|right]; dest; eauto 8.
  - destruct H0 as [H0|H0]; [left|right]; dest; eauto 8.
Qed.

Lemma inv_w_transport w w' :
  wr w' = wr w -> rpc w' = rpc w -> registered w' = registered w -> r_closed w' = r_closed w ->
  inv_w w -> inv_w w'.
Proof.
  unfold inv_w. intros E1 E2 E3 E4 H. rewrite E1.
  eapply Forall_impl; [|exact H]. intros s; destruct s; cbn; congruence.
Qed.

(* ---- preservation of the initiator's part by initiator steps ------------------------------- *)
Ltac side :=
  repeat split; auto; try congruence;
  try (intros Hx; match goal with Hc : i_closed _ = true <-> _ |- _ => apply Hc in Hx; congruence end);
  try (intros Hx; discriminate);
  try (intros Hx; match goal with Hw : wr _ <> [] -> _ |- _ => destruct (Hw Hx) as (? & Hy); congruence end).

Lemma step_i_inv_i c w :
  inv_i c w -> (forall f, nth_error (r2i w) 1 = Some f -> f = reqR c) -> inv_i c (step_i c w).
Proof.
  intros H G1. unfold step_i.
  destruct (ipc w) eqn:Ep; unfold inv_i in H; rewrite Ep in H; dest.
  - unfold inv_i; simp. rewrite H. side.
  - destruct (nth_error (r2i w) (i_rd w)) eqn:En.
    + unfold inv_i; simp. rewrite H3 in En. side.
    + destruct (r_closed w); [|unfold inv_i; rewrite Ep; side].
      unfold inv_i; simp. side.
  - destruct (verify_resp (ini c) f).
    + unfold inv_i; simp. side.
    + unfold inv_i; simp. side.
  - destruct (nth_error (r2i w) (i_rd w)) eqn:En.
    + unfold inv_i; simp. rewrite H3 in En. side.
    + destruct (r_closed w); [|unfold inv_i; rewrite Ep; side].
      unfold inv_i; simp. side.
  - destruct (verify_req (rsp c) f) eqn:Ev.
    + unfold inv_i; simp. pose proof (G1 _ H4). subst f. side.
    + unfold inv_i; simp. side.
  - unfold inv_i; simp. rewrite H. side.
  - unfold inv_i; simp. side.
  - unfold inv_i; simp. rewrite Ep. side. eauto.
  - unfold inv_i; rewrite Ep. side.
Qed.

(* ---- preservation of the responder's part by responder steps ------------------------------- *)
Lemma step_r_inv_r c w : inv_i c w -> inv_r c w -> inv_r c (step_r Current c w).
Proof.
  intros Hi (H & G1). unfold step_r.
  assert (Hcl : i_closed w = true -> ipc w = IFailed) by (apply Hi).
  destruct (rpc w) eqn:Ep; unfold quiet in H; dest.
  - unfold inv_r, quiet; simp. side.
  - destruct (nth_error (i2r w) (r_rd w)) eqn:En.
    + rewrite H0 in En. apply (i2r_head c) in En; auto. subst f.
      unfold inv_r, quiet; simp. side.
    + destruct (i_closed w) eqn:Ec.
      * unfold inv_r, quiet, reason; simp. side.
      * unfold inv_r, quiet; rewrite Ep. side.
  - subst f. destruct (verify_req (ini c) (reqI c)) eqn:Ev.
    + unfold inv_r, quiet, vI; simp. side.
    + unfold inv_r, quiet, reason; simp. side.
  - unfold inv_r, quiet; simp. rewrite H. cbn. side.
  - unfold inv_r, quiet; simp. rewrite H. cbn. side.
    all: try (intros f Hf; cbn in Hf; unfold reqR; congruence).
  - destruct (nth_error (i2r w) (r_rd w)) eqn:En.
    + rewrite H0 in En. unfold inv_r, quiet; simp. side.
    + destruct (i_closed w) eqn:Ec.
      * unfold inv_r, quiet, reason; simp. side.
      * unfold inv_r, quiet; rewrite Ep. side.
  - destruct (verify_resp (rsp c) f) eqn:Ev.
    + unfold inv_r, quiet, passed; simp. side. eauto.
    + unfold inv_r, quiet, reason; simp. side. right; right; eauto.
  - unfold inv_r, ok_end, passed in *; simp. side. left. exists id. side.
  - unfold inv_r, bad_end, reason in *; simp. side.
  - unfold inv_r, ok_end, bad_end, reason, passed in *; simp. rewrite H. side.
  - unfold inv_r; rewrite Ep. side.
Qed.

(* ---- the wrappers' part ----------------------------------------------------------------------- *)
Lemma step_r_wr v c w : wr (step_r v c w) = wr w.
Proof.
  unfold step_r. destruct (rpc w); simp; auto.
  all: repeat match goal with
         | |- context [match ?x with _ => _ end] => destruct x; simp; auto
         end.
Qed.

Lemma step_r_inv_w c w : inv_r c w -> inv_w w -> inv_w (step_r Current c w).
Proof.
  intros (H & _) Hw. unfold inv_w in *. rewrite step_r_wr.
  eapply Forall_impl; [|exact Hw]. intros s Hs.
  unfold step_r.
  destruct (rpc w) eqn:Ep; unfold quiet in H; dest; simp;
    repeat match goal with
           | |- context [match ?x with _ => _ end] => destruct x; simp
           end;
    destruct s; unfold inv_w1 in *; simp; dest; try split; auto; try congruence.
Qed.

Lemma opened_r2i c w : inv_i c w -> wr w <> [] -> nth_error (r2i w) 1 = Some (reqR c).
Proof.
  intros (H & _ & _ & H4) Hn. destruct (H4 Hn) as (id & E). rewrite E in H. apply H.
Qed.

Lemma step_w1_ok c w s :
  inv_i c w -> inv_r c w -> wr w <> [] -> inv_w1 w s -> inv_w1 w (step_w1 Current w s).
Proof.
  intros Hi (Hr & _) Hn Hs. pose proof (opened_r2i c w Hi Hn) as Ho.
  destruct s; cbn [step_w1]; auto.
  - destruct (registered w) eqn:Er; cbn; auto.
  - destruct (Nat.eqb (inflight w) 0) eqn:E0; cbn; auto.
    apply Nat.eqb_eq in E0.
    destruct (rpc w); unfold quiet in Hr; dest; auto; try congruence.
    rewrite H in Ho. discriminate.
  - cbn in Hs. destruct (registered w) eqn:Er; cbn; auto.
Qed.

Lemma step_w_inv_w c k w : inv_i c w -> inv_r c w -> inv_w w -> inv_w (step_w Current k w).
Proof.
  intros Hi Hr Hw. unfold inv_w, step_w in *. simp.
  assert (E : forall s, inv_w1 (set_wr (upd k (step_w1 Current w) (wr w)) w) s <-> inv_w1 w s).
  { intros s; destruct s; cbn; tauto. }
  destruct (wr w) as [|a l] eqn:Ew; [destruct k; constructor|].
  assert (Hn : wr w <> []) by congruence.
  rewrite <- Ew.
  eapply Forall_impl; [intros s Hs; apply E; exact Hs|].
  apply upd_Forall; [|rewrite Ew; exact Hw].
  intros s Hs. apply (step_w1_ok c); auto.
Qed.

Lemma step_i_inv_w c w : inv_w w -> inv_w (step_i c w).
Proof.
  intros Hw. unfold step_i.
  destruct (ipc w) eqn:Ep;
    try (repeat match goal with
                | |- context [match ?x with _ => _ end] => destruct x
                end;
         try (eapply inv_w_transport; [| | | |exact Hw]; reflexivity); auto; fail).
  unfold inv_w in *; simp. apply Forall_app; split.
  - eapply Forall_impl; [|exact Hw]. intros s; destruct s; cbn; auto.
  - constructor; [|constructor]. destruct (r_closed w) eqn:Ec; cbn; auto.
Qed.

(* what a step of one actor leaves untouched *)
Lemma step_i_frame c w :
  let w' := step_i c w in
  rpc w' = rpc w /\ r2i w' = r2i w /\ r_rd w' = r_rd w /\ inflight w' = inflight w /\
  registered w' = registered w /\ r_closed w' = r_closed w /\ ga_calls w' = ga_calls w /\
  (ipc w = IFailed -> ipc w' = IFailed) /\
  (forall k f, nth_error (i2r w) k = Some f -> nth_error (i2r w') k = Some f).
Proof.
  unfold step_i.
  destruct (ipc w) eqn:Ep;
    repeat match goal with
           | |- context [match ?x with _ => _ end] => destruct x eqn:?
           end; simp; repeat split; auto; try congruence; try (intros; congruence);
    try (intros k f' Hk; apply nth_app_mono; auto).
Qed.

Lemma step_r_frame v c w :
  let w' := step_r v c w in
  ipc w' = ipc w /\ i2r w' = i2r w /\ i_rd w' = i_rd w /\ i_closed w' = i_closed w /\
  returned w' = returned w /\ wr w' = wr w /\
  (forall k f, nth_error (r2i w) k = Some f -> nth_error (r2i w') k = Some f).
Proof.
  unfold step_r.
  destruct (rpc w) eqn:Ep;
    repeat match goal with
           | |- context [match ?x with _ => _ end] => destruct x eqn:?
           end; simp; repeat split; auto; try congruence; try (intros; congruence);
    try (intros k f' Hk; apply nth_app_mono; auto).
Qed.

Lemma upd_nil_inv {A : Type} (f : A -> A) k l : upd k f l <> [] -> l <> [].
Proof. destruct l; [destruct k; cbn; auto|discriminate]. Qed.

Theorem step_inv c w a : Inv c w -> Inv c (step Current c w a).
Proof.
  intros (Hi & Hr & Hw). destruct a as [| |k|]; cbn [step]; [| | |exact (conj Hi (conj Hr Hw))].
  - pose proof (step_i_frame c w) as F. cbv zeta in F. dest.
    split; [|split].
    + apply step_i_inv_i; auto. apply Hr.
    + eapply inv_r_frame; [| | | | | | | |exact Hr]; auto.
    + apply step_i_inv_w; auto.
  - pose proof (step_r_frame Current c w) as F. cbv zeta in F. dest.
    split; [|split].
    + eapply inv_i_frame; [| | | | | | |exact Hi]; auto. congruence.
    + apply step_r_inv_r; auto.
    + apply step_r_inv_w; auto.
  - split; [|split].
    + eapply inv_i_frame; [| | | | | | |exact Hi]; auto.
      unfold step_w; simp. apply upd_nil_inv.
    + eapply inv_r_frame; [| | | | | | | |exact Hr]; auto.
    + apply (step_w_inv_w c); auto.
Qed.

Theorem run_from_inv c sched : forall w, Inv c w -> Inv c (run_from Current c w sched).
Proof.
  induction sched as [|a l IH]; intros w H; cbn; auto.
  apply IH. apply step_inv. exact H.
Qed.

Theorem run_inv c sched : Inv c (run Current c sched).
Proof. apply run_from_inv. apply inv_init. Qed.

(* ---- consequences of the invariant ------------------------------------------------------------ *)
Lemma returned_open c w id : inv_i c w -> returned w = Some id -> ipc w = IOpen id.
Proof.
  intros (_ & _ & H & _) E. destruct (ipc w); congruence.
Qed.

Lemma open_facts c w id :
  inv_i c w -> ipc w = IOpen id ->
  i2r w = [reqI c; resp_of id] /\ vR c id /\ nth_error (r2i w) 1 = Some (reqR c).
Proof. intros (H & _) E. rewrite E in H. tauto. Qed.

(* streams exist only after Connect has returned *)
Lemma streams_after_return c sched :
  returned (run Current c sched) = None -> wr (run Current c sched) = [].
Proof.
  intros E. destruct (run_inv c sched) as ((_ & _ & H3 & H4) & _).
  destruct (wr (run Current c sched)) eqn:Ew; auto.
  destruct H4 as (id & Hid); [discriminate|]. rewrite Hid in H3. congruence.
Qed.

(* what Connect returns is the responder's proven identity *)
Lemma returned_identity c w id :
  Inv c w -> returned w = Some id ->
  id = proven_ident (rsp c) /\ sig_addr (rsp c) = Some (pid_addr (rsp c)).
Proof.
  intros (Hi & _) E. apply (returned_open c) in E; auto.
  destruct (open_facts c w id Hi E) as (_ & Hv & _).
  apply verify_req_self in Hv. tauto.
Qed.

(* after the initiator returned, the echo it sent is the responder's own identity; a
   self-consistent responder accepts it, any other responder rejects it *)
Lemma final_echo c w id :
  inv_i c w -> ipc w = IOpen id ->
  forall f, nth_error (i2r w) 1 = Some f -> f = resp_of (proven_ident (rsp c)).
Proof.
  intros Hi E f Hf. destruct (open_facts c w id Hi E) as (H1 & Hv & _).
  rewrite H1 in Hf. cbn in Hf. apply verify_req_self in Hv. destruct Hv as (-> & _). congruence.
Qed.

Lemma no_reason c w id :
  Inv c w -> self_consistent (rsp c) -> ipc w = IOpen id -> ~ reason c w.
Proof.
  intros (Hi & _) Hc E [H|[H|(f & Hf & Hv)]].
  - congruence.
  - destruct (open_facts c w id Hi E) as (_ & _ & Hn). rewrite H in Hn. discriminate.
  - rewrite (final_echo c w id Hi E f Hf) in Hv. rewrite verify_resp_echo in Hv; auto. discriminate.
Qed.

Lemma verify_resp_echo_bad n :
  ~ self_consistent n -> verify_resp n (resp_of (proven_ident n)) = false.
Proof.
  unfold self_consistent, verify_resp, resp_of, proven_ident. cbn. intros H.
  destruct (N.eqb_spec (pid_addr n) (ks_addr n)); [congruence|reflexivity].
Qed.

Lemma not_passed c w id :
  Inv c w -> ~ self_consistent (rsp c) -> ipc w = IOpen id -> ~ passed c w.
Proof.
  intros (Hi & _) Hc E (f & Hf & Hv).
  rewrite (final_echo c w id Hi E f Hf) in Hv. rewrite verify_resp_echo_bad in Hv; auto. discriminate.
Qed.

(* The invariant named in the design: once Connect has returned on the initiator, the
   responder either still has the inbound handshake on record as in progress, or it has
   registered the initiator -- with the identity it has proof of. *)
Theorem returned_inflight_or_registered c sched id :
  self_consistent (rsp c) ->
  returned (run Current c sched) = Some id ->
  let w := run Current c sched in
  (inflight w = 1%nat /\ registered w = None) \/
  (registered w = Some (proven_ident (ini c)) /\ sig_addr (ini c) = Some (pid_addr (ini c))).
Proof.
  intros Hc E w. pose proof (run_inv c sched) as HI. fold w in HI, E.
  destruct HI as (Hi & Hr & Hw).
  pose proof (returned_open c w id Hi E) as Eo.
  pose proof (no_reason c w id (conj Hi (conj Hr Hw)) Hc Eo) as Hn.
  destruct (open_facts c w id Hi Eo) as (_ & _ & H2).
  destruct Hr as (Hr & _).
  assert (K : ok_end c w \/ bad_end c w ->
              registered w = Some (proven_ident (ini c)) /\ sig_addr (ini c) = Some (pid_addr (ini c))).
  { intros [(id' & R1 & R2 & _)|(_ & _ & B)]; [|contradiction].
    apply verify_req_self in R2. destruct R2 as (-> & S & _). auto. }
  destruct (rpc w); unfold quiet in Hr; dest; auto;
    try (rewrite H in H2; discriminate); try contradiction; try (right; apply K; assumption).
Qed.

Definition good_stream (c : cfg) (s : wstate) : Prop :=
  refused s = false /\
  forall j, s = WHandled j ->
            j = proven_ident (ini c) /\ sig_addr (ini c) = Some (pid_addr (ini c)).

(* C20 for the current code, every schedule, any number of streams *)
Theorem usable_inv c w id :
  Inv c w -> self_consistent (rsp c) -> returned w = Some id -> Forall (good_stream c) (wr w).
Proof.
  intros HI Hc E.
  destruct HI as (Hi & Hr & Hw).
  pose proof (returned_open c w id Hi E) as Eo.
  pose proof (no_reason c w id (conj Hi (conj Hr Hw)) Hc Eo) as Hn.
  destruct Hr as (Hr & _).
  assert (Kreg : forall j, registered w = Some j ->
                  j = proven_ident (ini c) /\ sig_addr (ini c) = Some (pid_addr (ini c))).
  { intros j Ej. destruct (rpc w); unfold quiet in Hr; dest; try congruence.
    - destruct H0 as [(id' & R1 & R2 & _)|(B & _)]; [|congruence].
      apply verify_req_self in R2. destruct R2 as (-> & S & _). split; congruence.
    - destruct H0 as [(id' & R1 & R2 & _)|(B & _)]; [|congruence].
      apply verify_req_self in R2. destruct R2 as (-> & S & _). split; congruence. }
  assert (Kdone : rpc w = RDone -> registered w <> None).
  { intros Ed. rewrite Ed in Hr. destruct Hr as (_ & [(id' & R1 & _)|(_ & _ & B)]); [congruence|contradiction]. }
  assert (Kcl : r_closed w = false).
  { destruct (rpc w); unfold quiet in Hr; dest; auto.
    - destruct H0 as [(id' & _ & _ & R3 & _)|(_ & _ & B)]; [auto|contradiction].
    - destruct H0 as [(id' & _ & _ & R3 & _)|(_ & _ & B)]; [auto|contradiction]. }
  unfold inv_w in Hw. eapply Forall_impl; [|exact Hw].
  intros s Hs. unfold good_stream. destruct s; cbn in *; split; auto; try (intros j [=]); try congruence.
  - subst. apply Kreg; auto.
  - destruct Hs as (Hs1 & Hs2). exfalso. apply (Kdone Hs2 Hs1).
Qed.

Theorem usable_current c sched id :
  self_consistent (rsp c) ->
  returned (run Current c sched) = Some id ->
  Forall (good_stream c) (wr (run Current c sched)).
Proof. intros Hc E. eapply usable_inv; eauto. apply run_inv. Qed.

(* with a responder whose key signer disagrees with its own identity the handshake is
   refused after the initiator's Connect has succeeded: nothing is ever handled *)
Theorem inconsistent_responder_refuses c sched id :
  ~ self_consistent (rsp c) ->
  returned (run Current c sched) = Some id ->
  registered (run Current c sched) = None /\
  Forall (fun s => forall j, s <> WHandled j) (wr (run Current c sched)).
Proof.
  intros Hc E. pose proof (run_inv c sched) as HI.
  set (w := run Current c sched) in *.
  destruct HI as (Hi & Hr & Hw).
  pose proof (returned_open c w id Hi E) as Eo.
  pose proof (not_passed c w id (conj Hi (conj Hr Hw)) Hc Eo) as Hn.
  destruct Hr as (Hr & _).
  assert (Kreg : registered w = None).
  { destruct (rpc w); unfold quiet in Hr; dest; auto; try contradiction.
    - destruct H0 as [(id' & _ & _ & _ & _ & P)|(B & _)]; [contradiction|auto].
    - destruct H0 as [(id' & _ & _ & _ & _ & P)|(B & _)]; [contradiction|auto]. }
  split; auto.
  unfold inv_w in Hw. eapply Forall_impl; [|exact Hw].
  intros s Hs j ->. cbn in Hs. congruence.
Qed.

(* ---- progress: the stream is handled once the responder and its wrapper have run ------------ *)
Definition rrank (p : rpc_t) : nat :=
  match p with
  | RReadFinal _ => 4 | RVerifyFinal _ _ => 3 | RRegister _ => 2 | REnd => 1 | RDone => 0
  | _ => 9
  end.

Lemma r_step_rank c w id :
  Inv c w -> self_consistent (rsp c) -> ipc w = IOpen id ->
  (rrank (rpc w) <= 4)%nat /\ rrank (rpc (step_r Current c w)) = pred (rrank (rpc w)).
Proof.
  intros HI Hc Eo. pose proof (no_reason c w id HI Hc Eo) as Hn.
  destruct HI as (Hi & (Hr & _) & Hw).
  destruct (open_facts c w id Hi Eo) as (H1 & Hv & H2).
  unfold step_r.
  destruct (rpc w) eqn:Ep; unfold quiet in Hr; dest;
    try (rewrite H in H2; discriminate); try contradiction; simp; cbn [rrank]; auto.
  - rewrite H0, H1. cbn. auto.
  - match goal with Hf : nth_error (i2r w) 1 = Some f |- _ =>
      rewrite (final_echo c w id Hi Eo f Hf) end.
    rewrite verify_resp_echo; auto.
  - rewrite Ep. cbn. split; auto.
Qed.

Lemma r_steps c n : forall w id,
  Inv c w -> self_consistent (rsp c) -> ipc w = IOpen id ->
  let w' := run_from Current c w (repeat R n) in
  Inv c w' /\ ipc w' = IOpen id /\ wr w' = wr w /\ returned w' = returned w /\
  (rrank (rpc w') <= rrank (rpc w) - n)%nat.
Proof.
  induction n as [|n IH]; intros w id HI Hc Eo w'; subst w'; cbn [repeat run_from fold_left].
  - destruct (r_step_rank c w id HI Hc Eo). split; [exact HI|]. repeat split; auto; lia.
  - pose proof (step_inv c w R HI) as HI'. cbn [step] in HI'.
    pose proof (step_r_frame Current c w) as F. cbv zeta in F. dest.
    destruct (r_step_rank c w id HI Hc Eo) as (R1 & R2).
    assert (Eo' : ipc (step_r Current c w) = IOpen id) by congruence.
    specialize (IH _ id HI' Hc Eo'). cbv zeta in IH. unfold run_from in IH. dest.
    cbn [step]. split; [assumption|]. repeat split; auto; try congruence. lia.
Qed.

Lemma rrank0 p : rrank p = 0%nat -> p = RDone.
Proof. destruct p; cbn; congruence. Qed.

Lemma done_registered c w id :
  Inv c w -> self_consistent (rsp c) -> ipc w = IOpen id -> rpc w = RDone ->
  registered w = Some (proven_ident (ini c)) /\ inflight w = 0%nat.
Proof.
  intros HI Hc Eo Ed. pose proof (no_reason c w id HI Hc Eo) as Hn.
  destruct HI as (Hi & (Hr & _) & Hw). rewrite Ed in Hr.
  destruct Hr as (H0 & [(id' & R1 & R2 & _)|(_ & _ & B)]); [|contradiction].
  apply verify_req_self in R2. destruct R2 as (-> & _). auto.
Qed.

Lemma step_w1_fields v w w' s :
  registered w' = registered w -> inflight w' = inflight w -> step_w1 v w' s = step_w1 v w s.
Proof. intros E1 E2. destruct s; cbn; rewrite ?E1, ?E2; auto. Qed.

Lemma step_w_nth v k w s :
  nth_error (wr w) k = Some s -> nth_error (wr (step_w v k w)) k = Some (step_w1 v w s).
Proof. intros H. unfold step_w; simp. apply upd_nth_same; auto. Qed.

Lemma w_three c w k s j :
  registered w = Some j -> inflight w = 0%nat -> nth_error (wr w) k = Some s ->
  refused s = false -> (forall j', s = WHandled j' -> j' = j) ->
  nth_error (wr (run_from Current c w [W k; W k; W k])) k = Some (WHandled j).
Proof.
  intros Er E0 Hs Hn Hj. cbn [run_from fold_left step].
  set (w1 := step_w Current k w). set (w2 := step_w Current k w1).
  pose proof (step_w_nth Current k w s Hs) as N1. fold w1 in N1.
  pose proof (step_w_nth Current k w1 _ N1) as N2. fold w2 in N2.
  pose proof (step_w_nth Current k w2 _ N2) as N3.
  rewrite N3. f_equal.
  rewrite (step_w1_fields Current w w2), (step_w1_fields Current w w1) by reflexivity.
  destruct s; cbn in *; rewrite ?Er, ?E0; cbn; rewrite ?Er; try discriminate; auto.
  f_equal. apply Hj. reflexivity.
Qed.

Lemma run_app v c a b : run v c (a ++ b) = run_from v c (run v c a) b.
Proof. unfold run, run_from. apply fold_left_app. Qed.
Lemma run_from_app v c w a b : run_from v c w (a ++ b) = run_from v c (run_from v c w a) b.
Proof. unfold run_from. apply fold_left_app. Qed.

Theorem handled_eventually c sched k :
  self_consistent (rsp c) ->
  (k < length (wr (run Current c sched)))%nat ->
  nth_error (wr (run Current c (sched ++ repeat R 5 ++ [W k; W k; W k]))) k =
  Some (WHandled (proven_ident (ini c))).
Proof.
  intros Hc Hk. rewrite run_app, run_from_app.
  pose proof (run_inv c sched) as HI. set (w := run Current c sched) in *.
  assert (Hne : wr w <> []) by (destruct (wr w); cbn in Hk; [lia|discriminate]).
  assert (Hid : exists id, ipc w = IOpen id).
  { destruct HI as ((_ & _ & _ & Hi4) & _). apply Hi4; auto. }
  destruct Hid as (id & Eo).
  destruct (r_steps c 5 w id HI Hc Eo) as (HI' & Eo' & Ew & Eret & Hrk). cbv zeta in *.
  set (w' := run_from Current c w (repeat R 5)) in *.
  assert (Ed : rpc w' = RDone) by (apply rrank0; destruct (r_step_rank c w id HI Hc Eo); lia).
  destruct (done_registered c w' id HI' Hc Eo' Ed) as (Ereg & Einf).
  destruct (nth_error (wr w') k) as [s|] eqn:Es;
    [|apply nth_error_None in Es; rewrite Ew in Es; lia].
  assert (Eret' : returned w' = Some id).
  { destruct HI' as ((_ & _ & H3 & _) & _). rewrite Eo' in H3. exact H3. }
  pose proof (usable_inv c w' id HI' Hc Eret') as Hg.
  rewrite Forall_forall in Hg. destruct (Hg s (nth_error_In _ _ Es)) as (G1 & G2).
  eapply w_three; eauto. intros j' ->. apply G2; auto.
Qed.

(* ---- a handled stream stays handled, whatever happens next (any variant) -------------------- *)
Lemma step_handled_stable v c w a k j :
  nth_error (wr w) k = Some (WHandled j) -> nth_error (wr (step v c w a)) k = Some (WHandled j).
Proof.
  intros H. destruct a as [| |k'|]; cbn [step]; [| | |exact H].
  - unfold step_i. destruct (ipc w);
      repeat match goal with
             | |- context [match ?x with _ => _ end] => destruct x
             end; simp; auto; apply nth_app_mono; auto.
  - rewrite step_r_wr. auto.
  - unfold step_w; simp. destruct (Nat.eq_dec k k') as [<-|Hn].
    + rewrite (upd_nth_same _ _ _ _ H). reflexivity.
    + rewrite upd_nth_other; auto.
Qed.

Theorem handled_stable v c sched : forall w k j,
  nth_error (wr w) k = Some (WHandled j) ->
  nth_error (wr (run_from v c w sched)) k = Some (WHandled j).
Proof.
  induction sched as [|a l IH]; intros w k j H; cbn; auto.
  apply IH. apply step_handled_stable. exact H.
Qed.

(* ---- the same for the variant read off the source ---------------------------------------------- *)
Theorem usable_deployed c sched id :
  self_consistent (rsp c) ->
  returned (run deployed c sched) = Some id ->
  id = proven_ident (rsp c) /\
  Forall (good_stream c) (wr (run deployed c sched)).
Proof.
  rewrite deployed_current. intros Hc E. split.
  - eapply returned_identity; eauto. apply run_inv.
  - eapply usable_current; eauto.
Qed.

Theorem handled_eventually_deployed c sched k :
  self_consistent (rsp c) ->
  (k < length (wr (run deployed c sched)))%nat ->
  nth_error (wr (run deployed c (sched ++ repeat R 5 ++ [W k; W k; W k]))) k =
  Some (WHandled (proven_ident (ini c))).
Proof. rewrite deployed_current. apply handled_eventually. Qed.

Theorem handled_stable_deployed c sched ext k j :
  nth_error (wr (run deployed c sched)) k = Some (WHandled j) ->
  nth_error (wr (run deployed c (sched ++ ext))) k = Some (WHandled j).
Proof. intros H. rewrite run_app. apply handled_stable. exact H. Qed.

Theorem inflight_or_registered_deployed c sched id :
  self_consistent (rsp c) ->
  returned (run deployed c sched) = Some id ->
  (inflight (run deployed c sched) = 1%nat /\ registered (run deployed c sched) = None) \/
  (registered (run deployed c sched) = Some (proven_ident (ini c)) /\
   sig_addr (ini c) = Some (pid_addr (ini c))).
Proof. rewrite deployed_current. apply returned_inflight_or_registered. Qed.

Theorem inconsistent_responder_refuses_deployed c sched id :
  ~ self_consistent (rsp c) ->
  returned (run deployed c sched) = Some id ->
  registered (run deployed c sched) = None /\
  Forall (fun s => forall j, s <> WHandled j) (wr (run deployed c sched)).
Proof. rewrite deployed_current. apply inconsistent_responder_refuses. Qed.

Theorem streams_after_return_deployed c sched :
  returned (run deployed c sched) = None -> wr (run deployed c sched) = [].
Proof. rewrite deployed_current. apply streams_after_return. Qed.

(* ---- several initiators -------------------------------------------------------------------------- *)
Lemma sys_inv cs sched : Forall (fun cw => Inv (fst cw) (snd cw)) (sys_run Current cs sched).
Proof.
  unfold sys_run.
  assert (H0 : Forall (fun cw : cfg * world => Inv (fst cw) (snd cw)) (sys_init cs)).
  { unfold sys_init. induction cs; cbn; constructor; auto. apply inv_init. }
  revert H0. generalize (sys_init cs). induction sched as [|ja l IH]; intros s Hs; cbn; auto.
  apply IH. unfold sys_step. apply upd_Forall; auto.
  intros (c & w) H. cbn in *. apply step_inv. exact H.
Qed.

Theorem usable_many cs sched :
  Forall (fun cw => self_consistent (rsp (fst cw)) ->
                    forall id, returned (snd cw) = Some id ->
                               id = proven_ident (rsp (fst cw)) /\
                               Forall (good_stream (fst cw)) (wr (snd cw)))
         (sys_run deployed cs sched).
Proof.
  rewrite deployed_current.
  eapply Forall_impl; [|apply sys_inv]. intros (c & w) H Hc id E. cbn in *. split.
  - eapply returned_identity; eauto.
  - eapply usable_inv; eauto.
Qed.

(* ---- the wrapper before the repair: refuted ---------------------------------------------------- *)
Definition ex_ini : node :=
  {| pid_addr := 11; sig_addr := Some 11; ks_addr := 11; ptype := t_bidder; staked := false |}.
Definition ex_rsp : node :=
  {| pid_addr := 22; sig_addr := Some 22; ks_addr := 22; ptype := t_provider; staked := true |}.
Definition ex_cfg : cfg := {| ini := ex_ini; rsp := ex_rsp |}.
(* handshake up to the initiator's return (the responder has read the final message), the
   initiator opens a stream, the wrapper looks the peer up, then the responder registers *)
Definition v0_witness : list who := hs_prefix ++ [I; W 0] ++ release.

Theorem usable_v0_refuted :
  exists c sched id,
    well_formed (ini c) /\ well_formed (rsp c) /\
    returned (run V0 c sched) = Some id /\
    registered (run V0 c sched) = Some (proven_ident (ini c)) /\
    nth_error (wr (run V0 c sched)) 0 = Some WUnknown.
Proof.
  exists ex_cfg, v0_witness, (22, t_provider). unfold well_formed.
  repeat split; vm_compute; reflexivity.
Qed.

(* the same schedule on the current code: the stream waits and is handled *)
Example v0_witness_current :
  returned (run Current ex_cfg v0_witness) = Some (proven_ident ex_rsp) /\
  wr (run Current ex_cfg v0_witness) = [WWait] /\
  wr (run Current ex_cfg (v0_witness ++ [W 0; W 0])) = [WHandled (proven_ident ex_ini)].
Proof. repeat split; vm_compute; reflexivity. Qed.

(* ---- non-vacuity of the theorems' premises ------------------------------------------------------ *)
Example usable_nonvacuous :
  self_consistent (rsp ex_cfg) /\
  returned (run Current ex_cfg (sched_open_before_release 2)) = Some (22, t_provider) /\
  wr (run Current ex_cfg (sched_open_before_release 2)) = [WHandled (11, t_bidder); WHandled (11, t_bidder)] /\
  wr (run Current ex_cfg (sched_before 2)) = [WWait; WWait] /\
  inflight (run Current ex_cfg (sched_before 2)) = 1%nat /\
  registered (run Current ex_cfg (sched_before 2)) = None.
Proof. repeat split; vm_compute; reflexivity. Qed.

Example handled_eventually_nonvacuous :
  (1 < length (wr (run Current ex_cfg (sched_before 2))))%nat /\
  nth_error (wr (run Current ex_cfg (sched_before 2 ++ repeat R 5 ++ [W 1; W 1; W 1]))) 1 =
  Some (WHandled (proven_ident ex_ini)).
Proof. split; vm_compute; [lia|reflexivity]. Qed.

Definition ex_rsp_bad : node :=
  {| pid_addr := 22; sig_addr := Some 22; ks_addr := 23; ptype := t_provider; staked := true |}.
Definition ex_cfg_bad : cfg := {| ini := ex_ini; rsp := ex_rsp_bad |}.

(* Connect succeeds on the initiator although the responder then refuses the handshake *)
Example inconsistent_nonvacuous :
  ~ self_consistent (rsp ex_cfg_bad) /\
  returned (run Current ex_cfg_bad (sched_open_before_release 1)) = Some (22, t_provider) /\
  wr (run Current ex_cfg_bad (sched_open_before_release 1)) = [WUnknown] /\
  wr (run Current ex_cfg_bad (sched_open_after_release 1)) = [WTorn] /\
  r_closed (run Current ex_cfg_bad (sched_open_after_release 1)) = true.
Proof. repeat split; try (vm_compute; reflexivity). unfold self_consistent; cbn. discriminate. Qed.

Example usable_many_nonvacuous :
  map (fun cw => wr (snd cw))
      (sys_run Current [ex_cfg; ex_cfg]
         (map (fun a => (0%nat, a)) hs_prefix ++ map (fun a => (1%nat, a)) hs_prefix ++
          [(1%nat, I); (0%nat, I); (1%nat, W 0); (0%nat, W 0)] ++
          map (fun a => (0%nat, a)) release ++ map (fun a => (1%nat, a)) release ++
          [(0%nat, W 0); (0%nat, W 0); (1%nat, W 0); (1%nat, W 0)])) =
  [[WHandled (11, t_bidder)]; [WHandled (11, t_bidder)]].
Proof. vm_compute. reflexivity. Qed.

(* a refused Connect: the responder's registry does not know the (provider) initiator *)
Example connect_refused_example :
  let c := {| ini := {| pid_addr := 11; sig_addr := Some 11; ks_addr := 11; ptype := t_provider; staked := false |};
              rsp := ex_rsp |} in
  returned (run Current c (sched_open_before_release 1)) = None /\
  ipc (run Current c (sched_open_before_release 1)) = IFailed /\
  wr (run Current c (sched_open_before_release 1)) = [].
Proof. repeat split; vm_compute; reflexivity. Qed.

(* ---- the record of handshakes in progress is a bracket around BOTH outcomes ------------------- *)
Theorem marker_bracket c sched :
  let w := run Current c sched in
  match rpc w with
  | RBegin | RDone => inflight w = 0%nat
  | _ => inflight w = 1%nat
  end.
Proof.
  intros w. destruct (run_inv c sched) as (_ & (Hr & _) & _). fold w in Hr.
  destruct (rpc w); unfold quiet in Hr; tauto.
Qed.

Lemma done_facts c w :
  Inv c w -> rpc w = RDone ->
  inflight w = 0%nat /\ (r_closed w = true -> registered w = None) /\
  (registered w = None -> r_closed w = true).
Proof.
  intros (_ & (Hr & _) & _) Ed. rewrite Ed in Hr. destruct Hr as (H0 & [H|H]).
  - destruct H as (id & R1 & _ & R3 & _). repeat split; auto; congruence.
  - destruct H as (B1 & B2 & _). repeat split; auto.
Qed.

(* a finished handshake -- accepted or refused -- leaves no record behind *)
Theorem refused_leaves_no_marker c sched :
  rpc (run Current c sched) = RDone ->
  inflight (run Current c sched) = 0%nat /\
  (r_closed (run Current c sched) = true -> registered (run Current c sched) = None).
Proof. intros Ed. destruct (done_facts c _ (run_inv c sched) Ed) as (H1 & H2 & _). auto. Qed.

(* so a later attempt starts from a state in which the invariant holds again *)
Lemma next_attempt_inv c1 c2 w1 :
  Inv c1 w1 -> rpc w1 = RDone -> Inv c2 (forget_registration (next_attempt w1)).
Proof.
  intros HI Ed. destruct (done_facts c1 w1 HI Ed) as (H0 & _).
  unfold Inv, inv_i, inv_r, inv_w, quiet; cbn. repeat split; auto; try discriminate.
  all: intros; try contradiction; try discriminate.
Qed.

Lemma next_attempt_inv_refused c1 c2 w1 :
  Inv c1 w1 -> rpc w1 = RDone -> registered w1 = None -> Inv c2 (next_attempt w1).
Proof.
  intros HI Ed En. destruct (done_facts c1 w1 HI Ed) as (H0 & _).
  unfold Inv, inv_i, inv_r, inv_w, quiet; cbn. repeat split; auto; try discriminate.
  all: intros; try contradiction; try discriminate.
Qed.

Theorem usable_from c w0 sched id :
  Inv c w0 -> self_consistent (rsp c) ->
  returned (run_from Current c w0 sched) = Some id ->
  id = proven_ident (rsp c) /\ Forall (good_stream c) (wr (run_from Current c w0 sched)).
Proof.
  intros H0 Hc E. pose proof (run_from_inv c sched w0 H0) as HI. split.
  - eapply returned_identity; eauto.
  - eapply usable_inv; eauto.
Qed.

Theorem handled_eventually_from c w0 sched k :
  Inv c w0 -> self_consistent (rsp c) ->
  (k < length (wr (run_from Current c w0 sched)))%nat ->
  nth_error (wr (run_from Current c w0 (sched ++ repeat R 5 ++ [W k; W k; W k]))) k =
  Some (WHandled (proven_ident (ini c))).
Proof.
  intros H0 Hc Hk. rewrite !run_from_app.
  pose proof (run_from_inv c sched w0 H0) as HI. set (w := run_from Current c w0 sched) in *.
  assert (Hne : wr w <> []) by (destruct (wr w); cbn in Hk; [lia|discriminate]).
  assert (Hid : exists id, ipc w = IOpen id).
  { destruct HI as ((_ & _ & _ & Hi4) & _). apply Hi4; auto. }
  destruct Hid as (id & Eo).
  destruct (r_steps c 5 w id HI Hc Eo) as (HI' & Eo' & Ew & Eret & Hrk). cbv zeta in *.
  set (w' := run_from Current c w (repeat R 5)) in *.
  assert (Ed : rpc w' = RDone) by (apply rrank0; destruct (r_step_rank c w id HI Hc Eo); lia).
  destruct (done_registered c w' id HI' Hc Eo' Ed) as (Ereg & Einf).
  destruct (nth_error (wr w') k) as [s|] eqn:Es;
    [|apply nth_error_None in Es; rewrite Ew in Es; lia].
  assert (Eret' : returned w' = Some id).
  { destruct HI' as ((_ & _ & H3 & _) & _). rewrite Eo' in H3. exact H3. }
  pose proof (usable_inv c w' id HI' Hc Eret') as Hg.
  rewrite Forall_forall in Hg. destruct (Hg s (nth_error_In _ _ Es)) as (G1 & G2).
  eapply w_three; eauto. intros j' ->. apply G2; auto.
Qed.

(* what a record that is never removed would do: the stream of the next attempt waits for ever *)
Example stale_marker_blocks :
  let w0 := set_inflight 1 init in
  wr (run_from Current ex_cfg w0 (sched_open_before_release 1)) = [WWait] /\
  wr (run_from Current ex_cfg w0 (sched_open_before_release 1 ++ repeat R 5 ++ [W 0; W 0; W 0])) = [WWait] /\
  registered (run_from Current ex_cfg w0 (sched_open_before_release 1)) = Some (proven_ident ex_ini).
Proof. repeat split; vm_compute; reflexivity. Qed.

(* a refused attempt (the initiating node's registry does not know the provider responder)
   followed by an accepted one *)
Definition ex_cfg_unknown_rsp : cfg :=
  {| ini := ex_ini;
     rsp := {| pid_addr := 22; sig_addr := Some 22; ks_addr := 22; ptype := t_provider; staked := false |} |}.
Example retry_after_refused_example :
  let w1 := run Current ex_cfg_unknown_rsp sched_handshake in
  rpc w1 = RDone /\ returned w1 = None /\ r_closed w1 = true /\ registered w1 = None /\
  inflight w1 = 0%nat /\ ga_calls w1 = 0%nat /\
  wr (run_from Current ex_cfg (next_attempt w1) (sched_before 1)) = [WWait] /\
  wr (run_from Current ex_cfg (next_attempt w1) (sched_open_before_release 1)) =
  [WHandled (proven_ident ex_ini)].
Proof. repeat split; vm_compute; reflexivity. Qed.

(* ---- mutual dial --------------------------------------------------------------------------------- *)
Lemma c20_begin_in_connect_fact : c20_begin_in_connect = true. Proof. reflexivity. Qed.
Lemma c20_begin_invoked_in_connect_fact : c20_begin_invoked_in_connect = true. Proof. reflexivity. Qed.
Lemma ob_deployed_true : ob_deployed = true.
Proof.
  unfold ob_deployed.
  rewrite c20_begin_in_connect_fact, c20_begin_invoked_in_connect_fact, connect_defers_begin_fact. reflexivity.
Qed.

Ltac msimp :=
  cbn [base b_begun b_reg a_ret bw set_base set_b_begun set_b_reg set_a_ret set_bw] in *.

(* once the responder has registered the initiator, the initiator has written its final message *)
Lemma registered_ipc c w id :
  Inv c w -> registered w = Some id ->
  exists j, (ipc w = IReturn j \/ ipc w = IOpen j).
Proof.
  intros (Hi & (Hr & _) & _) E.
  assert (P : passed c w).
  { destruct (rpc w); unfold quiet in Hr; dest; try congruence.
    - destruct H0 as [(id' & _ & _ & _ & _ & P)|(B & _)]; [exact P|congruence].
    - destruct H0 as [(id' & _ & _ & _ & _ & P)|(B & _)]; [exact P|congruence]. }
  destruct P as (f & Hf & _). destruct Hi as (Hi & _).
  destruct (ipc w); dest; eauto;
    match goal with Hq : i2r w = _ |- _ => rewrite Hq in Hf end; cbn in Hf; discriminate.
Qed.

Lemma registered_stable c w a id :
  Inv c w -> registered w = Some id -> registered (step Current c w a) = Some id.
Proof.
  intros HI E. destruct a as [| |k|]; cbn [step]; auto.
  - pose proof (step_i_frame c w) as F. cbv zeta in F. dest. congruence.
  - destruct HI as (_ & (Hr & _) & _). unfold step_r.
    destruct (rpc w); unfold quiet in Hr; dest; try congruence; simp; auto;
      repeat match goal with
             | |- context [match ?x with _ => _ end] => destruct x; simp; auto
             end.
Qed.

Definition minv_w1 (m : mworld) (s : wstate) : Prop :=
  match s with
  | WNew | WWait => True
  | WLook2 => exists id, ipc (base m) = IOpen id
  | WHandled id => b_reg m = Some id
  | WUnknown | WTorn => False
  end.

Definition MInv (c : cfg) (m : mworld) : Prop :=
  Inv c (base m) /\
  (b_begun m = false -> ipc (base m) = IWriteReq) /\
  (match b_reg m with
   | Some id => ipc (base m) = IReturn id \/ ipc (base m) = IOpen id
   | None => forall id, ipc (base m) <> IOpen id
   end) /\
  (forall id, a_ret m = Some id -> registered (base m) = Some id) /\
  (bw m <> [] -> a_ret m <> None) /\
  Forall (minv_w1 m) (bw m).

Lemma minv_init c : MInv c minit.
Proof.
  unfold MInv; cbn. split; [apply inv_init|]. repeat split; auto; try discriminate.
  all: intros; try discriminate; try contradiction.
Qed.

Lemma minv_w_transport m m' l :
  b_reg m' = b_reg m ->
  (forall id, ipc (base m) = IOpen id -> ipc (base m') = IOpen id) ->
  Forall (minv_w1 m) l -> Forall (minv_w1 m') l.
Proof.
  intros E2 E3 H. eapply Forall_impl; [|exact H].
  intros s; destruct s; cbn; auto; try congruence. intros (id & Hid). eauto.
Qed.

Lemma step_i_ipc_open c w id : ipc w = IOpen id -> ipc (step_i c w) = IOpen id.
Proof. intros E. unfold step_i. rewrite E. simp. exact E. Qed.

Lemma step_i_to_open c w id :
  ipc (step_i c w) = IOpen id -> ipc w = IReturn id \/ ipc w = IOpen id.
Proof.
  unfold step_i. destruct (ipc w) eqn:E;
    repeat match goal with
           | |- context [match ?x with _ => _ end] => destruct x
           end; simp; try discriminate; intros [= <-]; auto.
Qed.

(* the base step of B keeps everything the mutual part relies on *)
Lemma mbase_i c m :
  MInv c m -> b_begun m = true ->
  (forall id, ipc (base m) = IReturn id -> b_reg m = Some id) ->
  MInv c (set_base (step_i c (base m)) m).
Proof.
  intros (HI & H2 & H3 & H4 & H5 & H6) Eb Hadd.
  pose proof (step_inv c (base m) I HI) as HI'. cbn [step] in HI'.
  pose proof (step_i_frame c (base m)) as F. cbv zeta in F. dest.
  unfold MInv; msimp. split; [exact HI'|]. split; [congruence|]. split; [|split; [|split]]; auto.
  - destruct (b_reg m) as [id|] eqn:Er.
    + destruct H3 as [H3|H3].
      * right. unfold step_i. rewrite H3. reflexivity.
      * right. apply step_i_ipc_open; auto.
    + intros id Hc. apply step_i_to_open in Hc. destruct Hc as [Hc|Hc].
      * apply Hadd in Hc. congruence.
      * apply (H3 id); auto.
  - intros id Ha. rewrite <- (H4 _ Ha). congruence.
  - eapply minv_w_transport; [| |exact H6]; msimp; auto. intros id. apply step_i_ipc_open.
Qed.

Lemma mstep_b_inv c m : MInv c m -> MInv c (mstep_b c m).
Proof.
  intros HM. pose proof HM as (HI & H2 & H3 & H4 & H5 & H6). unfold mstep_b.
  destruct (b_begun m) eqn:Eb; cbn [negb].
  - destruct (ipc (base m)) eqn:Ep; try (apply mbase_i; auto; intros; congruence).
    destruct (b_reg m) eqn:Er.
    + apply mbase_i; auto. intros id0 E0. rewrite Ep in E0. injection E0 as <-.
      destruct H3 as [H3|H3]; congruence.
    + unfold MInv; msimp. split; [exact HI|]. repeat split; auto; try congruence.
      eapply Forall_impl; [|exact H6]. intros s; destruct s; cbn; auto; congruence.
  - unfold MInv; msimp. split; [exact HI|]. repeat split; auto; try discriminate.
Qed.

Lemma mbase_other c m a :
  MInv c m -> a <> I ->
  MInv c (set_base (step Current c (base m) a) m).
Proof.
  intros (HI & H2 & H3 & H4 & H5 & H6) Ha.
  pose proof (step_inv c (base m) a HI) as HI'.
  assert (Ei : ipc (step Current c (base m) a) = ipc (base m)).
  { destruct a as [| |k|]; cbn [step]; auto; try contradiction.
    pose proof (step_r_frame Current c (base m)) as F. cbv zeta in F. tauto. }
  unfold MInv; msimp. rewrite Ei. split; [exact HI'|]. repeat split; auto.
  - intros id E. apply registered_stable; auto.
  - eapply minv_w_transport; [| |exact H6]; msimp; auto. congruence.
Qed.

Lemma mstep_bw1_ok c m s :
  MInv c m -> bw m <> [] -> minv_w1 m s -> minv_w1 m (mstep_bw1 true m s).
Proof.
  intros (HI & H2 & H3 & H4 & H5 & H6) Hn Hs.
  destruct s; cbn [mstep_bw1]; auto.
  - destruct (b_reg m) eqn:Er; cbn; auto.
  - destruct (Nat.eqb (b_inflight true m) 0) eqn:E0; cbn; auto.
    apply Nat.eqb_eq in E0.
    destruct (a_ret m) as [id|] eqn:Ea; [|exfalso; apply (H5 Hn); reflexivity].
    destruct (registered_ipc c (base m) id HI (H4 _ eq_refl)) as (j & Hj).
    unfold b_inflight in E0. cbn [andb] in E0.
    destruct (b_begun m) eqn:Eb.
    + destruct Hj as [Hj|Hj]; rewrite Hj in E0; [discriminate|eauto].
    + rewrite (H2 eq_refl) in Hj. destruct Hj; discriminate.
  - cbn in Hs. destruct Hs as (id & Hid).
    destruct (b_reg m) eqn:Er; cbn; auto. apply (H3 id); auto.
Qed.

Theorem mstep_inv c m a : MInv c m -> MInv c (mstep true c m a).
Proof.
  intros HM. destruct a as [| |k| | |k]; cbn [mstep].
  - apply mstep_b_inv; auto.
  - apply (mbase_other c m R); auto. discriminate.
  - apply (mbase_other c m (W k)); auto. discriminate.
  - pose proof HM as (HI & H2 & H3 & H4 & H5 & H6). unfold mstep_c.
    destruct (a_ret m) eqn:Ea; [exact HM|].
    destruct (registered (base m)) eqn:Er; [|exact HM].
    unfold MInv; msimp. split; [exact HI|]. repeat split; auto; try congruence.
  - pose proof HM as (HI & H2 & H3 & H4 & H5 & H6). unfold mstep_o.
    destruct (a_ret m) eqn:Ea; [|exact HM].
    unfold MInv; msimp. rewrite Ea. split; [exact HI|]. repeat split; auto; try congruence.
    apply Forall_app; split.
    + eapply Forall_impl; [|exact H6]. intros s; destruct s; cbn; auto.
    + constructor; [cbn; auto|constructor].
  - pose proof HM as (HI & H2 & H3 & H4 & H5 & H6).
    unfold MInv; msimp. split; [exact HI|]. repeat split; auto.
    + intros Hn. apply H5. eapply upd_nil_inv; eauto.
    + destruct (bw m) eqn:Ew; [destruct k; constructor|].
      assert (Hne : bw m <> []) by congruence. rewrite <- Ew.
      assert (E : forall s, minv_w1 (set_bw (upd k (mstep_bw1 true m) (bw m)) m) s <-> minv_w1 m s).
      { intros s; destruct s; cbn; tauto. }
      eapply Forall_impl; [intros s Hs; apply E; exact Hs|].
      apply upd_Forall; [|rewrite Ew; exact H6].
      intros s Hs. apply (mstep_bw1_ok c); auto.
Qed.

Theorem mrun_from_inv c sched : forall m, MInv c m -> MInv c (mrun_from true c m sched).
Proof.
  induction sched as [|a l IH]; intros m H; cbn; auto. apply IH. apply mstep_inv. exact H.
Qed.
Theorem mrun_inv c sched : MInv c (mrun true c sched).
Proof. apply mrun_from_inv. apply minv_init. Qed.

(* C20 for the mutual dial, every schedule: once A's Connect(B) has reported success (through
   the shortcut), it named B's proven identity, and no stream A opened is refused by B; what
   reached B's handlers carries A's proven identity *)
Theorem usable_mutual c sched id :
  a_ret (mrun true c sched) = Some id ->
  (id = proven_ident (ini c) /\ sig_addr (ini c) = Some (pid_addr (ini c))) /\
  Forall (fun s => s <> WUnknown /\ s <> WTorn /\
                   forall j, s = WHandled j ->
                             j = proven_ident (rsp c) /\ sig_addr (rsp c) = Some (pid_addr (rsp c)))
         (bw (mrun true c sched)).
Proof.
  intros Ea. destruct (mrun_inv c sched) as (HI & H2 & H3 & H4 & H5 & H6).
  set (m := mrun true c sched) in *. split.
  - pose proof (H4 _ Ea) as Er.
    assert (V : vI c id).
    { destruct HI as (_ & (Hr & _) & _).
      destruct (rpc (base m)); unfold quiet in Hr; dest; try congruence.
      - destruct H0 as [(id' & R1 & R2 & _)|(B & _)]; congruence.
      - destruct H0 as [(id' & R1 & R2 & _)|(B & _)]; congruence. }
    apply verify_req_self in V. tauto.
  - eapply Forall_impl; [|exact H6]. intros s Hs.
    destruct s as [| | |j0| |]; cbn in Hs; try contradiction;
      (split; [discriminate|]; split; [discriminate|]); intros j Ej; try discriminate.
    injection Ej as <-. rewrite Hs in H3. destruct HI as ((Hi & _) & _).
    destruct H3 as [H3|H3]; rewrite H3 in Hi; dest;
      match goal with V : vR c _ |- _ => apply verify_req_self in V; tauto end.
Qed.

(* progress: once B has taken its two remaining steps (addPeer, return) and the wrapper of the
   k-th stream its three, the stream is with B's handler under A's proven identity *)
Lemma mstep_b_base c m :
  b_begun m = true -> (forall id, ipc (base m) = IReturn id -> b_reg m <> None) ->
  mstep_b c m = set_base (step_i c (base m)) m.
Proof.
  intros Eb H. unfold mstep_b. rewrite Eb. cbn [negb].
  destruct (ipc (base m)) eqn:E; auto. destruct (b_reg m) eqn:Er; auto.
  exfalso. eapply H; eauto.
Qed.

Lemma mstep_b_add c m id :
  b_begun m = true -> ipc (base m) = IReturn id -> b_reg m = None -> mstep_b c m = set_b_reg id m.
Proof. intros Eb E Er. unfold mstep_b. rewrite Eb, E, Er. reflexivity. Qed.

Lemma mb_two c m j :
  MInv c m -> b_begun m = true ->
  (ipc (base m) = IReturn j \/ ipc (base m) = IOpen j) ->
  let m' := mstep_b c (mstep_b c m) in
  ipc (base m') = IOpen j /\ b_reg m' = Some j /\ bw m' = bw m /\ b_begun m' = true.
Proof.
  intros (HI & H2 & H3 & H4 & H5 & H6) Eb [E|E]; cbv zeta.
  - assert (Eo : ipc (step_i c (base m)) = IOpen j) by (unfold step_i; rewrite E; reflexivity).
    destruct (b_reg m) as [id|] eqn:Er.
    + assert (id = j) as -> by (destruct H3 as [H3|H3]; congruence).
      rewrite (mstep_b_base c m) by (auto; intros; congruence).
      rewrite mstep_b_base by (msimp; auto; intros; msimp; congruence). msimp.
      rewrite (step_i_ipc_open _ _ _ Eo). auto.
    + rewrite (mstep_b_add c m j) by auto.
      rewrite mstep_b_base by (msimp; auto; intros; msimp; congruence). msimp. auto.
  - destruct (b_reg m) as [id|] eqn:Er; [|exfalso; apply (H3 j); auto].
    assert (id = j) as -> by (destruct H3 as [H3|H3]; congruence).
    pose proof (step_i_ipc_open c _ _ E) as Eo.
    rewrite (mstep_b_base c m) by (auto; intros; congruence).
    rewrite mstep_b_base by (msimp; auto; intros; msimp; congruence). msimp.
    rewrite (step_i_ipc_open _ _ _ Eo). auto.
Qed.

Lemma mstep_bw1_fields ob m l s : mstep_bw1 ob (set_bw l m) s = mstep_bw1 ob m s.
Proof. destruct s; reflexivity. Qed.

Lemma mbw_nth ob c k m s :
  nth_error (bw m) k = Some s ->
  nth_error (bw (mstep ob c m (MBW k))) k = Some (mstep_bw1 ob m s).
Proof. intros H. cbn [mstep]. msimp. apply upd_nth_same; auto. Qed.

Theorem mutual_handled_eventually c sched k :
  (k < length (bw (mrun true c sched)))%nat ->
  nth_error (bw (mrun true c (sched ++ [MB; MB] ++ [MBW k; MBW k; MBW k]))) k =
  Some (WHandled (proven_ident (rsp c))).
Proof.
  intros Hk. pose proof (mrun_inv c sched) as HM. unfold mrun, mrun_from in *. rewrite !fold_left_app.
  set (m := fold_left (mstep true c) sched minit) in *.
  assert (Hne : bw m <> []) by (destruct (bw m); cbn in Hk; [lia|discriminate]).
  pose proof HM as (HI & H2 & H3 & H4 & H5 & H6).
  destruct (a_ret m) as [id|] eqn:Ea; [|exfalso; apply (H5 Hne); reflexivity].
  destruct (registered_ipc c (base m) id HI (H4 _ eq_refl)) as (j & Hj).
  assert (Eb : b_begun m = true).
  { destruct (b_begun m) eqn:Eb; auto. rewrite (H2 eq_refl) in Hj. destruct Hj; discriminate. }
  cbn [fold_left app].
  change (mstep true c (mstep true c m MB) MB) with (mstep_b c (mstep_b c m)).
  destruct (mb_two c m j HM Eb Hj) as (Eo & Er & Ew & Eb').
  pose proof (mstep_b_inv c _ (mstep_b_inv c m HM)) as HM'.
  set (m' := mstep_b c (mstep_b c m)) in *.
  assert (Ej : j = proven_ident (rsp c)).
  { destruct HM' as (((Hi & _) & _) & _). rewrite Eo in Hi. dest.
    match goal with V : vR c _ |- _ => apply verify_req_self in V; tauto end. }
  destruct (nth_error (bw m') k) as [s|] eqn:Es;
    [|apply nth_error_None in Es; rewrite Ew in Es; lia].
  assert (Hs : minv_w1 m' s).
  { destruct HM' as (_ & _ & _ & _ & _ & F). rewrite Forall_forall in F.
    apply F. eapply nth_error_In; eauto. }
  pose proof (mbw_nth true c k m' s Es) as N1.
  pose proof (mbw_nth true c k _ _ N1) as N2.
  pose proof (mbw_nth true c k _ _ N2) as N3.
  rewrite N3. f_equal. cbn [mstep]. rewrite !mstep_bw1_fields.
  assert (E0 : b_inflight true m' = 0%nat).
  { unfold b_inflight. rewrite Eb', Eo. reflexivity. }
  subst j.
  destruct s; cbn in Hs; try contradiction; cbn [mstep_bw1]; rewrite ?Er, ?E0; cbn; rewrite ?Er; auto.
  congruence.
Qed.

(* the code without the outbound bracket (/repo before cacc087): refuted *)
Theorem usable_mutual_v1_refuted :
  exists c sched id,
    well_formed (ini c) /\ well_formed (rsp c) /\
    a_ret (mrun false c sched) = Some id /\
    b_reg (mrun false c (sched ++ [MB; MB])) = Some (proven_ident (rsp c)) /\
    nth_error (bw (mrun false c sched)) 0 = Some WUnknown.
Proof.
  exists ex_cfg, (msched_held 1 ++ [MBW 0; MBW 0]), (11, t_bidder). unfold well_formed.
  repeat split; vm_compute; reflexivity.
Qed.

Example usable_mutual_nonvacuous :
  a_ret (mrun true ex_cfg (msched_held 2)) = Some (proven_ident ex_ini) /\
  bw (mrun true ex_cfg (msched_held 2 ++ m_rests 2)) = [WWait; WWait] /\
  b_inflight true (mrun true ex_cfg (msched_held 2)) = 1%nat /\
  b_reg (mrun true ex_cfg (msched_held 2)) = None /\
  bw (mrun true ex_cfg (msched_first_lookup_before 2)) =
  [WHandled (proven_ident ex_rsp); WHandled (proven_ident ex_rsp)] /\
  bw (mrun true ex_cfg (msched_all_before 2 ++ m_rests 2)) =
  [WHandled (proven_ident ex_rsp); WHandled (proven_ident ex_rsp)].
Proof. repeat split; vm_compute; reflexivity. Qed.

(* ---- cross dial ------------------------------------------------------------------------------------ *)
Ltac xsimp :=
  cbn [h1 h2 beg1 beg2 oreg1 oreg2 short1 short2 sA xset1 xset2 xset_s] in *.

Lemma registered_vI c w id : Inv c w -> registered w = Some id -> vI c id.
Proof.
  intros (_ & (Hr & _) & _) E.
  destruct (rpc w); unfold quiet in Hr; dest; try congruence.
  - destruct H0 as [(id' & R1 & R2 & _)|(B & _)]; congruence.
  - destruct H0 as [(id' & R1 & R2 & _)|(B & _)]; congruence.
Qed.

Lemma closed_reason c w : Inv c w -> r_closed w = true -> reason c w.
Proof.
  intros (_ & (Hr & _) & _) E.
  destruct (rpc w); unfold quiet in Hr; dest; try congruence.
  - destruct H0 as [(id' & _ & _ & R3 & _)|(_ & _ & B)]; [congruence|exact B].
  - destruct H0 as [(id' & _ & _ & R3 & _)|(_ & _ & B)]; [congruence|exact B].
Qed.

Lemma r_closed_stable c w a : r_closed w = true -> r_closed (step Current c w a) = true.
Proof.
  intros E. destruct a as [| |k|]; cbn [step]; auto.
  - pose proof (step_i_frame c w) as F. cbv zeta in F. dest. congruence.
  - unfold step_r. destruct (rpc w); simp; auto;
      repeat match goal with
             | |- context [match ?x with _ => _ end] => destruct x; simp; auto
             end.
Qed.

(* one dialling Connect with its handshake world *)
Definition DInv (c : cfg) (h : world) (beg : bool) (oreg : option ident) : Prop :=
  Inv c h /\ (beg = false -> h = init) /\
  match oreg with
  | Some id => ipc h = IReturn id \/ ipc h = IOpen id
  | None => forall id, ipc h <> IOpen id
  end.

Lemma dinv_dial c h oreg :
  DInv c h true oreg ->
  DInv c (fst (dial_step c h oreg)) true (snd (dial_step c h oreg)) /\
  registered (fst (dial_step c h oreg)) = registered h /\
  r_closed (fst (dial_step c h oreg)) = r_closed h /\
  (forall j, oreg = Some j -> snd (dial_step c h oreg) = Some j) /\
  (forall id, ipc h = IOpen id -> ipc (fst (dial_step c h oreg)) = IOpen id).
Proof.
  intros (HI & _ & H3). unfold dial_step.
  assert (Base : forall o, (forall id, ipc h = IReturn id -> o = Some id) ->
            match o with
            | Some id => ipc h = IReturn id \/ ipc h = IOpen id
            | None => forall id, ipc h <> IOpen id
            end ->
            DInv c (step_i c h) true o /\ registered (step_i c h) = registered h /\
            r_closed (step_i c h) = r_closed h /\
            (forall id, ipc h = IOpen id -> ipc (step_i c h) = IOpen id)).
  { intros o Hadd Ho.
    pose proof (step_inv c h I HI) as HI'. cbn [step] in HI'.
    pose proof (step_i_frame c h) as F. cbv zeta in F. dest.
    split; [|repeat split; auto; intros; apply step_i_ipc_open; auto].
    split; [exact HI'|]. split; [discriminate|].
    destruct o as [id|].
    - destruct Ho as [Ho|Ho]; right; [unfold step_i; rewrite Ho; reflexivity|apply step_i_ipc_open; auto].
    - intros id Hc. apply step_i_to_open in Hc. destruct Hc as [Hc|Hc].
      + apply Hadd in Hc. discriminate.
      + apply (Ho id); auto. }
  assert (Gen : (forall id, ipc h = IReturn id -> oreg = Some id) ->
            DInv c (fst (step_i c h, oreg)) true (snd (step_i c h, oreg)) /\
            registered (fst (step_i c h, oreg)) = registered h /\
            r_closed (fst (step_i c h, oreg)) = r_closed h /\
            (forall j, oreg = Some j -> snd (step_i c h, oreg) = Some j) /\
            (forall id, ipc h = IOpen id -> ipc (fst (step_i c h, oreg)) = IOpen id)).
  { intros Hadd. destruct (Base oreg Hadd H3) as (B1 & B2 & B3 & B4). cbn [fst snd].
    split; [exact B1|]. split; [exact B2|]. split; [exact B3|]. split; [auto|exact B4]. }
  clear Base.
  destruct (ipc h) eqn:Ep; try (apply Gen; intros; congruence).
  destruct oreg as [j|] eqn:Eo.
  - apply Gen. intros id0 E0. destruct H3 as [H3|H3]; congruence.
  - cbn [fst snd]. split; [|split; [reflexivity|split; [reflexivity|split; [discriminate|discriminate]]]].
    split; [exact HI|]. split; [discriminate|]. left. exact Ep.
Qed.

Lemma dinv_r c h oreg :
  DInv c h true oreg ->
  DInv c (step_r Current c h) true oreg /\
  (forall j, registered h = Some j -> registered (step_r Current c h) = Some j) /\
  (r_closed h = true -> r_closed (step_r Current c h) = true) /\
  ipc (step_r Current c h) = ipc h.
Proof.
  intros (HI & _ & H3).
  pose proof (step_inv c h R HI) as HI'. cbn [step] in HI'.
  pose proof (step_r_frame Current c h) as F. cbv zeta in F. destruct F as (Ei & _).
  split; [|split; [|split]]; auto.
  - split; [exact HI'|]. split; [discriminate|]. rewrite Ei. exact H3.
  - intros j Ej. apply (registered_stable c h R); auto.
  - intros E. apply (r_closed_stable c h R); auto.
Qed.

Definition xw_inv (x : xworld) (s : wstate) : Prop :=
  match s with
  | WNew | WWait => True
  | WLook2 => regBA x <> None \/ r_closed (h1 x) = true
  | WHandled j => registered (h1 x) = Some j \/ oreg2 x = Some j
  | WUnknown => r_closed (h1 x) = true
  | WTorn => False
  end.

Definition XInv (a b : node) (x : xworld) : Prop :=
  DInv (c12 a b) (h1 x) (beg1 x) (oreg1 x) /\ DInv (c21 a b) (h2 x) (beg2 x) (oreg2 x) /\
  (short1 x <> None -> beg1 x = false) /\ (short2 x <> None -> beg2 x = false) /\
  (forall id, short1 x = Some id -> registered (h2 x) = Some id) /\
  (sA x <> [] -> short1 x <> None \/ exists id, ipc (h1 x) = IOpen id) /\
  Forall (xw_inv x) (sA x).

Definition xmono (x x' : xworld) : Prop :=
  (forall j, registered (h1 x) = Some j -> registered (h1 x') = Some j) /\
  (forall j, oreg2 x = Some j -> oreg2 x' = Some j) /\
  (r_closed (h1 x) = true -> r_closed (h1 x') = true).

Lemma xw_transport x x' l : xmono x x' -> Forall (xw_inv x) l -> Forall (xw_inv x') l.
Proof.
  intros (M1 & M2 & M3) H. eapply Forall_impl; [|exact H].
  intros s; destruct s; cbn; auto.
  - intros [Hn|Hc]; [left|right; auto]. unfold regBA, first_some in *.
    destruct (registered (h1 x)) eqn:E1.
    + rewrite (M1 _ eq_refl). discriminate.
    + destruct (oreg2 x) eqn:E2; [|congruence]. rewrite (M2 _ eq_refl).
      destruct (registered (h1 x')); discriminate.
  - intros [Hn|Hn]; [left|right]; auto.
Qed.

Lemma xinv_init a b : XInv a b xinit.
Proof.
  assert (D : forall c, DInv c init false None).
  { intros c. split; [apply inv_init|]. split; auto. cbn. discriminate. }
  unfold XInv; cbn. split; [apply D|]. split; [apply D|].
  repeat split; auto; intros; try discriminate; try contradiction.
Qed.

Lemma dinv_init_oreg c h oreg : DInv c h false oreg -> oreg = None.
Proof.
  intros (_ & Hb & H3). rewrite (Hb eq_refl) in H3. destruct oreg; auto.
  cbn in H3. destruct H3; discriminate.
Qed.


Lemma xmono_refl_fields x x' :
  registered (h1 x') = registered (h1 x) -> oreg2 x' = oreg2 x -> r_closed (h1 x') = r_closed (h1 x) ->
  xmono x x'.
Proof. intros E1 E2 E3. unfold xmono. rewrite E1, E2, E3. auto. Qed.

Lemma xstep_d1_inv a b x : XInv a b x -> XInv a b (xstep_d1 a b x).
Proof.
  intros HX. pose proof HX as (D1 & D2 & S1 & S2 & S3 & S4 & S5). unfold xstep_d1.
  destruct (short1 x) eqn:Es; [exact HX|].
  destruct (beg1 x) eqn:Eb.
  - destruct (dinv_dial _ _ _ D1) as (D1' & Er & Ec & Eo & Ei).
    destruct (dial_step (c12 a b) (h1 x) (oreg1 x)) as (h, o) eqn:Ed. cbn [fst snd] in *.
    unfold XInv; xsimp. split; [exact D1'|]. split; [exact D2|].
    split; [intros Hn; exfalso; apply Hn; reflexivity|]. split; [exact S2|].
    split; [intros id Hid; discriminate|]. split.
    + intros Hn. right. destruct (S4 Hn) as [Hs|(id & Hid)]; [congruence|]. exists id. auto.
    + eapply xw_transport; [|exact S5]. apply xmono_refl_fields; xsimp; auto.
  - pose proof (dinv_init_oreg _ _ _ D1) as Eo.
    destruct (regAB x) as [i|] eqn:Ea.
    + unfold XInv; xsimp. split; [exact D1|]. split; [exact D2|].
      split; [reflexivity|]. split; [exact S2|]. split; [|split].
      * intros id [= <-]. unfold regAB, first_some in Ea. rewrite Eo in Ea.
        destruct (registered (h2 x)); congruence.
      * intros _. left. discriminate.
      * eapply xw_transport; [|exact S5]. apply xmono_refl_fields; xsimp; auto.
    + unfold XInv; xsimp. split.
      { destruct D1 as (I1 & _ & O1). split; [exact I1|]. split; [discriminate|exact O1]. }
      split; [exact D2|]. split; [intros Hn; exfalso; apply Hn; reflexivity|]. split; [exact S2|].
      split; [intros id Hid; discriminate|]. split.
      * intros Hn. destruct (S4 Hn) as [Hs|Hs]; [congruence|right; exact Hs].
      * eapply xw_transport; [|exact S5]. apply xmono_refl_fields; xsimp; auto.
Qed.

Lemma xstep_d2_inv a b x : XInv a b x -> XInv a b (xstep_d2 a b x).
Proof.
  intros HX. pose proof HX as (D1 & D2 & S1 & S2 & S3 & S4 & S5). unfold xstep_d2.
  destruct (short2 x) eqn:Es; [exact HX|].
  destruct (beg2 x) eqn:Eb.
  - destruct (dinv_dial _ _ _ D2) as (D2' & Er & Ec & Eo & Ei).
    destruct (dial_step (c21 a b) (h2 x) (oreg2 x)) as (h, o) eqn:Ed. cbn [fst snd] in *.
    unfold XInv; xsimp. split; [exact D1|]. split; [exact D2'|].
    split; [exact S1|]. split; [intros Hn; exfalso; apply Hn; reflexivity|].
    split; [intros id Hid; rewrite Er; auto|]. split; [exact S4|].
    eapply xw_transport; [|exact S5]. unfold xmono; xsimp. auto.
  - destruct (regBA x) as [i|] eqn:Ea.
    + unfold XInv; xsimp. split; [exact D1|]. split; [exact D2|].
      split; [exact S1|]. split; [reflexivity|]. split; [exact S3|]. split; [exact S4|].
      eapply xw_transport; [|exact S5]. apply xmono_refl_fields; xsimp; auto.
    + unfold XInv; xsimp. split; [exact D1|]. split.
      { destruct D2 as (I2 & _ & O2). split; [exact I2|]. split; [discriminate|exact O2]. }
      split; [exact S1|]. split; [intros Hn; exfalso; apply Hn; reflexivity|].
      split; [exact S3|]. split; [exact S4|].
      eapply xw_transport; [|exact S5]. apply xmono_refl_fields; xsimp; auto.
Qed.

Lemma xstep_w1_ok a b x s :
  XInv a b x -> sA x <> [] -> xw_inv x s -> xw_inv x (xstep_w1 x s).
Proof.
  intros (D1 & D2 & S1 & S2 & S3 & S4 & S5) Hn Hs.
  destruct s; cbn [xstep_w1]; auto.
  - destruct (regBA x) as [i|] eqn:Er; cbn; auto.
    unfold regBA, first_some in Er. destruct (registered (h1 x)); [left|right]; congruence.
  - destruct (Nat.eqb (markB x) 0) eqn:E0; cbn; auto.
    apply Nat.eqb_eq in E0. unfold markB in E0.
    assert (Ei : inflight (h1 x) = 0%nat) by lia.
    assert (Ex : xout (beg2 x) (h2 x) = 0%nat) by lia.
    destruct (S4 Hn) as [Hsh|(id & Hid)].
    + destruct (short1 x) as [i|] eqn:Es; [|congruence].
      pose proof (S3 _ eq_refl) as Ereg.
      destruct D2 as (I2 & B2 & O2).
      destruct (registered_ipc _ _ _ I2 Ereg) as (j & Hj).
      destruct (beg2 x) eqn:Eb.
      * unfold xout in Ex. destruct Hj as [Hj|Hj]; rewrite Hj in Ex; [discriminate|].
        left. unfold regBA, first_some. destruct (registered (h1 x)); [discriminate|].
        destruct (oreg2 x); [discriminate|]. exfalso. apply (O2 j). exact Hj.
      * rewrite (B2 eq_refl) in Ereg. discriminate.
    + destruct D1 as (I1 & _ & _). pose proof I1 as (Hi & (Hr & _) & _).
      destruct (open_facts _ _ _ Hi Hid) as (_ & _ & H2).
      destruct (rpc (h1 x)); unfold quiet in Hr; dest; try lia.
      * rewrite H in H2. discriminate.
      * destruct H0 as [(id' & R1 & _)|(_ & B & _)]; [left|right; exact B].
        unfold regBA, first_some. rewrite R1. discriminate.
  - cbn in Hs. destruct (regBA x) as [i|] eqn:Er; cbn.
    + unfold regBA, first_some in Er. destruct (registered (h1 x)); [left|right]; congruence.
    + destruct Hs as [Hs|Hs]; [congruence|exact Hs].
Qed.

Theorem xstep_inv a b x e : XInv a b x -> XInv a b (xstep a b x e).
Proof.
  intros HX. pose proof HX as (D1 & D2 & S1 & S2 & S3 & S4 & S5).
  destruct e as [| | | | |k]; cbn [xstep].
  - apply xstep_d1_inv; auto.
  - apply xstep_d2_inv; auto.
  - destruct (beg1 x) eqn:Eb; [|exact HX].
    destruct (dinv_r _ _ _ D1) as (D1' & Mr & Mc & Ei).
    unfold XInv; xsimp. split; [exact D1'|]. split; [exact D2|].
    split; [intros Hn; apply S1 in Hn; congruence|]. split; [exact S2|]. split; [exact S3|]. split.
    + intros Hn. destruct (S4 Hn) as [Hs|(id & Hid)]; [left; exact Hs|right; exists id; congruence].
    + eapply xw_transport; [|exact S5]. unfold xmono; xsimp. auto.
  - destruct (beg2 x) eqn:Eb; [|exact HX].
    destruct (dinv_r _ _ _ D2) as (D2' & Mr & Mc & Ei).
    unfold XInv; xsimp. split; [exact D1|]. split; [exact D2'|].
    split; [exact S1|]. split; [intros Hn; apply S2 in Hn; congruence|].
    split; [intros id Hid; apply Mr; auto|]. split; [exact S4|].
    eapply xw_transport; [|exact S5]. apply xmono_refl_fields; xsimp; auto.
  - destruct (ret1 x) as [i|] eqn:Er; [|exact HX].
    unfold XInv; xsimp. split; [exact D1|]. split; [exact D2|]. split; [exact S1|]. split; [exact S2|].
    split; [exact S3|]. split.
    + intros _. unfold ret1 in Er. destruct (short1 x) eqn:Es; [left; discriminate|right].
      exists i. destruct D1 as ((Hi & _) & _). apply (returned_open (c12 a b)); auto.
    + apply Forall_app; split.
      * eapply xw_transport; [|exact S5]. apply xmono_refl_fields; xsimp; auto.
      * constructor; [cbn; auto|constructor].
  - unfold XInv; xsimp. split; [exact D1|]. split; [exact D2|]. split; [exact S1|]. split; [exact S2|].
    split; [exact S3|]. split.
    + intros Hn. apply S4. eapply upd_nil_inv; eauto.
    + destruct (sA x) eqn:Ew; [destruct k; constructor|].
      assert (Hne : sA x <> []) by congruence. rewrite <- Ew.
      eapply (xw_transport x); [apply xmono_refl_fields; xsimp; auto|].
      apply upd_Forall; [|rewrite Ew; exact S5].
      intros s Hs. apply (xstep_w1_ok a b); auto.
Qed.

Theorem xrun_inv a b sched : XInv a b (xrun a b sched).
Proof.
  unfold xrun, xrun_from. generalize (xinv_init a b). generalize xinit.
  induction sched as [|e l IH]; intros x H; cbn; auto. apply IH. apply xstep_inv. exact H.
Qed.

(* C20 for the cross dial: for every interleaving of the two Connects, the two handlers, A's
   stream opens and B's wrappers -- once A's Connect(B) has reported success (after its own
   handshake or through the shortcut), it named B's proven identity, and no stream A opened is
   reset by B as coming from an unknown peer; what reached B's handlers carries A's proven
   identity.  Premise as in the one-directional theorem: B's key signer is consistent with B's own
   network identity (otherwise B refuses handshake 1 after A's Connect succeeded). *)
Theorem usable_cross a b sched id :
  self_consistent b ->
  ret1 (xrun a b sched) = Some id ->
  (id = proven_ident b /\ sig_addr b = Some (pid_addr b)) /\
  Forall (fun s => s <> WUnknown /\ s <> WTorn /\
                   forall j, s = WHandled j -> j = proven_ident a /\ sig_addr a = Some (pid_addr a))
         (sA (xrun a b sched)).
Proof.
  intros Hc Er. pose proof (xrun_inv a b sched) as (D1 & D2 & S1 & S2 & S3 & S4 & S5).
  set (x := xrun a b sched) in *.
  destruct D1 as (I1 & B1 & O1). destruct D2 as (I2 & B2 & O2).
  assert (Hcl : r_closed (h1 x) = false).
  { destruct (r_closed (h1 x)) eqn:Ecl; auto. exfalso.
    unfold ret1 in Er. destruct (short1 x) as [i|] eqn:Es.
    - assert (Eb : beg1 x = false) by (apply S1; congruence).
      rewrite (B1 Eb) in Ecl. discriminate.
    - pose proof I1 as (Hi & _). pose proof (returned_open _ _ _ Hi Er) as Eo.
      apply (no_reason (c12 a b) (h1 x) id I1 Hc Eo). apply closed_reason; auto. }
  split.
  - unfold ret1 in Er. destruct (short1 x) as [i|] eqn:Es.
    + injection Er as <-. pose proof (registered_vI _ _ _ I2 (S3 _ eq_refl)) as V.
      apply verify_req_self in V. cbn in V. tauto.
    + destruct (returned_identity (c12 a b) (h1 x) id I1 Er) as (E1 & E2). auto.
  - eapply Forall_impl; [|exact S5]. intros s Hs.
    destruct s as [| | |j0| |]; cbn in Hs; try contradiction; try congruence;
      (split; [discriminate|]; split; [discriminate|]); intros j Ej; try discriminate.
    injection Ej as <-. destruct Hs as [Hs|Hs].
    + pose proof (registered_vI _ _ _ I1 Hs) as V. apply verify_req_self in V. cbn in V. tauto.
    + rewrite Hs in O2. destruct I2 as ((Hi & _) & _).
      destruct O2 as [O2|O2]; rewrite O2 in Hi; dest;
        match goal with V : vR _ _ |- _ => apply verify_req_self in V; cbn in V; tauto end.
Qed.

(* both nodes dial; B is held before it verifies A's final message and before its own addPeer;
   A opens two streams: they wait; then everything finishes *)
Example usable_cross_nonvacuous :
  ret1 (xrun ex_ini ex_rsp x_hs) = Some (proven_ident ex_rsp) /\
  sA (xrun ex_ini ex_rsp (x_hs ++ [XO; XO; XW 0; XW 1; XW 0; XW 1])) = [WWait; WWait] /\
  markB (xrun ex_ini ex_rsp x_hs) = 2%nat /\ regBA (xrun ex_ini ex_rsp x_hs) = None /\
  sA (xrun ex_ini ex_rsp (x_hs ++ [XO; XO; XW 0; XW 1] ++ [XD2; XD2; XD2] ++ repeat XR1 3 ++
                          [XW 0; XW 0; XW 1; XW 1])) =
  [WHandled (proven_ident ex_ini); WHandled (proven_ident ex_ini)] /\
  (* the shortcut: B's handshake alone, then A's Connect *)
  short1 (xrun ex_ini ex_rsp ([XD2; XD2] ++ repeat XR2 5 ++ repeat XD2 5 ++ repeat XR2 4 ++ [XD1])) =
  Some (proven_ident ex_rsp) /\
  sA (xrun ex_ini ex_rsp (x_full 2)) = [WHandled (proven_ident ex_ini); WHandled (proven_ident ex_ini)].
Proof. repeat split; vm_compute; reflexivity. Qed.

Lemma C20_cross_stmt : forall (a b : node) (sched : list xwho) (id : ident),
  ks_addr b = pid_addr b ->
  ret1 (xrun a b sched) = Some id ->
  (id = (pid_addr b, ptype b) /\ sig_addr b = Some (pid_addr b)) /\
  Forall (fun s => s <> WUnknown /\ s <> WTorn /\
                   forall j, s = WHandled j ->
                             j = (pid_addr a, ptype a) /\ sig_addr a = Some (pid_addr a))
         (sA (xrun a b sched)).
Proof. exact usable_cross. Qed.

(* ---- another connection of the same peer closing is invisible ------------------------------------ *)
Lemma conn_close_other_inert v c s1 s2 :
  run v c (s1 ++ ConnCloseOther :: s2) = run v c (s1 ++ s2).
Proof. rewrite !run_app. reflexivity. Qed.

Example conn_close_other_example :
  wr (run Current ex_cfg (sched_before_env true 1)) = [WWait] /\
  inflight (run Current ex_cfg (sched_before_env true 1)) = 1%nat /\
  wr (run Current ex_cfg (sched_open_before_release_env true 1)) = [WHandled (proven_ident ex_ini)].
Proof. repeat split; vm_compute; reflexivity. Qed.

(* ---- the statements of Properties/C20.v, spelled out without auxiliary vocabulary -------------- *)
Lemma good_stream_spelled c s :
  good_stream c s ->
  s <> WUnknown /\ s <> WTorn /\
  forall j, s = WHandled j ->
            j = (pid_addr (ini c), ptype (ini c)) /\ sig_addr (ini c) = Some (pid_addr (ini c)).
Proof.
  intros (H1 & H2). split; [intros ->; discriminate|]. split; [intros ->; discriminate|].
  intros j Hj. apply H2 in Hj. exact Hj.
Qed.

Lemma C20_usable_stmt : forall (c : cfg) (sched : list who) (id : ident),
  ks_addr (rsp c) = pid_addr (rsp c) ->
  returned (run deployed c sched) = Some id ->
  id = (pid_addr (rsp c), ptype (rsp c)) /\
  Forall (fun s => s <> WUnknown /\ s <> WTorn /\
                   forall j, s = WHandled j ->
                             j = (pid_addr (ini c), ptype (ini c)) /\
                             sig_addr (ini c) = Some (pid_addr (ini c)))
         (wr (run deployed c sched)).
Proof.
  intros c sched id Hc E. destruct (usable_deployed c sched id Hc E) as (H1 & H2). split; auto.
  eapply Forall_impl; [|exact H2]. intros s. apply good_stream_spelled.
Qed.

Lemma C20_usable_many_stmt : forall (cs : list cfg) (sched : list (nat * who)),
  Forall (fun cw : cfg * world =>
            let (c, w) := cw in
            ks_addr (rsp c) = pid_addr (rsp c) ->
            forall id, returned w = Some id ->
              Forall (fun s => s <> WUnknown /\ s <> WTorn /\
                               forall j, s = WHandled j ->
                                         j = (pid_addr (ini c), ptype (ini c)) /\
                                         sig_addr (ini c) = Some (pid_addr (ini c)))
                     (wr w))
         (sys_run deployed cs sched).
Proof.
  intros cs sched. eapply Forall_impl; [|apply usable_many].
  intros (c & w) H Hc id E. cbn in *. destruct (H Hc id E) as (_ & H2).
  eapply Forall_impl; [|exact H2]. intros s. apply good_stream_spelled.
Qed.

Lemma C20_v0_refuted_stmt :
  exists (c : cfg) (sched : list who) (id : ident),
    (sig_addr (ini c) = Some (pid_addr (ini c)) /\ ks_addr (ini c) = pid_addr (ini c)) /\
    (sig_addr (rsp c) = Some (pid_addr (rsp c)) /\ ks_addr (rsp c) = pid_addr (rsp c)) /\
    returned (run V0 c sched) = Some id /\
    registered (run V0 c sched) = Some (pid_addr (ini c), ptype (ini c)) /\
    nth_error (wr (run V0 c sched)) 0 = Some WUnknown.
Proof. exact usable_v0_refuted. Qed.

Lemma C20_refusing_responder_stmt : forall (c : cfg) (sched : list who) (id : ident),
  ks_addr (rsp c) <> pid_addr (rsp c) ->
  returned (run deployed c sched) = Some id ->
  registered (run deployed c sched) = None /\
  Forall (fun s => forall j, s <> WHandled j) (wr (run deployed c sched)).
Proof. exact inconsistent_responder_refuses_deployed. Qed.


Lemma C20_no_marker_stmt : forall (c : cfg) (sched : list who),
  rpc (run deployed c sched) = RDone ->
  inflight (run deployed c sched) = 0%nat /\
  (r_closed (run deployed c sched) = true -> registered (run deployed c sched) = None).
Proof. rewrite deployed_current. exact refused_leaves_no_marker. Qed.

Lemma C20_after_earlier_attempt_stmt : forall (c1 c2 : cfg) (s1 s2 : list who) (id : ident),
  rpc (run deployed c1 s1) = RDone ->
  ks_addr (rsp c2) = pid_addr (rsp c2) ->
  let w0 := forget_registration (next_attempt (run deployed c1 s1)) in
  returned (run_from deployed c2 w0 s2) = Some id ->
  id = (pid_addr (rsp c2), ptype (rsp c2)) /\
  Forall (fun s => s <> WUnknown /\ s <> WTorn /\
                   forall j, s = WHandled j ->
                             j = (pid_addr (ini c2), ptype (ini c2)) /\
                             sig_addr (ini c2) = Some (pid_addr (ini c2)))
         (wr (run_from deployed c2 w0 s2)) /\
  forall k, (k < length (wr (run_from deployed c2 w0 s2)))%nat ->
    nth_error (wr (run_from deployed c2 w0 (s2 ++ repeat R 5 ++ [W k; W k; W k]))) k =
    Some (WHandled (pid_addr (ini c2), ptype (ini c2))).
Proof.
  rewrite deployed_current. intros c1 c2 s1 s2 id Ed Hc w0 E.
  assert (H0 : Inv c2 w0) by (apply (next_attempt_inv c1); auto; apply run_inv).
  destruct (usable_from c2 w0 s2 id H0 Hc E) as (H1 & H2). split; auto. split.
  - eapply Forall_impl; [|exact H2]. intros s. apply good_stream_spelled.
  - intros k Hk. apply handled_eventually_from; auto.
Qed.

Lemma forget_registration_id w : registered w = None -> forget_registration w = w.
Proof. destruct w; cbn. intros ->. reflexivity. Qed.

Lemma C20_mutual_stmt : forall (c : cfg) (sched : list mwho) (id : ident),
  a_ret (mrun ob_deployed c sched) = Some id ->
  (id = (pid_addr (ini c), ptype (ini c)) /\ sig_addr (ini c) = Some (pid_addr (ini c))) /\
  Forall (fun s => s <> WUnknown /\ s <> WTorn /\
                   forall j, s = WHandled j ->
                             j = (pid_addr (rsp c), ptype (rsp c)) /\
                             sig_addr (rsp c) = Some (pid_addr (rsp c)))
         (bw (mrun ob_deployed c sched)).
Proof. rewrite ob_deployed_true. exact usable_mutual. Qed.

Lemma C20_mutual_eventually_stmt : forall (c : cfg) (sched : list mwho) (k : nat),
  (k < length (bw (mrun ob_deployed c sched)))%nat ->
  nth_error (bw (mrun ob_deployed c (sched ++ [MB; MB] ++ [MBW k; MBW k; MBW k]))) k =
  Some (WHandled (pid_addr (rsp c), ptype (rsp c))).
Proof. rewrite ob_deployed_true. exact mutual_handled_eventually. Qed.

Lemma C20_mutual_v1_refuted_stmt :
  exists (c : cfg) (sched : list mwho) (id : ident),
    (sig_addr (ini c) = Some (pid_addr (ini c)) /\ ks_addr (ini c) = pid_addr (ini c)) /\
    (sig_addr (rsp c) = Some (pid_addr (rsp c)) /\ ks_addr (rsp c) = pid_addr (rsp c)) /\
    a_ret (mrun false c sched) = Some id /\
    b_reg (mrun false c (sched ++ [MB; MB])) = Some (pid_addr (rsp c), ptype (rsp c)) /\
    nth_error (bw (mrun false c sched)) 0 = Some WUnknown.
Proof. exact usable_mutual_v1_refuted. Qed.

(* ---- the boolean checker of check/Check_C20.v reflects the theorem ----------------------------- *)
Lemma unle_inj : forall a b : bytes,
  length a = length b -> wf_bytes a -> wf_bytes b -> unle a = unle b -> a = b.
Proof.
  induction a as [|x a IH]; intros [|y b] Hl Ha Hb E; cbn [unle length] in *; try discriminate; auto.
  inversion Ha as [|? ? Hx Ha']; inversion Hb as [|? ? Hy Hb']; subst.
  cbv beta in *. assert (x = y /\ unle a = unle b) as (-> & E') by lia.
  f_equal. apply IH; auto.
Qed.

Lemma unbe_inj (a b : bytes) :
  length a = length b -> wf_bytes a -> wf_bytes b -> unbe a = unbe b -> a = b.
Proof.
  unfold unbe. intros Hl Ha Hb E.
  assert (rev a = rev b).
  { apply unle_inj; auto.
    - rewrite !rev_length; auto.
    - unfold wf_bytes in *. apply Forall_rev; auto.
    - unfold wf_bytes in *. apply Forall_rev; auto. }
  rewrite <- (rev_involutive a), <- (rev_involutive b). congruence.
Qed.

Definition addr_shape (b : bytes) : Prop := length b = 20%nat /\ wf_bytes b.
Definition obs_shape (o : sres) : Prop :=
  match o with SHandled b _ => addr_shape b | _ => True end.

Lemma fold_violation_none c l :
  Forall (fun o => stream_violation c o = None) l ->
  fold_left (fun acc o => match acc with Some k => Some k | None => stream_violation c o end) l None = None.
Proof.
  induction l as [|o l IH]; intros H; cbn; auto. inversion H; subst.
  rewrite H2. apply IH; auto.
Qed.

Lemma start_of_inv c1 c2 p w1 w0 : Inv c1 w1 -> start_of p w1 = Some w0 -> Inv c2 w0.
Proof.
  intros HI1 Es. unfold start_of in Es.
  destruct (p =? 0); [injection Es as <-; apply inv_init|].
  assert (Hd : is_done (rpc w1) = true -> rpc w1 = RDone).
  { destruct (rpc w1); cbn; congruence. }
  destruct (p =? 1).
  - destruct (is_done (rpc w1)) eqn:Ed; cbn [andb] in Es; [|discriminate].
    destruct (registered w1) eqn:Er; cbn [andb negb is_some] in Es; [discriminate|].
    destruct (returned w1); cbn [andb negb is_some] in Es; [discriminate|]. injection Es as <-.
    apply (next_attempt_inv_refused c1); auto.
  - destruct (is_done (rpc w1)) eqn:Ed; cbn [andb] in Es; [|discriminate].
    destruct (is_some (registered w1) && is_some (returned w1)); [|discriminate]. injection Es as <-.
    apply (next_attempt_inv c1); auto.
Qed.

Lemma start_world_inv (c : case) w0 : start_world c = Some w0 -> Inv (cfg_of c) w0.
Proof.
  unfold start_world, prior_world. rewrite deployed_current.
  apply (start_of_inv (prior_cfg c)). apply run_inv.
Qed.

(* If an observation is one the model produces under some schedule that has run every opened
   stream to its end, and it lies in the claim (Connect succeeded, responder self-consistent),
   then the checker finds no violation in it: what the checker demands of the implementation
   is what C20_usable proves of the model. *)
Theorem checker_reflects (c : case) (sched : list who) :
  (klass c =? 3) = false ->
  in_claim c = true ->
  explains c sched = true ->
  (forall w0, start_world c = Some w0 ->
              forallb finished (wr (run_from deployed (cfg_of c) w0 sched)) = true) ->
  addr_shape (i_addr c) -> Forall obs_shape (outcomes c) ->
  violation c = None.
Proof.
  unfold explains, violation, in_claim. intros Hk Hc He Hf Hi Ho.
  rewrite Hc. apply andb_prop in Hc. destruct Hc as (Hok & Hks).
  rewrite Hk, orb_false_r in Hks.
  destruct (start_world c) as [w0|] eqn:Es; [|discriminate].
  specialize (Hf w0 eq_refl).
  pose proof (start_world_inv c w0 Es) as H0.
  apply andb_prop in He. destruct He as (He & _). apply andb_prop in He. destruct He as (Hret & Hall).
  rewrite deployed_current in *.
  set (w := run_from Current (cfg_of c) w0 sched) in *.
  assert (Hcons : ks_addr (rsp (cfg_of c)) = pid_addr (rsp (cfg_of c))).
  { unfold cfg_of; cbn. rewrite Hks. reflexivity. }
  assert (Hr : exists id, returned w = Some id).
  { unfold ret_agrees in Hret. destruct (returned w) as [id|]; eauto.
    rewrite Hok in Hret. discriminate. }
  destruct Hr as (id & Hr).
  destruct (usable_from (cfg_of c) w0 sched id H0 Hcons Hr) as (_ & Hg'). fold w in Hg'.
  assert (Hg : Forall (fun s => s <> WUnknown /\ s <> WTorn /\
                   forall j, s = WHandled j ->
                             j = (pid_addr (ini (cfg_of c)), ptype (ini (cfg_of c))) /\
                             sig_addr (ini (cfg_of c)) = Some (pid_addr (ini (cfg_of c)))) (wr w)).
  { eapply Forall_impl; [|exact Hg']. intros s. apply good_stream_spelled. }
  clear Hg'.
  apply fold_violation_none.
  revert Hall Hf Hg Ho. generalize (wr w) as l. generalize (outcomes c) as m.
  induction m as [|o m IH]; intros [|s l] Hall Hf Hg Ho; cbn in *; try discriminate; constructor.
  - apply andb_prop in Hall. destruct Hall as (Hs & _).
    apply andb_prop in Hf. destruct Hf as (Hfin & _).
    inversion Hg as [|? ? (G1 & G2 & G3) _]; subst. inversion Ho as [|? ? Hsh _]; subst.
    destruct s as [| | |(a, t)| |]; cbn in Hfin; try discriminate; try congruence.
    destruct o as [b t'| |]; cbn in Hs; try discriminate.
    apply andb_prop in Hs. destruct Hs as (Ea & Et).
    apply N.eqb_eq in Ea. apply N.eqb_eq in Et. subst.
    destruct (G3 _ eq_refl) as (Ej & _). unfold cfg_of in Ej; cbn in Ej.
    injection Ej as Ea Et. cbn. unfold expected_addr, expected_type. rewrite Hk, Et, N.eqb_refl.
    destruct Hi as (Hl1 & Hw1). destruct Hsh as (Hl2 & Hw2).
    assert (b = i_addr c) as -> by (apply unbe_inj; auto; congruence).
    rewrite bytes_eqb_refl. reflexivity.
  - apply andb_prop in Hall. apply andb_prop in Hf.
    inversion Hg; subst. inversion Ho; subst. apply (IH l); tauto.
Qed.

Definition ex_case (o : list sres) (e : N) : case :=
  {| id := 0; klass := 0; nstreams := 1; ninit := 1;
     i_addr := x "1954c423a424456a2b2b319270f81eea62ecda3e"; i_type := 2; i_staked := true;
     r_addr := x "3a1f92eeedde6b66f1424b553339f32fd4afd177"; r_type := 1; r_staked := true;
     r_ks_ok := true; prior := 0; prior_ok := false; conn_close_other := false; connect_ok := true;
     ret_addr := x "3a1f92eeedde6b66f1424b553339f32fd4afd177"; ret_type := 1;
     early := e; reg_at_gate := false; outcomes := o; ga := 1 |}.

(* an observation of the current code and one of the code before the repair *)
Example checker_examples :
  let good := ex_case [SHandled (x "1954c423a424456a2b2b319270f81eea62ecda3e") 2] 0 in
  let bad := ex_case [SRefused] 1 in
  explains good (sched_open_before_release 1) = true /\ violation good = None /\
  mismatches [good] = [] /\
  violation bad = Some (String.append "reset-after-" "connect") /\ mismatches [bad] = [0].
Proof. repeat split; vm_compute; reflexivity. Qed.
