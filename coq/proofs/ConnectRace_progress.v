(* Progress of the cross-dial world of model/ConnectRace.v (property C20): a step count of the two
   Connects and the two handlers that every enabled step lowers, persistence of enabledness,
   absence of deadlock, and the bound for schedules that begin with enough rounds. *)
From Coq Require Import List NArith Bool Arith Lia.
From MevVerif Require Import lib.Bytes proofs.Bytes_proofs gen.Generated model.ConnectRace
  check.Check_C20 proofs.ConnectRace_proofs.
Import ListNotations.
Open Scope nat_scope.

(* ---- the step counts ------------------------------------------------------------------------------- *)
Definition dm (p : ipc_t) (o : option ident) : nat :=
  match p with
  | IWriteReq => 8 | IReadResp => 7 | IVerifyResp _ => 6 | IReadReq => 5 | IVerifyReq _ => 4
  | IWriteFinal _ => 3
  | IReturn _ => match o with None => 2 | Some _ => 1 end
  | IOpen _ | IFailed => 0
  end.
Definition rm (p : rpc_t) : nat :=
  match p with
  | RBegin => 10 | RReadReq => 9 | RVerifyReq _ => 8 | RWriteResp _ => 7 | RWriteReq _ => 6
  | RReadFinal _ => 5 | RVerifyFinal _ _ => 4 | RRegister _ => 3 | RRefuse => 2 | REnd => 1
  | RDone => 0
  end.
Definition hm (beg : bool) (short oreg : option ident) (h : world) : nat :=
  match beg, short with
  | true, None => dm (ipc h) oreg + rm (rpc h)
  | true, Some _ => rm (rpc h)
  | false, None => 20
  | false, Some _ => 0
  end.
Definition mu4 (x : xworld) : nat :=
  hm (beg1 x) (short1 x) (oreg1 x) (h1 x) + hm (beg2 x) (short2 x) (oreg2 x) (h2 x).
Definition wm (s : wstate) : nat :=
  match s with WNew => 3 | WWait => 2 | WLook2 => 1 | _ => 0 end.
Definition wsum (l : list wstate) : nat := list_sum (map wm l).

Lemma mu4_init : mu4 xinit = x_rounds. Proof. reflexivity. Qed.
Lemma mu4_erase x : mu4 (xerase x) = mu4 x. Proof. reflexivity. Qed.

Lemma dm_le p o : dm p o <= 8. Proof. destruct p; cbn; try lia. destruct o; lia. Qed.
Lemma rm_le p : rm p <= 10. Proof. destruct p; cbn; lia. Qed.

(* ---- one handshake: an enabled step lowers the count, a disabled one changes nothing ------------------- *)
Lemma dial_can c h o :
  ican h = true ->
  dm (ipc (fst (dial_step c h o))) (snd (dial_step c h o)) + rm (rpc (fst (dial_step c h o)))
  < dm (ipc h) o + rm (rpc h).
Proof.
  unfold ican, dial_step, step_i. intros Hc.
  destruct (ipc h) eqn:Ep; try discriminate;
    repeat match goal with
           | |- context [match ?x with _ => _ end] => destruct x eqn:?
           end; cbn [fst snd]; simp; try rewrite Ep; cbn [dm]; try lia; try congruence;
    try (destruct o; cbn [dm]; lia).
Qed.

Lemma dial_cannot c h o :
  ican h = false ->
  set_wr [] (fst (dial_step c h o)) = set_wr [] h /\ snd (dial_step c h o) = o.
Proof.
  unfold ican, dial_step, step_i. intros Hc.
  destruct (ipc h) eqn:Ep; try discriminate;
    repeat match goal with
           | H : context [match ?x with _ => _ end] |- _ => destruct x eqn:?
           end; try discriminate; cbn [fst snd]; try rewrite Hc; auto.
Qed.

Definition rcan1 (h : world) : bool := rcan true h.

Lemma r_can c h : rcan true h = true -> rm (rpc (step_r Current c h)) < rm (rpc h).
Proof.
  unfold rcan, step_r. cbn [andb]. intros Hc.
  destruct (rpc h) eqn:Ep; try discriminate;
    repeat match goal with
           | |- context [match ?x with _ => _ end] => destruct x eqn:?
           end; simp; cbn [rm]; try lia; try congruence.
Qed.

Lemma r_cannot c h : rcan true h = false -> step_r Current c h = h.
Proof.
  unfold rcan, step_r. cbn [andb]. intros Hc.
  destruct (rpc h) eqn:Ep; try discriminate;
    repeat match goal with
           | H : context [match ?x with _ => _ end] |- _ => destruct x eqn:?
           end; try discriminate; try rewrite Hc; auto.
Qed.

Lemma step_r_ipc c h : ipc (step_r Current c h) = ipc h.
Proof. pose proof (step_r_frame Current c h) as F. cbv zeta in F. tauto. Qed.

Lemma step_i_rpc c h : rpc (step_i c h) = rpc h.
Proof. pose proof (step_i_frame c h) as F. cbv zeta in F. tauto. Qed.

Lemma step_i_closed c h : i_closed h = true -> i_closed (step_i c h) = true.
Proof.
  unfold step_i. intros E.
  destruct (ipc h);
    repeat match goal with
           | |- context [match ?x with _ => _ end] => destruct x eqn:?
           end; simp; auto.
Qed.

Lemma step_i_r_rd c h : r_rd (step_i c h) = r_rd h.
Proof. pose proof (step_i_frame c h) as F. cbv zeta in F. tauto. Qed.

Lemma step_r_i_rd c h : i_rd (step_r Current c h) = i_rd h.
Proof. pose proof (step_r_frame Current c h) as F. cbv zeta in F. tauto. Qed.

(* enabledness persists across the steps of the other side of the same handshake *)
Lemma ican_r c h : ican h = true -> ican (step_r Current c h) = true.
Proof.
  unfold ican. rewrite step_r_ipc, step_r_i_rd. intros Hc.
  pose proof (step_r_frame Current c h) as F. cbv zeta in F. destruct F as (_ & _ & _ & _ & _ & _ & Fn).
  destruct (ipc h); auto;
    (destruct (nth_error (r2i h) (i_rd h)) eqn:En;
     [rewrite (Fn _ _ En); reflexivity|
      destruct (nth_error (r2i (step_r Current c h)) (i_rd h)); auto;
      apply (r_closed_stable c h R); exact Hc]).
Qed.

Lemma rcan_i c h : rcan true h = true -> rcan true (step_i c h) = true.
Proof.
  unfold rcan. cbn [andb]. rewrite step_i_rpc, step_i_r_rd. intros Hc.
  pose proof (step_i_frame c h) as F. cbv zeta in F.
  destruct F as (_ & _ & _ & _ & _ & _ & _ & _ & Fn).
  destruct (rpc h); auto;
    (destruct (nth_error (i2r h) (r_rd h)) eqn:En;
     [rewrite (Fn _ _ En); reflexivity|
      destruct (nth_error (i2r (step_i c h)) (r_rd h)); auto;
      apply step_i_closed; exact Hc]).
Qed.

Lemma rcan_dial c h o : rcan true h = true -> rcan true (fst (dial_step c h o)) = true.
Proof.
  intros Hc. unfold dial_step. destruct (ipc h); try (cbn [fst]; apply rcan_i; exact Hc).
  destruct o; cbn [fst]; [apply rcan_i|]; exact Hc.
Qed.

(* ---- the cross world ------------------------------------------------------------------------------ *)
Definition xmain (e : xwho) : Prop := e = XD1 \/ e = XD2 \/ e = XR1 \/ e = XR2.

Lemma xwho_eq_dec (e e' : xwho) : {e = e'} + {e <> e'}.
Proof. decide equality. apply Nat.eq_dec. Qed.

Ltac xs := cbn [h1 h2 beg1 beg2 oreg1 oreg2 short1 short2 sA xset1 xset2 xset_s hm] in *.

(* an enabled step of a Connect or a handler lowers the count *)
Lemma xcan_lower a b x e : xmain e -> xcan x e = true -> mu4 (xstep a b x e) < mu4 x.
Proof.
  intros [-> | [-> | [-> | ->]]]; cbn [xcan xstep]; unfold mu4.
  - unfold dcan, xstep_d1. destruct (short1 x) eqn:Es; [discriminate|].
    destruct (beg1 x) eqn:Eb.
    + intros Hc. pose proof (dial_can (c12 a b) (h1 x) (oreg1 x) Hc) as L.
      destruct (dial_step (c12 a b) (h1 x) (oreg1 x)) as (h, o). cbn [fst snd] in L. xs. lia.
    + intros _. destruct (regAB x); xs; [lia|].
      pose proof (dm_le (ipc (h1 x)) (oreg1 x)). pose proof (rm_le (rpc (h1 x))). lia.
  - unfold dcan, xstep_d2. destruct (short2 x) eqn:Es; [discriminate|].
    destruct (beg2 x) eqn:Eb.
    + intros Hc. pose proof (dial_can (c21 a b) (h2 x) (oreg2 x) Hc) as L.
      destruct (dial_step (c21 a b) (h2 x) (oreg2 x)) as (h, o). cbn [fst snd] in L. xs. lia.
    + intros _. destruct (regBA x); xs; [lia|].
      pose proof (dm_le (ipc (h2 x)) (oreg2 x)). pose proof (rm_le (rpc (h2 x))). lia.
  - destruct (beg1 x) eqn:Eb; [|discriminate]. intros Hc.
    pose proof (r_can (c12 a b) (h1 x) Hc) as L. xs. rewrite step_r_ipc.
    destruct (short1 x); lia.
  - destruct (beg2 x) eqn:Eb; [|discriminate]. intros Hc.
    pose proof (r_can (c21 a b) (h2 x) Hc) as L. xs. rewrite step_r_ipc.
    destruct (short2 x); lia.
Qed.

Lemma upd_fix {A : Type} (f : A -> A) l : forall k,
  (forall s, nth_error l k = Some s -> f s = s) -> upd k f l = l.
Proof.
  induction l as [|a l IH]; intros [|k] H; cbn; auto.
  - rewrite (H a eq_refl). reflexivity.
  - rewrite IH; auto.
Qed.

Lemma xerase_eta x : xerase x =
  {| h1 := set_wr [] (h1 x); h2 := set_wr [] (h2 x); beg1 := beg1 x; beg2 := beg2 x;
     oreg1 := oreg1 x; oreg2 := oreg2 x; short1 := short1 x; short2 := short2 x; sA := sA x |}.
Proof. reflexivity. Qed.

(* the step of an actor that is not enabled changes nothing *)
Lemma xcannot_same a b x e : e <> XO -> xcan x e = false -> xerase (xstep a b x e) = xerase x.
Proof.
  intros Hne. destruct e as [| | | | |k]; cbn [xcan xstep]; try congruence.
  - unfold dcan, xstep_d1. destruct (short1 x) eqn:Es; auto.
    destruct (beg1 x) eqn:Eb; [|discriminate]. intros Hc.
    destruct (dial_cannot (c12 a b) (h1 x) (oreg1 x) Hc) as (E1 & E2).
    destruct (dial_step (c12 a b) (h1 x) (oreg1 x)) as (h, o). cbn [fst snd] in *.
    unfold xerase; xs. rewrite E1, E2, Eb, Es. reflexivity.
  - unfold dcan, xstep_d2. destruct (short2 x) eqn:Es; auto.
    destruct (beg2 x) eqn:Eb; [|discriminate]. intros Hc.
    destruct (dial_cannot (c21 a b) (h2 x) (oreg2 x) Hc) as (E1 & E2).
    destruct (dial_step (c21 a b) (h2 x) (oreg2 x)) as (h, o). cbn [fst snd] in *.
    unfold xerase; xs. rewrite E1, E2, Eb, Es. reflexivity.
  - destruct (beg1 x) eqn:Eb; auto. intros Hc. rewrite (r_cannot _ _ Hc).
    unfold xerase; xs. rewrite Eb. reflexivity.
  - destruct (beg2 x) eqn:Eb; auto. intros Hc. rewrite (r_cannot _ _ Hc).
    unfold xerase; xs. rewrite Eb. reflexivity.
  - intros Hc. rewrite upd_fix; [destruct x; reflexivity|].
    intros s Es. rewrite Es in Hc. destruct s; cbn in Hc |- *; try discriminate; auto.
    rewrite Hc. reflexivity.
Qed.

Lemma mu4_XO a b x : mu4 (xstep a b x XO) = mu4 x.
Proof. cbn [xstep]. destruct (ret1 x); reflexivity. Qed.
Lemma mu4_XW a b x k : mu4 (xstep a b x (XW k)) = mu4 x.
Proof. reflexivity. Qed.

Lemma mu4_mono a b x e : mu4 (xstep a b x e) <= mu4 x.
Proof.
  destruct (xwho_eq_dec e XO) as [->|Hne]; [rewrite mu4_XO; lia|].
  destruct (xcan x e) eqn:Ec.
  - destruct e as [| | | | |k]; try congruence;
      try solve [apply Nat.lt_le_incl; apply xcan_lower; unfold xmain; auto].
    rewrite mu4_XW. lia.
  - rewrite <- (mu4_erase (xstep a b x e)), (xcannot_same a b x e Hne Ec), mu4_erase. lia.
Qed.

Lemma mu4_mono_run a b t : forall x, mu4 (xrun_from a b x t) <= mu4 x.
Proof.
  induction t as [|e t IH]; intros x; cbn; [lia|].
  etransitivity; [apply IH|apply mu4_mono].
Qed.

(* enabledness of a Connect or a handler persists until it is scheduled *)
Lemma xcan_persist a b x e e' :
  xmain e -> e' <> e -> xcan x e = true -> xcan (xstep a b x e') e = true.
Proof.
  intros [-> | [-> | [-> | ->]]] Hne Hc; cbn [xcan] in *;
    destruct e' as [| | | | |k]; try congruence; cbn [xstep];
    try (destruct (ret1 x); exact Hc); try exact Hc.
  - unfold xstep_d2. destruct (short2 x); auto. destruct (beg2 x).
    + destruct (dial_step (c21 a b) (h2 x) (oreg2 x)); exact Hc.
    + destruct (regBA x); exact Hc.
  - destruct (beg1 x) eqn:Eb; [|rewrite Eb; exact Hc]. xs. unfold dcan in *. destruct (short1 x); [discriminate|].
    apply ican_r. exact Hc.
  - destruct (beg2 x); exact Hc.
  - unfold xstep_d1. destruct (short1 x); auto. destruct (beg1 x).
    + destruct (dial_step (c12 a b) (h1 x) (oreg1 x)); exact Hc.
    + destruct (regAB x); exact Hc.
  - destruct (beg1 x); exact Hc.
  - destruct (beg2 x) eqn:Eb; [|rewrite Eb; exact Hc]. xs. unfold dcan in *. destruct (short2 x); [discriminate|].
    apply ican_r. exact Hc.
  - unfold xstep_d1. destruct (short1 x) eqn:Es; auto.
    destruct (beg1 x) eqn:Eb; [|unfold rcan in Hc; cbn in Hc; discriminate].
    pose proof (rcan_dial (c12 a b) (h1 x) (oreg1 x) Hc) as L.
    destruct (dial_step (c12 a b) (h1 x) (oreg1 x)). exact L.
  - unfold xstep_d2. destruct (short2 x); auto. destruct (beg2 x).
    + destruct (dial_step (c21 a b) (h2 x) (oreg2 x)); exact Hc.
    + destruct (regBA x); exact Hc.
  - destruct (beg2 x); exact Hc.
  - unfold xstep_d1. destruct (short1 x); auto. destruct (beg1 x).
    + destruct (dial_step (c12 a b) (h1 x) (oreg1 x)); exact Hc.
    + destruct (regAB x); exact Hc.
  - unfold xstep_d2. destruct (short2 x) eqn:Es; auto.
    destruct (beg2 x) eqn:Eb; [|unfold rcan in Hc; cbn in Hc; discriminate].
    pose proof (rcan_dial (c21 a b) (h2 x) (oreg2 x) Hc) as L.
    destruct (dial_step (c21 a b) (h2 x) (oreg2 x)). exact L.
  - destruct (beg1 x); exact Hc.
Qed.

(* ---- absence of deadlock ------------------------------------------------------------------------------ *)
(* one handshake that has begun: while the count is positive, the Connect or the handler is enabled *)
Lemma hs_enabled c h o :
  Inv c h -> 0 < dm (ipc h) o + rm (rpc h) -> ican h = true \/ rcan true h = true.
Proof.
  intros (Hi & Hr & _) Hpos. destruct Hi as (Hi & Hcl & _). destruct Hr as (Hr & _).
  unfold ican, rcan. cbn [andb].
  destruct (ipc h) eqn:Ei; auto.
  - (* blocked before the first read *)
    destruct Hi as (E2 & Erd). rewrite Erd.
    destruct (nth_error (r2i h) 0) eqn:En; auto. destruct (r_closed h) eqn:Ec; auto. right.
    destruct (rpc h) eqn:Er; auto; unfold quiet, ok_end, bad_end in Hr; dest.
    + rewrite H0, E2. reflexivity.
    + rewrite H in En. discriminate.
    + destruct H0 as [(id' & _ & _ & _ & R4 & _)|(_ & B & _)]; [rewrite R4 in En; discriminate|congruence].
  - destruct Hi as (E2 & Erd). rewrite Erd.
    destruct (nth_error (r2i h) 1) eqn:En; auto. destruct (r_closed h) eqn:Ec; auto. right.
    destruct (rpc h) eqn:Er; auto; unfold quiet, ok_end, bad_end in Hr; dest.
    + rewrite H0, E2. reflexivity.
    + rewrite H in En. discriminate.
    + destruct H0 as [(id' & _ & _ & _ & R4 & _)|(_ & B & _)]; [rewrite R4 in En; discriminate|congruence].
  - (* Connect has returned with success: both messages are in the log *)
    right. destruct Hi as (E2 & _).
    destruct (rpc h) eqn:Er; auto; unfold quiet in Hr; dest.
    + rewrite H0, E2. reflexivity.
    + rewrite H0, E2. reflexivity.
    + cbn in Hpos. lia.
  - (* Connect has given up: the stream is closed *)
    right. assert (Ec : i_closed h = true) by (apply Hcl; reflexivity). rewrite Ec.
    destruct (rpc h) eqn:Er; auto.
    + destruct (nth_error (i2r h) (r_rd h)); reflexivity.
    + destruct (nth_error (i2r h) (r_rd h)); reflexivity.
    + cbn in Hpos. lia.
Qed.

Lemma dinv_enabled c h beg o short :
  DInv c h beg o -> (short <> None -> beg = false) -> 0 < hm beg short o h ->
  dcan beg short h = true \/ rcan beg h = true.
Proof.
  intros (HI & _ & _) Hs Hpos. unfold dcan. destruct short as [i|].
  - rewrite Hs in Hpos by discriminate. cbn in Hpos. lia.
  - destruct beg; [|left; reflexivity]. cbn [hm] in Hpos. apply (hs_enabled c h o); auto.
Qed.

Theorem x_enabled a b x : XInv a b x -> 0 < mu4 x -> exists e, xmain e /\ xcan x e = true.
Proof.
  intros (D1 & D2 & S1 & S2 & _) Hpos. unfold mu4 in Hpos.
  destruct (Nat.eq_dec (hm (beg1 x) (short1 x) (oreg1 x) (h1 x)) 0) as [E|E].
  - destruct (dinv_enabled _ _ _ _ _ D2 S2) as [H|H]; [lia| |].
    + exists XD2. unfold xmain; auto.
    + exists XR2. unfold xmain; auto.
  - destruct (dinv_enabled _ _ _ _ _ D1 S1) as [H|H]; [lia| |].
    + exists XD1. unfold xmain; auto.
    + exists XR1. unfold xmain; auto.
Qed.

Lemma hm_zero beg short o h :
  hm beg short o h = 0 -> conn_returned beg short h /\ handler_returned beg short h.
Proof.
  unfold hm, conn_returned, handler_returned. destruct beg, short as [i|]; intros E; try lia.
  - split; [left; discriminate|right; split; auto]. destruct (rpc h); cbn in E; try lia; auto.
  - assert (E1 : dm (ipc h) o = 0) by lia. assert (E2 : rm (rpc h) = 0) by lia.
    split; right; split; auto.
    + destruct (ipc h); cbn in E1; try lia; eauto. destruct o; lia.
    + destruct (rpc h); cbn in E2; try lia; auto.
  - split; left; [discriminate|split; [reflexivity|discriminate]].
Qed.

Lemma mu4_zero_final x : mu4 x = 0 -> xfinal x.
Proof.
  unfold mu4, xfinal. intros E.
  destruct (hm_zero (beg1 x) (short1 x) (oreg1 x) (h1 x)) as (A1 & A2); [lia|].
  destruct (hm_zero (beg2 x) (short2 x) (oreg2 x) (h2 x)) as (B1 & B2); [lia|]. tauto.
Qed.

Lemma xrun_from_inv a b t : forall x, XInv a b x -> XInv a b (xrun_from a b x t).
Proof.
  induction t as [|e t IH]; intros x H; cbn; auto. apply IH. apply xstep_inv. exact H.
Qed.

(* ---- rounds -------------------------------------------------------------------------------------------- *)
Lemma seg_lowers a b e : xmain e -> forall seg x,
  xcan x e = true -> In e seg -> mu4 (xrun_from a b x seg) < mu4 x.
Proof.
  intros Hm. induction seg as [|e' seg IH]; intros x Hc Hin; [contradiction|]. cbn.
  destruct (xwho_eq_dec e' e) as [->|Hne].
  - eapply Nat.le_lt_trans; [apply mu4_mono_run|]. apply xcan_lower; auto.
  - destruct Hin as [Hin|Hin]; [congruence|].
    eapply Nat.lt_le_trans; [apply IH; auto|apply mu4_mono].
    apply xcan_persist; auto.
Qed.

Lemma round_lowers a b x seg :
  XInv a b x -> 0 < mu4 x -> xround seg -> mu4 (xrun_from a b x seg) < mu4 x.
Proof.
  intros HX Hpos (R1 & R2 & R3 & R4).
  destruct (x_enabled a b x HX Hpos) as (e & Hm & Hc).
  apply (seg_lowers a b e Hm); auto.
  destruct Hm as [-> | [-> | [-> | ->]]]; auto.
Qed.

Lemma xrun_from_app a b x s t : xrun_from a b x (s ++ t) = xrun_from a b (xrun_from a b x s) t.
Proof. unfold xrun_from. apply fold_left_app. Qed.

Lemma fair_bound a b n s : xfair n s -> forall x,
  XInv a b x -> mu4 x <= n -> mu4 (xrun_from a b x s) = 0.
Proof.
  induction 1 as [s|n seg rest Hr Hf IH]; intros x HX Hle.
  - pose proof (mu4_mono_run a b s x). lia.
  - rewrite xrun_from_app. apply IH; [apply xrun_from_inv; exact HX|].
    destruct (Nat.eq_dec (mu4 x) 0) as [E|E].
    + pose proof (mu4_mono_run a b seg x). lia.
    + pose proof (round_lowers a b x seg HX ltac:(lia) Hr). lia.
Qed.

(* both Connects return and both handlers finish within [x_rounds] rounds, whatever else is
   scheduled in between and afterwards *)
Theorem cross_handshakes_finish a b sched : xfair x_rounds sched -> xfinal (xrun a b sched).
Proof.
  intros Hf. apply mu4_zero_final. apply (fair_bound a b x_rounds sched Hf).
  - apply xinv_init.
  - rewrite mu4_init. lia.
Qed.

(* ---- the streams ------------------------------------------------------------------------------------------ *)
(* once both handshakes are over nothing is on record as in progress on B *)
Lemma final_mark a b x : XInv a b x -> mu4 x = 0 -> markB x = 0.
Proof.
  intros (D1 & D2 & S1 & S2 & _) E. unfold mu4 in E. unfold markB.
  assert (E1 : hm (beg1 x) (short1 x) (oreg1 x) (h1 x) = 0) by lia.
  assert (E2 : hm (beg2 x) (short2 x) (oreg2 x) (h2 x) = 0) by lia.
  assert (A : inflight (h1 x) = 0).
  { destruct D1 as (I1 & B1 & _). destruct (beg1 x) eqn:Eb.
    - destruct I1 as (_ & (Hr & _) & _). unfold hm in E1.
      assert (Er : rm (rpc (h1 x)) = 0) by (destruct (short1 x); lia).
      destruct (rpc (h1 x)); cbn in Er; try lia; try tauto.
    - rewrite (B1 eq_refl). reflexivity. }
  assert (B : xout (beg2 x) (h2 x) = 0).
  { unfold xout. destruct (beg2 x) eqn:Eb; auto.
    destruct (short2 x) as [i|] eqn:Es; [assert (Hf : true = false) by (apply S2; discriminate); discriminate|].
    cbn [hm] in E2. destruct (ipc (h2 x)); cbn in E2; try lia; auto. destruct (oreg2 x); lia. }
  lia.
Qed.

Lemma xstep_sA_main a b x e : xmain e -> sA (xstep a b x e) = sA x.
Proof.
  intros [-> | [-> | [-> | ->]]]; cbn [xstep].
  - unfold xstep_d1. destruct (short1 x); auto. destruct (beg1 x).
    + destruct (dial_step (c12 a b) (h1 x) (oreg1 x)); reflexivity.
    + destruct (regAB x); reflexivity.
  - unfold xstep_d2. destruct (short2 x); auto. destruct (beg2 x).
    + destruct (dial_step (c21 a b) (h2 x) (oreg2 x)); reflexivity.
    + destruct (regBA x); reflexivity.
  - destruct (beg1 x); reflexivity.
  - destruct (beg2 x); reflexivity.
Qed.

Lemma wstep_final x s : markB x = 0 -> wm (xstep_w1 x s) <= wm s - 1.
Proof.
  intros E. destruct s; cbn; try lia.
  - destruct (regBA x); cbn; lia.
  - rewrite E. cbn. lia.
  - destruct (regBA x); cbn; lia.
Qed.

Lemma wm_zero s : wm s = 0 -> wfinal s = true.
Proof. destruct s; cbn; auto; lia. Qed.

(* from a state in which both handshakes are over: the k-th stream needs at most three steps of
   its wrapper, whatever else is scheduled *)
Lemma stream_countdown a b k : forall t x s,
  XInv a b x -> mu4 x = 0 -> nth_error (sA x) k = Some s ->
  exists s', nth_error (sA (xrun_from a b x t)) k = Some s' /\
             wm s' <= wm s - wsteps k t.
Proof.
  induction t as [|e t IH]; intros x s HX E0 Es.
  - exists s. split; auto. cbn. lia.
  - cbn [xrun_from fold_left].
    assert (HX' : XInv a b (xstep a b x e)) by (apply xstep_inv; exact HX).
    assert (E0' : mu4 (xstep a b x e) = 0) by (pose proof (mu4_mono a b x e); lia).
    destruct (xwho_eq_dec e (XW k)) as [->|Hne].
    + assert (Es' : nth_error (sA (xstep a b x (XW k))) k = Some (xstep_w1 x s)).
      { cbn [xstep]. cbn [sA xset_s]. apply upd_nth_same. exact Es. }
      destruct (IH _ _ HX' E0' Es') as (s' & N1 & N2). exists s'. split; [exact N1|].
      pose proof (wstep_final x s (final_mark a b x HX E0)).
      unfold wsteps in *. cbn [filter]. rewrite Nat.eqb_refl. cbn [length]. lia.
    + assert (Es' : nth_error (sA (xstep a b x e)) k = Some s).
      { destruct e as [| | | | |k']; try solve [rewrite xstep_sA_main; [exact Es|unfold xmain; auto]].
        - cbn [xstep]. destruct (ret1 x); auto. cbn [sA xset_s]. apply nth_app_mono. exact Es.
        - cbn [xstep]. cbn [sA xset_s]. rewrite upd_nth_other; [exact Es|congruence]. }
      destruct (IH _ _ HX' E0' Es') as (s' & N1 & N2). exists s'. split; [exact N1|].
      assert (Ew : wsteps k (e :: t) = wsteps k t).
      { unfold wsteps. cbn [filter]. destruct e as [| | | | |k']; auto.
        destruct (Nat.eqb_spec k' k) as [->|]; [congruence|reflexivity]. }
      rewrite Ew. exact N2.
Qed.

Lemma streams_need_return a b x :
  XInv a b x -> sA x <> [] -> exists id, ret1 x = Some id.
Proof.
  intros (D1 & _ & _ & _ & _ & S4 & _) Hn. unfold ret1.
  destruct (S4 Hn) as [Hs|(id & Hid)].
  - destruct (short1 x) as [i|]; [eauto|congruence].
  - destruct (short1 x) as [i|]; [eauto|]. exists id.
    destruct D1 as (((_ & _ & Hret & _) & _) & _). rewrite Hid in Hret. exact Hret.
Qed.

(* Progress for the cross dial.  For every schedule that begins with [x_rounds] rounds of the two
   Connects and the two handlers: both Connects have returned and both handlers have finished
   (and this stays so); and every stream A has opened by then or opens later is handled by B with
   A's proven identity once its wrapper has been scheduled three times after the stream exists. *)
Theorem cross_progress a b sched t k s :
  self_consistent b ->
  xfair x_rounds sched ->
  nth_error (sA (xrun a b sched)) k = Some s ->
  3 <= wsteps k t ->
  xfinal (xrun a b sched) /\ xfinal (xrun a b (sched ++ t)) /\
  nth_error (sA (xrun a b (sched ++ t))) k = Some (WHandled (proven_ident a)).
Proof.
  intros Hc Hf Es Hcnt.
  assert (E0 : mu4 (xrun a b sched) = 0).
  { apply (fair_bound a b x_rounds sched Hf); [apply xinv_init|rewrite mu4_init; lia]. }
  split; [apply mu4_zero_final; exact E0|].
  assert (Eapp : xrun a b (sched ++ t) = xrun_from a b (xrun a b sched) t) by apply xrun_from_app.
  split.
  { apply mu4_zero_final. rewrite Eapp. pose proof (mu4_mono_run a b t (xrun a b sched)). lia. }
  destruct (stream_countdown a b k t _ s (xrun_inv a b sched) E0 Es) as (s' & N1 & N2).
  rewrite <- Eapp in N1. rewrite N1. f_equal.
  assert (Hw3 : wm s <= 3) by (destruct s; cbn; lia).
  assert (Hw : wm s' = 0) by lia.
  assert (Hne : sA (xrun a b (sched ++ t)) <> []).
  { intros En. rewrite En in N1. destruct k; discriminate. }
  destruct (streams_need_return a b _ (xrun_inv a b (sched ++ t)) Hne) as (id & Hid).
  destruct (usable_cross a b (sched ++ t) id Hc Hid) as (_ & Hall).
  rewrite Forall_forall in Hall. destruct (Hall s' (nth_error_In _ _ N1)) as (U1 & U2 & U3).
  destruct s'; cbn in Hw; try lia; try congruence.
  destruct (U3 id0 eq_refl) as (-> & _). reflexivity.
Qed.

(* No deadlock.  In a reachable state in which neither Connect, no handler and no wrapper is
   enabled, both Connects have returned, both handlers have finished and every stream A opened
   has reached its end; if B's key signer is consistent with its network identity that end is a
   handler call with A's proven identity. *)
Theorem cross_no_deadlock a b sched :
  (forall e, e <> XO -> xcan (xrun a b sched) e = false) ->
  xfinal (xrun a b sched) /\
  Forall (fun s => wfinal s = true) (sA (xrun a b sched)) /\
  (self_consistent b -> Forall (fun s => s = WHandled (proven_ident a)) (sA (xrun a b sched))).
Proof.
  intros Hstuck. pose proof (xrun_inv a b sched) as HX. set (x := xrun a b sched) in *.
  assert (E0 : mu4 x = 0).
  { destruct (Nat.eq_dec (mu4 x) 0) as [E|E]; auto. exfalso.
    destruct (x_enabled a b x HX ltac:(lia)) as (e & Hm & Hc).
    rewrite Hstuck in Hc; [discriminate|]. destruct Hm as [-> | [-> | [-> | ->]]]; discriminate. }
  assert (Hfin : Forall (fun s => wfinal s = true) (sA x)).
  { apply Forall_forall. intros s Hin. destruct (In_nth_error _ _ Hin) as (k & Hk).
    pose proof (Hstuck (XW k) ltac:(discriminate)) as Hc. cbn [xcan] in Hc. rewrite Hk in Hc.
    pose proof (final_mark a b x HX E0) as Em.
    destruct s; cbn in Hc |- *; auto; try discriminate. rewrite Em in Hc. discriminate. }
  split; [apply mu4_zero_final; exact E0|]. split; [exact Hfin|].
  intros Hc. destruct (sA x) eqn:Ew; [constructor|]. rewrite <- Ew in *.
  assert (Hne : sA x <> []) by congruence.
  destruct (streams_need_return a b x HX Hne) as (id & Hid).
  destruct (usable_cross a b sched id Hc Hid) as (_ & Hall). fold x in Hall.
  rewrite Forall_forall in *. intros s Hin.
  destruct (Hall s Hin) as (U1 & U2 & U3). pose proof (Hfin s Hin) as Hf.
  destruct s; cbn in Hf; try discriminate; try congruence.
  destruct (U3 id0 eq_refl) as (-> & _). reflexivity.
Qed.

(* what "enabled" means: an enabled step of a Connect, a handler or a wrapper changes the state,
   a step that is not enabled leaves it as it is (up to the unused wrapper lists of the base worlds) *)
Theorem xcan_is_step a b x e :
  e <> XO ->
  (xcan x e = true -> xstep a b x e <> x) /\
  (xcan x e = false -> xerase (xstep a b x e) = xerase x).
Proof.
  intros Hne. split; [|apply xcannot_same; exact Hne].
  intros Hc Heq.
  assert (Hmain : xmain e -> False).
  { intros Hm. pose proof (xcan_lower a b x e Hm Hc) as L. rewrite Heq in L. lia. }
  destruct e as [| | | | |k]; try congruence; try (exfalso; apply Hmain; unfold xmain; tauto).
  cbn [xcan] in Hc. destruct (nth_error (sA x) k) as [s|] eqn:Es; [|discriminate].
  assert (E : nth_error (sA (xstep a b x (XW k))) k = Some (xstep_w1 x s)).
  { cbn [xstep sA xset_s]. apply upd_nth_same. exact Es. }
  rewrite Heq, Es in E. injection E as E.
  destruct s; cbn in Hc, E; try discriminate.
  - destruct (regBA x); discriminate.
  - rewrite Hc in E. discriminate.
  - destruct (regBA x); discriminate.
Qed.

(* ---- non-vacuity ----------------------------------------------------------------------------------------- *)
Definition x_round : list xwho := [XD1; XD2; XR1; XR2].
Definition x_fair_sched : list xwho := concat (repeat x_round x_rounds).

Lemma x_fair_sched_fair : xfair x_rounds x_fair_sched.
Proof.
  unfold x_fair_sched. generalize x_rounds. induction n as [|n IH]; cbn [repeat concat].
  - constructor.
  - constructor; [|exact IH]. unfold xround, x_round. cbn. tauto.
Qed.

Example cross_progress_nonvacuous :
  xfair x_rounds (x_fair_sched ++ [XO; XO]) /\
  sA (xrun ex_ini ex_rsp (x_fair_sched ++ [XO; XO])) = [WNew; WNew] /\
  sA (xrun ex_ini ex_rsp ((x_fair_sched ++ [XO; XO]) ++ [XW 0; XW 1; XW 1; XW 0; XW 0; XW 1])) =
  [WHandled (proven_ident ex_ini); WHandled (proven_ident ex_ini)] /\
  (* in the canonical held state of the correspondence class A's Connect has returned and the
     wrapper waits; the others are enabled ... *)
  map (xcan (xrun ex_ini ex_rsp (x_hs ++ [XO; XW 0; XW 0]))) [XD1; XD2; XR1; XR2; XW 0] =
  [false; true; true; true; false] /\
  (* ... and the final state of the canonical schedule is a state in which nobody is enabled *)
  map (xcan (xrun ex_ini ex_rsp (x_full 2))) [XD1; XD2; XR1; XR2; XW 0; XW 1; XW 2] =
  [false; false; false; false; false; false; false].
Proof.
  split.
  { unfold x_fair_sched. generalize x_rounds. induction n as [|n IH]; cbn [repeat concat].
    - constructor.
    - rewrite <- app_assoc. constructor; [|exact IH]. unfold xround, x_round. cbn. tauto. }
  repeat split; vm_compute; reflexivity.
Qed.

(* the six enforced schedules of the correspondence check (classes 5 .. 10) run the world to a
   state in which nobody is enabled -- by cross_no_deadlock a final state with every stream
   handled; at the driver's first look the streams of classes 5 .. 9 have ended and those of
   class 10 wait (nothing registered at B, two handshakes on record there) *)
Example driver_schedules_end :
  Forall (fun k =>
    map (xcan (xrun ex_ini ex_rsp (x_sched_end k 2))) [XD1; XD2; XR1; XR2; XW 0; XW 1; XW 2] =
      [false; false; false; false; false; false; false] /\
    sA (xrun ex_ini ex_rsp (x_sched_end k 2)) =
      [WHandled (proven_ident ex_ini); WHandled (proven_ident ex_ini)])
    [5; 6; 7; 8; 9; 10]%N /\
  Forall (fun k => sA (xrun ex_ini ex_rsp (x_sched_gate k 2)) =
                   [WHandled (proven_ident ex_ini); WHandled (proven_ident ex_ini)]) [5; 6; 7; 8; 9]%N /\
  sA (xrun ex_ini ex_rsp (x_sched_gate 10 2)) = [WWait; WWait] /\
  markB (xrun ex_ini ex_rsp (x_sched_gate 10 2)) = 2 /\
  regBA (xrun ex_ini ex_rsp (x_sched_gate 10 2)) = None /\
  (* the shortcut leaves the answering node's handler unused *)
  ga_calls (h1 (xrun ex_ini ex_rsp (x_sched_end 5 2))) = 0 /\
  ga_calls (h1 (xrun ex_ini ex_rsp (x_sched_end 6 2))) = 1.
Proof. repeat split; repeat constructor; vm_compute; reflexivity. Qed.

(* ---- well-formed nodes: the Connects return with success -------------------------------------------------- *)
Definition wfn (n : node) : Prop :=
  sig_addr n = Some (pid_addr n) /\ ks_addr n = pid_addr n /\ (ptype n = t_provider -> staked n = true).

Lemma wf_verify n : wfn n -> verify_req n (req_of n) = Some (proven_ident n).
Proof.
  intros (E1 & _ & E3). unfold verify_req, req_of, proven_ident. rewrite E1, N.eqb_refl.
  destruct (N.eqb_spec (ptype n) t_provider) as [E|E]; auto. rewrite (E3 E). reflexivity.
Qed.

Definition NF (w : world) : Prop := ipc w <> IFailed /\ r_closed w = false /\ rpc w <> RRefuse.

Lemma nf_first_frame c w f :
  wfn (ini c) -> inv_r c w -> NF w -> nth_error (r2i w) 0 = Some f -> verify_resp (ini c) f = true.
Proof.
  intros Wi (Hr & _) (_ & Hc & Hn) En.
  assert (G : forall id, vI c id -> f = resp_of id -> verify_resp (ini c) f = true).
  { intros id V ->. unfold vI, reqI in V. rewrite (wf_verify _ Wi) in V. injection V as <-.
    apply verify_resp_echo. destruct Wi as (_ & E & _). exact E. }
  destruct (rpc w) eqn:Er; unfold quiet, ok_end, bad_end in Hr; dest; try congruence;
    try (match goal with
         | H : r2i w = _ |- _ =>
             rewrite H in En; cbn in En; first [discriminate | injection En as <-; eapply G; eauto]
         end).
  all: match goal with
       | H : _ \/ _ |- _ =>
           destruct H as [(id' & _ & V & _ & R4 & _)|(_ & B & _)]; [|congruence];
           rewrite R4 in En; cbn in En; injection En as <-; eapply G; eauto
       end.
Qed.

Lemma nf_final_frame c w f :
  wfn (rsp c) -> inv_i c w -> nth_error (i2r w) 1 = Some f -> verify_resp (rsp c) f = true.
Proof.
  intros Wr (Hi & _) En.
  assert (G : forall id, vR c id -> f = resp_of id -> verify_resp (rsp c) f = true).
  { intros id V ->. unfold vR, reqR in V. rewrite (wf_verify _ Wr) in V. injection V as <-.
    apply verify_resp_echo. destruct Wr as (_ & E & _). exact E. }
  destruct (ipc w) eqn:Ei; dest;
    try (match goal with H : i2r w = _ |- _ => rewrite H in En; cbn in En; try discriminate end).
  - injection En as <-. eapply G; eauto.
  - injection En as <-. eapply G; eauto.
Qed.

Lemma nf_step c w a : wfn (ini c) -> wfn (rsp c) -> Inv c w -> NF w -> NF (step Current c w a).
Proof.
  intros Wi Wr (Hi & Hr & _) HN. pose proof HN as (N1 & N2 & N3).
  destruct a as [| |k|]; cbn [step]; [| | exact HN | exact HN].
  - pose proof (step_i_frame c w) as F. cbv zeta in F. destruct F as (F1 & _ & _ & _ & _ & F6 & _).
    unfold NF. rewrite F1, F6. split; [|auto].
    pose proof Hi as (Hi1 & _). unfold step_i.
    destruct (ipc w) eqn:Ei; try discriminate; try congruence.
    + destruct (nth_error (r2i w) (i_rd w)); simp; [discriminate|]. rewrite N2, Ei. discriminate.
    + destruct Hi1 as (_ & _ & En). rewrite (nf_first_frame c w f Wi Hr HN En). simp. discriminate.
    + destruct (nth_error (r2i w) (i_rd w)); simp; [discriminate|]. rewrite N2, Ei. discriminate.
    + destruct Hi1 as (_ & _ & En). destruct Hr as (_ & Hr2). rewrite (Hr2 _ En).
      unfold reqR. rewrite (wf_verify _ Wr). simp. discriminate.
    + simp. rewrite Ei. discriminate.
  - pose proof (step_r_frame Current c w) as F. cbv zeta in F. destruct F as (F1 & _).
    unfold NF. rewrite F1. split; [exact N1|].
    assert (Hic : i_closed w = false).
    { destruct (i_closed w) eqn:E; auto. exfalso. apply N1. pose proof Hi as (_ & Hcl & _). apply Hcl. exact E. }
    pose proof Hr as (Hr1 & _). unfold step_r.
    destruct (rpc w) eqn:Er; try congruence; simp; try (split; [assumption|discriminate]).
    + destruct (nth_error (i2r w) (r_rd w)); simp; [split; [assumption|discriminate]|].
      rewrite Hic, Er. split; [assumption|discriminate].
    + destruct Hr1 as (_ & _ & _ & ->). unfold reqI. rewrite (wf_verify _ Wi). simp.
      split; [assumption|discriminate].
    + destruct (nth_error (i2r w) (r_rd w)); simp; [split; [assumption|discriminate]|].
      rewrite Hic, Er. split; [assumption|discriminate].
    + destruct Hr1 as (_ & _ & _ & _ & En). rewrite (nf_final_frame c w f Wr Hi En). simp.
      split; [assumption|discriminate].
    + split; [assumption|rewrite Er; discriminate].
Qed.

Lemma nf_init : NF init.
Proof. unfold NF; cbn. repeat split; discriminate || reflexivity. Qed.

(* the cross world: no handshake between well-formed nodes fails *)
Definition XNF (x : xworld) : Prop := NF (h1 x) /\ NF (h2 x).

Lemma nf_dial c h o :
  wfn (ini c) -> wfn (rsp c) -> Inv c h -> NF h -> NF (fst (dial_step c h o)).
Proof.
  intros Wi Wr HI HN. unfold dial_step.
  destruct (ipc h) eqn:Ei; try (cbn [fst]; apply (nf_step c h I); auto).
  destruct o; cbn [fst]; [apply (nf_step c h I); auto|exact HN].
Qed.

Lemma xnf_step a b x e :
  wfn a -> wfn b -> XInv a b x -> XNF x -> XNF (xstep a b x e).
Proof.
  intros Wa Wb (D1 & D2 & _) (N1 & N2).
  destruct D1 as (I1 & _). destruct D2 as (I2 & _).
  destruct e as [| | | | |k]; cbn [xstep].
  - unfold xstep_d1. destruct (short1 x); [split; auto|]. destruct (beg1 x).
    + pose proof (nf_dial (c12 a b) (h1 x) (oreg1 x) Wa Wb I1 N1) as L.
      destruct (dial_step (c12 a b) (h1 x) (oreg1 x)). split; [exact L|exact N2].
    + destruct (regAB x); split; auto.
  - unfold xstep_d2. destruct (short2 x); [split; auto|]. destruct (beg2 x).
    + pose proof (nf_dial (c21 a b) (h2 x) (oreg2 x) Wb Wa I2 N2) as L.
      destruct (dial_step (c21 a b) (h2 x) (oreg2 x)). split; [exact N1|exact L].
    + destruct (regBA x); split; auto.
  - destruct (beg1 x); [|split; auto]. split; [|exact N2].
    apply (nf_step (c12 a b) (h1 x) R); auto.
  - destruct (beg2 x); [|split; auto]. split; [exact N1|].
    apply (nf_step (c21 a b) (h2 x) R); auto.
  - destruct (ret1 x); split; auto.
  - split; auto.
Qed.

Lemma xnf_run a b sched : wfn a -> wfn b -> XNF (xrun a b sched).
Proof.
  intros Wa Wb. unfold xrun, xrun_from.
  assert (G : forall l x, XInv a b x -> XNF x -> XNF (fold_left (xstep a b) l x)).
  { induction l as [|e l IH]; intros x HX HN; cbn; auto.
    apply IH; [apply xstep_inv; exact HX|apply xnf_step; auto]. }
  apply G; [apply xinv_init|split; apply nf_init].
Qed.

(* the shortcut of B's Connect returned what B's handler of handshake 1 registered *)
Definition XS2 (x : xworld) : Prop := forall i, short2 x = Some i -> registered (h1 x) = Some i.

Lemma xs2_step a b x e : XInv a b x -> XS2 x -> XS2 (xstep a b x e).
Proof.
  intros (D1 & D2 & _) HS. unfold XS2 in *.
  destruct e as [| | | | |k]; cbn [xstep].
  - unfold xstep_d1. destruct (short1 x); auto. destruct (beg1 x) eqn:Eb.
    + destruct (dinv_dial _ _ _ D1) as (_ & Er & _).
      destruct (dial_step (c12 a b) (h1 x) (oreg1 x)) as (h, o). cbn [fst snd] in *. xs.
      intros i Hi. rewrite Er. auto.
    + destruct (regAB x); xs; auto.
  - unfold xstep_d2. destruct (short2 x) eqn:Es; [rewrite Es; auto|]. destruct (beg2 x) eqn:Eb.
    + destruct (dial_step (c21 a b) (h2 x) (oreg2 x)) as (h, o). xs. intros i Hi. discriminate.
    + pose proof (dinv_init_oreg _ _ _ D2) as Eo.
      destruct (regBA x) as [j|] eqn:Er; xs; [|intros i Hi; discriminate].
      intros i [= <-]. unfold regBA, first_some in Er. rewrite Eo in Er.
      destruct (registered (h1 x)); congruence.
  - destruct (beg1 x) eqn:Eb; auto. destruct (dinv_r _ _ _ D1) as (_ & Mr & _). xs.
    intros i Hi. apply Mr. auto.
  - destruct (beg2 x); auto.
  - destruct (ret1 x); auto.
  - auto.
Qed.

Lemma xs2_run a b sched : XS2 (xrun a b sched).
Proof.
  unfold xrun, xrun_from.
  assert (G : forall l x, XInv a b x -> XS2 x -> XS2 (fold_left (xstep a b) l x)).
  { induction l as [|e l IH]; intros x HX HN; cbn; auto.
    apply IH; [apply xstep_inv; exact HX|apply xs2_step; auto]. }
  apply G; [apply xinv_init|]. intros i Hi. discriminate.
Qed.

(* Two well-formed nodes (signature binds the peer id, key signer consistent, a provider is
   staked at the other node's registry): after [x_rounds] rounds BOTH Connects have returned WITH
   SUCCESS, each naming the other node's proven identity. *)
Theorem cross_connects_succeed a b sched :
  wfn a -> wfn b -> xfair x_rounds sched ->
  ret1 (xrun a b sched) = Some (proven_ident b) /\ ret2 (xrun a b sched) = Some (proven_ident a).
Proof.
  intros Wa Wb Hf.
  pose proof (cross_handshakes_finish a b sched Hf) as (C1 & C2 & _).
  pose proof (xnf_run a b sched Wa Wb) as ((F1 & _) & (F2 & _)).
  pose proof (xrun_inv a b sched) as HX. set (x := xrun a b sched) in *.
  assert (Hb : self_consistent b) by (destruct Wb as (_ & E & _); exact E).
  assert (R1 : exists id, ret1 x = Some id).
  { unfold ret1. destruct C1 as [Hs|(_ & [Hf1|(id & Ho)])]; [|contradiction|].
    - destruct (short1 x) as [i|]; [eauto|congruence].
    - destruct (short1 x) as [i|]; [eauto|]. exists id.
      destruct HX as ((((_ & _ & Hret & _) & _) & _) & _). rewrite Ho in Hret. exact Hret. }
  destruct R1 as (id1 & R1). split.
  - destruct (usable_cross a b sched id1 Hb R1) as ((-> & _) & _). exact R1.
  - pose proof HX as HX0. destruct HX as (_ & D2 & _ & S2 & _). destruct D2 as (I2 & B2 & O2).
    unfold ret2. destruct C2 as [Hs|(Eb & [Hf2|(id & Ho)])]; [|contradiction|].
    + destruct (short2 x) as [i|] eqn:Es; [|congruence]. clear Hs.
      (* the shortcut returned B's registry entry for A: registered by B's handler of handshake 1 *)
      assert (Eb : beg2 x = false) by (apply S2; congruence).
      pose proof (xs2_run a b sched i Es) as Ereg. fold x in Ereg.
      destruct HX0 as ((I1 & _) & _).
      pose proof (registered_vI _ _ _ I1 Ereg) as V. apply verify_req_self in V. cbn in V.
      destruct V as (-> & _). reflexivity.
    + destruct (short2 x) as [i|] eqn:Es; [rewrite S2 in Eb by congruence; discriminate|].
      pose proof I2 as ((_ & _ & Hret & _) & _). rewrite Ho in Hret. rewrite Hret. f_equal.
      destruct (returned_identity (c21 a b) (h2 x) id I2 Hret) as (E1 & _). exact E1.
Qed.

Example cross_connects_succeed_nonvacuous :
  wfn ex_ini /\ wfn ex_rsp /\
  ret1 (xrun ex_ini ex_rsp x_fair_sched) = Some (proven_ident ex_rsp) /\
  ret2 (xrun ex_ini ex_rsp x_fair_sched) = Some (proven_ident ex_ini) /\
  (* a provider that is not staked at the other node is refused: the premise is needed *)
  ret1 (xrun ex_ini {| pid_addr := 22; sig_addr := Some 22%N; ks_addr := 22; ptype := t_provider;
                       staked := false |} x_fair_sched) = None.
Proof.
  split; [|split]; [unfold wfn; cbn; repeat split; auto; intros; try reflexivity; try discriminate ..|].
  repeat split; vm_compute; reflexivity.
Qed.
