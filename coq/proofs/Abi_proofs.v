(* Lemmas about lib/Abi.v: lengths, alignment, and the round trip decode (encode args) = args. *)
From Coq Require Import String List NArith ZArith Bool Lia ZifyN ZifyNat ZifyBool.
From MevVerif Require Import lib.Bytes lib.Abi proofs.Bytes_proofs.
Import ListNotations.
Open Scope N_scope.

(* --- small list facts -------------------------------------------------------------------- *)
Lemma blen_app a b : blen (a ++ b) = blen a + blen b.
Proof. unfold blen. rewrite app_length. lia. Qed.

Lemma blen_nil : blen [] = 0.
Proof. reflexivity. Qed.

Lemma blen_cons c a : blen (c :: a) = 1 + blen a.
Proof. unfold blen. cbn [length]. lia. Qed.

Lemma blen_be n v : blen (be n v) = N.of_nat n.
Proof. unfold blen. rewrite be_length. reflexivity. Qed.

Lemma blen_zeros n : blen (zeros n) = N.of_nat n.
Proof. unfold blen, zeros. rewrite repeat_length. reflexivity. Qed.

Lemma zeros_wf n : wf_bytes (zeros n).
Proof. unfold wf_bytes, zeros. induction n as [|k IH]; cbn; constructor; [lia|exact IH]. Qed.

Lemma wf_bytes_app a b : wf_bytes a -> wf_bytes b -> wf_bytes (a ++ b).
Proof. unfold wf_bytes. intros Ha Hb. apply Forall_app. split; assumption. Qed.

Lemma slice_mid a b c : slice (a ++ b ++ c) (blen a) (blen b) = Some b.
Proof.
  unfold slice. rewrite !blen_app.
  destruct (N.leb_spec (blen a + blen b) (blen a + (blen b + blen c))) as [_|H]; [|lia].
  unfold blen. rewrite !Nat2N.id.
  rewrite skipn_app, skipn_all, Nat.sub_diag. cbn [skipn app].
  rewrite firstn_app, firstn_all, Nat.sub_diag. cbn [firstn]. rewrite app_nil_r. reflexivity.
Qed.

Lemma slice_mid' D a b c s l :
  D = a ++ b ++ c -> s = blen a -> l = blen b -> slice D s l = Some b.
Proof. intros -> -> ->. apply slice_mid. Qed.

Lemma slice_length d s l w : slice d s l = Some w -> blen w = l.
Proof.
  unfold slice. destruct (N.leb_spec (s + l) (blen d)) as [H|H]; [|discriminate].
  intros E. injection E as <-. unfold blen in *. rewrite firstn_length, skipn_length. lia.
Qed.

(* --- lengths and alignment ------------------------------------------------------------------ *)
Lemma pad_len_spec n : (n + pad_len n) mod 32 = 0 /\ pad_len n < 32.
Proof. unfold pad_len. split; lia. Qed.

Lemma enc_dyn_length b : blen (enc_dyn b) = 32 + blen b + pad_len (blen b).
Proof. unfold enc_dyn. rewrite !blen_app, blen_be, blen_zeros. lia. Qed.

Lemma enc_dyn_aligned b : blen (enc_dyn b) mod 32 = 0.
Proof. rewrite enc_dyn_length. pose proof (pad_len_spec (blen b)). lia. Qed.

Lemma enc_static_length v : val_ok v -> is_dynamic (ty_of v) = false -> blen (enc_static v) = 32.
Proof.
  destruct v as [n|n|a|s|b]; cbn [val_ok is_dynamic ty_of enc_static]; intros Hok Hd; try discriminate.
  - apply blen_be.
  - apply blen_be.
  - destruct Hok as [Hl _]. rewrite blen_app, blen_zeros. unfold blen. rewrite Hl. reflexivity.
Qed.

Lemma enc_tail_static v : is_dynamic (ty_of v) = false -> enc_tail v = [].
Proof. destruct v; cbn; intros H; try discriminate; reflexivity. Qed.

Lemma enc_tail_aligned v : blen (enc_tail v) mod 32 = 0.
Proof. destruct v; cbn [enc_tail]; try reflexivity; apply enc_dyn_aligned. Qed.

Lemma enc_tails_aligned args : blen (enc_tails args) mod 32 = 0.
Proof.
  induction args as [|v r IH]; [reflexivity|]. cbn [enc_tails]. rewrite blen_app.
  pose proof (enc_tail_aligned v). lia.
Qed.

Lemma enc_heads_length args off :
  Forall val_ok args -> blen (enc_heads args off) = 32 * N.of_nat (length args).
Proof.
  intros H. revert off. induction H as [|v r Hv Hr IH]; intros off; [reflexivity|].
  cbn [enc_heads length]. rewrite blen_app, IH.
  destruct (is_dynamic (ty_of v)) eqn:E.
  - rewrite blen_be. lia.
  - rewrite (enc_static_length v Hv E). lia.
Qed.

(* total length: one word per argument plus the tails *)
Theorem encode_length args :
  Forall val_ok args -> blen (encode args) = 32 * N.of_nat (length args) + blen (enc_tails args).
Proof. intros H. unfold encode. rewrite blen_app, enc_heads_length by exact H. reflexivity. Qed.

Theorem encode_aligned args : Forall val_ok args -> blen (encode args) mod 32 = 0.
Proof. intros H. rewrite encode_length by exact H. pose proof (enc_tails_aligned args). lia. Qed.

Lemma enc_static_wf v : val_ok v -> wf_bytes (enc_static v).
Proof.
  destruct v as [n|n|a|s|b]; cbn [val_ok enc_static]; intros H; try apply be_wf; try constructor.
  destruct H as [_ Hw]. apply wf_bytes_app; [apply zeros_wf|exact Hw].
Qed.

Lemma enc_dyn_wf b : wf_bytes b -> wf_bytes (enc_dyn b).
Proof.
  intros H. unfold enc_dyn. apply wf_bytes_app; [apply be_wf|]. apply wf_bytes_app; [exact H|apply zeros_wf].
Qed.

Theorem encode_wf args : Forall val_ok args -> wf_bytes (encode args).
Proof.
  intros H. unfold encode.
  assert (Ht : wf_bytes (enc_tails args)).
  { induction H as [|v r Hv Hr IH]; [constructor|]. cbn [enc_tails]. apply wf_bytes_app; [|exact IH].
    destruct v; cbn [enc_tail val_ok] in *; try (apply Forall_nil); apply enc_dyn_wf; exact Hv. }
  apply wf_bytes_app; [|exact Ht]. clear Ht.
  generalize (32 * N.of_nat (length args)). induction H as [|v r Hv Hr IH]; intros off; [constructor|].
  cbn [enc_heads]. apply wf_bytes_app; [|apply IH].
  destruct (is_dynamic (ty_of v)); [apply be_wf|apply enc_static_wf; exact Hv].
Qed.

(* --- reading one argument back ------------------------------------------------------------- *)
Lemma two63_lt_256_32 : two63 < 256 ^ N.of_nat 32.
Proof. vm_compute. reflexivity. Qed.
Lemma two64_lt_256_32 : two64 < 256 ^ N.of_nat 32.
Proof. vm_compute. reflexivity. Qed.
Lemma two256_eq : two256 = 256 ^ N.of_nat 32.
Proof. vm_compute. reflexivity. Qed.

Lemma to_go_type_static D pre v rest :
  D = pre ++ enc_static v ++ rest -> val_ok v -> is_dynamic (ty_of v) = false ->
  to_go_type (blen pre) (ty_of v) D = Some v.
Proof.
  intros HD Hok Hst. pose proof (enc_static_length v Hok Hst) as Hl.
  assert (Hs : slice D (blen pre) 32 = Some (enc_static v)).
  { apply (slice_mid' D pre (enc_static v) rest); auto. }
  unfold to_go_type.
  assert (Hlen : blen D = blen pre + (32 + blen rest)) by (subst D; rewrite !blen_app; lia).
  destruct (N.ltb_spec (blen D) (blen pre + 32)) as [H|_]; [lia|].
  destruct v as [n|n|a|s|b]; cbn [ty_of is_dynamic] in *; try discriminate; rewrite Hs; cbn [enc_static option_map val_ok] in *.
  - rewrite unbe_be by (pose proof two64_lt_256_32; lia).
    destruct (N.ltb_spec n two64) as [_|H]; [reflexivity|lia].
  - rewrite unbe_be by (rewrite <- two256_eq; exact Hok). reflexivity.
  - destruct Hok as [Hla _]. rewrite Hla. change (32 - 20)%nat with 12%nat.
    reflexivity.
Qed.

Lemma to_go_type_dynamic D pre mid b post off (str : bool) :
  D = pre ++ be 32 off ++ mid ++ enc_dyn b ++ post ->
  off = blen pre + 32 + blen mid ->
  blen D < two63 ->
  to_go_type (blen pre) (if str then TString else TBytes) D =
  Some (if str then VString b else VBytes b).
Proof.
  intros HD Hoff Hbound.
  assert (Hlen : blen D = blen pre + 32 + blen mid + (32 + blen b + pad_len (blen b)) + blen post).
  { subst D. rewrite !blen_app, blen_be, enc_dyn_length. lia. }
  assert (Hw : slice D (blen pre) 32 = Some (be 32 off)).
  { apply (slice_mid' D pre (be 32 off) (mid ++ enc_dyn b ++ post)); auto; rewrite blen_be; reflexivity. }
  assert (Hlw : slice D off 32 = Some (be 32 (blen b))).
  { apply (slice_mid' D (pre ++ be 32 off ++ mid) (be 32 (blen b)) (b ++ zeros (N.to_nat (pad_len (blen b))) ++ post)).
    - subst D. unfold enc_dyn. rewrite <- !app_assoc. reflexivity.
    - rewrite !blen_app, blen_be. lia.
    - rewrite blen_be. reflexivity. }
  assert (Hp : slice D (off + 32) (blen b) = Some b).
  { apply (slice_mid' D (pre ++ be 32 off ++ mid ++ be 32 (blen b)) b (zeros (N.to_nat (pad_len (blen b))) ++ post)).
    - subst D. unfold enc_dyn. rewrite <- !app_assoc. reflexivity.
    - rewrite !blen_app, !blen_be. lia.
    - reflexivity. }
  pose proof two63_lt_256_32 as H63.
  assert (Hlp : length_prefix_points_to (blen pre) D = Some (off + 32, blen b)).
  { unfold length_prefix_points_to. rewrite Hw. rewrite unbe_be by lia.
    destruct (N.ltb_spec (blen D) (off + 32)) as [H|_]; [lia|].
    destruct (N.leb_spec two63 (off + 32)) as [H|_]; [lia|].
    replace (off + 32 - 32) with off by lia. rewrite Hlw. rewrite unbe_be by lia.
    destruct (N.leb_spec two63 (off + 32 + blen b)) as [H|_]; [lia|].
    destruct (N.ltb_spec (blen D) (off + 32 + blen b)) as [H|_]; [lia|]. reflexivity. }
  unfold to_go_type.
  destruct (N.ltb_spec (blen D) (blen pre + 32)) as [H|_]; [lia|].
  destruct str; rewrite Hlp, Hp; reflexivity.
Qed.

Lemma to_go_type_enc D pre v mid post off :
  D = pre ++ (if is_dynamic (ty_of v) then be 32 off else enc_static v) ++ mid ++ enc_tail v ++ post ->
  off = blen pre + 32 + blen mid ->
  blen D < two63 -> val_ok v ->
  to_go_type (blen pre) (ty_of v) D = Some v.
Proof.
  intros HD Hoff Hb Hok.
  destruct (is_dynamic (ty_of v)) eqn:E.
  - destruct v as [n|n|a|s|b]; cbn [ty_of is_dynamic] in E; try discriminate; cbn [ty_of enc_tail] in *.
    + apply (to_go_type_dynamic D pre mid s post off true); assumption.
    + apply (to_go_type_dynamic D pre mid b post off false); assumption.
  - apply (to_go_type_static D pre v (mid ++ enc_tail v ++ post)); assumption.
Qed.

(* --- the round trip --------------------------------------------------------------------------- *)
Lemma decode_from_heads_tails args : forall pre_h pre_t i D,
  Forall val_ok args ->
  blen pre_h = 32 * i ->
  D = pre_h ++ enc_heads args (32 * (i + N.of_nat (length args)) + blen pre_t) ++ pre_t ++ enc_tails args ->
  blen D < two63 ->
  decode_from i (map ty_of args) D = Some args.
Proof.
  induction args as [|v r IH]; intros pre_h pre_t i D Hok Hpre HD Hb; [reflexivity|].
  inversion Hok as [|v' r' Hv Hr]; subst v' r'.
  cbn [map decode_from enc_heads enc_tails length] in *.
  set (off := 32 * (i + N.of_nat (S (length r))) + blen pre_t) in *.
  set (hv := if is_dynamic (ty_of v) then be 32 off else enc_static v) in *.
  assert (Hhv : blen hv = 32).
  { unfold hv. destruct (is_dynamic (ty_of v)) eqn:E; [apply blen_be|apply enc_static_length; assumption]. }
  assert (Hv1 : to_go_type (32 * i) (ty_of v) D = Some v).
  { rewrite <- Hpre.
    apply (to_go_type_enc D pre_h v (enc_heads r (off + blen (enc_tail v)) ++ pre_t) (enc_tails r) off).
    - rewrite HD. fold hv. rewrite <- !app_assoc. reflexivity.
    - rewrite blen_app, enc_heads_length by exact Hr. unfold off. lia.
    - exact Hb.
    - exact Hv. }
  rewrite Hv1.
  rewrite (IH (pre_h ++ hv) (pre_t ++ enc_tail v) (i + 1) D Hr).
  - reflexivity.
  - rewrite blen_app, Hhv. lia.
  - rewrite HD. rewrite <- !app_assoc. do 2 f_equal.
    replace (32 * (i + 1 + N.of_nat (length r)) + blen (pre_t ++ enc_tail v)) with (off + blen (enc_tail v))
      by (unfold off; rewrite blen_app; lia).
    reflexivity.
  - exact Hb.
Qed.

Lemma encode_nonempty v r : Forall val_ok (v :: r) -> 32 <= blen (encode (v :: r)).
Proof. intros H. rewrite encode_length by exact H. cbn [length]. lia. Qed.

(* decode (encode args) = args, for every argument list in range whose encoding is shorter
   than 2^63 bytes (go-ethereum refuses offsets and lengths that do not fit an int64) *)
Theorem decode_encode args :
  Forall val_ok args -> blen (encode args) < two63 ->
  decode (map ty_of args) (encode args) = Some args.
Proof.
  intros Hok Hb. destruct args as [|v r]; [reflexivity|].
  pose proof (encode_nonempty v r Hok) as Hne.
  unfold decode. destruct (encode (v :: r)) as [|c e] eqn:E; [cbn in Hne; lia|]. rewrite <- E in *.
  apply (decode_from_heads_tails (v :: r) [] [] 0 (encode (v :: r))); [exact Hok|reflexivity| |exact Hb].
  unfold encode. cbn [app]. change (blen []) with 0.
  replace (32 * (0 + N.of_nat (length (v :: r))) + 0) with (32 * N.of_nat (length (v :: r))) by lia.
  reflexivity.
Qed.

Theorem unpack_output_encode args :
  Forall val_ok args -> blen (encode args) < two63 ->
  unpack_output (map ty_of args) (encode args) = Some args.
Proof.
  intros Hok Hb. unfold unpack_output. rewrite (encode_aligned args Hok). cbn [N.eqb].
  apply decode_encode; assumption.
Qed.

Lemma selector_length keccak sig : (4 <= length (keccak sig))%nat -> length (selector keccak sig) = 4%nat.
Proof. intros H. unfold selector. rewrite firstn_length. lia. Qed.

(* calldata: the selector and the argument list are recovered *)
Theorem decode_call_encode_call keccak name args :
  (4 <= length (keccak (method_sig name (map ty_of args))))%nat ->
  Forall val_ok args -> blen (encode args) < two63 ->
  decode_call (map ty_of args) (encode_call keccak name args) =
  Some (selector keccak (method_sig name (map ty_of args)), args).
Proof.
  intros Hk Hok Hb. unfold encode_call.
  pose proof (selector_length keccak _ Hk) as Hl.
  destruct (selector keccak (method_sig name (map ty_of args))) as [|a [|b [|c [|e [|f s]]]]]; cbn in Hl; try lia.
  cbn [app decode_call]. rewrite decode_encode by assumption. reflexivity.
Qed.

(* the encoding is injective on argument lists of one shape *)
Corollary encode_inj a b :
  Forall val_ok a -> Forall val_ok b -> blen (encode a) < two63 ->
  map ty_of a = map ty_of b -> encode a = encode b -> a = b.
Proof.
  intros Ha Hb Hl Ht He.
  assert (H1 := decode_encode a Ha Hl).
  rewrite He in Hl. assert (H2 := decode_encode b Hb Hl).
  rewrite Ht, He in H1. congruence.
Qed.

(* --- return data of a uint256 method ---------------------------------------------------------- *)
Theorem decode_uint256_spec d :
  decode_uint256 d =
  if (blen d mod 32 =? 0) && negb (blen d =? 0) then Some (unbe (firstn 32 d)) else None.
Proof.
  unfold decode_uint256, unpack_output.
  destruct (N.eqb_spec (blen d mod 32) 0) as [Hm|Hm]; cbn [andb]; [|reflexivity].
  destruct d as [|c r]; [reflexivity|].
  assert (Hlen : 32 <= blen (c :: r)).
  { assert (0 < blen (c :: r)) by (rewrite blen_cons; lia). lia. }
  destruct (N.eqb_spec (blen (c :: r)) 0) as [H0|_]; [lia|]. cbn [negb].
  unfold decode. cbn [decode_from]. change (32 * 0) with 0. unfold to_go_type.
  destruct (N.ltb_spec (blen (c :: r)) (0 + 32)) as [H|_]; [lia|].
  unfold slice. destruct (N.leb_spec (0 + 32) (blen (c :: r))) as [_|H]; [|lia].
  change (N.to_nat 0) with 0%nat. change (N.to_nat 32) with 32%nat. cbn [skipn option_map].
  reflexivity.
Qed.

Lemma decode_uint256_empty : decode_uint256 [] = None.
Proof. reflexivity. Qed.

Lemma decode_uint256_unaligned d : blen d mod 32 <> 0 -> decode_uint256 d = None.
Proof.
  intros H. rewrite decode_uint256_spec. destruct (N.eqb_spec (blen d mod 32) 0); [contradiction|reflexivity].
Qed.

Lemma decode_uint256_some d v :
  decode_uint256 d = Some v -> blen d mod 32 = 0 /\ 32 <= blen d /\ v = unbe (firstn 32 d).
Proof.
  rewrite decode_uint256_spec.
  destruct (N.eqb_spec (blen d mod 32) 0) as [Hm|Hm]; cbn [andb]; [|discriminate].
  destruct (N.eqb_spec (blen d) 0) as [H0|H0]; cbn [negb]; [discriminate|].
  intros E. injection E as <-. repeat split; [exact Hm|lia].
Qed.

(* a well-formed value word, followed by any whole number of further words *)
Theorem decode_uint256_word v rest :
  v < two256 -> blen rest mod 32 = 0 -> decode_uint256 (be 32 v ++ rest) = Some v.
Proof.
  intros Hv Hr. rewrite decode_uint256_spec, blen_app, blen_be.
  destruct (N.eqb_spec ((N.of_nat 32 + blen rest) mod 32) 0) as [_|H]; [|lia].
  destruct (N.eqb_spec (N.of_nat 32 + blen rest) 0) as [H|_]; [lia|]. cbn [andb negb].
  pose proof (be_length 32 v) as Hl.
  rewrite firstn_app, Hl, Nat.sub_diag, firstn_O, app_nil_r.
  rewrite (firstn_all2 (n := 32) (be 32 v)) by lia. rewrite unbe_be by (rewrite <- two256_eq; exact Hv). reflexivity.
Qed.

Corollary decode_uint256_be v : v < two256 -> decode_uint256 (be 32 v) = Some v.
Proof. intros H. rewrite <- (app_nil_r (be 32 v)). apply decode_uint256_word; [exact H|reflexivity]. Qed.

(* whatever is decoded from well-formed bytes is below 2^256 *)
Lemma unle_bound l : wf_bytes l -> unle l < 256 ^ N.of_nat (length l).
Proof.
  induction 1 as [|b r Hb Hr IH]; [cbn; lia|].
  cbn [unle length]. rewrite Nat2N.inj_succ, N.pow_succ_r'. lia.
Qed.

Lemma wf_bytes_firstn n l : wf_bytes l -> wf_bytes (firstn n l).
Proof.
  unfold wf_bytes. intros H. revert n. induction H as [|b r Hb Hr IH]; intros [|n]; cbn [firstn]; constructor; auto.
Qed.

Lemma decode_uint256_range d v : wf_bytes d -> decode_uint256 d = Some v -> v < two256.
Proof.
  intros Hw H. apply decode_uint256_some in H. destruct H as (_ & Hl & ->).
  unfold unbe. rewrite two256_eq.
  assert (Hf : length (rev (firstn 32 d)) = 32%nat).
  { rewrite rev_length, firstn_length. unfold blen in Hl. lia. }
  pose proof (unle_bound (rev (firstn 32 d))) as Hb. rewrite Hf in Hb.
  apply Hb. apply Forall_rev. apply wf_bytes_firstn. exact Hw.
Qed.

(* --- non-vacuity ------------------------------------------------------------------------------ *)
(* the storeCommitment shape (uint64,uint64,string,uint64,uint64,bytes,bytes) round-trips *)
Example decode_encode_example :
  let args := [VUint64 5; VUint64 18446744073709551615; VString (bos "ab,cd"); VUint64 0; VUint64 7;
               VBytes (x "00ff10"); VBytes []] in
  Forall val_ok args /\ blen (encode args) = 384 /\
  decode (map ty_of args) (encode args) = Some args.
Proof. cbn zeta. split; [|split; vm_compute; reflexivity]. repeat constructor; vm_compute; reflexivity. Qed.

Example method_sig_example :
  method_sig (bos "checkStake") [TAddress] = bos "checkStake(address)" /\
  method_sig (bos "minStake") [] = bos "minStake()" /\
  method_sig (bos "f") [TUint64; TString; TBytes] = bos "f(uint64,string,bytes)".
Proof. repeat split; vm_compute; reflexivity. Qed.

(* return data of lengths 0, 31, 32, 33, 64 *)
Example decode_uint256_lengths :
  decode_uint256 [] = None /\ decode_uint256 (repeat 1 31) = None /\
  decode_uint256 (be 32 7) = Some 7 /\ decode_uint256 (be 32 7 ++ [0]) = None /\
  decode_uint256 (be 32 7 ++ be 32 9) = Some 7.
Proof. repeat split; vm_compute; reflexivity. Qed.
