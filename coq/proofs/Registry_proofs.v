(* Lemmas and theorems about model/Registry.v (property C11). *)
From Coq Require Import String List NArith ZArith Bool Lia ZifyN ZifyNat ZifyBool.
From MevVerif Require Import lib.Bytes lib.Abi gen.Generated model.Registry
  proofs.Bytes_proofs proofs.Abi_proofs.
Import ListNotations.
Open Scope N_scope.

(* --- what the extractor found in /repo -------------------------------------------------------- *)
(* the names given to Pack and Unpack in the three methods of each package are the model's *)
Definition the_one (l : list bytes) : bytes := match l with [a] => a | _ => [] end.

Lemma provider_registry_extracted :
  provider_registry =
  {| r_register := the_one c11_prov_register_pack;
     r_min := the_one c11_prov_min_pack; r_min_unpack := the_one c11_prov_min_unpack;
     r_stake := the_one c11_prov_stake_pack; r_stake_unpack := the_one c11_prov_stake_unpack |}.
Proof. reflexivity. Qed.

Lemma bidder_registry_extracted :
  bidder_registry =
  {| r_register := the_one c11_bid_register_pack;
     r_min := the_one c11_bid_min_pack; r_min_unpack := the_one c11_bid_min_unpack;
     r_stake := the_one c11_bid_stake_pack; r_stake_unpack := the_one c11_bid_stake_unpack |}.
Proof. reflexivity. Qed.

(* exactly one Pack (and one Unpack) in each method, with these names *)
Lemma extracted_call_sites :
  c11_prov_register_pack = [bos "registerAndStake"] /\
  c11_prov_min_pack = [bos "minStake"] /\ c11_prov_min_unpack = [bos "minStake"] /\
  c11_prov_stake_pack = [bos "checkStake"] /\ c11_prov_stake_unpack = [bos "checkStake"] /\
  c11_bid_register_pack = [bos "prepay"] /\
  c11_bid_min_pack = [bos "minAllowance"] /\ c11_bid_min_unpack = [bos "minAllowance"] /\
  c11_bid_stake_pack = [bos "getAllowance"] /\ c11_bid_stake_unpack = [bos "getAllowance"].
Proof. repeat split; reflexivity. Qed.

(* --- how the node is assembled (pkg/node/node.go: NewNode) ----------------------------------- *)
Fixpoint prefixb (p l : bytes) : bool :=
  match p, l with
  | [], _ => true
  | a :: p', b :: l' => (a =? b) && prefixb p' l'
  | _ :: _, [] => false
  end.
Fixpoint containsb (p l : bytes) : bool :=
  prefixb p l || match l with [] => false | _ :: r => containsb p r end.
Definition arg_of (k : nat) (rows : list (list bytes)) : list bytes := map (fun row => nth k row []) rows.

(* which contract address each registry object is built with, and who gets which object *)
Lemma node_wiring :
  (* the one assignment of each address: from the option of the same name *)
  c11_node_provreg_addr = [bos "common.HexToAddress(opts.ProviderRegistryContract)"] /\
  c11_node_bidreg_addr = [bos "common.HexToAddress(opts.BidderRegistryContract)"] /\
  (* the one constructor call of each package: that address, the node's evm client *)
  arg_of 0 c11_node_provreg_new_args = [bos "providerRegistryContractAddr"] /\
  arg_of 1 c11_node_provreg_new_args = [bos "evmClient"] /\
  arg_of 0 c11_node_bidreg_new_args = [bos "bidderRegistryContractAddr"] /\
  arg_of 1 c11_node_bidreg_new_args = [bos "evmClient"] /\
  (* the one assignment of each object: the result of the constructor of its own package *)
  map (prefixb (bos "provider_registrycontract.New(")) c11_node_provreg_obj = [true] /\
  map (prefixb (bos "bidder_registrycontract.New(")) c11_node_bidreg_obj = [true] /\
  (* the handshake (libp2p.Options.Register) gets the PROVIDER registry *)
  map (containsb (bos " Register: providerRegistry, ")) (arg_of 0 c11_node_libp2p_args) = [true] /\
  (* the preconfirmation handler (both branches) gets the BIDDER registry as its allowance store *)
  arg_of 3 c11_node_preconf_new_args = [bos "bidderRegistry"; bos "bidderRegistry"] /\
  (* the RPC services: stake -> provider registry, prepay -> bidder registry *)
  arg_of 1 c11_node_providerapi_args = [bos "providerRegistry"] /\
  arg_of 2 c11_node_bidderapi_args = [bos "bidderRegistry"].
Proof. repeat split; vm_compute; reflexivity. Qed.

(* what the client's monitor hands to a receipt waiter (pkg/evmclient/txmonitor.go: check): a
   receipt it obtained, the cancellation error, or the receipt object it decoded into -- the
   three results EvmClient.WaitForReceipt can pass on besides "monitor closed".  This anchors the
   text of the three delivery sites; the guards around them ([receipt != nil],
   [result.Result != nil]) are beyond the reach of the extractor. *)
Lemma monitor_deliveries :
  arg_of 2 c11_monitor_notify_args =
  [bos "Result{receipt, nil}"; bos "Result{nil, ErrTxnCancelled}";
   bos "Result{result.Result.(" ++ bos "*types.Receipt), nil}"].
Proof. vm_compute. reflexivity. Qed.

(* the two registry objects carry the parsed ABI, the contract address, the client and the logger,
   and nothing else: a cache, a prepared request, a template or a call-coalescing group would be a
   further field (source text of the struct types, gen/Generated.v) *)
Lemma registry_objects_have_no_other_state :
  c11_prov_struct = [bos "registryABI abi.ABI"; bos "registryContractAddr common.Address";
                     bos "client evmclient.Interface"; bos "logger " ++ bos "*slog.Logger"] /\
  c11_bid_struct = [bos "bidderRegistryABI abi.ABI"; bos "bidderRegistryContractAddr common.Address";
                    bos "client evmclient.Interface"; bos "logger " ++ bos "*slog.Logger"].
Proof. split; vm_compute; reflexivity. Qed.

Lemma provider_signatures :
  method_sig (r_register provider_registry) [] = bos "registerAndStake()" /\
  method_sig (r_min provider_registry) [] = bos "minStake()" /\
  method_sig (r_stake provider_registry) [TAddress] = bos "checkStake(address)".
Proof. repeat split; reflexivity. Qed.

Lemma bidder_signatures :
  method_sig (r_register bidder_registry) [] = bos "prepay()" /\
  method_sig (r_min bidder_registry) [] = bos "minAllowance()" /\
  method_sig (r_stake bidder_registry) [TAddress] = bos "getAllowance(address)".
Proof. repeat split; reflexivity. Qed.

(* --- requests ------------------------------------------------------------------------------------ *)
Lemma encode_call_noargs kec name : encode_call kec name [] = selector kec (method_sig name []).
Proof. unfold encode_call, encode. cbn [map enc_heads enc_tails length app]. apply app_nil_r. Qed.

Section Facts.
  Context (kec : bytes -> bytes) (cfg : registry) (reg : bytes).

  Let min_req := read_req kec reg (r_min cfg) [].
  Let stake_req addr := read_req kec reg (r_stake cfg) [VAddress addr].

  (* ---- the check ----------------------------------------------------------------------------- *)
  Definition reads_ok (a_min a_stake : callres) (m s : N) : Prop :=
    exists bm bs, a_min = CBytes bm /\ a_stake = CBytes bs /\
                  decode_uint256 bm = Some m /\ decode_uint256 bs = Some s.

  Lemma check_spec addr a1 a2 :
    snd (check kec cfg reg addr a1 a2) = true <-> exists m s, reads_ok a1 a2 m s /\ m <= s.
  Proof.
    unfold check, get_min, get_stake, reads_ok. split.
    - destruct a1 as [|b1]; cbn [snd]; [discriminate|].
      destruct (decode_uint256 b1) as [m|] eqn:E1; cbn [snd]; [|discriminate].
      destruct a2 as [|b2]; cbn [snd]; [discriminate|].
      destruct (decode_uint256 b2) as [s|] eqn:E2; cbn [snd]; [|discriminate].
      intros H. exists m, s. split; [exists b1, b2; auto|]. apply N.leb_le. exact H.
    - intros (m & s & (b1 & b2 & -> & -> & E1 & E2) & Hle). rewrite E1, E2. cbn [snd].
      apply N.leb_le. exact Hle.
  Qed.

  (* every failure placement: an error or undecodable bytes in either read gives no *)
  Lemma check_fail_closed addr a1 a2 :
    (a1 = CErr \/ (exists b, a1 = CBytes b /\ decode_uint256 b = None) \/
     a2 = CErr \/ (exists b, a2 = CBytes b /\ decode_uint256 b = None)) ->
    snd (check kec cfg reg addr a1 a2) = false.
  Proof.
    intros H. destruct (snd (check kec cfg reg addr a1 a2)) eqn:E; [|reflexivity].
    apply check_spec in E. destruct E as (m & s & (b1 & b2 & -> & -> & E1 & E2) & _).
    destruct H as [H|[(b & H & Hd)|[H|(b & H & Hd)]]]; try discriminate; injection H as <-; congruence.
  Qed.

  (* what the check asks of the chain: the minimum first, and the account's amount only once
     the minimum has been obtained; reads only, all addressed to the configured contract *)
  Lemma check_trace addr a1 a2 :
    fst (check kec cfg reg addr a1 a2) =
    ECall min_req ::
      match a1 with
      | CErr => []
      | CBytes b => match decode_uint256 b with Some _ => [ECall (stake_req addr)] | None => [] end
      end.
  Proof.
    unfold check, get_min, get_stake. destruct a1 as [|b1]; [reflexivity|].
    destruct (decode_uint256 b1); [|reflexivity].
    destruct a2 as [|b2]; [reflexivity|]. destruct (decode_uint256 b2); reflexivity.
  Qed.

  Lemma check_reads_only addr a1 a2 :
    sends (fst (check kec cfg reg addr a1 a2)) = [] /\
    Forall (fun r => tx_to r = reg /\ tx_value r = None /\ tx_gas r = false)
           (calls (fst (check kec cfg reg addr a1 a2))).
  Proof.
    rewrite check_trace. destruct a1 as [|b1]; [|destruct (decode_uint256 b1)]; cbn; repeat constructor.
  Qed.

  (* the comparison, for all amounts below 2^256 returned as one word followed by any whole
     number of further words *)
  Lemma check_boundary addr m s r1 r2 :
    m < two256 -> s < two256 -> blen r1 mod 32 = 0 -> blen r2 mod 32 = 0 ->
    snd (check kec cfg reg addr (CBytes (be 32 m ++ r1)) (CBytes (be 32 s ++ r2))) = (m <=? s).
  Proof.
    intros Hm Hs H1 H2. unfold check, get_min, get_stake.
    rewrite (decode_uint256_word m r1 Hm H1), (decode_uint256_word s r2 Hs H2). reflexivity.
  Qed.

  Corollary check_at_minimum addr m :
    m < two256 -> snd (check kec cfg reg addr (CBytes (be 32 m)) (CBytes (be 32 m))) = true.
  Proof.
    intros Hm. rewrite <- (app_nil_r (be 32 m)). rewrite check_boundary by (auto; reflexivity).
    apply N.leb_refl.
  Qed.

  Corollary check_below_minimum addr m :
    0 < m -> m < two256 ->
    snd (check kec cfg reg addr (CBytes (be 32 m)) (CBytes (be 32 (m - 1)))) = false.
  Proof.
    intros H0 Hm. rewrite <- (app_nil_r (be 32 m)), <- (app_nil_r (be 32 (m - 1))).
    rewrite check_boundary by (try reflexivity; lia). apply N.leb_gt. lia.
  Qed.

  (* the argument of the second read is the account asked about *)
  Lemma stake_req_decodes addr :
    (4 <= length (kec (method_sig (r_stake cfg) [TAddress])))%nat ->
    length addr = 20%nat -> wf_bytes addr ->
    decode_call [TAddress] (tx_data (stake_req addr)) =
    Some (selector kec (method_sig (r_stake cfg) [TAddress]), [VAddress addr]).
  Proof.
    intros Hk Hl Hw. unfold stake_req, read_req. cbn [tx_data].
    apply (decode_call_encode_call kec (r_stake cfg) [VAddress addr]).
    - exact Hk.
    - repeat constructor; assumption.
    - rewrite encode_length by (repeat constructor; assumption). vm_compute. reflexivity.
  Qed.

  (* ---- stake / prepay ---------------------------------------------------------------------- *)
  Definition the_send (amount : option Z) : txreq :=
    {| tx_to := reg; tx_value := amount;
       tx_data := selector kec (method_sig (r_register cfg) []); tx_gas := false |}.

  Lemma send_req_eq amount : send_req kec cfg reg amount = the_send amount.
  Proof. unfold send_req, the_send. rewrite encode_call_noargs. reflexivity. Qed.

  (* exactly one Send, first, with the requested amount as value, to the configured contract,
     calldata = the four selector bytes of the stake / prepay method; no reads *)
  Lemma register_value amount s w :
    sends (fst (register kec cfg reg amount s w)) = [the_send amount] /\
    hd_error (fst (register kec cfg reg amount s w)) = Some (ESend (the_send amount)) /\
    calls (fst (register kec cfg reg amount s w)) = [].
  Proof.
    unfold register. rewrite send_req_eq. destruct s as [|h]; cbn; auto.
  Qed.

  (* success is reported only for a transaction that was sent, whose receipt was then
     obtained, with the success status *)
  Lemma register_status amount s w :
    snd (register kec cfg reg amount s w) = Ok tt <->
    exists h, s = SHash h /\ w = WReceipt 1.
  Proof.
    unfold register. split.
    - destruct s as [|h]; cbn [snd]; [discriminate|].
      destruct w as [| |st]; try discriminate.
      unfold receipt_status_successful. destruct (N.eqb_spec st 1) as [->|]; [|discriminate].
      intros _. exists h. auto.
    - intros (h & -> & ->). reflexivity.
  Qed.

  Lemma register_ok_trace amount s w :
    snd (register kec cfg reg amount s w) = Ok tt ->
    exists h, s = SHash h /\ w = WReceipt 1 /\
              fst (register kec cfg reg amount s w) = [ESend (the_send amount); EWait h].
  Proof.
    intros H. apply register_status in H. destruct H as (h & -> & ->).
    exists h. unfold register. rewrite send_req_eq. auto.
  Qed.

  (* reverted (any status but 1), cancelled / failed wait, failed send: an error *)
  Lemma register_errors amount s w :
    (s = SErr \/ w = WErr \/ exists st, w = WReceipt st /\ st <> 1) ->
    exists c, snd (register kec cfg reg amount s w) = Err c.
  Proof.
    unfold register. intros [->|[->|(st & -> & Hst)]].
    - exists 1. reflexivity.
    - destruct s; [exists 1|exists 2]; reflexivity.
    - destruct s; [exists 1; reflexivity|]. exists 3. cbn [snd].
      unfold receipt_status_successful. destruct (N.eqb_spec st 1); [contradiction|reflexivity].
  Qed.

  (* the function before the repair: a transaction mined with the failure status 0 is
     reported as success *)
  Lemma register_v0_refuted :
    exists amount s w, w = WReceipt 0 /\ snd (register_v0 kec cfg reg amount s w) = Ok tt.
  Proof. exists (Some 5%Z), (SHash [1]), (WReceipt 0). split; reflexivity. Qed.

  Lemma register_v0_differs_only_on_failed_status amount s w :
    register_v0 kec cfg reg amount s w <> register kec cfg reg amount s w ->
    exists h st, s = SHash h /\ w = WReceipt st /\ st <> 1.
  Proof.
    unfold register_v0, register. destruct s as [|h]; [congruence|].
    destruct w as [| |st]; try congruence.
    unfold receipt_status_successful. destruct (N.eqb_spec st 1) as [->|Hne]; [congruence|].
    intros _. exists h, st. auto.
  Qed.

  (* ---- the RPC methods ------------------------------------------------------------------------- *)
  Lemma svc_register_ok owner valid parsed s w a t v :
    svc_register kec cfg reg owner valid parsed s w a = (t, SvcOk v) ->
    valid = true /\
    exists amt h b, parsed = Some amt /\ s = SHash h /\ w = WReceipt 1 /\
                    a = CBytes b /\ decode_uint256 b = Some v /\
                    t = [ESend (the_send (Some amt)); EWait h; ECall (stake_req owner)].
  Proof.
    unfold svc_register. destruct valid; cbn [negb]; [|discriminate].
    destruct parsed as [amt|]; [|discriminate].
    destruct (register kec cfg reg (Some amt) s w) as [t1 r] eqn:E.
    destruct r as [[]|c|]; try discriminate.
    assert (Hr : snd (register kec cfg reg (Some amt) s w) = Ok tt) by (rewrite E; reflexivity).
    apply register_ok_trace in Hr. destruct Hr as (h & -> & -> & Ht). rewrite E in Ht. cbn [fst] in Ht.
    unfold get_stake. destruct a as [|b]; [discriminate|].
    destruct (decode_uint256 b) as [v'|] eqn:Ed; [|discriminate].
    intros H. injection H as <- <-. split; [reflexivity|].
    exists amt, h, b. subst t1. repeat split; auto.
  Qed.

  (* nothing is sent for a request that is refused, and a stake/prepay that failed is an
     Internal error *)
  Lemma svc_register_refused owner valid parsed s w a :
    valid = false \/ parsed = None ->
    svc_register kec cfg reg owner valid parsed s w a = ([], SvcInvalidArgument).
  Proof.
    unfold svc_register. intros [->| ->]; [reflexivity|]. destruct valid; reflexivity.
  Qed.

  Lemma svc_register_failed owner amt s w a c :
    snd (register kec cfg reg (Some amt) s w) = Err c ->
    snd (svc_register kec cfg reg owner true (Some amt) s w a) = SvcInternal.
  Proof.
    unfold svc_register. cbn [negb]. destruct (register kec cfg reg (Some amt) s w) as [t1 r].
    cbn [snd]. intros ->. reflexivity.
  Qed.
  (* ---- one object, many operations: every operation sees only its own answers ---------------- *)
  Lemma session_nth qs n :
    nth_error (session kec cfg reg qs) n = option_map (run_request kec cfg reg) (nth_error qs n).
  Proof.
    unfold session. revert n. induction qs as [|q r IH]; intros [|n]; cbn; auto.
  Qed.

  Lemma session_check_stateless qs n addr a1 a2 :
    nth_error qs n = Some (QCheck addr a1 a2) ->
    exists t b,
      nth_error (session kec cfg reg qs) n = Some (t, ACheck b) /\
      t = fst (check kec cfg reg addr a1 a2) /\ b = snd (check kec cfg reg addr a1 a2) /\
      hd_error t = Some (ECall min_req) /\
      (b = true <-> exists m s, reads_ok a1 a2 m s /\ m <= s).
  Proof.
    intros H. rewrite session_nth, H. cbn [option_map run_request].
    destruct (check kec cfg reg addr a1 a2) as [t b] eqn:E. exists t, b.
    assert (Et : t = fst (check kec cfg reg addr a1 a2)) by (rewrite E; reflexivity).
    assert (Eb : b = snd (check kec cfg reg addr a1 a2)) by (rewrite E; reflexivity).
    repeat split; auto.
    - rewrite Et, check_trace. reflexivity.
    - rewrite Eb. apply check_spec.
    - rewrite Eb. apply check_spec.
  Qed.

  (* two histories that give the same answers to the n-th check get the same n-th outcome,
     whatever happened before or after *)
  Lemma session_check_independent qs qs' n addr a1 a2 :
    nth_error qs n = Some (QCheck addr a1 a2) -> nth_error qs' n = Some (QCheck addr a1 a2) ->
    nth_error (session kec cfg reg qs) n = nth_error (session kec cfg reg qs') n.
  Proof. intros H H'. rewrite !session_nth, H, H'. reflexivity. Qed.

  Lemma session_getters_stateless qs n :
    (forall a, nth_error qs n = Some (QGetMin a) ->
       nth_error (session kec cfg reg qs) n =
       Some ([ECall min_req], ANum (match a with CErr => None | CBytes b => decode_uint256 b end))) /\
    (forall addr a, nth_error qs n = Some (QGetStake addr a) ->
       nth_error (session kec cfg reg qs) n =
       Some ([ECall (stake_req addr)], ANum (match a with CErr => None | CBytes b => decode_uint256 b end))).
  Proof.
    split; [intros a H|intros addr a H]; rewrite session_nth, H; reflexivity.
  Qed.
  (* stake / prepay calls on one object: each carries its own amount, whatever the others do *)
  Lemma session_register_stateless qs n amount s w :
    nth_error qs n = Some (QRegister amount s w) ->
    exists t o,
      nth_error (session kec cfg reg qs) n = Some (t, AReg o) /\
      sends t = [the_send amount] /\ hd_error t = Some (ESend (the_send amount)) /\
      (o = Ok tt <-> exists h, s = SHash h /\ w = WReceipt 1).
  Proof.
    intros H. rewrite session_nth, H. cbn [option_map run_request].
    destruct (register kec cfg reg amount s w) as [t o] eqn:E. exists t, o.
    pose proof (register_value amount s w) as (H1 & H2 & _). rewrite E in H1, H2. cbn [fst] in H1, H2.
    pose proof (register_status amount s w) as H3. rewrite E in H3. cbn [snd] in H3.
    repeat split; auto; apply H3.
  Qed.
  (* through the real client: success needs a receipt with status 1 that the caller itself got *)
  Lemma register_via_client_status amount s w late :
    snd (register kec cfg reg amount s (evm_wait late w)) = Ok tt <->
    late = false /\ exists h, s = SHash h /\ w = WReceipt 1.
  Proof.
    rewrite register_status. unfold evm_wait. split.
    - intros (h & -> & Hw). destruct late; [discriminate|]. split; [reflexivity|]. exists h. auto.
    - intros (-> & h & -> & ->). exists h. auto.
  Qed.
  (* the only way to a crash: a nil receipt without an error *)
  Lemma register_panic amount s w :
    snd (register kec cfg reg amount s w) = Panic <-> exists h, s = SHash h /\ w = WNil.
  Proof.
    unfold register. split.
    - destruct s as [|h]; cbn [snd]; [discriminate|]. destruct w as [| |st]; try discriminate.
      + intros _. exists h. auto.
      + destruct (st =? receipt_status_successful); discriminate.
    - intros (h & -> & ->). reflexivity.
  Qed.

  (* every answer of the client is covered: success, error or (nil receipt only) crash *)
  Lemma register_total amount s w :
    match snd (register kec cfg reg amount s w) with
    | Ok _ => exists h, s = SHash h /\ w = WReceipt 1
    | Panic => exists h, s = SHash h /\ w = WNil
    | Err _ => s = SErr \/ w = WErr \/ exists st, w = WReceipt st /\ st <> 1
    end.
  Proof.
    unfold register. destruct s as [|h]; cbn [snd]; [auto|].
    destruct w as [| |st]; [auto|exists h; auto|].
    unfold receipt_status_successful. destruct (N.eqb_spec st 1) as [->|Hne]; [exists h; auto|].
    right. right. exists st. auto.
  Qed.

  Lemma register_errors_strong amount s w :
    w <> WNil -> ~ (exists h, s = SHash h /\ w = WReceipt 1) ->
    exists c, snd (register kec cfg reg amount s w) = Err c.
  Proof.
    intros Hn Hno. pose proof (register_total amount s w) as H.
    destruct (snd (register kec cfg reg amount s w)) as [u|c|].
    - contradiction.
    - exists c. reflexivity.
    - destruct H as (h & _ & Hw). contradiction.
  Qed.
End Facts.

(* --- non-vacuity ------------------------------------------------------------------------------- *)
(* a toy hash (the first four bytes of the signature) is enough to run the model *)
Definition toy_kec (b : bytes) : bytes := b.

Example check_yes_example :
  check toy_kec provider_registry (repeat 7 20) (repeat 9 20) (CBytes (be 32 100)) (CBytes (be 32 100)) =
  ([ECall {| tx_to := repeat 7 20; tx_value := None; tx_data := bos "minS"; tx_gas := false |};
    ECall {| tx_to := repeat 7 20; tx_value := None;
             tx_data := bos "chec" ++ zeros 12 ++ repeat 9 20; tx_gas := false |}], true).
Proof. vm_compute. reflexivity. Qed.

Example check_no_example :
  snd (check toy_kec bidder_registry (repeat 7 20) (repeat 9 20) (CBytes (be 32 100)) (CBytes (be 32 99))) = false /\
  snd (check toy_kec bidder_registry (repeat 7 20) (repeat 9 20) (CBytes (be 32 100)) CErr) = false /\
  snd (check toy_kec bidder_registry (repeat 7 20) (repeat 9 20) (CBytes (repeat 0 31)) (CBytes (be 32 5))) = false /\
  fst (check toy_kec bidder_registry (repeat 7 20) (repeat 9 20) CErr (CBytes (be 32 5))) =
    [ECall {| tx_to := repeat 7 20; tx_value := None; tx_data := bos "minA"; tx_gas := false |}].
Proof. repeat split; vm_compute; reflexivity. Qed.

Example register_examples :
  register toy_kec provider_registry (repeat 7 20) (Some 5%Z) (SHash [1; 2]) (WReceipt 1) =
    ([ESend {| tx_to := repeat 7 20; tx_value := Some 5%Z; tx_data := bos "regi"; tx_gas := false |};
      EWait [1; 2]], Ok tt) /\
  snd (register toy_kec provider_registry (repeat 7 20) (Some 5%Z) (SHash [1; 2]) (WReceipt 0)) = Err 3 /\
  snd (register toy_kec provider_registry (repeat 7 20) (Some 5%Z) (SHash [1; 2]) (WReceipt 2)) = Err 3 /\
  snd (register toy_kec provider_registry (repeat 7 20) (Some 5%Z) (SHash [1; 2]) WErr) = Err 2 /\
  snd (register toy_kec provider_registry (repeat 7 20) (Some 5%Z) SErr (WReceipt 1)) = Err 1 /\
  snd (register toy_kec provider_registry (repeat 7 20) (Some 5%Z) (SHash [1; 2]) WNil) = Panic.
Proof. repeat split; vm_compute; reflexivity. Qed.

Example svc_register_example :
  svc_register toy_kec bidder_registry (repeat 7 20) (repeat 9 20) true (Some 5%Z)
               (SHash [1; 2]) (WReceipt 1) (CBytes (be 32 12)) =
    ([ESend {| tx_to := repeat 7 20; tx_value := Some 5%Z; tx_data := bos "prep"; tx_gas := false |};
      EWait [1; 2];
      ECall {| tx_to := repeat 7 20; tx_value := None;
               tx_data := bos "getA" ++ zeros 12 ++ repeat 9 20; tx_gas := false |}], SvcOk 12).
Proof. vm_compute. reflexivity. Qed.

(* --- statements assembled for Properties/C11.v ------------------------------------------------- *)
Lemma stake_req_to_and_account kec cfg reg addr :
  (4 <= length (kec (method_sig (r_stake cfg) [TAddress])))%nat ->
  length addr = 20%nat -> wf_bytes addr ->
  tx_to (read_req kec reg (r_stake cfg) [VAddress addr]) = reg /\
  decode_call [TAddress] (tx_data (read_req kec reg (r_stake cfg) [VAddress addr])) =
  Some (selector kec (method_sig (r_stake cfg) [TAddress]), [VAddress addr]).
Proof. intros Hk Hl Hw. split; [reflexivity|]. exact (stake_req_decodes kec cfg reg addr Hk Hl Hw). Qed.

Lemma check_at_boundary kec cfg reg addr m :
  m < two256 ->
  snd (check kec cfg reg addr (CBytes (be 32 m)) (CBytes (be 32 m))) = true /\
  (0 < m -> snd (check kec cfg reg addr (CBytes (be 32 m)) (CBytes (be 32 (m - 1)))) = false).
Proof.
  intros Hm. split; [apply check_at_minimum; exact Hm|]. intros H0. apply check_below_minimum; assumption.
Qed.

Lemma methods_in_repo :
  (method_sig (r_register provider_registry) [] = bos "registerAndStake()" /\
   method_sig (r_min provider_registry) [] = bos "minStake()" /\
   method_sig (r_stake provider_registry) [TAddress] = bos "checkStake(address)") /\
  (method_sig (r_register bidder_registry) [] = bos "prepay()" /\
   method_sig (r_min bidder_registry) [] = bos "minAllowance()" /\
   method_sig (r_stake bidder_registry) [TAddress] = bos "getAllowance(address)") /\
  r_min_unpack provider_registry = r_min provider_registry /\
  r_stake_unpack provider_registry = r_stake provider_registry /\
  r_min_unpack bidder_registry = r_min bidder_registry /\
  r_stake_unpack bidder_registry = r_stake bidder_registry.
Proof. split; [exact provider_signatures|]. split; [exact bidder_signatures|]. repeat split; reflexivity. Qed.

Lemma svc_register_refusals kec cfg reg owner valid parsed s w a :
  (valid = false \/ parsed = None ->
   svc_register kec cfg reg owner valid parsed s w a = ([], SvcInvalidArgument)) /\
  (forall amt c, snd (register kec cfg reg (Some amt) s w) = Err c ->
                 snd (svc_register kec cfg reg owner true (Some amt) s w a) = SvcInternal).
Proof.
  split; [apply svc_register_refused|]. intros amt c. apply svc_register_failed.
Qed.

From MevVerif Require Import check.Check_C11.

(* --- the checker of check/Check_C11.v accepts every observation the model can produce ------------ *)
Lemma optZ_eqb_eq a b : optZ_eqb a b = true -> a = b.
Proof.
  destruct a, b; cbn; try discriminate; auto. intros H. apply Z.eqb_eq in H. congruence.
Qed.
Lemma optZ_eqb_refl a : optZ_eqb a a = true.
Proof. destruct a; cbn; auto. apply Z.eqb_refl. Qed.

Lemma txreq_eqb_eq a b : txreq_eqb a b = true -> a = b.
Proof.
  destruct a as [t1 v1 d1 g1], b as [t2 v2 d2 g2]. unfold txreq_eqb. cbn [tx_to tx_value tx_data tx_gas].
  rewrite !andb_true_iff. intros [[[H1 H2] H3] H4].
  apply bytes_eqb_eq in H1. apply optZ_eqb_eq in H2. apply bytes_eqb_eq in H3. apply eqb_prop in H4.
  congruence.
Qed.
Lemma txreq_eqb_refl a : txreq_eqb a a = true.
Proof.
  unfold txreq_eqb. rewrite !bytes_eqb_refl, optZ_eqb_refl, eqb_reflx. reflexivity.
Qed.

Lemma effect_eqb_eq a b : effect_eqb a b = true -> a = b.
Proof.
  destruct a, b; cbn; try discriminate; intros H.
  - apply txreq_eqb_eq in H. congruence.
  - apply txreq_eqb_eq in H. congruence.
  - apply bytes_eqb_eq in H. congruence.
Qed.

Lemma trace_eqb_eq a b : trace_eqb a b = true -> a = b.
Proof.
  revert b. induction a as [|u a IH]; intros [|v b]; cbn; try discriminate; [reflexivity|].
  rewrite andb_true_iff. intros [H1 H2]. apply effect_eqb_eq in H1. apply IH in H2. congruence.
Qed.

Lemma cfg_spec k :
  r_register (cfg_of k) = spec_register k /\ r_min (cfg_of k) = spec_min k /\
  r_stake (cfg_of k) = spec_stake k.
Proof. unfold cfg_of, spec_register, spec_min, spec_stake. destruct (k =? 0); repeat split; reflexivity. Qed.

(* the two reads can never be mistaken for one another: at most four bytes against at least 32 *)
Lemma read_reqs_differ kec reg n1 n2 addr :
  txreq_eqb (read_req kec reg n1 []) (read_req kec reg n2 [VAddress addr]) = false.
Proof.
  destruct (txreq_eqb _ _) eqn:E; [|reflexivity]. exfalso.
  apply txreq_eqb_eq in E. apply (f_equal tx_data) in E. unfold read_req in E. cbn [tx_data] in E.
  rewrite encode_call_noargs in E. apply (f_equal (@length N)) in E.
  unfold encode_call, encode, selector in E. cbn [map enc_heads enc_tails enc_tail ty_of is_dynamic enc_static length] in E.
  rewrite !app_length, !firstn_length in E. unfold zeros in E. rewrite repeat_length in E. cbn [length] in E.
  lia.
Qed.

Lemma want_send_eq c amt :
  r_register (cfg_of (kind c)) = spec_register (kind c) ->
  want_send c amt = send_req (kec_of (abi c)) (cfg_of (kind c)) (reg c) amt.
Proof. intros H. unfold want_send, send_req. rewrite H. reflexivity. Qed.

Lemma checker_accepts_model1 c : agrees1 c = true -> violation1 c = None.
Proof.
  unfold agrees1, violation1.
  destruct (cfg_spec (kind c)) as (Hreg & Hmin & Hstake).
  set (kec := kec_of (abi c)) in *. set (cfg := cfg_of (kind c)) in *.
  destruct (op c) as [addr a1 a2|a|addr a|amt s w|owner valid parsed s w a|args|tys d|steps|amt s w late]; try reflexivity.
  - (* the check *)
    destruct (check kec cfg (reg c) addr a1 a2) as [t b] eqn:E.
    rewrite !andb_true_iff. intros [[[Ht Hb] _] _].
    apply trace_eqb_eq in Ht.
    assert (Et : t = fst (check kec cfg (reg c) addr a1 a2)) by (rewrite E; reflexivity).
    assert (Eb : b = snd (check kec cfg (reg c) addr a1 a2)) by (rewrite E; reflexivity).
    rewrite check_trace in Et.
    destruct (res c) as [o| | | | | |]; try discriminate. apply eqb_prop in Hb. subst o.
    unfold value_read, want_read. fold kec. rewrite <- Hmin, <- Hstake. rewrite <- Ht, Et.
    cbn [find_call]. rewrite txreq_eqb_refl. cbn [nth_answer nth].
    unfold check, get_min, get_stake in Eb.
    destruct a1 as [|b1].
    + cbn [snd] in Eb. subst b. reflexivity.
    + destruct (decode_uint256 b1) as [mn|] eqn:E1.
      * cbn [find_call]. rewrite read_reqs_differ, txreq_eqb_refl. cbn [nth_answer nth].
        destruct a2 as [|b2].
        -- cbn [snd] in Eb. subst b. reflexivity.
        -- destruct (decode_uint256 b2) as [st|] eqn:E2; cbn [snd] in Eb; subst b; [|reflexivity].
           destruct (mn <=? st); reflexivity.
      * cbn [snd] in Eb. subst b. cbn [find_call]. reflexivity.
  - (* stake / prepay *)
    destruct (register kec cfg (reg c) amt s w) as [t r] eqn:E.
    rewrite andb_true_iff. intros [Ht Hr]. apply trace_eqb_eq in Ht.
    assert (Hs : sends_ok c (Some amt) = true).
    { unfold sends_ok. rewrite <- Ht, (want_send_eq c amt Hreg). fold kec cfg.
      unfold register in E. destruct s; injection E as <- <-; cbn [sends flat_map app]; apply txreq_eqb_refl. }
    rewrite Hs. cbn [negb].
    destruct (res c) as [|?|o|? ?| | |]; try discriminate.
    apply N.eqb_eq in Hr. subst o.
    destruct r as [[]|cc|]; cbn [reg_code]; [|reflexivity|].
    2:{ assert (Hp : snd (register kec cfg (reg c) amt s w) = Panic) by (rewrite E; reflexivity).
        apply register_panic in Hp. destruct Hp as (h & -> & ->). reflexivity. }
    assert (Hok : snd (register kec cfg (reg c) amt s w) = Ok tt) by (rewrite E; reflexivity).
    apply register_ok_trace in Hok. destruct Hok as (h & -> & -> & Hf). rewrite E in Hf. cbn [fst] in Hf.
    cbn [N.eqb]. unfold mined_ok. rewrite <- Ht, Hf. cbn [sends flat_map app waited_after_send andb orb negb N.eqb Pos.eqb].
    rewrite bytes_eqb_refl. reflexivity.
  - (* the RPC method *)
    destruct (svc_register kec cfg (reg c) owner valid parsed s w a) as [t r] eqn:E.
    rewrite andb_true_iff. intros [Ht Hr]. apply trace_eqb_eq in Ht.
    unfold svc_register in E.
    destruct valid; cbn [negb] in E.
    2:{ injection E as <- <-. unfold sends_ok. rewrite <- Ht. cbn.
        destruct (res c) as [| | |code am| | |]; try discriminate.
        cbn [svc_agrees] in Hr. destruct am; [discriminate|]. apply N.eqb_eq in Hr. subst code. reflexivity. }
    destruct parsed as [z|].
    2:{ injection E as <- <-. unfold sends_ok. rewrite <- Ht. cbn.
        destruct (res c) as [| | |code am| | |]; try discriminate.
        cbn [svc_agrees] in Hr. destruct am; [discriminate|]. apply N.eqb_eq in Hr. subst code. reflexivity. }
    destruct (register kec cfg (reg c) (Some z) s w) as [t1 r1] eqn:E1.
    assert (Hs1 : sends t1 = [want_send c (Some z)] /\ calls t1 = []).
    { pose proof (register_value kec cfg (reg c) (Some z) s w) as (H1 & _ & H3). rewrite E1 in H1, H3.
      cbn [fst] in H1, H3. split; [|exact H3]. rewrite H1, (want_send_eq c (Some z) Hreg). fold kec cfg.
      rewrite send_req_eq. reflexivity. }
    destruct Hs1 as [Hs1 _].
    destruct r1 as [[]|cc|].
    + assert (Hok : snd (register kec cfg (reg c) (Some z) s w) = Ok tt) by (rewrite E1; reflexivity).
      apply register_ok_trace in Hok. destruct Hok as (h & -> & -> & Hf). rewrite E1 in Hf. cbn [fst] in Hf.
      assert (Hs : sends_ok c (Some (Some z)) = true).
      { unfold sends_ok. rewrite <- Ht. unfold get_stake in E.
        destruct a as [|b]; [|destruct (decode_uint256 b)]; injection E as <- <-;
          unfold sends; rewrite ?flat_map_app; fold (sends t1); rewrite Hs1; cbn [flat_map app]; apply txreq_eqb_refl. }
      rewrite Hs. cbn [negb].
      destruct (res c) as [| | |code am| | |]; try reflexivity.
      unfold get_stake in E.
      destruct a as [|b]; [|destruct (decode_uint256 b)]; injection E as <- <-; cbn [svc_agrees] in Hr;
        destruct am; try discriminate; try (apply N.eqb_eq in Hr; subst code; reflexivity).
      apply andb_true_iff in Hr. destruct Hr as [Hc _]. apply N.eqb_eq in Hc. subst code.
      unfold mined_ok. rewrite <- Ht, Hf.
      cbn [sends flat_map app waited_after_send andb orb negb N.eqb Pos.eqb].
      rewrite bytes_eqb_refl. reflexivity.
    + injection E as <- <-.
      assert (Hs : sends_ok c (Some (Some z)) = true).
      { unfold sends_ok. rewrite <- Ht, Hs1. apply txreq_eqb_refl. }
      rewrite Hs. cbn [negb].
      destruct (res c) as [| | |code am| | |]; try discriminate.
      cbn [svc_agrees] in Hr. destruct am; [discriminate|]. apply N.eqb_eq in Hr. subst code. reflexivity.
    + injection E as <- <-.
      assert (Hs : sends_ok c (Some (Some z)) = true).
      { unfold sends_ok. rewrite <- Ht, Hs1. apply txreq_eqb_refl. }
      rewrite Hs. cbn [negb].
      destruct (res c) as [| | |code am| | |]; try discriminate.
      cbn [svc_agrees] in Hr. destruct am; [discriminate|]. apply N.eqb_eq in Hr. subst code.
      assert (Hp : snd (register kec cfg (reg c) (Some z) s w) = Panic) by (rewrite E1; reflexivity).
      apply register_panic in Hp. destruct Hp as (h & -> & ->). reflexivity.
  - (* stake / prepay through the real client *)
    destruct (register kec cfg (reg c) amt s (evm_wait late w)) as [t r] eqn:E.
    rewrite andb_true_iff. intros [Ht Hr]. apply trace_eqb_eq in Ht.
    assert (Hs : sends_ok c (Some amt) = true).
    { unfold sends_ok. rewrite <- Ht, (want_send_eq c amt Hreg). fold kec cfg.
      unfold register in E. destruct s; injection E as <- <-; cbn [sends flat_map app]; apply txreq_eqb_refl. }
    rewrite Hs. cbn [negb].
    destruct (res c) as [|?|o|? ?| | |]; try discriminate.
    apply N.eqb_eq in Hr. subst o.
    destruct r as [[]|cc|]; cbn [reg_code]; [|reflexivity|].
    2:{ assert (Hp : snd (register kec cfg (reg c) amt s (evm_wait late w)) = Panic) by (rewrite E; reflexivity).
        apply register_panic in Hp. destruct Hp as (h & -> & Hw).
        destruct late; cbn [evm_wait] in Hw; [discriminate|]. subst w. reflexivity. }
    assert (Hok : snd (register kec cfg (reg c) amt s (evm_wait late w)) = Ok tt) by (rewrite E; reflexivity).
    apply register_ok_trace in Hok. destruct Hok as (h & -> & Hw & Hf). rewrite E in Hf. cbn [fst] in Hf.
    destruct late; cbn [evm_wait] in Hw; [discriminate|]. subst w.
    cbn [N.eqb]. unfold mined_ok. rewrite <- Ht, Hf. cbn [sends flat_map app waited_after_send andb orb negb N.eqb Pos.eqb].
    rewrite bytes_eqb_refl. reflexivity.
Qed.

Lemma checker_accepts_model c : agrees c = true -> violation c = None.
Proof.
  unfold agrees, violation. destruct (op c) as [| | | | | | |steps|]; try apply checker_accepts_model1.
  induction steps as [|st r IH]; [reflexivity|]. cbn [forallb first_violation].
  rewrite andb_true_iff. intros [H1 H2]. rewrite (checker_accepts_model1 _ H1). apply IH. exact H2.
Qed.

(* a session passes only if each of its steps passes on its own *)
Lemma checker_reflects_session c steps st :
  op c = OpSession steps -> violation c = None -> In st steps -> violation1 (sub c st) = None.
Proof.
  unfold violation. intros -> H. induction steps as [|s0 r IH]; intros Hin; [contradiction|].
  cbn [first_violation] in H. destruct (violation1 (sub c s0)) eqn:E0; [discriminate|].
  destruct Hin as [<-|Hin]; [exact E0|]. apply IH; assumption.
Qed.

(* --- and what it accepts is what the property says ------------------------------------------------ *)
(* a yes passes only if the request for the minimum and the request for the account's amount
   were both made, both were answered with bytes that decode, and minimum <= amount *)
Lemma checker_reflects_check c addr a1 a2 :
  op c = OpCheck addr a1 a2 -> violation1 c = None -> res c = ObsBool true ->
  exists m s,
    value_read c [a1; a2] (want_read c (spec_min (kind c)) []) = Some m /\
    value_read c [a1; a2] (want_read c (spec_stake (kind c)) [VAddress addr]) = Some s /\
    m <= s.
Proof.
  unfold violation1. intros Hop H Hres. rewrite Hop, Hres in H.
  destruct (value_read c [a1; a2] (want_read c (spec_min (kind c)) [])) as [m|]; [|discriminate].
  destruct (value_read c [a1; a2] (want_read c (spec_stake (kind c)) [VAddress addr])) as [s|]; [|discriminate].
  destruct (N.leb_spec m s) as [Hle|]; [|discriminate]. exists m, s. auto.
Qed.

(* what [find_call] finds: the i-th read request of the trace is the wanted one *)
Lemma find_call_spec t want : forall k i,
  find_call t want k = Some i -> exists i0, i = (k + i0)%nat /\ nth_error (calls t) i0 = Some want.
Proof.
  induction t as [|e t IH]; intros k i H; [discriminate|].
  destruct e as [r|r|h]; cbn [find_call] in H.
  - destruct (txreq_eqb r want) eqn:E.
    + injection H as <-. apply txreq_eqb_eq in E. subst r. exists 0%nat. split; [lia|reflexivity].
    + apply IH in H. destruct H as (i0 & -> & Hn). exists (S i0). split; [lia|exact Hn].
  - apply IH in H. exact H.
  - apply IH in H. exact H.
Qed.

(* The same in the terms of the property: a yes passes only if, among the read requests that
   were recorded, request number i is exactly the wanted minimum request (to the registry, no
   value, the selector of the minimum method) and the client's answer number i was bytes that
   decode to m; request number j is exactly the wanted amount request for the account asked
   about and answer number j decodes to s; and m <= s. *)
Lemma checker_reflects_check_property c addr a1 a2 :
  op c = OpCheck addr a1 a2 -> violation1 c = None -> res c = ObsBool true ->
  exists i j bm bs m s,
    nth_error (calls (trace c)) i = Some (want_read c (spec_min (kind c)) []) /\
    nth i [a1; a2] CErr = CBytes bm /\ decode_uint256 bm = Some m /\
    nth_error (calls (trace c)) j = Some (want_read c (spec_stake (kind c)) [VAddress addr]) /\
    nth j [a1; a2] CErr = CBytes bs /\ decode_uint256 bs = Some s /\
    m <= s.
Proof.
  intros Hop Hv Hres.
  destruct (checker_reflects_check c addr a1 a2 Hop Hv Hres) as (m & s & Hm & Hs & Hle).
  unfold value_read, nth_answer in Hm, Hs.
  destruct (find_call (trace c) (want_read c (spec_min (kind c)) []) 0) as [i|] eqn:Ei; [|discriminate].
  destruct (find_call (trace c) (want_read c (spec_stake (kind c)) [VAddress addr]) 0) as [j|] eqn:Ej; [|discriminate].
  apply find_call_spec in Ei. destruct Ei as (i0 & -> & Hi). apply find_call_spec in Ej. destruct Ej as (j0 & -> & Hj).
  cbn [Nat.add] in Hm, Hs.
  destruct (nth i0 [a1; a2] CErr) as [|bm] eqn:Ea; [discriminate|].
  destruct (nth j0 [a1; a2] CErr) as [|bs] eqn:Eb; [discriminate|].
  exists i0, j0, bm, bs, m, s. repeat split; assumption.
Qed.

(* and when the recorded reads are exactly the two wanted ones in order -- what the model does
   (C11_reads) -- this is the right-hand side of C11_fail_closed *)
Lemma checker_reflects_check_two_reads c addr a1 a2 :
  op c = OpCheck addr a1 a2 -> violation1 c = None -> res c = ObsBool true ->
  calls (trace c) = [want_read c (spec_min (kind c)) []; want_read c (spec_stake (kind c)) [VAddress addr]] ->
  exists m s,
    (exists bm bs, a1 = CBytes bm /\ a2 = CBytes bs /\
                   decode_uint256 bm = Some m /\ decode_uint256 bs = Some s) /\
    m <= s.
Proof.
  intros Hop Hv Hres Hc.
  destruct (checker_reflects_check_property c addr a1 a2 Hop Hv Hres)
    as (i & j & bm & bs & m & s & Hi & Ha & Hm & Hj & Hb & Hs & Hle).
  rewrite Hc in Hi, Hj.
  assert (Hne : want_read c (spec_min (kind c)) [] <> want_read c (spec_stake (kind c)) [VAddress addr]).
  { intros E. unfold want_read in E.
    pose proof (read_reqs_differ (kec_of (abi c)) (reg c) (spec_min (kind c)) (spec_stake (kind c)) addr) as D.
    rewrite E, txreq_eqb_refl in D. discriminate. }
  assert (i = 0%nat).
  { destruct i as [|[|i]]; [reflexivity| |destruct i; discriminate]. cbn [nth_error] in Hi. exfalso. apply Hne. congruence. }
  assert (j = 1%nat).
  { destruct j as [|[|j]]; [|reflexivity|destruct j; discriminate]. cbn [nth_error] in Hj. exfalso. apply Hne. congruence. }
  subst i j. cbn [nth] in Ha, Hb.
  exists m, s. split; [exists bm, bs; auto|exact Hle].
Qed.

(* stake / prepay passes only if every Send is the wanted one (at most one), and a reported
   success comes with: a Send that returned a hash, a wait for that hash after the Send, and a
   receipt with status 1 *)
Lemma checker_reflects_register c amt s w :
  op c = OpRegister amt s w -> violation1 c = None ->
  (sends (trace c) = [] \/ sends (trace c) = [want_send c amt]) /\
  (res c = ObsReg 0 ->
   exists h, s = SHash h /\ w = WReceipt 1 /\ sends (trace c) = [want_send c amt] /\
             waited_after_send (trace c) h false = true).
Proof.
  unfold violation1. intros -> H.
  destruct (sends_ok c (Some amt)) eqn:Hs; cbn [negb] in H; [|discriminate].
  assert (Hsends : sends (trace c) = [] \/ sends (trace c) = [want_send c amt]).
  { unfold sends_ok in Hs. destruct (sends (trace c)) as [|r [|r' l]]; auto; [|discriminate].
    apply txreq_eqb_eq in Hs. right. congruence. }
  split; [exact Hsends|]. intros Hres. rewrite Hres in H.
  destruct (mined_ok c s w) eqn:Hm; [|discriminate]. unfold mined_ok in Hm.
  destruct s as [|h]; [discriminate|]. destruct w as [| |st]; try discriminate.
  rewrite !andb_true_iff in Hm. destruct Hm as [[H1 H2] H3]. apply N.eqb_eq in H1. subst st.
  exists h. repeat split; auto.
  destruct Hsends as [Hn|Hn]; [|exact Hn]. rewrite Hn in H2. discriminate.
Qed.

Example session_example :
  map snd (session toy_kec provider_registry (repeat 7 20)
     [QCheck (repeat 9 20) (CBytes (be 32 100)) (CBytes (be 32 150));
      QCheck (repeat 9 20) (CBytes (be 32 200)) (CBytes (be 32 150));
      QCheck (repeat 9 20) CErr (CBytes (be 32 150));
      QCheck (repeat 9 20) (CBytes (be 32 100)) (CBytes (be 32 150))]) =
  [ACheck true; ACheck false; ACheck false; ACheck true].
Proof. vm_compute. reflexivity. Qed.
