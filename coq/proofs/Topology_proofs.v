(* C15 -- proofs about model/Topology.v: well-formedness invariant, history characterisation of
   the views, exact shape of the announcements made on Connected, origin of every dial and of
   every peer added by the discovery worker, and acceptance of the model's own behaviour by the
   property checker of check/Check_C15.v for every history. *)
From Coq Require Import String List NArith ZArith Bool Lia.
From MevVerif Require Import lib.Bytes proofs.Bytes_proofs gen.Generated model.Topology check.Check_C15.
Import ListNotations.
Open Scope N_scope.

(* ================= maps, well-formed states ================= *)
(* ---------- maps ---------- *)
Lemma In_m_del q a m : In q (m_del a m) <-> In q m /\ p_addr q <> a.
Proof.
  unfold m_del. rewrite filter_In. split; intros [H1 H2]; split; auto.
  - intro E. rewrite E, N.eqb_refl in H2. discriminate.
  - destruct (N.eqb_spec (p_addr q) a); [contradiction|reflexivity].
Qed.

Lemma In_m_put q p m : In q (m_put p m) <-> q = p \/ (In q m /\ p_addr q <> p_addr p).
Proof.
  unfold m_put. cbn [In]. rewrite In_m_del. split; intros [H|H]; auto.
Qed.

Lemma m_has_In a m : m_has a m = true <-> exists q, In q m /\ p_addr q = a.
Proof.
  unfold m_has. rewrite existsb_exists. split; intros [q [H1 H2]]; exists q; split; auto.
  - apply N.eqb_eq; exact H2.
  - apply N.eqb_eq; exact H2.
Qed.

Lemma m_del_keys a m : map p_addr (m_del a m) = filter (fun b => negb (b =? a)) (map p_addr m).
Proof.
  unfold m_del. induction m as [|q m IH]; cbn; [reflexivity|].
  destruct (p_addr q =? a); cbn; rewrite IH; reflexivity.
Qed.

Lemma NoDup_filter {A} (f : A -> bool) l : NoDup l -> NoDup (filter f l).
Proof.
  induction 1 as [|x l Hx Hl IH]; cbn; [constructor|].
  destruct (f x); auto. constructor; auto. rewrite filter_In. tauto.
Qed.

Lemma NoDup_m_del a m : NoDup (map p_addr m) -> NoDup (map p_addr (m_del a m)).
Proof. intros H. rewrite m_del_keys. apply NoDup_filter; exact H. Qed.

Lemma NoDup_m_put p m : NoDup (map p_addr m) -> NoDup (map p_addr (m_put p m)).
Proof.
  intros H. unfold m_put. cbn [map]. constructor.
  - rewrite m_del_keys, filter_In. intros [_ H2]. rewrite N.eqb_refl in H2. discriminate.
  - apply NoDup_m_del; exact H.
Qed.

(* ---------- well-formed states ---------- *)
Definition role_map (r : Z) (m : pmap) : Prop :=
  (forall q, In q m -> p_role q = r) /\ NoDup (map p_addr m).
Definition wf (s : state) : Prop := role_map ROLE_PROVIDER (providers s) /\ role_map ROLE_BIDDER (bidders s).

Lemma role_map_put r p m : p_role p = r -> role_map r m -> role_map r (m_put p m).
Proof.
  intros Hp [H1 H2]. split.
  - intros q Hq. apply In_m_put in Hq. destruct Hq as [->|[Hq _]]; auto.
  - apply NoDup_m_put; exact H2.
Qed.
Lemma role_map_del r a m : role_map r m -> role_map r (m_del a m).
Proof.
  intros [H1 H2]. split.
  - intros q Hq. apply In_m_del in Hq. apply H1; tauto.
  - apply NoDup_m_del; exact H2.
Qed.

Lemma wf_init : wf init.
Proof. split; split; cbn; try constructor; intros q []. Qed.

Lemma wf_add p s : wf s -> wf (add p s).
Proof.
  intros [HP HB]. unfold add.
  destruct (Z.eqb_spec (p_role p) ROLE_PROVIDER) as [E|_].
  - split; cbn; auto using role_map_put.
  - destruct (Z.eqb_spec (p_role p) ROLE_BIDDER) as [E|_]; [|split; auto].
    split; cbn; auto using role_map_put.
Qed.
Lemma wf_remove p s : wf s -> wf (remove p s).
Proof.
  intros [HP HB]. unfold remove.
  destruct (p_role p =? ROLE_PROVIDER)%Z; [split; cbn; auto using role_map_del|].
  destruct (p_role p =? ROLE_BIDDER)%Z; split; cbn; auto using role_map_del.
Qed.
Lemma wf_inflight s l : wf s -> wf (mkState (providers s) (bidders s) l).
Proof. intros H; exact H. Qed.
Lemma wf_fold_add ps : forall s, wf s -> wf (fold_left (fun acc p => add p acc) ps s).
Proof. induction ps as [|p ps IH]; cbn; intros s H; auto using wf_add. Qed.

Lemma wf_step s e : wf s -> wf (fst (step s e)).
Proof.
  intros H. destruct e as [p lk ann|ps|p|from ok entries|u r]; cbn.
  - apply wf_add; exact H.
  - apply wf_fold_add; exact H.
  - apply wf_remove; exact H.
  - destruct ok; cbn; exact H.
  - destruct (in_flight u s); [|exact H]. destruct r as [p|]; cbn; [apply wf_add|]; exact H.
Qed.

Lemma run_from_app s l1 l2 : run_from s (l1 ++ l2) = run_from (run_from s l1) l2.
Proof. unfold run_from. apply fold_left_app. Qed.
Lemma run_snoc evs e : run (evs ++ [e]) = fst (step (run evs) e).
Proof. unfold run. rewrite run_from_app. reflexivity. Qed.

Lemma wf_run evs : wf (run evs).
Proof.
  induction evs as [|e evs IH] using rev_ind; [exact wf_init|].
  rewrite run_snoc. apply wf_step; exact IH.
Qed.

(* ---------- views ---------- *)
Definition is_role (r : Z) : Prop := r = ROLE_PROVIDER \/ r = ROLE_BIDDER.

Lemma get_peers_other r s : r <> ROLE_PROVIDER -> r <> ROLE_BIDDER -> get_peers r s = [].
Proof.
  intros H1 H2. unfold get_peers.
  destruct (Z.eqb_spec r ROLE_PROVIDER); [contradiction|].
  destruct (Z.eqb_spec r ROLE_BIDDER); [contradiction|]. reflexivity.
Qed.

Lemma view_add a r p s : is_role r ->
  In (mkPeer a r) (get_peers r (add p s)) <-> p = mkPeer a r \/ In (mkPeer a r) (get_peers r s).
Proof.
  intros Hr. unfold add, get_peers.
  assert (Hne : ROLE_BIDDER <> ROLE_PROVIDER) by discriminate.
  destruct Hr as [-> | ->]; cbn [Z.eqb ROLE_PROVIDER ROLE_BIDDER Pos.eqb];
  destruct (Z.eqb_spec (p_role p) ROLE_PROVIDER) as [E1|E1]; cbn [providers bidders];
  try destruct (Z.eqb_spec (p_role p) ROLE_BIDDER) as [E2|E2]; cbn [providers bidders];
  try rewrite In_m_put; cbn [p_addr];
  try (split; [intros [H|[H1 H2]]; auto | intros [H|H]; auto;
       destruct (N.eq_dec a (p_addr p)) as [Ea|Ea]; [left; destruct p; cbn in *; congruence | right; auto]]);
  try (split; [auto | intros [H|H]; auto; subst p; cbn in *; congruence]).
Qed.

(* ================= views ================= *)
Lemma view_fold_add a r ps : is_role r -> forall s,
  In (mkPeer a r) (get_peers r (fold_left (fun acc p => add p acc) ps s))
  <-> In (mkPeer a r) ps \/ In (mkPeer a r) (get_peers r s).
Proof.
  intros Hr. induction ps as [|p ps IH]; intros s; cbn [fold_left In].
  - tauto.
  - rewrite IH, view_add by exact Hr. split; intros H; intuition (subst; auto).
Qed.

Lemma view_remove a r p s : is_role r ->
  In (mkPeer a r) (get_peers r (remove p s))
  <-> In (mkPeer a r) (get_peers r s) /\ ~ (p_addr p = a /\ p_role p = r).
Proof.
  intros Hr. unfold remove, get_peers.
  destruct Hr as [-> | ->]; cbn [Z.eqb ROLE_PROVIDER ROLE_BIDDER Pos.eqb];
  destruct (Z.eqb_spec (p_role p) ROLE_PROVIDER) as [E1|E1]; cbn [providers bidders];
  try destruct (Z.eqb_spec (p_role p) ROLE_BIDDER) as [E2|E2]; cbn [providers bidders];
  try rewrite In_m_del; cbn [p_addr]; unfold ROLE_PROVIDER, ROLE_BIDDER in *;
  (split; intros H; repeat split; try tauto);
  try (intros [H3 H4]; destruct H as [_ H2]; congruence);
  try (intros [H3 H4]; congruence);
  try (intro H5; apply (proj2 H); split; congruence).
Qed.

Lemma view_inflight r s l : get_peers r (mkState (providers s) (bidders s) l) = get_peers r s.
Proof. reflexivity. Qed.

(* what an event drops from the views ([adds_of]: what it adds, is in model/Topology.v) *)
Definition drops (e : event) (a : addr) (r : Z) : Prop :=
  exists p, e = Disconnected p /\ p_addr p = a /\ p_role p = r.

Lemma view_step a r s e : is_role r ->
  In (mkPeer a r) (get_peers r (fst (step s e)))
  <-> In (mkPeer a r) (adds_of s e) \/ (In (mkPeer a r) (get_peers r s) /\ ~ drops e a r).
Proof.
  intros Hr. destruct e as [p lk ann|ps|p|from ok entries|u res]; cbn [step fst adds_of].
  - rewrite view_add by exact Hr. cbn [In]. split; intros [H|H]; auto.
    + right. split; auto. intros [q [Hq _]]; discriminate.
    + destruct H as [H|[]]; auto.
    + right; tauto.
  - rewrite view_fold_add by exact Hr. split; intros [H|H]; auto.
    + right. split; auto. intros [q [Hq _]]; discriminate.
    + right; tauto.
  - rewrite view_remove by exact Hr. cbn [In]. split.
    + intros [H1 H2]. right. split; auto. intros [q [Hq [Ha Hb]]]. inversion Hq; subst q. tauto.
    + intros [[]|[H1 H2]]. split; auto. intros [Ha Hb]. apply H2. exists p; auto.
  - assert (E : get_peers r (fst (if ok then (mkState (providers s) (bidders s) (inflight s ++ to_dial s entries),
                  map Dial (to_dial s entries)) else (s, []))) = get_peers r s) by (destruct ok; reflexivity).
    rewrite E. cbn [In]. split; [intros H; right; split; auto; intros [q [Hq _]]; discriminate | intros [[]|[H _]]; exact H].
  - destruct (in_flight u s).
    + destruct res as [p|]; cbn [fst].
      * rewrite view_add by exact Hr. rewrite view_inflight. cbn [In]. split; intros [H|H]; auto.
        -- right. split; auto. intros [q [Hq _]]; discriminate.
        -- destruct H as [H|[]]; auto.
        -- right; tauto.
      * rewrite view_inflight. cbn [In]. split; [intros H; right; split; auto; intros [q [Hq _]]; discriminate | intros [[]|[H _]]; exact H].
    + cbn [fst]. assert (E : (match res with Some _ => [] | None => [] end : list peer) = []) by (destruct res; reflexivity).
      rewrite E. cbn [In]. split; [intros H; right; split; auto; intros [q [Hq _]]; discriminate | intros [[]|[H _]]; exact H].
Qed.

(* the history characterisation *)
Definition live (a : addr) (r : Z) (evs : list event) : Prop :=
  exists pre e post, evs = pre ++ e :: post /\ In (mkPeer a r) (adds_of (run pre) e)
                     /\ forall e', In e' post -> ~ drops e' a r.

Lemma live_snoc a r evs e :
  live a r (evs ++ [e]) <-> In (mkPeer a r) (adds_of (run evs) e) \/ (live a r evs /\ ~ drops e a r).
Proof.
  split.
  - intros [pre [e0 [post [E [Hin Hpost]]]]].
    destruct (@exists_last _ (e0 :: post)) as [l' [x Hl]]; [discriminate|].
    destruct post as [|y post'] using rev_ind.
    + apply app_inj_tail in E. destruct E as [-> ->]. left; exact Hin.
    + clear IHpost'. rewrite app_comm_cons, app_assoc in E. apply app_inj_tail in E. destruct E as [-> ->].
      right. split.
      * exists pre, e0, post'. split; [reflexivity|]. split; [exact Hin|].
        intros e' He'. apply Hpost. apply in_or_app; left; exact He'.
      * apply Hpost. apply in_or_app; right; left; reflexivity.
  - intros [Hin | [[pre [e0 [post [E [Hin Hpost]]]]] Hd]].
    + exists evs, e, []. split; [reflexivity|]. split; [exact Hin|]. intros e' [].
    + exists pre, e0, (post ++ [e]). split; [subst evs; rewrite <- app_assoc; reflexivity|].
      split; [exact Hin|]. intros e' He'. apply in_app_or in He'. destruct He' as [He'|[<-|[]]]; auto.
Qed.

Theorem view_exact evs a r : is_role r ->
  (In (mkPeer a r) (get_peers r (run evs)) <-> live a r evs).
Proof.
  intros Hr. induction evs as [|e evs IH] using rev_ind.
  - split.
    + destruct Hr as [-> | ->]; intros [].
    + intros [pre [e [post [E _]]]]. destruct pre; discriminate.
  - rewrite run_snoc, live_snoc, view_step by exact Hr. rewrite IH. tauto.
Qed.

Lemma view_role_of evs r q : In q (get_peers r (run evs)) -> p_role q = r.
Proof.
  destruct (wf_run evs) as [[HP _] [HB _]]. unfold get_peers.
  destruct (Z.eqb_spec r ROLE_PROVIDER) as [->|_]; [apply HP|].
  destruct (Z.eqb_spec r ROLE_BIDDER) as [->|_]; [apply HB|]. intros [].
Qed.

Lemma view_nodup evs r : NoDup (map p_addr (get_peers r (run evs))).
Proof.
  destruct (wf_run evs) as [[_ HP] [_ HB]]. unfold get_peers.
  destruct (r =? ROLE_PROVIDER)%Z; [exact HP|].
  destruct (r =? ROLE_BIDDER)%Z; [exact HB|]. constructor.
Qed.

Lemma m_has_role r a m : role_map r m -> (m_has a m = true <-> In (mkPeer a r) m).
Proof.
  intros [Hr _]. rewrite m_has_In. split.
  - intros [q [Hq Ha]]. specialize (Hr q Hq). destruct q as [qa qr]; cbn in *; subst; exact Hq.
  - intros H. exists (mkPeer a r). split; auto.
Qed.

Theorem is_connected_exact evs a :
  is_connected a (run evs) = true <-> live a ROLE_PROVIDER evs \/ live a ROLE_BIDDER evs.
Proof.
  unfold is_connected. rewrite orb_true_iff.
  destruct (wf_run evs) as [HP HB].
  rewrite (m_has_role _ _ _ HP), (m_has_role _ _ _ HB).
  rewrite <- (view_exact evs a ROLE_PROVIDER) by (left; reflexivity).
  rewrite <- (view_exact evs a ROLE_BIDDER) by (right; reflexivity).
  reflexivity.
Qed.

(* ================= announcements ================= *)
Lemma peer_eqb_eq p q : peer_eqb p q = true <-> p = q.
Proof.
  unfold peer_eqb. rewrite andb_true_iff, N.eqb_eq, Z.eqb_eq.
  destruct p, q; cbn. split; [intros [-> ->]; reflexivity | intros H; inversion H; auto].
Qed.
Lemma peer_eqb_refl p : peer_eqb p p = true.
Proof. apply peer_eqb_eq; reflexivity. Qed.

(* ---------- projections of broadcast ---------- *)
Lemma announces_app a b : announces (a ++ b) = announces a ++ announces b.
Proof. unfold announces. apply flat_map_app. Qed.
Lemma wires_app a b : wires (a ++ b) = wires a ++ wires b.
Proof. unfold wires. apply flat_map_app. Qed.
Lemma dials_app a b : dials (a ++ b) = dials a ++ dials b.
Proof. unfold dials. apply flat_map_app. Qed.
Lemma adds_app a b : adds (a ++ b) = adds a ++ adds b.
Proof. unfold adds. apply flat_map_app. Qed.

Lemma announces_broadcast ann t recs : announces (broadcast ann t recs) = [(t, recs)].
Proof. unfold broadcast. destruct (stream_opens ann t); reflexivity. Qed.
Lemma wires_broadcast ann t recs :
  wires (broadcast ann t recs) = if stream_opens ann t then [(t, encode_records recs)] else [].
Proof. unfold broadcast. destruct (stream_opens ann t); reflexivity. Qed.
Lemma dials_broadcast ann t recs : dials (broadcast ann t recs) = [].
Proof. unfold broadcast. destruct (stream_opens ann t); reflexivity. Qed.
Lemma adds_broadcast ann t recs : adds (broadcast ann t recs) = [].
Proof. unfold broadcast. destruct (stream_opens ann t); reflexivity. Qed.

Definition fanout_msgs (s1 : state) (p : peer) (lk : list (peer * bytes)) : list (peer * list record) :=
  if (p_role p =? ROLE_PROVIDER)%Z then
    match tbl_get lk p with
    | None => []
    | Some u => map (fun b => (b, [(p_addr p, u)])) (get_peers ROLE_BIDDER s1)
    end
  else [].
Definition newcomer_msgs (s1 : state) (p : peer) (lk : list (peer * bytes)) : list (peer * list record) :=
  match records_for p lk (get_peers ROLE_PROVIDER s1) with
  | [] => []
  | recs => [(p, recs)]
  end.
Definition wires_for (ann : list (peer * N)) (ms : list (peer * list record)) : list (peer * list wire_record) :=
  flat_map (fun m => if stream_opens ann (fst m) then [(fst m, encode_records (snd m))] else []) ms.

Lemma announces_fan ann x bs :
  announces (flat_map (fun b => broadcast ann b [x]) bs) = map (fun b => (b, [x])) bs.
Proof.
  induction bs as [|b bs IH]; [reflexivity|]. cbn [flat_map map].
  rewrite announces_app, announces_broadcast, IH. reflexivity.
Qed.
Lemma wires_fan ann x bs :
  wires (flat_map (fun b => broadcast ann b [x]) bs) = wires_for ann (map (fun b => (b, [x])) bs).
Proof.
  induction bs as [|b bs IH]; [reflexivity|]. cbn [flat_map map].
  rewrite wires_app, wires_broadcast, IH. unfold wires_for. cbn [flat_map fst snd]. reflexivity.
Qed.
Lemma dials_fan ann x bs : dials (flat_map (fun b => broadcast ann b [x]) bs) = [].
Proof. induction bs as [|b bs IH]; [reflexivity|]. cbn [flat_map]. rewrite dials_app, dials_broadcast, IH. reflexivity. Qed.
Lemma adds_fan ann x bs : adds (flat_map (fun b => broadcast ann b [x]) bs) = [].
Proof. induction bs as [|b bs IH]; [reflexivity|]. cbn [flat_map]. rewrite adds_app, adds_broadcast, IH. reflexivity. Qed.

(* exact shape of what Connected announces *)
Lemma announces_connected s1 p lk ann :
  announces (connected_effects s1 p lk ann) = newcomer_msgs s1 p lk ++ fanout_msgs s1 p lk.
Proof.
  unfold connected_effects, newcomer_msgs, fanout_msgs. rewrite announces_app. f_equal.
  - destruct (records_for p lk (get_peers ROLE_PROVIDER s1)); [reflexivity|apply announces_broadcast].
  - destruct (p_role p =? ROLE_PROVIDER)%Z; [|reflexivity].
    destruct (tbl_get lk p); [apply announces_fan|reflexivity].
Qed.

Lemma wires_for_app ann a b : wires_for ann (a ++ b) = wires_for ann a ++ wires_for ann b.
Proof. unfold wires_for. apply flat_map_app. Qed.

Lemma wires_connected s1 p lk ann :
  wires (connected_effects s1 p lk ann) = wires_for ann (announces (connected_effects s1 p lk ann)).
Proof.
  rewrite announces_connected, wires_for_app.
  unfold connected_effects, newcomer_msgs, fanout_msgs. rewrite wires_app. f_equal.
  - destruct (records_for p lk (get_peers ROLE_PROVIDER s1)); [reflexivity|].
    rewrite wires_broadcast. unfold wires_for. cbn [flat_map fst snd]. rewrite app_nil_r. reflexivity.
  - destruct (p_role p =? ROLE_PROVIDER)%Z; [|reflexivity].
    destruct (tbl_get lk p); [apply wires_fan|reflexivity].
Qed.

Lemma no_dials_connected s1 p lk ann : dials (connected_effects s1 p lk ann) = [].
Proof.
  unfold connected_effects. rewrite dials_app.
  destruct (records_for p lk (get_peers ROLE_PROVIDER s1)); cbn [app];
  try rewrite dials_broadcast; cbn [app];
  (destruct (p_role p =? ROLE_PROVIDER)%Z; [|reflexivity]; destruct (tbl_get lk p); [apply dials_fan|reflexivity]).
Qed.
Lemma no_adds_connected s1 p lk ann : adds (connected_effects s1 p lk ann) = [].
Proof.
  unfold connected_effects. rewrite adds_app.
  destruct (records_for p lk (get_peers ROLE_PROVIDER s1)); cbn [app];
  try rewrite adds_broadcast; cbn [app];
  (destruct (p_role p =? ROLE_PROVIDER)%Z; [|reflexivity]; destruct (tbl_get lk p); [apply adds_fan|reflexivity]).
Qed.

(* which records: exactly the other providers whose lookup succeeded *)
Lemma In_records_for p lk provs a u :
  In (a, u) (records_for p lk provs)
  <-> exists q, In q provs /\ p_addr q = a /\ a <> p_addr p /\ tbl_get lk q = Some u.
Proof.
  unfold records_for. rewrite in_flat_map. split.
  - intros [q [Hq Hin]]. exists q. split; [exact Hq|].
    destruct (N.eqb_spec (p_addr q) (p_addr p)) as [E|E]; [destruct Hin|].
    destruct (tbl_get lk q) as [v|]; [|destruct Hin]. destruct Hin as [Hin|[]]. inversion Hin; subst. auto.
  - intros [q [Hq [Ha [Hne Hlk]]]]. exists q. split; [exact Hq|].
    destruct (N.eqb_spec (p_addr q) (p_addr p)) as [E|E]; [congruence|].
    rewrite Hlk. left. subst a. reflexivity.
Qed.

Definition known_provider (s : state) (a : addr) : Prop := In (mkPeer a ROLE_PROVIDER) (get_peers ROLE_PROVIDER s).
Definition known_bidder (s : state) (b : peer) : Prop := In b (get_peers ROLE_BIDDER s).

Lemma In_records_for_wf s1 p lk a u : wf s1 ->
  In (a, u) (records_for p lk (get_peers ROLE_PROVIDER s1))
  <-> a <> p_addr p /\ known_provider s1 a /\ tbl_get lk (mkPeer a ROLE_PROVIDER) = Some u.
Proof.
  intros [[HP _] _]. rewrite In_records_for. unfold known_provider. cbn [get_peers Z.eqb ROLE_PROVIDER Pos.eqb]. split.
  - intros [q [Hq [Ha [Hne Hlk]]]]. specialize (HP q Hq).
    assert (q = mkPeer a ROLE_PROVIDER) as -> by (destruct q; cbn in *; subst; reflexivity). auto.
  - intros [Hne [Hk Hlk]]. exists (mkPeer a ROLE_PROVIDER). auto.
Qed.

Section announce.
  (* any reachable state; the event under study *)
  Context (evs : list event) (p : peer) (lk : list (peer * bytes)) (ann : list (peer * N)).
  Let s := run evs.
  Let s' := fst (step s (Connected p lk ann)).
  Let eff := snd (step s (Connected p lk ann)).

  Lemma wf_s' : wf s'.
  Proof. apply wf_step, wf_run. Qed.

  Lemma ann_state : s' = add p s.
  Proof. reflexivity. Qed.

  Lemma ann_shape : announces eff = newcomer_msgs s' p lk ++ fanout_msgs s' p lk.
  Proof. apply announces_connected. Qed.

  Lemma not_in_fanout recs : ~ In (p, recs) (fanout_msgs s' p lk).
  Proof.
    unfold fanout_msgs. destruct (Z.eqb_spec (p_role p) ROLE_PROVIDER) as [E|E]; [|intros []].
    destruct (tbl_get lk p); [|intros []]. rewrite in_map_iff. intros [b0 [Hb Hin]]. inversion Hb; subst b0.
    destruct wf_s' as [_ [HB _]]. specialize (HB p Hin). rewrite E in HB. discriminate.
  Qed.

  (* the message to the newcomer *)
  Lemma ann_newcomer recs : In (p, recs) (announces eff) ->
    recs <> [] /\
    forall a u, In (a, u) recs <-> a <> p_addr p /\ known_provider s' a /\ tbl_get lk (mkPeer a ROLE_PROVIDER) = Some u.
  Proof.
    rewrite ann_shape. intros H. apply in_app_or in H. destruct H as [H|H]; [|exfalso; eapply not_in_fanout; exact H].
    unfold newcomer_msgs in H.
    destruct (records_for p lk (get_peers ROLE_PROVIDER s')) as [|r0 rs] eqn:E; [destruct H|].
    destruct H as [H|[]]. inversion H; subst recs. split; [discriminate|].
    intros a u. rewrite <- E. apply In_records_for_wf, wf_s'.
  Qed.

  Lemma ann_newcomer_sent a u :
    a <> p_addr p -> known_provider s' a -> tbl_get lk (mkPeer a ROLE_PROVIDER) = Some u ->
    exists recs, In (p, recs) (announces eff) /\ In (a, u) recs.
  Proof.
    intros H1 H2 H3. assert (H : In (a, u) (records_for p lk (get_peers ROLE_PROVIDER s')))
      by (apply In_records_for_wf; [apply wf_s'|auto]).
    rewrite ann_shape. unfold newcomer_msgs.
    destruct (records_for p lk (get_peers ROLE_PROVIDER s')) as [|r0 rs]; [destruct H|].
    exists (r0 :: rs). split; [left; reflexivity|exact H].
  Qed.

  Lemma ann_newcomer_once : (length (filter (fun m => peer_eqb (fst m) p) (announces eff)) <= 1)%nat.
  Proof.
    rewrite ann_shape, filter_app, app_length.
    assert (E : filter (fun m => peer_eqb (fst m) p) (fanout_msgs s' p lk) = []).
    { destruct (filter (fun m => peer_eqb (fst m) p) (fanout_msgs s' p lk)) as [|[t recs] l] eqn:E; [reflexivity|].
      assert (H : In (t, recs) (filter (fun m => peer_eqb (fst m) p) (fanout_msgs s' p lk))) by (rewrite E; left; reflexivity).
      apply filter_In in H. destruct H as [H1 H2]. cbn in H2. apply peer_eqb_eq in H2. subst t.
      exfalso. eapply not_in_fanout; exact H1. }
    rewrite E. unfold newcomer_msgs. destruct (records_for p lk (get_peers ROLE_PROVIDER s')); cbn; [lia|].
    destruct (peer_eqb p p); cbn; lia.
  Qed.

  (* the fan-out of a provider's own record *)
  Lemma ann_fanout t recs : In (t, recs) (announces eff) -> t <> p ->
    p_role p = ROLE_PROVIDER /\ known_bidder s' t /\ exists u, tbl_get lk p = Some u /\ recs = [(p_addr p, u)].
  Proof.
    rewrite ann_shape. intros H Hne. apply in_app_or in H. destruct H as [H|H].
    - unfold newcomer_msgs in H. destruct (records_for p lk (get_peers ROLE_PROVIDER s')); [destruct H|].
      destruct H as [H|[]]. inversion H; congruence.
    - unfold fanout_msgs in H. destruct (Z.eqb_spec (p_role p) ROLE_PROVIDER) as [E|E]; [|destruct H].
      destruct (tbl_get lk p) as [u|]; [|destruct H]. apply in_map_iff in H. destruct H as [b [Hb Hin]].
      inversion Hb; subst. split; [exact E|]. split; [exact Hin|]. exists u; auto.
  Qed.

  Lemma ann_fanout_sent u b : p_role p = ROLE_PROVIDER -> tbl_get lk p = Some u -> known_bidder s' b ->
    In (b, [(p_addr p, u)]) (announces eff).
  Proof.
    intros E Hlk Hb. rewrite ann_shape. apply in_or_app; right. unfold fanout_msgs.
    rewrite E, Hlk. cbn [Z.eqb ROLE_PROVIDER Pos.eqb]. apply in_map_iff. exists b; auto.
  Qed.

  Lemma ann_fanout_none : (p_role p <> ROLE_PROVIDER \/ tbl_get lk p = None) ->
    forall t recs, In (t, recs) (announces eff) -> t = p.
  Proof.
    intros H t recs Hin. destruct (peer_eqb t p) eqn:E; [apply peer_eqb_eq; exact E|].
    assert (Hne : t <> p) by (intros ->; rewrite peer_eqb_refl in E; discriminate).
    destruct (ann_fanout t recs Hin Hne) as [H1 [_ [u [H2 _]]]]. destruct H; congruence.
  Qed.

  (* announcement faults change nothing but what is written on the wire *)
  Lemma ann_faults ann2 :
    fst (step s (Connected p lk ann2)) = s' /\ announces (snd (step s (Connected p lk ann2))) = announces eff.
  Proof. split; [reflexivity|]. unfold eff. cbn [step snd]. rewrite !announces_connected. reflexivity. Qed.

  Lemma ann_wire : wires eff = wires_for ann (announces eff).
  Proof. apply wires_connected. Qed.

  Lemma ann_nothing_else : dials eff = [] /\ adds eff = [].
  Proof. split; [apply no_dials_connected|apply no_adds_connected]. Qed.
End announce.

Lemma addr_roundtrip a : a < 2 ^ 160 -> addr_of_bytes (addr_bytes a) = a.
Proof.
  intros H. unfold addr_of_bytes, addr_bytes. rewrite be_length. cbn [Nat.sub skipn].
  apply unbe_be. exact H.
Qed.

(* ================= gossip ================= *)
Lemma in_flight_In u s : in_flight u s = true <-> In u (inflight s).
Proof.
  unfold in_flight. rewrite existsb_exists. split.
  - intros [v [Hv E]]. apply bytes_eqb_eq in E. subst v. exact Hv.
  - intros H. exists u. split; [exact H|apply bytes_eqb_refl].
Qed.

Lemma In_to_dial s entries u :
  In u (to_dial s entries) <-> exists ea, In (ea, u) entries /\ is_connected (addr_of_bytes ea) s = false.
Proof.
  unfold to_dial. rewrite in_flat_map. split.
  - intros [[ea v] [He Hin]]. cbn [fst snd] in Hin.
    destruct (is_connected (addr_of_bytes ea) s) eqn:E; [destruct Hin|]. destruct Hin as [<-|[]].
    exists ea. auto.
  - intros [ea [He Hc]]. exists (ea, u). split; [exact He|]. cbn [fst snd]. rewrite Hc. left; reflexivity.
Qed.

Lemma dials_map_Dial l : dials (map Dial l) = l.
Proof. induction l as [|u l IH]; [reflexivity|]. cbn. f_equal. exact IH. Qed.
Lemma announces_map_Dial l : announces (map Dial l) = [].
Proof. induction l as [|u l IH]; [reflexivity|]. exact IH. Qed.
Lemma wires_map_Dial l : wires (map Dial l) = [].
Proof. induction l as [|u l IH]; [reflexivity|]. exact IH. Qed.
Lemma adds_map_Dial l : adds (map Dial l) = [].
Proof. induction l as [|u l IH]; [reflexivity|]. exact IH. Qed.

(* one received list: dialled iff read and the entry's address is not connected; views untouched *)
Lemma gossip_step s from ok entries :
  let s' := fst (step s (Gossip from ok entries)) in
  let eff := snd (step s (Gossip from ok entries)) in
  providers s' = providers s /\ bidders s' = bidders s /\
  dials eff = (if ok then to_dial s entries else []) /\
  inflight s' = inflight s ++ dials eff /\
  announces eff = [] /\ wires eff = [] /\ adds eff = [].
Proof.
  cbn [step]. destruct ok; cbn [fst snd providers bidders inflight].
  - rewrite dials_map_Dial, announces_map_Dial, wires_map_Dial, adds_map_Dial. auto 10.
  - rewrite app_nil_r. auto 10.
Qed.

Lemma gossip_dialled s from ok entries u :
  In (Dial u) (snd (step s (Gossip from ok entries)))
  <-> ok = true /\ exists ea, In (ea, u) entries /\ is_connected (addr_of_bytes ea) s = false.
Proof.
  cbn [step]. destruct ok; cbn [snd].
  - rewrite in_map_iff, <- In_to_dial. split.
    + intros [v [E Hv]]. inversion E; subst. auto.
    + intros [_ H]. exists u; auto.
  - split; [intros []|intros [H _]; discriminate].
Qed.

Lemma gossip_not_dialled_connected s from ok entries u :
  (forall ea, In (ea, u) entries -> is_connected (addr_of_bytes ea) s = true) ->
  ~ In (Dial u) (snd (step s (Gossip from ok entries))).
Proof.
  intros H Hin. apply gossip_dialled in Hin. destruct Hin as [_ [ea [He Hc]]].
  rewrite (H ea He) in Hc. discriminate.
Qed.

(* completion of a dial: the only way a worker adds a peer *)
Lemma done_step s u res :
  let s' := fst (step s (ConnectDone u res)) in
  let eff := snd (step s (ConnectDone u res)) in
  (in_flight u s = false -> s' = s /\ eff = []) /\
  (in_flight u s = true -> res = None ->
     providers s' = providers s /\ bidders s' = bidders s /\ inflight s' = remove1 u (inflight s) /\ eff = []) /\
  (in_flight u s = true -> forall p, res = Some p ->
     s' = add p (mkState (providers s) (bidders s) (remove1 u (inflight s))) /\ eff = [Add p]).
Proof.
  cbn [step]. destruct (in_flight u s); cbn [fst snd].
  - split; [discriminate|]. split.
    + intros _ ->. cbn. auto.
    + intros _ p ->. cbn. auto.
  - split; [auto|]. split; discriminate.
Qed.

Lemma add_effect_origin s e q : In (Add q) (snd (step s e)) ->
  exists u, e = ConnectDone u (Some q) /\ in_flight u s = true.
Proof.
  destruct e as [p lk ann|ps|p|from ok entries|u res]; cbn [step snd].
  - intros H. assert (Hq : In q (adds (connected_effects (add p s) p lk ann))).
    { unfold adds. apply in_flat_map. exists (Add q). split; [exact H|left; reflexivity]. }
    rewrite no_adds_connected in Hq. destruct Hq.
  - intros [].
  - intros [].
  - destruct ok; cbn [snd]; [|intros []]. rewrite in_map_iff. intros [v [E _]]; discriminate.
  - destruct (in_flight u s) eqn:E; cbn [snd]; [|intros []].
    destruct res as [p|]; cbn [snd]; [|intros []]. intros [H|[]]. inversion H; subst. exists u; auto.
Qed.

Lemma dial_effect_origin s e u : In (Dial u) (snd (step s e)) ->
  exists from entries ea, e = Gossip from true entries /\ In (ea, u) entries
                          /\ is_connected (addr_of_bytes ea) s = false.
Proof.
  destruct e as [p lk ann|ps|p|from ok entries|v res].
  - cbn [step snd]. intros H. assert (Hq : In u (dials (connected_effects (add p s) p lk ann))).
    { unfold dials. apply in_flat_map. exists (Dial u). split; [exact H|left; reflexivity]. }
    rewrite no_dials_connected in Hq. destruct Hq.
  - intros [].
  - intros [].
  - intros H. apply gossip_dialled in H. destruct H as [-> [ea [He Hc]]]. exists from, entries, ea. auto.
  - cbn [step snd]. destruct (in_flight v s); cbn [snd]; [|intros []].
    destruct res; cbn [snd]; [intros [H|[]]; discriminate|intros []].
Qed.

Lemma In_remove1 u v l : In v (remove1 u l) -> In v l.
Proof.
  induction l as [|w l IH]; cbn; [auto|]. destruct (bytes_eqb u w); [auto|].
  intros [H|H]; auto.
Qed.

Lemma inflight_add p s : inflight (add p s) = inflight s.
Proof. unfold add. destruct (p_role p =? ROLE_PROVIDER)%Z; [reflexivity|]. destruct (p_role p =? ROLE_BIDDER)%Z; reflexivity. Qed.
Lemma inflight_remove p s : inflight (remove p s) = inflight s.
Proof. unfold remove. destruct (p_role p =? ROLE_PROVIDER)%Z; [reflexivity|]. destruct (p_role p =? ROLE_BIDDER)%Z; reflexivity. Qed.
Lemma inflight_fold_add ps : forall s, inflight (fold_left (fun acc p => add p acc) ps s) = inflight s.
Proof. induction ps as [|p ps IH]; intros s; cbn; [reflexivity|]. rewrite IH. apply inflight_add. Qed.

(* every call in flight was started by a received list, for an entry whose address was not
   connected when the list was processed *)
Definition dialled_by_gossip (evs : list event) (u : bytes) : Prop :=
  exists pre from entries post ea,
    evs = pre ++ Gossip from true entries :: post /\ In (ea, u) entries
    /\ is_connected (addr_of_bytes ea) (run pre) = false.

Lemma dialled_by_gossip_snoc evs e u : dialled_by_gossip evs u -> dialled_by_gossip (evs ++ [e]) u.
Proof.
  intros [pre [from [entries [post [ea [E H]]]]]]. exists pre, from, entries, (post ++ [e]), ea.
  split; [subst evs; rewrite <- app_assoc; reflexivity|exact H].
Qed.

Theorem inflight_origin evs u : In u (inflight (run evs)) -> dialled_by_gossip evs u.
Proof.
  induction evs as [|e evs IH] using rev_ind; [intros []|].
  rewrite run_snoc. destruct e as [p lk ann|ps|p|from ok entries|v res]; cbn [step fst].
  - rewrite inflight_add. intros H. apply dialled_by_gossip_snoc; auto.
  - rewrite inflight_fold_add. intros H. apply dialled_by_gossip_snoc; auto.
  - rewrite inflight_remove. intros H. apply dialled_by_gossip_snoc; auto.
  - destruct ok; cbn [fst inflight]; [|intros H; apply dialled_by_gossip_snoc; auto].
    intros H. apply in_app_or in H. destruct H as [H|H]; [apply dialled_by_gossip_snoc; auto|].
    apply In_to_dial in H. destruct H as [ea [He Hc]].
    exists evs, from, entries, [], ea. auto.
  - destruct (in_flight v (run evs)); cbn [fst]; [|intros H; apply dialled_by_gossip_snoc; auto].
    destruct res as [p|]; cbn [fst]; [rewrite inflight_add|]; cbn [inflight]; intros H;
      apply dialled_by_gossip_snoc, IH; eapply In_remove1; exact H.
Qed.

(* a peer added by the discovery worker anywhere in a history is the peer returned by a
   successful Connect on an underlay that a received list made the node dial *)
Theorem worker_add_origin evs pre e post q :
  evs = pre ++ e :: post -> In (Add q) (snd (step (run pre) e)) ->
  exists u, e = ConnectDone u (Some q) /\ dialled_by_gossip pre u.
Proof.
  intros _ H. apply add_effect_origin in H. destruct H as [u [-> Hf]].
  exists u. split; [reflexivity|]. apply inflight_origin, in_flight_In; exact Hf.
Qed.

(* ================= the checker accepts the model ================= *)
(* ---------- multisets ---------- *)
Lemma ms_diff_refl {A} (eqb : A -> A -> bool) (Hrefl : forall a, eqb a a = true) l : ms_diff eqb l l = [].
Proof. induction l as [|a l IH]; [reflexivity|]. cbn. rewrite Hrefl. exact IH. Qed.
Lemma ms_eqb_refl {A} (eqb : A -> A -> bool) (Hrefl : forall a, eqb a a = true) l : ms_eqb eqb l l = true.
Proof. unfold ms_eqb. rewrite ms_diff_refl by exact Hrefl. reflexivity. Qed.
Lemma list_eqb_refl {A} (eqb : A -> A -> bool) (Hrefl : forall a, eqb a a = true) l : list_eqb eqb l l = true.
Proof. induction l as [|a l IH]; [reflexivity|]. cbn. rewrite Hrefl. exact IH. Qed.

Lemma record_eqb_refl r : record_eqb r r = true.
Proof. unfold record_eqb. rewrite N.eqb_refl, bytes_eqb_refl. reflexivity. Qed.
Lemma wire_eqb_refl r : wire_eqb r r = true.
Proof. unfold wire_eqb. rewrite !bytes_eqb_refl. reflexivity. Qed.
Lemma msg_eqb_refl m : msg_eqb m m = true.
Proof. unfold msg_eqb. rewrite peer_eqb_refl, ms_eqb_refl by exact record_eqb_refl. reflexivity. Qed.
Lemma wmsg_eqb_refl m : wmsg_eqb m m = true.
Proof. unfold wmsg_eqb. rewrite peer_eqb_refl, ms_eqb_refl by exact wire_eqb_refl. reflexivity. Qed.
Lemma effect_eqb_refl e : effect_eqb e e = true.
Proof.
  destruct e; cbn; rewrite ?peer_eqb_refl, ?bytes_eqb_refl; cbn;
  try apply ms_eqb_refl; auto using record_eqb_refl, wire_eqb_refl.
Qed.
Lemma obs_eqb_refl o : obs_eqb o o = true.
Proof.
  unfold obs_eqb. rewrite ms_eqb_refl by exact effect_eqb_refl.
  rewrite list_eqb_refl by (intros; apply ms_eqb_refl, peer_eqb_refl).
  rewrite list_eqb_refl by (intros []; reflexivity).
  rewrite list_eqb_refl by (intros; apply ms_eqb_refl, N.eqb_refl). reflexivity.
Qed.

(* the model agrees with itself: a case whose observation is the model's own is no mismatch *)
Lemma model_self_agrees pr l : list_eqb obs_eqb (run_obs pr init l) (run_obs pr init l) = true.
Proof. apply list_eqb_refl, obs_eqb_refl. Qed.

(* ---------- abstraction relation ---------- *)
Definition R (s : state) (A : abs) : Prop :=
  aP A = map p_addr (providers s) /\ aB A = map p_addr (bidders s) /\ aF A = inflight s.

Lemma keys_put p m : map p_addr (m_put p m) = aput (p_addr p) (map p_addr m).
Proof. unfold m_put, aput, adel. cbn [map]. rewrite m_del_keys. reflexivity. Qed.
Lemma keys_del a m : map p_addr (m_del a m) = adel a (map p_addr m).
Proof. unfold adel. apply m_del_keys. Qed.

Ltac Rsolve := unfold R; cbn [aP aB aF providers bidders inflight]; rewrite ?keys_put, ?keys_del; repeat split; congruence.
Lemma R_add p s A : R s A -> R (add p s) (abs_add p A).
Proof.
  intros [H1 [H2 H3]]. unfold add, abs_add.
  destruct (p_role p =? ROLE_PROVIDER)%Z; [Rsolve|].
  destruct (p_role p =? ROLE_BIDDER)%Z; Rsolve.
Qed.
Lemma R_remove p s A : R s A -> R (remove p s) (abs_remove p A).
Proof.
  intros [H1 [H2 H3]]. unfold remove, abs_remove.
  destruct (p_role p =? ROLE_PROVIDER)%Z; [Rsolve|].
  destruct (p_role p =? ROLE_BIDDER)%Z; Rsolve.
Qed.
Lemma R_fold_add ps : forall s A, R s A ->
  R (fold_left (fun acc p => add p acc) ps s) (fold_left (fun acc p => abs_add p acc) ps A).
Proof. induction ps as [|p ps IH]; intros s A H; cbn; [exact H|]. apply IH, R_add, H. Qed.

Lemma remove1_absent u l : existsb (bytes_eqb u) l = false -> remove1 u l = l.
Proof.
  induction l as [|v l IH]; cbn; [reflexivity|]. destruct (bytes_eqb u v); cbn; [discriminate|].
  intros H. rewrite IH by exact H. reflexivity.
Qed.

Lemma R_step s A e : R s A -> R (fst (step s e)) (abs_step A e (snd (step s e))).
Proof.
  intros H. destruct e as [p lk ann|ps|p|from ok entries|u res]; cbn [step fst snd abs_step].
  - apply R_add, H.
  - apply R_fold_add, H.
  - apply R_remove, H.
  - destruct H as [H1 [H2 H3]]. destruct ok; cbn [fst snd].
    + rewrite dials_map_Dial. Rsolve.
    + cbn [dials flat_map]. rewrite app_nil_r. Rsolve.
  - destruct H as [H1 [H2 H3]]. destruct (in_flight u s) eqn:E; cbn [fst snd].
    + destruct res as [p|]; cbn [fst snd adds flat_map app fold_left].
      * apply R_add. Rsolve.
      * Rsolve.
    + cbn [adds flat_map fold_left]. rewrite H3, remove1_absent by exact E. Rsolve.
Qed.

(* ---------- views ---------- *)
Lemma amem_keys a m : amem a (map p_addr m) = m_has a m.
Proof.
  unfold amem, m_has. induction m as [|q m IH]; [reflexivity|]. cbn. rewrite IH, (N.eqb_sym a). reflexivity.
Qed.
Lemma amem_In a l : amem a l = true <-> In a l.
Proof.
  unfold amem. rewrite existsb_exists. split.
  - intros [b [Hb E]]. apply N.eqb_eq in E. subst; exact Hb.
  - intros H. exists a. split; [exact H|apply N.eqb_refl].
Qed.
Lemma nodup_addrs_NoDup l : NoDup l -> nodup_addrs l = true.
Proof.
  induction 1 as [|a l Ha Hl IH]; [reflexivity|]. cbn. rewrite IH, andb_true_r.
  destruct (amem a l) eqn:E; [apply amem_In in E; contradiction|reflexivity].
Qed.
Lemma set_view_self r m : role_map r m -> set_view_ok r (map p_addr m) m = true.
Proof.
  intros [Hr Hn]. unfold set_view_ok. rewrite nodup_addrs_NoDup by exact Hn. rewrite andb_true_r.
  apply andb_true_iff. split; apply forallb_forall.
  - intros q Hq. rewrite (Hr q Hq), Z.eqb_refl. cbn. apply amem_In, in_map, Hq.
  - intros a Ha. apply amem_In, Ha.
Qed.
Lemma set_addrs_self l : NoDup l -> set_addrs_ok l l = true.
Proof.
  intros Hn. unfold set_addrs_ok. rewrite nodup_addrs_NoDup by exact Hn. rewrite andb_true_r.
  assert (H : forallb (fun a => amem a l) l = true) by (apply forallb_forall; intros a Ha; apply amem_In, Ha).
  rewrite H. reflexivity.
Qed.
Lemma connected_agrees s A a : R s A -> is_connected a s = abs_connected a A.
Proof. intros [H1 [H2 _]]. unfold is_connected, abs_connected. rewrite H1, H2, !amem_keys. reflexivity. Qed.

Lemma view_ok_model s A pr eff : wf s -> R s A -> view_ok A pr (observe pr s eff) = true.
Proof.
  intros [HP HB] HR. unfold view_ok, observe, Check_C15.view_roles. cbn [o_views o_conn map].
  destruct HR as [H1 [H2 H3]].
  change (get_peers ROLE_BOOTNODE s) with (@nil peer). change (get_peers (-1) s) with (@nil peer).
  change (get_peers ROLE_PROVIDER s) with (providers s). change (get_peers ROLE_BIDDER s) with (bidders s).
  cbn [is_nil andb]. rewrite H1, H2, (set_view_self _ _ HP), (set_view_self _ _ HB). cbn [andb].
  assert (E : map (fun a => is_connected a s) pr = map (fun a => abs_connected a A) pr).
  { apply map_ext. intros a. apply connected_agrees. repeat split; auto. }
  rewrite E, list_eqb_refl by (intros []; reflexivity).
  unfold api_view. cbn [o_api andb].
  change (get_peers ROLE_PROVIDER s) with (providers s). change (get_peers ROLE_BIDDER s) with (bidders s).
  rewrite (set_addrs_self _ (proj2 HP)), (set_addrs_self _ (proj2 HB)). reflexivity.
Qed.

(* ---------- announce clauses ---------- *)
Lemma expected_records_model s A p lk : wf s -> R s A ->
  expected_records A p lk = records_for p lk (get_peers ROLE_PROVIDER s).
Proof.
  intros [[HP _] _] [H1 _]. unfold expected_records, records_for. rewrite H1.
  change (get_peers ROLE_PROVIDER s) with (providers s).
  revert HP. generalize (providers s) as m. induction m as [|q m IH]; intros HP; [reflexivity|].
  cbn [map flat_map]. rewrite IH by (intros q' Hq'; apply HP; right; exact Hq').
  assert (E : mkPeer (p_addr q) ROLE_PROVIDER = q) by (rewrite <- (HP q (or_introl eq_refl)); destruct q; reflexivity).
  rewrite E. reflexivity.
Qed.
Lemma expected_fanout_model s A p lk : wf s -> R s A -> expected_fanout A p lk = fanout_msgs s p lk.
Proof.
  intros [_ [HB _]] [_ [H2 _]]. unfold expected_fanout, fanout_msgs.
  destruct (p_role p =? ROLE_PROVIDER)%Z; [|reflexivity]. destruct (tbl_get lk p) as [u|]; [|reflexivity].
  rewrite H2. change (get_peers ROLE_BIDDER s) with (bidders s). rewrite map_map. apply map_ext_in.
  intros q Hq. rewrite <- (HB q Hq). destruct q; reflexivity.
Qed.

Lemma filter_all {A} (f : A -> bool) l : (forall a, In a l -> f a = true) -> filter f l = l.
Proof.
  induction l as [|a l IH]; intros H; [reflexivity|]. cbn. rewrite (H a (or_introl eq_refl)).
  f_equal. apply IH. intros b Hb. apply H. right; exact Hb.
Qed.
Lemma filter_none {A} (f : A -> bool) l : (forall a, In a l -> f a = false) -> filter f l = [].
Proof.
  induction l as [|a l IH]; intros H; [reflexivity|]. cbn. rewrite (H a (or_introl eq_refl)).
  apply IH. intros b Hb. apply H. right; exact Hb.
Qed.
Lemma existsb_none {A} (f : A -> bool) l : (forall a, In a l -> f a = false) -> existsb f l = false.
Proof.
  induction l as [|a l IH]; intros H; [reflexivity|]. cbn. rewrite (H a (or_introl eq_refl)).
  apply IH. intros b Hb. apply H. right; exact Hb.
Qed.
Lemma rec_mem_In r l : In r l -> rec_mem r l = true.
Proof. intros H. unfold rec_mem. apply existsb_exists. exists r. split; [exact H|apply record_eqb_refl]. Qed.

Lemma fanout_not_to_p s p lk : wf s -> forall m, In m (fanout_msgs s p lk) -> peer_eqb (fst m) p = false.
Proof.
  intros [_ [HB _]] m Hm. unfold fanout_msgs in Hm.
  destruct (Z.eqb_spec (p_role p) ROLE_PROVIDER) as [E|E]; [|destruct Hm].
  destruct (tbl_get lk p); [|destruct Hm]. apply in_map_iff in Hm. destruct Hm as [b0 [<- Hb]]. cbn [fst].
  destruct (peer_eqb b0 p) eqn:Eq; [|reflexivity]. apply peer_eqb_eq in Eq. subst b0.
  specialize (HB p Hb). rewrite E in HB. discriminate.
Qed.

Lemma announce_clauses_model s A p lk ann : wf s -> R s A ->
  announce_clauses A p lk ann (connected_effects s p lk ann) = [].
Proof.
  intros Hwf HR. unfold announce_clauses.
  rewrite wires_connected, announces_connected.
  rewrite (expected_records_model s A p lk Hwf HR), (expected_fanout_model s A p lk Hwf HR).
  change expected_wires with wires_for.
  set (want := records_for p lk (get_peers ROLE_PROVIDER s)).
  set (fan := fanout_msgs s p lk).
  rewrite !filter_app.
  rewrite (filter_none (fun m => peer_eqb (fst m) p) fan) by (apply fanout_not_to_p; exact Hwf).
  rewrite (filter_all (fun m => negb (peer_eqb (fst m) p)) fan)
    by (intros m Hm; rewrite (fanout_not_to_p s p lk Hwf m Hm); reflexivity).
  assert (Hnew : newcomer_msgs s p lk = match want with [] => [] | _ => [(p, want)] end)
    by (unfold newcomer_msgs; fold want; destruct want; reflexivity).
  assert (Hto : filter (fun m => peer_eqb (fst m) p) (newcomer_msgs s p lk) = newcomer_msgs s p lk).
  { rewrite Hnew. destruct want; [reflexivity|]. cbn. rewrite peer_eqb_refl. reflexivity. }
  assert (Hot : filter (fun m => negb (peer_eqb (fst m) p)) (newcomer_msgs s p lk) = []).
  { rewrite Hnew. destruct want; [reflexivity|]. cbn. rewrite peer_eqb_refl. reflexivity. }
  rewrite Hto, Hot, app_nil_r. cbn [app].
  assert (Hgot : flat_map snd (newcomer_msgs s p lk) = want).
  { rewrite Hnew. destruct want; [reflexivity|]. cbn. rewrite app_nil_r. reflexivity. }
  rewrite Hgot.
  assert (Hself : existsb (fun r => fst r =? p_addr p) want = false).
  { apply existsb_none. intros [a u] Hin. apply In_records_for in Hin. destruct Hin as [q [_ [_ [Hne _]]]].
    cbn. apply N.eqb_neq. exact Hne. }
  rewrite Hself.
  rewrite (filter_none (fun r => negb (fst r =? p_addr p) && negb (rec_mem r want)) want)
    by (intros r Hr; rewrite (rec_mem_In r want Hr), andb_false_r; reflexivity).
  rewrite (filter_all (fun r => rec_mem r want) want) by (intros r Hr; apply rec_mem_In; exact Hr).
  assert (Hnil : existsb (fun m : peer * list record => is_nil (snd m)) (newcomer_msgs s p lk) = false).
  { rewrite Hnew. destruct want; reflexivity. }
  rewrite Hnil.
  rewrite !(ms_diff_refl record_eqb record_eqb_refl), !(ms_diff_refl msg_eqb msg_eqb_refl),
          !(ms_diff_refl wmsg_eqb wmsg_eqb_refl).
  reflexivity.
Qed.

(* ---------- gossip clauses ---------- *)
Lemma allowed_dials_model s A ok entries : R s A ->
  allowed_dials A ok entries = if ok then to_dial s entries else [].
Proof.
  intros HR. unfold allowed_dials, to_dial. destruct ok; [|reflexivity].
  apply flat_map_ext. intros e. rewrite (connected_agrees s A _ HR). reflexivity.
Qed.

Lemma no_announce_nil eff : announces eff = [] -> wires eff = [] -> no_announce eff = [].
Proof. intros H1 H2. unfold no_announce. rewrite H1, H2. reflexivity. Qed.
Lemma no_gossip_nil eff : dials eff = [] -> adds eff = [] -> no_gossip eff = [].
Proof. intros H1 H2. unfold no_gossip. rewrite H1, H2. reflexivity. Qed.

Lemma event_clauses_model s A pr e : wf s -> R s A ->
  event_clauses A pr e (observe pr (fst (step s e)) (snd (step s e))) = [].
Proof.
  intros Hwf HR. unfold event_clauses. cbn [o_eff observe].
  rewrite (view_ok_model (fst (step s e)) (abs_step A e (snd (step s e))) pr (snd (step s e)))
    by (auto using wf_step, R_step).
  cbn [negb flag]. rewrite app_nil_r.
  destruct e as [p lk ann|ps|p|from ok entries|u res].
  - cbn [step fst snd abs_step].
    rewrite (announce_clauses_model (add p s) (abs_add p A) p lk ann) by (auto using wf_add, R_add).
    rewrite no_gossip_nil by (auto using no_dials_connected, no_adds_connected). reflexivity.
  - reflexivity.
  - reflexivity.
  - destruct (gossip_step s from ok entries) as [_ [_ [Hd [_ [Ha [Hw Had]]]]]].
    rewrite no_announce_nil by assumption. cbn [app]. unfold gossip_clauses.
    rewrite Had, Hd, (allowed_dials_model s A ok entries HR).
    rewrite (ms_diff_refl bytes_eqb bytes_eqb_refl). reflexivity.
  - cbn [step]. destruct HR as [H1 [H2 H3]]. unfold done_clauses. rewrite H3. fold (in_flight u s).
    destruct (in_flight u s); cbn [snd].
    + destruct res as [p|]; cbn; rewrite ?peer_eqb_refl; reflexivity.
    + destruct res; reflexivity.
Qed.

Lemma trace_clauses_model pr evs : forall s A, wf s -> R s A ->
  trace_clauses A pr evs (run_obs pr s evs) = [].
Proof.
  induction evs as [|e evs IH]; intros s A Hwf HR; [reflexivity|].
  cbn [run_obs trace_clauses]. rewrite (event_clauses_model s A pr e Hwf HR). cbn [app].
  cbn [o_eff observe]. apply IH; auto using wf_step, R_step.
Qed.

(* For every history, the property checker (the one that is evaluated on the implementation's
   observations) finds nothing to object to in the model's own behaviour. *)
Theorem checker_accepts_model i roles pr evs :
  case_violations (mkCase i 0 roles pr evs (run_obs pr init evs) [] []) = [].
Proof.
  unfold case_violations. cbn [c_mode N.eqb probes Check_C15.evs obs].
  rewrite (trace_clauses_model pr evs init abs_init wf_init) by (repeat split). reflexivity.
Qed.

(* concurrent runs: the final observation of the model passes the final-view clause *)
Lemma abs_run_R l : forall s A, wf s -> R s A -> wf (run_from s l) /\ R (run_from s l) (abs_run s A l).
Proof.
  induction l as [|e l IH]; intros s A Hwf HR; [split; assumption|].
  cbn [abs_run]. change (run_from s (e :: l)) with (run_from (fst (step s e)) l).
  apply IH; auto using wf_step, R_step.
Qed.
Theorem checker_accepts_final i roles pr evs :
  case_violations (mkCase i 1 roles pr evs [final_obs pr evs] [] []) = [].
Proof.
  unfold case_violations. cbn [c_mode probes Check_C15.evs obs N.eqb Pos.eqb].
  unfold final_clauses, final_obs.
  destruct (abs_run_R evs init abs_init wf_init) as [Hwf HR]; [repeat split|].
  fold (run evs) in Hwf, HR. rewrite (view_ok_model (run evs) _ pr [] Hwf HR). reflexivity.
Qed.

(* ================= Connected at the granularity of its critical sections ================= *)
(* ---------- bookkeeping ---------- *)
Lemma srun_from_app s l1 l2 : srun_from s (l1 ++ l2) = srun_from (srun_from s l1) l2.
Proof. unfold srun_from. apply fold_left_app. Qed.
Lemma srun_snoc l e : srun (l ++ [e]) = fst (sstep (srun l) e).
Proof. unfold srun. rewrite srun_from_app. reflexivity. Qed.

Lemma call_effects_from_app c l1 : forall s l2,
  call_effects_from s c (l1 ++ l2) = call_effects_from s c l1 ++ call_effects_from (srun_from s l1) c l2.
Proof.
  induction l1 as [|e l1 IH]; intros s l2; [reflexivity|].
  cbn [app call_effects_from]. rewrite IH, app_assoc. reflexivity.
Qed.
Lemma call_effects_snoc c l e :
  call_effects c (l ++ [e]) = call_effects c l ++ (if is_call c e then snd (sstep (srun l) e) else []).
Proof. unfold call_effects. rewrite call_effects_from_app. cbn [call_effects_from]. rewrite app_nil_r. reflexivity. Qed.

Lemma find_set_same c k cs : find_call c cs <> None -> find_call c (set_call c k cs) = Some k.
Proof.
  induction cs as [|[d k0] cs IH]; cbn; [congruence|].
  destruct (N.eqb_spec d c) as [E|E]; cbn.
  - intros _. subst d. rewrite N.eqb_refl. reflexivity.
  - intros H. destruct (N.eqb_spec d c); [contradiction|]. apply IH, H.
Qed.
Lemma find_set_other c d k cs : d <> c -> find_call d (set_call c k cs) = find_call d cs.
Proof.
  intros Hne. induction cs as [|[d0 k0] cs IH]; cbn; [reflexivity|].
  destruct (N.eqb_spec d0 c) as [E|E]; cbn.
  - subst d0. destruct (N.eqb_spec c d); [congruence|reflexivity].
  - destruct (d0 =? d); [reflexivity|exact IH].
Qed.

(* the base state of a step history is well formed *)
Lemma wf_sstep s e : wf (base s) -> wf (base (fst (sstep s e))).
Proof.
  intros H. destruct e as [c p lk ann|c|c|c|c|e]; cbn [sstep].
  - destruct (find_call c (calls s)); cbn; [exact H|apply wf_add, H].
  - destruct (find_call c (calls s)) as [k|]; [|exact H]. destruct (k_pc k =? 0); exact H.
  - destruct (find_call c (calls s)) as [k|]; [|exact H]. destruct (k_pc k =? 1); exact H.
  - destruct (find_call c (calls s)) as [k|]; [|exact H]. destruct (k_pc k =? 2); [|exact H].
    destruct (p_role (k_peer k) =? ROLE_PROVIDER)%Z; [|exact H]. destruct (tbl_get (k_lk k) (k_peer k)); exact H.
  - destruct (find_call c (calls s)) as [k|]; [|exact H]. destruct (k_pc k =? 3); [|exact H].
    destruct (k_fan k); [exact H|]. destruct (tbl_get (k_lk k) (k_peer k)); exact H.
  - cbn. apply wf_step, H.
Qed.
Lemma wf_srun l : wf (base (srun l)).
Proof.
  induction l as [|e l IH] using rev_ind; [exact wf_init|]. rewrite srun_snoc. apply wf_sstep, IH.
Qed.

(* ---------- what is known about a call record after any step history ---------- *)
Definition started (l : list sevent) (c : N) (k : call) : Prop :=
  exists l1 l2, l = l1 ++ SAdd c (k_peer k) (k_lk k) (k_ann k) :: l2.
(* the EFFECTIVE reads: the step at which the call was at stage 0 (resp. 2), i.e. the one that took
   the snapshot; a repeated read step is a no-op and does not qualify *)
Definition at_stage (l : list sevent) (c : N) (n : N) : Prop :=
  exists k0, find_call c (calls (srun l)) = Some k0 /\ k_pc k0 = n.
Definition provs_read (l : list sevent) (c : N) (k : call) : Prop :=
  exists pre post, l = pre ++ SReadProviders c :: post /\ at_stage pre c 0
                   /\ k_provs k = get_peers ROLE_PROVIDER (base (srun pre)).
Definition bids_read (l : list sevent) (c : N) (k : call) : Prop :=
  exists pre post, l = pre ++ SReadBidders c :: post /\ at_stage pre c 2
                   /\ incl (k_fan k) (get_peers ROLE_BIDDER (base (srun pre))).

Definition call_inv (l : list sevent) (c : N) (k : call) : Prop :=
  started l c k /\ (1 <= k_pc k -> provs_read l c k)
  /\ (k_pc k = 3 -> p_role (k_peer k) = ROLE_PROVIDER /\ bids_read l c k).

Lemma started_snoc l e c k : started l c k -> started (l ++ [e]) c k.
Proof. intros [l1 [l2 E]]. exists l1, (l2 ++ [e]). subst l. rewrite <- app_assoc. reflexivity. Qed.
Lemma provs_read_snoc l e c k : provs_read l c k -> provs_read (l ++ [e]) c k.
Proof. intros [l1 [l2 [E H]]]. exists l1, (l2 ++ [e]). split; [subst l; rewrite <- app_assoc; reflexivity|exact H]. Qed.
Lemma bids_read_snoc l e c k : bids_read l c k -> bids_read (l ++ [e]) c k.
Proof. intros [l1 [l2 [E H]]]. exists l1, (l2 ++ [e]). split; [subst l; rewrite <- app_assoc; reflexivity|exact H]. Qed.
Lemma call_inv_snoc l e c k : call_inv l c k -> call_inv (l ++ [e]) c k.
Proof.
  intros [H1 [H2 H3]]. split; [apply started_snoc, H1|]. split.
  - intros H. apply provs_read_snoc, H2, H.
  - intros H. destruct (H3 H) as [Hr Hb]. split; [exact Hr|apply bids_read_snoc, Hb].
Qed.

Theorem calls_inv l : forall c k, find_call c (calls (srun l)) = Some k -> call_inv l c k.
Proof.
  induction l as [|e l IH] using rev_ind; [intros c k H; discriminate|].
  intros c k. rewrite srun_snoc. destruct e as [d p lk ann|d|d|d|d|e]; cbn [sstep].
  - destruct (find_call d (calls (srun l))) eqn:Ed; cbn [fst calls].
    + intros H. apply call_inv_snoc, IH, H.
    + cbn [find_call]. destruct (N.eqb_spec d c) as [->|Hne].
      * intros H. inversion H; subst k. split; [exists l, []; reflexivity|].
        cbn [k_pc]. split; [intros H1; lia|intros H1; discriminate].
      * intros H. apply call_inv_snoc, IH, H.
  - destruct (find_call d (calls (srun l))) as [k0|] eqn:Ed; [|intros H; apply call_inv_snoc, IH, H].
    destruct (N.eqb_spec (k_pc k0) 0) as [Epc|Epc]; [|intros H; apply call_inv_snoc, IH, H]. cbn [fst calls].
    destruct (N.eq_dec d c) as [->|Hne].
    + rewrite find_set_same by congruence. intros H. inversion H; subst k. clear H.
      destruct (IH c k0 Ed) as [H1 _]. split; [apply started_snoc, H1|]. cbn [k_pc k_provs]. split.
      * intros _. exists l, []. split; [reflexivity|]. split; [exists k0; auto|reflexivity].
      * intros H; discriminate.
    + rewrite find_set_other by congruence. intros H. apply call_inv_snoc, IH, H.
  - destruct (find_call d (calls (srun l))) as [k0|] eqn:Ed; [|intros H; apply call_inv_snoc, IH, H].
    destruct (N.eqb_spec (k_pc k0) 1) as [Epc|Epc]; [|intros H; apply call_inv_snoc, IH, H]. cbn [fst calls].
    destruct (N.eq_dec d c) as [->|Hne].
    + rewrite find_set_same by congruence. intros H. inversion H; subst k. clear H.
      destruct (IH c k0 Ed) as [H1 [H2 _]]. split; [apply started_snoc, H1|]. cbn [k_pc k_provs]. split.
      * intros _. apply (provs_read_snoc l _ c k0), H2. lia.
      * intros H; discriminate.
    + rewrite find_set_other by congruence. intros H. apply call_inv_snoc, IH, H.
  - destruct (find_call d (calls (srun l))) as [k0|] eqn:Ed; [|intros H; apply call_inv_snoc, IH, H].
    destruct (N.eqb_spec (k_pc k0) 2) as [Epc|Epc]; [|intros H; apply call_inv_snoc, IH, H].
    destruct (Z.eqb_spec (p_role (k_peer k0)) ROLE_PROVIDER) as [Er|Er]; [|intros H; apply call_inv_snoc, IH, H].
    destruct (IH d k0 Ed) as [H1 [H2 _]].
    destruct (tbl_get (k_lk k0) (k_peer k0)); cbn [fst calls];
      (destruct (N.eq_dec d c) as [->|Hne];
       [rewrite find_set_same by congruence; intros H; inversion H; subst k; clear H;
        split; [apply started_snoc, H1|]; cbn [k_pc k_provs k_peer k_fan]; split;
        [intros _; apply (provs_read_snoc l _ c k0), H2; lia|]
       |rewrite find_set_other by congruence; intros H; apply call_inv_snoc, IH, H]).
    + intros _. split; [exact Er|]. exists l, []. split; [reflexivity|]. split; [exists k0; auto|apply incl_refl].
    + intros H; discriminate.
  - destruct (find_call d (calls (srun l))) as [k0|] eqn:Ed; [|intros H; apply call_inv_snoc, IH, H].
    destruct (N.eqb_spec (k_pc k0) 3) as [Epc|Epc]; [|intros H; apply call_inv_snoc, IH, H].
    destruct (k_fan k0) as [|b rest] eqn:Ef; [intros H; apply call_inv_snoc, IH, H|].
    destruct (tbl_get (k_lk k0) (k_peer k0)); [|intros H; apply call_inv_snoc, IH, H]. cbn [fst calls].
    destruct (N.eq_dec d c) as [->|Hne].
    + rewrite find_set_same by congruence. intros H. inversion H; subst k. clear H.
      destruct (IH c k0 Ed) as [H1 [H2 H3]]. destruct (H3 Epc) as [Hr [pre [post [E [Hst Hi]]]]].
      split; [apply started_snoc, H1|]. cbn [k_pc k_provs k_peer k_fan]. split.
      * intros _. apply (provs_read_snoc l _ c k0), H2. lia.
      * intros _. split; [exact Hr|]. exists pre, (post ++ [SFanout c]).
        split; [subst l; rewrite <- app_assoc; reflexivity|]. split; [exact Hst|].
        intros x Hx. apply Hi. rewrite Ef. right; exact Hx.
    + rewrite find_set_other by congruence. intros H. apply call_inv_snoc, IH, H.
  - cbn [fst calls]. intros H. apply call_inv_snoc, IH, H.
Qed.

Lemma In_announce_broadcast ann t recs t' recs' :
  In (Announce t' recs') (broadcast ann t recs) -> t' = t /\ recs' = recs.
Proof.
  unfold broadcast. destruct (stream_opens ann t); cbn; intros [H|H]; try (inversion H; auto; fail);
  try destruct H as [H|[]]; try discriminate; try contradiction.
Qed.

(* SOUNDNESS of a call's announcements under arbitrary interleaving *)
Definition sound_announce (l : list sevent) (c : N) (t : peer) (recs : list record) : Prop :=
  exists p lk ann l1 l2, l = l1 ++ SAdd c p lk ann :: l2 /\
  ( (t = p /\ recs <> [] /\
     forall a u, In (a, u) recs ->
       a <> p_addr p /\ tbl_get lk (mkPeer a ROLE_PROVIDER) = Some u /\
       exists pre post, l = pre ++ SReadProviders c :: post /\ at_stage pre c 0
                        /\ In (mkPeer a ROLE_PROVIDER) (get_peers ROLE_PROVIDER (base (srun pre))))
    \/
    (p_role p = ROLE_PROVIDER /\ exists u, tbl_get lk p = Some u /\ recs = [(p_addr p, u)] /\
     exists pre post, l = pre ++ SReadBidders c :: post /\ at_stage pre c 2
                      /\ In t (get_peers ROLE_BIDDER (base (srun pre)))) ).

Lemma sound_announce_snoc l e c t recs : sound_announce l c t recs -> sound_announce (l ++ [e]) c t recs.
Proof.
  intros [p [lk [ann [l1 [l2 [E H]]]]]]. exists p, lk, ann, l1, (l2 ++ [e]).
  split; [subst l; rewrite <- app_assoc; reflexivity|].
  destruct H as [[H1 [H2 H3]]|[H1 [u [H2 [H3 [pre [post [E2 [Hst H4]]]]]]]]].
  - left. split; [exact H1|]. split; [exact H2|]. intros a u Hin. destruct (H3 a u Hin) as [Ha [Hl [pre [post [E2 [Hst Hi]]]]]].
    split; [exact Ha|]. split; [exact Hl|]. exists pre, (post ++ [e]).
    split; [rewrite E2, <- app_assoc; reflexivity|]. split; [exact Hst|exact Hi].
  - right. split; [exact H1|]. exists u. split; [exact H2|]. split; [exact H3|].
    exists pre, (post ++ [e]). split; [rewrite E2, <- app_assoc; reflexivity|]. split; [exact Hst|exact H4].
Qed.

Theorem step_sound l : forall c t recs, In (Announce t recs) (call_effects c l) -> sound_announce l c t recs.
Proof.
  induction l as [|e l IH] using rev_ind; [intros c t recs []|].
  intros c t recs. rewrite call_effects_snoc. intros H. apply in_app_or in H. destruct H as [H|H].
  { apply sound_announce_snoc, IH, H. }
  unfold is_call in H. destruct e as [d p lk ann|d|d|d|d|e]; cbn [call_of] in H;
    try (destruct (N.eqb_spec d c) as [->|Hne]; [|destruct H]); try (destruct H; fail); cbn [sstep] in H.
  - destruct (find_call c (calls (srun l))); destruct H.
  - destruct (find_call c (calls (srun l))) as [k|]; [|destruct H]. destruct (k_pc k =? 0); destruct H.
  - destruct (find_call c (calls (srun l))) as [k|] eqn:Ec; [|destruct H].
    destruct (N.eqb_spec (k_pc k) 1) as [Epc|Epc]; [|destruct H]. cbn [snd] in H.
    destruct (records_for (k_peer k) (k_lk k) (k_provs k)) as [|r0 rs] eqn:Er; [destruct H|].
    apply In_announce_broadcast in H. destruct H as [-> ->].
    destruct (calls_inv l c k Ec) as [[l1 [l2 E1]] [H2 _]].
    destruct H2 as [pre [post [E2 [Hst Hs]]]]; [lia|].
    exists (k_peer k), (k_lk k), (k_ann k), l1, (l2 ++ [SAnnounce c]).
    split; [rewrite E1, <- app_assoc; reflexivity|]. left. split; [reflexivity|]. split; [discriminate|].
    intros a u Hin. rewrite <- Er in Hin. apply In_records_for in Hin.
    destruct Hin as [q [Hq [Ha [Hne Hlk]]]]. rewrite Hs in Hq.
    assert (Hrole : p_role q = ROLE_PROVIDER).
    { destruct (wf_srun pre) as [[HP _] _]. apply HP. exact Hq. }
    assert (Eq : q = mkPeer a ROLE_PROVIDER) by (destruct q; cbn in *; subst; reflexivity). subst q.
    split; [exact Hne|]. split; [exact Hlk|]. exists pre, (post ++ [SAnnounce c]).
    split; [rewrite E2, <- app_assoc; reflexivity|]. split; [exact Hst|exact Hq].
  - destruct (find_call c (calls (srun l))) as [k|]; [|destruct H]. destruct (k_pc k =? 2); [|destruct H].
    destruct (p_role (k_peer k) =? ROLE_PROVIDER)%Z; [|destruct H]. destruct (tbl_get (k_lk k) (k_peer k)); destruct H.
  - destruct (find_call c (calls (srun l))) as [k|] eqn:Ec; [|destruct H].
    destruct (N.eqb_spec (k_pc k) 3) as [Epc|Epc]; [|destruct H].
    destruct (k_fan k) as [|b rest] eqn:Ef; [destruct H|].
    destruct (tbl_get (k_lk k) (k_peer k)) as [u|] eqn:Elk; [|destruct H]. cbn [snd] in H.
    apply In_announce_broadcast in H. destruct H as [-> ->].
    destruct (calls_inv l c k Ec) as [[l1 [l2 E1]] [_ H3]]. destruct (H3 Epc) as [Hr [pre [post [E2 [Hst Hi]]]]].
    exists (k_peer k), (k_lk k), (k_ann k), l1, (l2 ++ [SFanout c]).
    split; [rewrite E1, <- app_assoc; reflexivity|]. right. split; [exact Hr|]. exists u.
    split; [exact Elk|]. split; [reflexivity|]. exists pre, (post ++ [SFanout c]).
    split; [rewrite E2, <- app_assoc; reflexivity|]. split; [exact Hst|]. apply Hi. rewrite Ef. left; reflexivity.
Qed.

(* how one step changes the record of call c *)
Definition same_id (k' k : call) : Prop := k_peer k' = k_peer k /\ k_lk k' = k_lk k /\ k_ann k' = k_ann k.

Lemma call_step s e c k : find_call c (calls s) = Some k ->
  exists k', find_call c (calls (fst (sstep s e))) = Some k' /\ same_id k' k /\
  ( (k' = k /\ (is_call c e = true -> snd (sstep s e) = []))
    \/ (e = SReadProviders c /\ k_pc k = 0 /\ k_pc k' = 1 /\ k_provs k' = get_peers ROLE_PROVIDER (base s))
    \/ (e = SAnnounce c /\ k_pc k = 1 /\ k_pc k' = 2 /\ k_provs k' = k_provs k /\
        snd (sstep s e) = match records_for (k_peer k) (k_lk k) (k_provs k) with
                          | [] => [] | recs => broadcast (k_ann k) (k_peer k) recs end)
    \/ (e = SReadBidders c /\ k_pc k = 2 /\ p_role (k_peer k) = ROLE_PROVIDER /\ k_provs k' = k_provs k /\
        ((exists u, tbl_get (k_lk k) (k_peer k) = Some u /\ k_pc k' = 3 /\ k_fan k' = get_peers ROLE_BIDDER (base s))
         \/ (tbl_get (k_lk k) (k_peer k) = None /\ k_pc k' = 4)))
    \/ (e = SFanout c /\ k_pc k = 3 /\ k_pc k' = 3 /\ k_provs k' = k_provs k /\
        exists b rest u, k_fan k = b :: rest /\ k_fan k' = rest /\ tbl_get (k_lk k) (k_peer k) = Some u /\
                         snd (sstep s e) = broadcast (k_ann k) b [(p_addr (k_peer k), u)]) ).
Proof.
  intros Hc.
  assert (Hsame : exists k', find_call c (calls s) = Some k' /\ same_id k' k /\ k' = k)
    by (exists k; repeat split; auto).
  assert (Hother : forall d k1, d <> c -> exists k', find_call c (set_call d k1 (calls s)) = Some k' /\ same_id k' k /\ k' = k)
    by (intros d k1 Hne; exists k; rewrite find_set_other by congruence; repeat split; auto).
  destruct e as [d p lk ann|d|d|d|d|e]; cbn [sstep].
  - destruct (find_call d (calls s)) eqn:Ed; cbn [fst snd calls].
    + exists k. split; [exact Hc|]. split; [repeat split|]. left. auto.
    + exists k. cbn [find_call]. destruct (N.eqb_spec d c) as [->|Hne]; [congruence|].
      split; [exact Hc|]. split; [repeat split|]. left. auto.
  - destruct (find_call d (calls s)) as [k0|] eqn:Ed;
      [|exists k; split; [exact Hc|]; split; [repeat split|]; left; auto].
    destruct (N.eqb_spec (k_pc k0) 0) as [Epc|Epc];
      [|exists k; split; [exact Hc|]; split; [repeat split|]; left; auto].
    cbn [fst snd calls]. destruct (N.eq_dec d c) as [->|Hne].
    + rewrite Hc in Ed. inversion Ed; subst k0. eexists. rewrite find_set_same by congruence.
      split; [reflexivity|]. split; [repeat split|]. right; left. cbn. auto.
    + destruct (Hother d (mkCall (k_peer k0) (k_lk k0) (k_ann k0) 1 (get_peers ROLE_PROVIDER (base s)) []) Hne)
        as [k' [H1 [H2 H3]]]. exists k'. split; [exact H1|]. split; [exact H2|]. left. split; [exact H3|].
      unfold is_call; cbn. destruct (N.eqb_spec d c); [contradiction|discriminate].
  - destruct (find_call d (calls s)) as [k0|] eqn:Ed;
      [|exists k; split; [exact Hc|]; split; [repeat split|]; left; auto].
    destruct (N.eqb_spec (k_pc k0) 1) as [Epc|Epc];
      [|exists k; split; [exact Hc|]; split; [repeat split|]; left; auto].
    cbn [fst snd calls]. destruct (N.eq_dec d c) as [->|Hne].
    + rewrite Hc in Ed. inversion Ed; subst k0. eexists. rewrite find_set_same by congruence.
      split; [reflexivity|]. split; [repeat split|]. right; right; left. cbn. auto.
    + destruct (Hother d (mkCall (k_peer k0) (k_lk k0) (k_ann k0) 2 (k_provs k0) []) Hne)
        as [k' [H1 [H2 H3]]]. exists k'. split; [exact H1|]. split; [exact H2|]. left. split; [exact H3|].
      unfold is_call; cbn. destruct (N.eqb_spec d c); [contradiction|discriminate].
  - destruct (find_call d (calls s)) as [k0|] eqn:Ed;
      [|exists k; split; [exact Hc|]; split; [repeat split|]; left; auto].
    destruct (N.eqb_spec (k_pc k0) 2) as [Epc|Epc];
      [|exists k; split; [exact Hc|]; split; [repeat split|]; left; auto].
    destruct (Z.eqb_spec (p_role (k_peer k0)) ROLE_PROVIDER) as [Er|Er];
      [|exists k; split; [exact Hc|]; split; [repeat split|]; left; auto].
    destruct (tbl_get (k_lk k0) (k_peer k0)) as [u|] eqn:Elk; cbn [fst snd calls];
      (destruct (N.eq_dec d c) as [->|Hne];
       [rewrite Hc in Ed; inversion Ed; subst k0; eexists; rewrite find_set_same by congruence;
        split; [reflexivity|]; split; [repeat split|]; right; right; right; left; cbn;
        repeat split; auto
       |]).
    + left. exists u. auto.
    + destruct (Hother d (mkCall (k_peer k0) (k_lk k0) (k_ann k0) 3 (k_provs k0) (get_peers ROLE_BIDDER (base s))) Hne)
        as [k' [H1 [H2 H3]]]. exists k'. split; [exact H1|]. split; [exact H2|]. left. split; [exact H3|].
      unfold is_call; cbn. destruct (N.eqb_spec d c); [contradiction|discriminate].
    + destruct (Hother d (mkCall (k_peer k0) (k_lk k0) (k_ann k0) 4 (k_provs k0) []) Hne)
        as [k' [H1 [H2 H3]]]. exists k'. split; [exact H1|]. split; [exact H2|]. left. split; [exact H3|].
      unfold is_call; cbn. destruct (N.eqb_spec d c); [contradiction|discriminate].
  - destruct (find_call d (calls s)) as [k0|] eqn:Ed;
      [|exists k; split; [exact Hc|]; split; [repeat split|]; left; auto].
    destruct (N.eqb_spec (k_pc k0) 3) as [Epc|Epc];
      [|exists k; split; [exact Hc|]; split; [repeat split|]; left; auto].
    destruct (k_fan k0) as [|b rest] eqn:Ef;
      [exists k; split; [exact Hc|]; split; [repeat split|]; left; auto|].
    destruct (tbl_get (k_lk k0) (k_peer k0)) as [u|] eqn:Elk;
      [|exists k; split; [exact Hc|]; split; [repeat split|]; left; auto].
    cbn [fst snd calls]. destruct (N.eq_dec d c) as [->|Hne].
    + rewrite Hc in Ed. inversion Ed; subst k0. eexists. rewrite find_set_same by congruence.
      split; [reflexivity|]. split; [repeat split|]. right; right; right; right. cbn.
      repeat split; auto. exists b, rest, u. auto.
    + destruct (Hother d (mkCall (k_peer k0) (k_lk k0) (k_ann k0) 3 (k_provs k0) rest) Hne)
        as [k' [H1 [H2 H3]]]. exists k'. split; [exact H1|]. split; [exact H2|]. left. split; [exact H3|].
      unfold is_call; cbn. destruct (N.eqb_spec d c); [contradiction|discriminate].
  - cbn [fst snd calls]. exists k. split; [exact Hc|]. split; [repeat split|]. left. split; [reflexivity|].
    unfold is_call; cbn; discriminate.
Qed.

(* a peer stays in the view unless a Disconnected names it *)
Definition sdrops (e : sevent) (a : addr) (r : Z) : Prop :=
  exists q, e = SOther (Disconnected q) /\ p_addr q = a /\ p_role q = r.

Lemma view_kept s e a r : is_role r -> ~ sdrops e a r ->
  In (mkPeer a r) (get_peers r (base s)) -> In (mkPeer a r) (get_peers r (base (fst (sstep s e)))).
Proof.
  intros Hr Hd Hin. destruct e as [d p lk ann|d|d|d|d|e]; cbn [sstep].
  - destruct (find_call d (calls s)); cbn [fst base]; [exact Hin|]. apply view_add; [exact Hr|]. right; exact Hin.
  - destruct (find_call d (calls s)) as [k|]; [|exact Hin]. destruct (k_pc k =? 0); exact Hin.
  - destruct (find_call d (calls s)) as [k|]; [|exact Hin]. destruct (k_pc k =? 1); exact Hin.
  - destruct (find_call d (calls s)) as [k|]; [|exact Hin]. destruct (k_pc k =? 2); [|exact Hin].
    destruct (p_role (k_peer k) =? ROLE_PROVIDER)%Z; [|exact Hin]. destruct (tbl_get (k_lk k) (k_peer k)); exact Hin.
  - destruct (find_call d (calls s)) as [k|]; [|exact Hin]. destruct (k_pc k =? 3); [|exact Hin].
    destruct (k_fan k); [exact Hin|]. destruct (tbl_get (k_lk k) (k_peer k)); exact Hin.
  - cbn [fst base]. apply view_step; [exact Hr|]. right. split; [exact Hin|].
    intros [q [Hq [Ha Hb]]]. apply Hd. exists q. subst e. auto.
Qed.

(* NO LOSS, providers: a provider that is in the view when call c starts and is not disconnected
   while c runs is announced to the newcomer (if its lookup succeeds) once c has passed its
   announce step *)
Section no_loss.
  Context (l1 : list sevent) (c : N) (p : peer) (lk : list (peer * bytes)) (ann : list (peer * N)).
  Context (Hfresh : find_call c (calls (srun l1)) = None).

  Lemma no_loss_providers_inv a u :
    In (mkPeer a ROLE_PROVIDER) (get_peers ROLE_PROVIDER (base (srun l1))) ->
    a <> p_addr p -> tbl_get lk (mkPeer a ROLE_PROVIDER) = Some u ->
    forall l2, (forall e, In e l2 -> ~ sdrops e a ROLE_PROVIDER) ->
    let l := l1 ++ SAdd c p lk ann :: l2 in
    exists k, find_call c (calls (srun l)) = Some k /\ k_peer k = p /\ k_lk k = lk /\ k_ann k = ann
      /\ In (mkPeer a ROLE_PROVIDER) (get_peers ROLE_PROVIDER (base (srun l)))
      /\ (1 <= k_pc k -> In (mkPeer a ROLE_PROVIDER) (k_provs k))
      /\ (2 <= k_pc k -> exists recs, In (Announce p recs) (call_effects c l) /\ In (a, u) recs).
  Proof.
    intros Ha Hne Hlk l2. induction l2 as [|e l2 IH] using rev_ind; intros Hnd; cbn zeta.
    - change (l1 ++ [SAdd c p lk ann]) with (l1 ++ [SAdd c p lk ann]). rewrite srun_snoc. cbn [sstep]. rewrite Hfresh.
      cbn [fst calls base find_call]. rewrite N.eqb_refl. eexists. split; [reflexivity|]. cbn.
      repeat split; auto; try (intros; lia).
      apply (view_add a ROLE_PROVIDER p (base (srun l1))); [left; reflexivity|]. right; exact Ha.
    - assert (Hnd' : forall e0, In e0 l2 -> ~ sdrops e0 a ROLE_PROVIDER)
        by (intros e0 He0; apply Hnd, in_or_app; left; exact He0).
      destruct (IH Hnd') as [k [Hk [Hp [Hl [Han [Hv [Hs Hr]]]]]]]. clear IH.
      assert (El : l1 ++ SAdd c p lk ann :: l2 ++ [e] = (l1 ++ SAdd c p lk ann :: l2) ++ [e])
        by (rewrite <- app_assoc; reflexivity).
      rewrite El, srun_snoc, call_effects_snoc. set (l := l1 ++ SAdd c p lk ann :: l2) in *.
      destruct (call_step (srun l) e c k Hk) as [k' [Hk' [[Sp [Sl Sa]] Hcases]]].
      exists k'. split; [exact Hk'|]. split; [congruence|]. split; [congruence|]. split; [congruence|].
      split; [apply view_kept; [left; reflexivity| apply Hnd, in_or_app; right; left; reflexivity | exact Hv]|].
      destruct Hcases as [[-> _]|[[-> [P0 [P1 Hpr]]]|[[-> [P0 [P1 [Hpr Heff]]]]|[[-> [P0 [Hrole [Hpr Hb]]]]|[-> [P0 [P1 [Hpr _]]]]]]]].
      + split; [exact Hs|]. intros H2. destruct (Hr H2) as [recs [Hi1 Hi2]]. exists recs. split; [apply in_or_app; left; exact Hi1|exact Hi2].
      + split; [intros _; rewrite Hpr; exact Hv|intros H2; lia].
      + split; [intros _; rewrite Hpr; apply Hs; lia|]. intros _.
        assert (Hin : In (a, u) (records_for (k_peer k) (k_lk k) (k_provs k))).
        { apply In_records_for. exists (mkPeer a ROLE_PROVIDER). rewrite Hp, Hl. repeat split; auto. apply Hs; lia. }
        unfold is_call; cbn [call_of]. rewrite N.eqb_refl, Heff.
        destruct (records_for (k_peer k) (k_lk k) (k_provs k)) as [|r0 rs] eqn:Er; [destruct Hin|].
        exists (r0 :: rs). split; [|exact Hin]. apply in_or_app; right. rewrite Hp. unfold broadcast. left; reflexivity.
      + split; [intros _; rewrite Hpr; apply Hs; lia|]. intros _.
        destruct Hr as [recs [Hi1 Hi2]]; [lia|]. exists recs. split; [apply in_or_app; left; exact Hi1|exact Hi2].
      + split; [intros _; rewrite Hpr; apply Hs; lia|]. intros _.
        destruct Hr as [recs [Hi1 Hi2]]; [lia|]. exists recs. split; [apply in_or_app; left; exact Hi1|exact Hi2].
  Qed.
End no_loss.

Section no_loss_b.
  Context (l1 : list sevent) (c : N) (p : peer) (lk : list (peer * bytes)) (ann : list (peer * N)).
  Context (Hfresh : find_call c (calls (srun l1)) = None).

  Lemma no_loss_bidders_inv ab u :
    In (mkPeer ab ROLE_BIDDER) (get_peers ROLE_BIDDER (base (srun l1))) ->
    p_role p = ROLE_PROVIDER -> tbl_get lk p = Some u ->
    forall l2, (forall e, In e l2 -> ~ sdrops e ab ROLE_BIDDER) ->
    let l := l1 ++ SAdd c p lk ann :: l2 in
    exists k, find_call c (calls (srun l)) = Some k /\ k_peer k = p /\ k_lk k = lk /\ k_ann k = ann
      /\ In (mkPeer ab ROLE_BIDDER) (get_peers ROLE_BIDDER (base (srun l)))
      /\ k_pc k <> 4
      /\ (k_pc k = 3 -> In (mkPeer ab ROLE_BIDDER) (k_fan k)
                        \/ In (Announce (mkPeer ab ROLE_BIDDER) [(p_addr p, u)]) (call_effects c l)).
  Proof.
    intros Hb Hrole Hlk l2. induction l2 as [|e l2 IH] using rev_ind; intros Hnd; cbn zeta.
    - rewrite srun_snoc. cbn [sstep]. rewrite Hfresh.
      cbn [fst calls base find_call]. rewrite N.eqb_refl. eexists. split; [reflexivity|]. cbn.
      repeat split; auto; try (intros; discriminate).
      apply (view_add ab ROLE_BIDDER p (base (srun l1))); [right; reflexivity|]. right; exact Hb.
    - assert (Hnd' : forall e0, In e0 l2 -> ~ sdrops e0 ab ROLE_BIDDER)
        by (intros e0 He0; apply Hnd, in_or_app; left; exact He0).
      destruct (IH Hnd') as [k [Hk [Hp [Hl [Han [Hv [H4 H3]]]]]]]. clear IH.
      assert (El : l1 ++ SAdd c p lk ann :: l2 ++ [e] = (l1 ++ SAdd c p lk ann :: l2) ++ [e])
        by (rewrite <- app_assoc; reflexivity).
      rewrite El, srun_snoc, call_effects_snoc. set (l := l1 ++ SAdd c p lk ann :: l2) in *.
      destruct (call_step (srun l) e c k Hk) as [k' [Hk' [[Sp [Sl Sa]] Hcases]]].
      exists k'. split; [exact Hk'|]. split; [congruence|]. split; [congruence|]. split; [congruence|].
      split; [apply view_kept; [right; reflexivity| apply Hnd, in_or_app; right; left; reflexivity | exact Hv]|].
      destruct Hcases as [[-> _]|[[-> [P0 [P1 Hpr]]]|[[-> [P0 [P1 [Hpr Heff]]]]|[[-> [P0 [Hr [Hpr Hbb]]]]|[-> [P0 [P1 [Hpr [b [rest [u' [Ef [Ef' [Elk Heff]]]]]]]]]]]]]].
      + split; [exact H4|]. intros H. destruct (H3 H) as [Hi|Hi]; [left; exact Hi|right; apply in_or_app; left; exact Hi].
      + split; [lia|intros H; lia].
      + split; [lia|intros H; lia].
      + destruct Hbb as [[u' [Elk [P3 Hf]]]|[Elk P4]].
        * split; [lia|]. intros _. left. rewrite Hf. exact Hv.
        * rewrite Hp, Hl in Elk. congruence.
      + split; [lia|]. intros _. destruct (H3 P0) as [Hi|Hi].
        * rewrite Ef in Hi. destruct Hi as [Hi|Hi].
          -- right. apply in_or_app; right. unfold is_call; cbn [call_of]. rewrite N.eqb_refl, Heff.
             rewrite Hp, Hl in Elk. assert (u' = u) by congruence. subst u' b. rewrite Hp. left; reflexivity.
          -- left. rewrite Ef'. exact Hi.
        * right. apply in_or_app; left; exact Hi.
  Qed.
End no_loss_b.

(* ---------- the two no-loss theorems ---------- *)
Definition call_completed (l : list sevent) (c : N) : Prop :=
  exists k, find_call c (calls (srun l)) = Some k /\ call_done k = true.

Theorem no_loss_providers l1 c p lk ann l2 a u :
  find_call c (calls (srun l1)) = None ->
  In (mkPeer a ROLE_PROVIDER) (get_peers ROLE_PROVIDER (base (srun l1))) ->
  (forall e, In e l2 -> ~ sdrops e a ROLE_PROVIDER) ->
  a <> p_addr p -> tbl_get lk (mkPeer a ROLE_PROVIDER) = Some u ->
  call_completed (l1 ++ SAdd c p lk ann :: l2) c ->
  exists recs, In (Announce p recs) (call_effects c (l1 ++ SAdd c p lk ann :: l2)) /\ In (a, u) recs.
Proof.
  intros Hf Ha Hnd Hne Hlk [k [Hk Hdone]].
  destruct (no_loss_providers_inv l1 c p lk ann Hf a u Ha Hne Hlk l2 Hnd) as [k0 [Hk0 [_ [_ [_ [_ [_ Hr]]]]]]].
  rewrite Hk in Hk0. inversion Hk0; subst k0. apply Hr.
  unfold call_done in Hdone. apply orb_true_iff in Hdone. destruct Hdone as [Hdone|Hdone].
  - apply orb_true_iff in Hdone. destruct Hdone as [Hdone|Hdone].
    + apply N.eqb_eq in Hdone. lia.
    + apply andb_true_iff in Hdone. destruct Hdone as [Hdone _]. apply N.eqb_eq in Hdone. lia.
  - apply andb_true_iff in Hdone. destruct Hdone as [Hdone _]. apply N.eqb_eq in Hdone. lia.
Qed.

Theorem no_loss_bidders l1 c p lk ann l2 ab u :
  find_call c (calls (srun l1)) = None ->
  In (mkPeer ab ROLE_BIDDER) (get_peers ROLE_BIDDER (base (srun l1))) ->
  (forall e, In e l2 -> ~ sdrops e ab ROLE_BIDDER) ->
  p_role p = ROLE_PROVIDER -> tbl_get lk p = Some u ->
  call_completed (l1 ++ SAdd c p lk ann :: l2) c ->
  In (Announce (mkPeer ab ROLE_BIDDER) [(p_addr p, u)]) (call_effects c (l1 ++ SAdd c p lk ann :: l2)).
Proof.
  intros Hf Hb Hnd Hrole Hlk [k [Hk Hdone]].
  destruct (no_loss_bidders_inv l1 c p lk ann Hf ab u Hb Hrole Hlk l2 Hnd) as [k0 [Hk0 [Hp [_ [_ [_ [H4 H3]]]]]]].
  rewrite Hk in Hk0. inversion Hk0; subst k0.
  unfold call_done in Hdone. apply orb_true_iff in Hdone. destruct Hdone as [Hdone|Hdone].
  - apply orb_true_iff in Hdone. destruct Hdone as [Hdone|Hdone].
    + apply N.eqb_eq in Hdone. contradiction.
    + apply andb_true_iff in Hdone. destruct Hdone as [P3 Hnil]. apply N.eqb_eq in P3.
      destruct (H3 P3) as [Hi|Hi]; [|exact Hi]. destruct (k_fan k); [destruct Hi|discriminate].
  - apply andb_true_iff in Hdone. destruct Hdone as [_ Hnp]. rewrite Hp, Hrole in Hnp. discriminate.
Qed.

(* ---------- the atomic event is the uninterrupted call ---------- *)
Lemma call_effects_from_cons s c e r :
  call_effects_from s c (e :: r) = (if is_call c e then snd (sstep s e) else []) ++ call_effects_from (fst (sstep s e)) c r.
Proof. reflexivity. Qed.

Lemma fanout_run ann p u c : forall fan s k,
  find_call c (calls s) = Some k -> k_pc k = 3 -> k_fan k = fan -> k_peer k = p -> k_ann k = ann ->
  tbl_get (k_lk k) p = Some u ->
  call_effects_from s c (repeat (SFanout c) (length fan))
  = flat_map (fun b => broadcast ann b [(p_addr p, u)]) fan
  /\ base (srun_from s (repeat (SFanout c) (length fan))) = base s.
Proof.
  induction fan as [|b rest IH]; intros s k Hk P3 Hf Hp Ha Hlk; [split; reflexivity|].
  cbn [length repeat flat_map]. rewrite call_effects_from_cons. unfold is_call; cbn [call_of]. rewrite N.eqb_refl.
  unfold srun_from; cbn [fold_left]. fold (srun_from (fst (sstep s (SFanout c))) (repeat (SFanout c) (length rest))).
  cbn [sstep]. rewrite Hk, P3. cbn [N.eqb Pos.eqb]. rewrite Hf, Hp, Hlk. cbn [fst snd].
  set (k1 := mkCall p (k_lk k) (k_ann k) 3 (k_provs k) rest).
  set (s1 := mkS (base s) (set_call c k1 (calls s))).
  assert (H1 : find_call c (calls s1) = Some k1) by (unfold s1; cbn [calls]; apply find_set_same; congruence).
  destruct (IH s1 k1 H1 eq_refl eq_refl eq_refl Ha Hlk) as [E1 E2].
  rewrite E1, E2, Ha. split; reflexivity.
Qed.

Theorem seq_connected s c p lk ann : find_call c (calls s) = None ->
  let n := length (get_peers ROLE_BIDDER (add p (base s))) in
  base (srun_from s (seq_call c p lk ann n)) = fst (step (base s) (Connected p lk ann))
  /\ call_effects_from s c (seq_call c p lk ann n) = snd (step (base s) (Connected p lk ann)).
Proof.
  intros Hfresh n. unfold seq_call.
  set (s1 := mkS (add p (base s)) ((c, mkCall p lk ann 0 [] []) :: calls s)).
  set (provs := get_peers ROLE_PROVIDER (add p (base s))).
  set (bids := get_peers ROLE_BIDDER (add p (base s))).
  set (s2 := mkS (add p (base s)) ((c, mkCall p lk ann 1 provs []) :: calls s)).
  set (s3 := mkS (add p (base s)) ((c, mkCall p lk ann 2 provs []) :: calls s)).
  assert (E1 : sstep s (SAdd c p lk ann) = (s1, [])) by (cbn [sstep]; rewrite Hfresh; reflexivity).
  assert (E2 : sstep s1 (SReadProviders c) = (s2, [])).
  { cbn [sstep]. unfold s1; cbn [calls find_call]. rewrite N.eqb_refl. cbn [k_pc N.eqb set_call]. rewrite N.eqb_refl. reflexivity. }
  assert (E3 : sstep s2 (SAnnounce c) = (s3, match records_for p lk provs with [] => [] | recs => broadcast ann p recs end)).
  { cbn [sstep]. unfold s2; cbn [calls find_call]. rewrite N.eqb_refl. cbn [k_pc N.eqb Pos.eqb set_call]. rewrite N.eqb_refl. reflexivity. }
  assert (Hrep : forall s0 m, sstep s0 (SFanout c) = (s0, []) ->
            base (fold_left (fun acc e => fst (sstep acc e)) (repeat (SFanout c) m) s0) = base s0
            /\ call_effects_from s0 c (repeat (SFanout c) m) = []).
  { intros s0 m E. induction m as [|m IHm]; [split; reflexivity|]. cbn [repeat fold_left].
    rewrite call_effects_from_cons, E. cbn [fst snd]. destruct IHm as [I1 I2]. rewrite I1, I2.
    destruct (is_call c (SFanout c)); split; reflexivity. }
  assert (Hic : forall e, call_of e = Some c -> is_call c e = true)
    by (intros e He; unfold is_call; rewrite He; apply N.eqb_refl).
  cbn [app]. unfold srun_from. cbn [fold_left]. rewrite !call_effects_from_cons.
  rewrite !Hic by reflexivity.
  rewrite E1; cbn [fst snd]. rewrite E2; cbn [fst snd]. rewrite E3; cbn [fst snd]. cbn [app].
  cbn [step fst snd]. unfold connected_effects. fold provs bids.
  destruct (p_role p =? ROLE_PROVIDER)%Z eqn:Er.
  - destruct (tbl_get lk p) as [u|] eqn:Elk.
    + set (k4 := mkCall p lk ann 3 provs bids).
      set (s4 := mkS (add p (base s)) ((c, k4) :: calls s)).
      assert (E4 : sstep s3 (SReadBidders c) = (s4, [])).
      { cbn [sstep]. unfold s3; cbn [calls find_call]. rewrite N.eqb_refl.
        cbn [k_pc N.eqb Pos.eqb k_peer k_lk k_ann k_provs]. rewrite Er, Elk. cbn [set_call base]. rewrite N.eqb_refl. reflexivity. }
      rewrite E4; cbn [fst snd app].
      assert (H4 : find_call c (calls s4) = Some k4) by (unfold s4; cbn [calls find_call]; rewrite N.eqb_refl; reflexivity).
      destruct (fanout_run ann p u c bids s4 k4 H4 eq_refl eq_refl eq_refl eq_refl Elk) as [F1 F2].
      unfold srun_from in F2. unfold n. fold bids. rewrite F1, F2. destruct (records_for p lk provs); split; reflexivity.
    + set (s4 := mkS (add p (base s)) ((c, mkCall p lk ann 4 provs []) :: calls s)).
      assert (E4 : sstep s3 (SReadBidders c) = (s4, [])).
      { cbn [sstep]. unfold s3; cbn [calls find_call]. rewrite N.eqb_refl.
        cbn [k_pc N.eqb Pos.eqb k_peer k_lk k_ann k_provs]. rewrite Er, Elk. cbn [set_call base]. rewrite N.eqb_refl. reflexivity. }
      rewrite E4; cbn [fst snd app].
      assert (E5 : sstep s4 (SFanout c) = (s4, [])).
      { cbn [sstep]. unfold s4; cbn [calls find_call]. rewrite N.eqb_refl. reflexivity. }
      destruct (Hrep s4 n E5) as [N1 N2]. rewrite N1, N2, !app_nil_r. destruct (records_for p lk provs); split; reflexivity.
  - assert (E4 : sstep s3 (SReadBidders c) = (s3, [])).
    { cbn [sstep]. unfold s3; cbn [calls find_call]. rewrite N.eqb_refl.
      cbn [k_pc N.eqb Pos.eqb k_peer k_lk k_ann k_provs]. rewrite Er. reflexivity. }
    rewrite E4; cbn [fst snd app].
    assert (E5 : sstep s3 (SFanout c) = (s3, [])).
    { cbn [sstep]. unfold s3; cbn [calls find_call]. rewrite N.eqb_refl. reflexivity. }
    destruct (Hrep s3 n E5) as [N1 N2]. rewrite N1, N2, !app_nil_r. destruct (records_for p lk provs); split; reflexivity.
Qed.

(* ================= facts about the regenerated constants ================= *)
Lemma c15_workers_fact : c15_check_workers = 10%Z.
Proof. reflexivity. Qed.
Lemma c15_wiring_announcer : c15_node_sets_announcer = true.
Proof. reflexivity. Qed.
Lemma c15_wiring_notifier : c15_node_sets_notifier = true.
Proof. reflexivity. Qed.
(* topology.New(p2pSvc, ...) : the p2p service is the address book;
   discovery.New(topo, p2pSvc, ...) : discovery sees the topology and dials through the p2p service *)
Lemma c15_wiring_topology : map (firstn 1) c15_node_topology_args = [[bos "p2pSvc"]].
Proof. reflexivity. Qed.
Lemma c15_wiring_discovery : map (firstn 2) c15_node_discovery_args = [[bos "topo"; bos "p2pSvc"]].
Proof. reflexivity. Qed.
(* debugapi.RegisterAPI(srv, topo, p2pSvc, ...) : GET /topology reads the same Topology *)
Lemma c15_wiring_debugapi : map (firstn 3) c15_node_debugapi_args = [[bos "srv"; bos "topo"; bos "p2pSvc"]].
Proof. reflexivity. Qed.

(* ================= non-vacuity ================= *)
Definition exP1 := mkPeer 1 ROLE_PROVIDER.
Definition exP2 := mkPeer 2 ROLE_PROVIDER.
Definition exB1 := mkPeer 3 ROLE_BIDDER.
Definition exB2 := mkPeer 4 ROLE_BIDDER.
Definition exLk : list (peer * bytes) := [(exP1, bos "u1"); (exP2, bos "u2"); (exB1, bos "u3")].
Definition exHistory : list event :=
  [Connected exP1 exLk []; Connected exB1 exLk []; Connected exB2 exLk [(exB2, 1)];
   Gossip exB1 true [(addr_bytes 1, bos "u1"); (addr_bytes 2, bos "u2"); (addr_bytes 2, bos "u2")];
   ConnectDone (bos "u2") (Some exP2); Disconnected exP1].

(* views: a provider proven by a completed dial is reported, a disconnected one is not *)
Example ex_view : get_peers ROLE_PROVIDER (run exHistory) = [exP2]
                  /\ is_connected 1 (run exHistory) = false /\ is_connected 2 (run exHistory) = true.
Proof. repeat split; reflexivity. Qed.
Example ex_live : live 2 ROLE_PROVIDER exHistory.
Proof. apply view_exact; [left; reflexivity|]. left; reflexivity. Qed.

(* announcements: the second provider gets the first one's record only (not its own, not a
   bidder's), both bidders get the newcomer's record, the stream to the second bidder fails *)
Example ex_announce :
  snd (step (run (firstn 3 exHistory)) (Connected exP2 exLk [(exB2, 1)]))
  = [Announce exP2 [(1, bos "u1")]; Wire exP2 [(addr_bytes 1, bos "u1")];
     Announce exB2 [(2, bos "u2")];
     Announce exB1 [(2, bos "u2")]; Wire exB1 [(addr_bytes 2, bos "u2")]].
Proof. reflexivity. Qed.

(* gossip: the connected address is skipped, the unknown one is dialled once per entry *)
Example ex_gossip : nth 3 (trace exHistory) [] = [Dial (bos "u2"); Dial (bos "u2")]
                    /\ nth 4 (trace exHistory) [] = [Add exP2]
                    /\ inflight (run exHistory) = [bos "u2"].
Proof. repeat split; reflexivity. Qed.
Example ex_dialled_by_gossip : dialled_by_gossip (firstn 4 exHistory) (bos "u2").
Proof. apply inflight_origin. left; reflexivity. Qed.

(* the checker is not trivially accepting: an observation in which the newcomer is sent its own
   record, a bidder's record, or a connected address is dialled, is flagged *)
Example ex_checker_rejects :
  case_violations (mkCase 0 0 [] [] [Connected exB1 exLk []; Connected exP1 exLk []]
     [mkObs [] [[]; []; [exB1]; []] [] [[]; [3]];
      mkObs [Announce exP1 [(1, bos "u1"); (3, bos "u3")]; Wire exP1 [(addr_bytes 1, bos "u1"); (addr_bytes 3, bos "u3")];
             Announce exB1 [(1, bos "u1")]; Wire exB1 [(addr_bytes 1, bos "u1")]] [[]; [exP1]; [exB1]; []] [] [[1]; [3]]] [] [])
  = ["announce:self"; "announce:bidder"]%string
  /\ case_violations (mkCase 0 0 [] [] [Connected exP1 exLk []; Gossip exB1 true [(addr_bytes 1, bos "u1")]]
     [mkObs [] [[]; [exP1]; []; []] [] [[1]; []]; mkObs [Dial (bos "u1")] [[]; [exP1]; []; []] [] [[1]; []]] [] [])
  = ["gossip:dialled-known"]%string
  /\ case_violations (mkCase 0 0 [] [] [Connected exP1 exLk []; Disconnected exP1]
     [mkObs [] [[]; [exP1]; []; []] [] [[1]; []]; mkObs [] [[]; [exP1]; []; []] [] [[1]; []]] [] [])
  = ["view"]%string
  /\ (* the debug API keeps reporting a provider after its disconnect although GetPeers is right *)
     case_violations (mkCase 0 0 [] [] [Connected exP1 exLk []; Disconnected exP1]
     [mkObs [] [[]; [exP1]; []; []] [] [[1]; []]; mkObs [] [[]; []; []; []] [] [[1]; []]] [] [])
  = ["view"]%string
  /\ (* a concurrent run that got stuck, and one that ended in the wrong provider set *)
     case_violations (mkCase 0 1 [] [] [Connected exP1 exLk []] [] [] []) = ["view:hang"]%string
  /\ case_violations (mkCase 0 1 [] [] [Connected exP1 exLk []; Disconnected exP1]
        [mkObs [] [[]; [exP1]; []; []] [] [[1]; []]] [] []) = ["view"]%string.
Proof. repeat split; reflexivity. Qed.

(* overlapping calls: provider P (call 0) and bidder B (call 1) connect at the same time; B's
   provider snapshot already contains P and P's bidder snapshot already contains B, so B is sent
   P's record by both calls -- no linearisation of the atomic events does that, the step model does,
   and both messages are sound; dropping either would still satisfy no-loss *)
Definition exOverlap : list sevent :=
  [SAdd 0 exP1 exLk []; SAdd 1 exB1 exLk []; SReadProviders 1; SAnnounce 1; SReadProviders 0; SAnnounce 0;
   SReadBidders 0; SFanout 0; SReadBidders 1].
Example ex_step_twice :
  call_effects 1 exOverlap = [Announce exB1 [(1, bos "u1")]; Wire exB1 [(addr_bytes 1, bos "u1")]]
  /\ call_effects 0 exOverlap = [Announce exB1 [(1, bos "u1")]; Wire exB1 [(addr_bytes 1, bos "u1")]]
  /\ call_completed exOverlap 0 /\ call_completed exOverlap 1.
Proof. repeat split; try reflexivity; eexists; split; reflexivity. Qed.

(* ================= the late add: event level versus system level =================
   C15_view speaks about the events the Topology RECEIVES.  For a peer learned through gossip the
   only "connect" event is the worker's AddPeers, made after Service.Connect has returned; the
   registry's disconnect notification for the same connection is not ordered with it.  The small
   joint machine below makes the window explicit: the p2p layer's registry (abstracted to the set of
   registered peers; model/PeerRegistry.v is the real one), the worker's pending result, and the
   event list the topology receives.  ([ConnectDone] of model/Topology.v is the moment the worker
   calls AddPeers; in Compose_topology's joint machine it is emitted in the step in which Connect
   returns, which hides this window.) *)
Inductive yevent :=
| YInbound (p : peer) (lk : list (peer * bytes)) (ann : list (peer * N))   (* inbound handshake: registered, Connected(p) *)
| YGossip (from : peer) (readok : bool) (entries : list wire_record)      (* received list *)
| YConnectReturns (u : bytes) (p : peer)     (* Service.Connect(u) returns p: registered; the worker holds the result *)
| YWorkerAdds (u : bytes) (p : peer)         (* the worker calls topo.AddPeers(p) *)
| YClosed (p : peer).                        (* p's connection closes: forgotten; Disconnected(p) if it was registered *)

Record ystate := mkY { y_reg : list peer; y_pend : list (bytes * peer); y_tev : list event }.
Definition yinit : ystate := mkY [] [] [].

Definition peer_mem (p : peer) (l : list peer) : bool := existsb (peer_eqb p) l.
Definition ystep (s : ystate) (e : yevent) : ystate :=
  match e with
  | YInbound p lk ann => mkY (p :: y_reg s) (y_pend s) (y_tev s ++ [Connected p lk ann])
  | YGossip from ok entries => mkY (y_reg s) (y_pend s) (y_tev s ++ [Gossip from ok entries])
  | YConnectReturns u p => mkY (p :: y_reg s) ((u, p) :: y_pend s) (y_tev s)
  | YWorkerAdds u p =>
      if existsb (fun x => bytes_eqb (fst x) u && peer_eqb (snd x) p) (y_pend s)
      then mkY (y_reg s) (y_pend s) (y_tev s ++ [ConnectDone u (Some p)])
      else s
  | YClosed p =>
      if peer_mem p (y_reg s)
      then mkY (filter (fun q => negb (peer_eqb q p)) (y_reg s)) (y_pend s) (y_tev s ++ [Disconnected p])
      else s
  end.
Definition yrun (l : list yevent) : ystate := fold_left ystep l yinit.

(* SYSTEM LEVEL, refuted: "every peer in the reported view is registered with the p2p layer"
   does not hold of the code as it is.  Witness: B is learned through gossip, Connect returns B,
   B's connection closes (the topology is told Disconnected(B) and has nothing to remove), then the
   worker adds B: B is reported (and used for the bid fan-out, and IsConnected(B) is true, so no
   later gossip list re-dials it) although the registry has forgotten it; no further notification
   will remove it. *)
Definition exLate : list yevent :=
  [YGossip exB1 true [(addr_bytes 2, bos "u2")]; YConnectReturns (bos "u2") exP2; YClosed exP2;
   YWorkerAdds (bos "u2") exP2].
Theorem late_add_refuted :
  exists ys, let s := yrun ys in
    In exP2 (get_peers ROLE_PROVIDER (run (y_tev s))) /\ is_connected 2 (run (y_tev s)) = true
    /\ peer_mem exP2 (y_reg s) = false
    /\ y_tev s = [Gossip exB1 true [(addr_bytes 2, bos "u2")]; Disconnected exP2; ConnectDone (bos "u2") (Some exP2)].
Proof. exists exLate. repeat split; try reflexivity. left; reflexivity. Qed.

(* EVENT LEVEL, holds: on the very same histories the view is exactly what the received events
   say -- in the witness B's add comes after its Disconnected, so B is "added and not since
   disconnected". *)
Theorem late_add_event_level ys a r : is_role r ->
  (In (mkPeer a r) (get_peers r (run (y_tev (yrun ys)))) <-> live a r (y_tev (yrun ys))).
Proof. intros Hr. apply view_exact, Hr. Qed.

(* ================= no loss: premise only up to the return of the call ================= *)
(* effects of a call are never taken back by a longer history *)
Lemma call_effects_prefix c l l3 x : In x (call_effects c l) -> In x (call_effects c (l ++ l3)).
Proof. unfold call_effects. rewrite call_effects_from_app. intros H. apply in_or_app; left; exact H. Qed.

(* NO LOSS with the premise only up to the return of the call: whatever happens after call c has
   returned (l3, arbitrary -- including Disconnected of the peers concerned) does not matter *)
Theorem no_loss_providers_until_return l1 c p lk ann l2 l3 a u :
  find_call c (calls (srun l1)) = None ->
  In (mkPeer a ROLE_PROVIDER) (get_peers ROLE_PROVIDER (base (srun l1))) ->
  (forall e, In e l2 -> ~ sdrops e a ROLE_PROVIDER) ->
  a <> p_addr p -> tbl_get lk (mkPeer a ROLE_PROVIDER) = Some u ->
  call_completed (l1 ++ SAdd c p lk ann :: l2) c ->
  exists recs, In (Announce p recs) (call_effects c ((l1 ++ SAdd c p lk ann :: l2) ++ l3)) /\ In (a, u) recs.
Proof.
  intros Hf Ha Hnd Hne Hlk Hd.
  destruct (no_loss_providers l1 c p lk ann l2 a u Hf Ha Hnd Hne Hlk Hd) as [recs [H1 H2]].
  exists recs. split; [apply call_effects_prefix, H1|exact H2].
Qed.

Theorem no_loss_bidders_until_return l1 c p lk ann l2 l3 ab u :
  find_call c (calls (srun l1)) = None ->
  In (mkPeer ab ROLE_BIDDER) (get_peers ROLE_BIDDER (base (srun l1))) ->
  (forall e, In e l2 -> ~ sdrops e ab ROLE_BIDDER) ->
  p_role p = ROLE_PROVIDER -> tbl_get lk p = Some u ->
  call_completed (l1 ++ SAdd c p lk ann :: l2) c ->
  In (Announce (mkPeer ab ROLE_BIDDER) [(p_addr p, u)]) (call_effects c ((l1 ++ SAdd c p lk ann :: l2) ++ l3)).
Proof.
  intros Hf Hb Hnd Hr Hlk Hd. apply call_effects_prefix.
  exact (no_loss_bidders l1 c p lk ann l2 ab u Hf Hb Hnd Hr Hlk Hd).
Qed.

(* ================= the overlap checker on the step model ================= *)
(* ---------- compile / until_park reach the state they report ---------- *)
Lemma srun_from_cons s e l : srun_from s (e :: l) = srun_from (fst (sstep s e)) l.
Proof. reflexivity. Qed.

Lemma until_park_run cand : forall s, srun_from s (snd (until_park s cand)) = fst (until_park s cand).
Proof.
  induction cand as [|e r IH]; intros s; [reflexivity|]. cbn [until_park].
  destruct (is_nil (announces (snd (sstep s e)))).
  - specialize (IH (fst (sstep s e))). destruct (until_park (fst (sstep s e)) r) as [s' done]. cbn [fst snd] in *.
    rewrite srun_from_cons. exact IH.
  - reflexivity.
Qed.
Lemma act_steps_run s a : srun_from s (snd (act_steps s a)) = fst (act_steps s a).
Proof. destruct a; cbn [act_steps]; try apply until_park_run. reflexivity. Qed.

Fixpoint acts_state (s : sstate) (l : list action) : sstate :=
  match l with [] => s | a :: r => acts_state (fst (act_steps s a)) r end.
Lemma compile_run l : forall s, srun_from s (compile s l) = acts_state s l.
Proof.
  induction l as [|a l IH]; intros s; [reflexivity|]. cbn [compile acts_state].
  rewrite srun_from_app, act_steps_run. apply IH.
Qed.

(* ---------- the abstract sets of [windows] do not depend on the windows ---------- *)
Definition abs_act (A : abs) (a : action) : abs :=
  match a with AStart _ p _ _ => abs_add p A | ARelease _ => A | AOther e => abs_step A e [] end.
Lemma windows_abs l : forall A ws, snd (windows A ws l) = fold_left abs_act l A.
Proof. induction l as [|a l IH]; intros A ws; [reflexivity|]. cbn [windows fold_left]. rewrite IH. reflexivity. Qed.

(* ---------- schedules the driver generates ---------- *)
Definition plain_other (a : action) : Prop :=
  match a with AOther (AddPeers _) | AOther (Disconnected _) => True | AOther _ => False | _ => True end.

Definition known (s : sstate) (c : N) : Prop := find_call c (calls s) <> None.

(* a step that is not SAdd c does not make c known, and only SAdd / SOther change the base *)
Lemma sstep_unknown s e c : find_call c (calls s) = None -> (forall p lk ann, e <> SAdd c p lk ann) ->
  find_call c (calls (fst (sstep s e))) = None.
Proof.
  intros Hn Hne. destruct e as [d p lk ann|d|d|d|d|e]; cbn [sstep].
  - destruct (find_call d (calls s)); cbn [fst calls]; [exact Hn|]. cbn [find_call].
    destruct (N.eqb_spec d c) as [->|_]; [exfalso; eapply Hne; reflexivity|exact Hn].
  - destruct (find_call d (calls s)) as [k|] eqn:Ed; [|exact Hn]. destruct (k_pc k =? 0); [|exact Hn]. cbn [fst calls].
    destruct (N.eq_dec d c) as [->|Hd]; [congruence|]. rewrite find_set_other by congruence. exact Hn.
  - destruct (find_call d (calls s)) as [k|] eqn:Ed; [|exact Hn]. destruct (k_pc k =? 1); [|exact Hn]. cbn [fst calls].
    destruct (N.eq_dec d c) as [->|Hd]; [congruence|]. rewrite find_set_other by congruence. exact Hn.
  - destruct (find_call d (calls s)) as [k|] eqn:Ed; [|exact Hn]. destruct (k_pc k =? 2); [|exact Hn].
    destruct (p_role (k_peer k) =? ROLE_PROVIDER)%Z; [|exact Hn].
    destruct (N.eq_dec d c) as [->|Hd]; [congruence|].
    destruct (tbl_get (k_lk k) (k_peer k)); cbn [fst calls]; rewrite find_set_other by congruence; exact Hn.
  - destruct (find_call d (calls s)) as [k|] eqn:Ed; [|exact Hn]. destruct (k_pc k =? 3); [|exact Hn].
    destruct (k_fan k); [exact Hn|]. destruct (tbl_get (k_lk k) (k_peer k)); [|exact Hn]. cbn [fst calls].
    destruct (N.eq_dec d c) as [->|Hd]; [congruence|]. rewrite find_set_other by congruence. exact Hn.
  - exact Hn.
Qed.

Lemma sstep_base_call s e : (forall c p lk ann, e <> SAdd c p lk ann) -> (forall e0, e <> SOther e0) ->
  base (fst (sstep s e)) = base s.
Proof.
  intros H1 H2. destruct e as [d p lk ann|d|d|d|d|e]; cbn [sstep].
  - exfalso; eapply H1; reflexivity.
  - destruct (find_call d (calls s)) as [k|]; [|reflexivity]. destruct (k_pc k =? 0); reflexivity.
  - destruct (find_call d (calls s)) as [k|]; [|reflexivity]. destruct (k_pc k =? 1); reflexivity.
  - destruct (find_call d (calls s)) as [k|]; [|reflexivity]. destruct (k_pc k =? 2); [|reflexivity].
    destruct (p_role (k_peer k) =? ROLE_PROVIDER)%Z; [|reflexivity]. destruct (tbl_get (k_lk k) (k_peer k)); reflexivity.
  - destruct (find_call d (calls s)) as [k|]; [|reflexivity]. destruct (k_pc k =? 3); [|reflexivity].
    destruct (k_fan k); [reflexivity|]. destruct (tbl_get (k_lk k) (k_peer k)); reflexivity.
  - exfalso; eapply H2; reflexivity.
Qed.

Definition call_step_only (e : sevent) : Prop :=
  (forall c p lk ann, e <> SAdd c p lk ann) /\ (forall e0, e <> SOther e0).

Lemma until_park_base cand : Forall call_step_only cand -> forall s,
  base (fst (until_park s cand)) = base s
  /\ forall c, find_call c (calls s) = None -> find_call c (calls (fst (until_park s cand))) = None.
Proof.
  induction 1 as [|e r [He1 He2] Hr IH]; intros s; [split; auto|]. cbn [until_park].
  assert (Hb : base (fst (sstep s e)) = base s) by (apply sstep_base_call; assumption).
  assert (Hu : forall c, find_call c (calls s) = None -> find_call c (calls (fst (sstep s e))) = None)
    by (intros c Hc; apply sstep_unknown; [exact Hc|intros; apply He1]).
  destruct (is_nil (announces (snd (sstep s e)))).
  - destruct (IH (fst (sstep s e))) as [I1 I2]. destruct (until_park (fst (sstep s e)) r) as [s' done]. cbn [fst] in *.
    split; [congruence|]. intros c Hc. apply I2, Hu, Hc.
  - cbn [fst]. split; [exact Hb|exact Hu].
Qed.

Lemma until_park_quiet s e r : announces (snd (sstep s e)) = [] ->
  fst (until_park s (e :: r)) = fst (until_park (fst (sstep s e)) r).
Proof.
  intros H. cbn [until_park]. rewrite H. cbn [is_nil].
  destruct (until_park (fst (sstep s e)) r); reflexivity.
Qed.

Lemma call_cands c : Forall call_step_only [SReadProviders c; SAnnounce c; SReadBidders c; SFanout c].
Proof. repeat constructor; intros; discriminate. Qed.
Lemma release_cands c : Forall call_step_only [SReadBidders c; SFanout c].
Proof. repeat constructor; intros; discriminate. Qed.

(* one action: the base state moves as the abstract sets do *)
Lemma act_R s A a : wf (base s) -> R (base s) A -> plain_other a ->
  (forall c p lk ann, a = AStart c p lk ann -> find_call c (calls s) = None) ->
  wf (base (fst (act_steps s a))) /\ R (base (fst (act_steps s a))) (abs_act A a)
  /\ forall c, find_call c (calls s) = None -> ~ (exists p lk ann, a = AStart c p lk ann) ->
               find_call c (calls (fst (act_steps s a))) = None.
Proof.
  intros Hwf HR Hp Hfresh. destruct a as [c p lk ann|c|e]; cbn [act_steps abs_act].
  - specialize (Hfresh c p lk ann eq_refl).
    set (s1 := mkS (add p (base s)) ((c, mkCall p lk ann 0 [] []) :: calls s)).
    assert (E1 : sstep s (SAdd c p lk ann) = (s1, [])) by (cbn [sstep]; rewrite Hfresh; reflexivity).
    rewrite until_park_quiet by (rewrite E1; reflexivity). rewrite E1. cbn [fst].
    destruct (until_park_base _ (call_cands c) s1) as [U1 U2].
    rewrite U1. unfold s1; cbn [base]. split; [apply wf_add, Hwf|]. split; [apply R_add, HR|].
    intros d Hd Hns. apply U2. unfold s1; cbn [calls find_call].
    destruct (N.eqb_spec c d) as [->|_]; [exfalso; apply Hns; eauto|exact Hd].
  - destruct (until_park_base _ (release_cands c) s) as [U1 U2]. rewrite U1. split; [exact Hwf|]. split; [exact HR|].
    intros d Hd _. apply U2, Hd.
  - cbn [fst sstep base calls]. split; [apply wf_step, Hwf|]. split.
    + destruct e as [p lk ann|ps|p|from ok entries|u r]; cbn in Hp; try contradiction.
      * exact (R_step (base s) A (AddPeers ps) HR).
      * exact (R_step (base s) A (Disconnected p) HR).
    + intros d Hd _. exact Hd.
Qed.

(* the final views of the step model pass the view clause of the overlap checker, for every
   schedule with distinct call ids whose atomic events are AddPeers / Disconnected *)
Theorem overlap_view_accepts_model pr acts :
  NoDup (started_calls acts) -> Forall plain_other acts ->
  view_ok (snd (windows abs_init [] acts)) pr (observe pr (base (srun (compile sinit acts))) []) = true.
Proof.
  intros Hnd Hpl. rewrite windows_abs. unfold srun. rewrite compile_run.
  assert (G : forall l s A, wf (base s) -> R (base s) A -> NoDup (started_calls l) -> Forall plain_other l ->
                (forall c, In c (started_calls l) -> find_call c (calls s) = None) ->
                wf (base (acts_state s l)) /\ R (base (acts_state s l)) (fold_left abs_act l A)).
  { induction l as [|a l IH]; intros s A Hwf HR Hn Hp Hf; [split; assumption|].
    cbn [acts_state fold_left]. inversion Hp as [|? ? Hpa Hpl']; subst.
    assert (Hfa : forall c p lk ann, a = AStart c p lk ann -> find_call c (calls s) = None).
    { intros c p lk ann ->. apply Hf. cbn. left; reflexivity. }
    destruct (act_R s A a Hwf HR Hpa Hfa) as [W [Rr U]].
    apply IH; auto.
    - destruct a; cbn [started_calls flat_map app] in Hn |- *; auto. inversion Hn; assumption.
    - intros c Hc. apply U.
      + apply Hf. destruct a; cbn [started_calls flat_map app]; auto. right; exact Hc.
      + intros [p [lk [ann ->]]]. cbn [started_calls flat_map app] in Hn. inversion Hn; subst. contradiction. }
  destruct (G acts sinit abs_init wf_init) as [W Rr]; auto; [repeat split|].
  apply view_ok_model; assumption.
Qed.

(* the schedules of the driver's directed overlap class (c15OverlapDirected): provider Q is known;
   k bidders connect and park with their own message (Q's record); provider P connects and is
   released through its message and its whole fan-out; then everybody is released to the end *)
Definition exQ := mkPeer 2 ROLE_PROVIDER.
Definition exB3 := mkPeer 5 ROLE_BIDDER.
Definition exPool : list peer := [exP1; exQ; exB1; exB2; exB3].
Definition exLkAll : list (peer * bytes) := map (fun q => (q, be 2 (p_addr q))) exPool.
Definition exBidders : list peer := [exB1; exB2; exB3].

Definition directed_schedule (k : nat) : list action :=
  let bs := firstn k exBidders in
  let pc := N.of_nat (S (length bs)) in
  AStart 0 exQ exLkAll []
  :: map (fun ib => AStart (N.of_nat (S (fst ib))) (snd ib) exLkAll []) (combine (seq 0 (length bs)) bs)
  ++ [AStart pc exP1 exLkAll []]
  ++ repeat (ARelease pc) (S (length bs))
  ++ concat (repeat (map (fun c => ARelease (N.of_nat c)) (seq 0 (S (S (length bs))))) 3).

(* the step model's own observation of a schedule *)
Definition model_overlap_case (i : N) (roles : list Z) (pr : list addr) (acts : list action) : case :=
  let steps := compile sinit acts in
  mkCase i 2 roles pr [] [observe pr (base (srun steps)) []] acts (map (model_call steps) (started_calls acts)).

Lemma overlap_checker_accepts_directed k : (1 <= k <= 3)%nat ->
  case_violations (model_overlap_case 0 [] [1; 2; 3; 4; 5; 9] (directed_schedule k)) = []
  /\ existsb (fun x => negb (is_nil (snd x))) (c_calls (model_overlap_case 0 [] [] (directed_schedule k))) = true.
Proof.
  intros Hk. assert (E : (k = 1 \/ k = 2 \/ k = 3)%nat) by lia.
  destruct E as [E|[E|E]]; subst k; split; vm_compute; reflexivity.
Qed.

(* and the checker is not silent on that family for trivial reasons: dropping P's fan-out to the
   first parked bidder from the model's observation is flagged *)
Example overlap_checker_rejects_directed :
  let c := model_overlap_case 0 [] [] (directed_schedule 2) in
  case_violations (mkCase 0 2 [] [] [] (obs c) (c_acts c)
     (map (fun x => if fst (fst x) =? 3 then (fst x, firstn 2 (snd x)) else x) (c_calls c)))
  = ["announce:missing"]%string.
Proof. vm_compute. reflexivity. Qed.

(* ================= overlap checker, clause by clause, arbitrary schedules ================= *)
(* ---------- linking the schedule, its compiled steps and its windows ---------- *)
Lemma until_park_sub cand : forall s e, In e (snd (until_park s cand)) -> In e cand.
Proof.
  induction cand as [|e0 r IH]; intros s e; [intros []|]. cbn [until_park].
  destruct (is_nil (announces (snd (sstep s e0)))).
  - specialize (IH (fst (sstep s e0)) e). destruct (until_park (fst (sstep s e0)) r) as [s' done]. cbn [snd] in *.
    intros [H|H]; [left; exact H|right; apply IH, H].
  - cbn [snd]. intros [H|[]]. left; exact H.
Qed.

Lemma compile_sadd l : forall s c p lk ann, In (SAdd c p lk ann) (compile s l) -> In (AStart c p lk ann) l.
Proof.
  induction l as [|a l IH]; intros s c p lk ann; [intros []|]. cbn [compile]. intros H. apply in_app_or in H.
  destruct H as [H|H]; [|right; eapply IH; exact H]. left.
  destruct a as [d q lk' ann'|d|e]; cbn [act_steps] in H.
  - apply until_park_sub in H. cbn [In] in H.
    destruct H as [H|[H|[H|[H|[H|[]]]]]]; try discriminate. inversion H; subst. reflexivity.
  - apply until_park_sub in H. cbn [In] in H. destruct H as [H|[H|[]]]; discriminate.
  - cbn [snd In] in H. destruct H as [H|[]]; discriminate.
Qed.

Definition win_from (l : list action) (w : win) : Prop := In (AStart (w_id w) (w_peer w) (w_lk w) (w_ann w)) l.

Lemma windows_from l : forall A ws w, In w (fst (windows A ws l)) ->
  (exists w0, In w0 ws /\ w_id w0 = w_id w /\ w_peer w0 = w_peer w /\ w_lk w0 = w_lk w /\ w_ann w0 = w_ann w)
  \/ win_from l w.
Proof.
  induction l as [|a l IH]; intros A ws w; cbn [windows fst].
  - intros H. left. exists w. auto.
  - intros H. apply IH in H. destruct H as [[w0 [Hin Heq]]|H]; [|right; right; exact H].
    apply in_map_iff in Hin. destruct Hin as [w1 [E Hin]].
    assert (Heq1 : w_id w1 = w_id w /\ w_peer w1 = w_peer w /\ w_lk w1 = w_lk w /\ w_ann w1 = w_ann w).
    { destruct (acts_on (w_id w1) a || existsb (acts_on (w_id w1)) l); subst w0; cbn in Heq; exact Heq. }
    clear E Heq w0.
    destruct a as [c p lk ann|c|e]; try (left; exists w1; split; assumption).
    destruct (existsb (fun w2 => w_id w2 =? c) ws); [left; exists w1; split; assumption|].
    apply in_app_or in Hin. destruct Hin as [Hin|[<-|[]]]; [left; exists w1; split; assumption|].
    right. left. cbn in Heq1. destruct Heq1 as [<- [<- [<- <-]]]. reflexivity.
Qed.

Lemma start_unique l : NoDup (started_calls l) -> forall c p lk ann p' lk' ann',
  In (AStart c p lk ann) l -> In (AStart c p' lk' ann') l -> p = p' /\ lk = lk' /\ ann = ann'.
Proof.
  induction l as [|a l IH]; intros Hn c p lk ann p' lk' ann'; [intros []|].
  assert (Hin : forall q k n, In (AStart c q k n) l -> In c (started_calls l)).
  { intros q k n H. unfold started_calls. apply in_flat_map. exists (AStart c q k n). split; [exact H|left; reflexivity]. }
  intros [H1|H1] [H2|H2].
  - subst a. inversion H2; auto.
  - subst a. cbn in Hn. inversion Hn; subst. exfalso. eauto.
  - subst a. cbn in Hn. inversion Hn; subst. exfalso. eauto.
  - assert (Hn' : NoDup (started_calls l)) by (destruct a; cbn in Hn; [inversion Hn; assumption|exact Hn|exact Hn]).
    exact (IH Hn' c p lk ann p' lk' ann' H1 H2).
Qed.

Lemma In_announces t recs eff : In (t, recs) (announces eff) -> In (Announce t recs) eff.
Proof.
  unfold announces. rewrite in_flat_map. intros [e [He Hin]].
  destruct e; cbn in Hin; try contradiction. destruct Hin as [Hin|[]]. inversion Hin; subst. exact He.
Qed.

(* SELF: no call of the step model ever sends the newcomer its own record, whatever the schedule *)
Theorem overlap_self_accepts_model acts w :
  NoDup (started_calls acts) -> In w (fst (windows abs_init [] acts)) ->
  let eff := call_effects (w_id w) (compile sinit acts) in
  existsb (fun r => fst r =? p_addr (w_peer w))
          (flat_map snd (filter (fun m => peer_eqb (fst m) (w_peer w)) (announces eff))) = false.
Proof.
  intros Hn Hw eff. apply existsb_none. intros [a u] Hin. cbn [fst].
  apply in_flat_map in Hin. destruct Hin as [[t recs] [Hm Hr]]. cbn [snd] in Hr.
  apply filter_In in Hm. destruct Hm as [Hm Ht]. cbn [fst] in Ht. apply peer_eqb_eq in Ht. subst t.
  apply In_announces in Hm. apply step_sound in Hm.
  destruct Hm as [p [lk [ann [l1 [l2 [E Hcases]]]]]].
  assert (Hs : In (SAdd (w_id w) p lk ann) (compile sinit acts)) by (rewrite E; apply in_or_app; right; left; reflexivity).
  apply compile_sadd in Hs.
  destruct (windows_from acts abs_init [] w Hw) as [[w0 [[] _]]|Hf].
  destruct (start_unique acts Hn _ _ _ _ _ _ _ Hs Hf) as [Ep _]. subst p.
  destruct Hcases as [[_ [_ Hrec]]|[Hrole [u' [_ [_ [pre [post [_ [_ Hb]]]]]]]]].
  - destruct (Hrec a u Hr) as [Hne _]. apply N.eqb_neq. exact Hne.
  - exfalso. destruct (wf_srun pre) as [_ [HB _]].
    assert (Hb' : p_role (w_peer w) = ROLE_BIDDER) by (apply HB; exact Hb). rewrite Hrole in Hb'. discriminate.
Qed.
