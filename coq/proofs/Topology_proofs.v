(* C15 -- proofs about model/Topology.v: well-formedness invariant, history characterisation of
   the views, exact shape of the announcements made on Connected, origin of every dial and of
   every peer added by the discovery worker, and acceptance of the model's own behaviour by the
   property checker of check/Check_C15.v for every history. *)
From Coq Require Import String List NArith ZArith Bool Lia.
From MevVerif Require Import lib.Bytes proofs.Bytes_proofs gen.Generated model.Topology check.Check_C15.
Import ListNotations.
Open Scope N_scope.

(* ================= maps, well-formed states ================= *)
(* ---------- maps ---------- *)
Lemma In_m_del q a m : In q (m_del a m) <-> In q m /\ p_addr q <> a.
Proof.
  unfold m_del. rewrite filter_In. split; intros [H1 H2]; split; auto.
  - intro E. rewrite E, N.eqb_refl in H2. discriminate.
  - destruct (N.eqb_spec (p_addr q) a); [contradiction|reflexivity].
Qed.

Lemma In_m_put q p m : In q (m_put p m) <-> q = p \/ (In q m /\ p_addr q <> p_addr p).
Proof.
  unfold m_put. cbn [In]. rewrite In_m_del. split; intros [H|H]; auto.
Qed.

Lemma m_has_In a m : m_has a m = true <-> exists q, In q m /\ p_addr q = a.
Proof.
  unfold m_has. rewrite existsb_exists. split; intros [q [H1 H2]]; exists q; split; auto.
  - apply N.eqb_eq; exact H2.
  - apply N.eqb_eq; exact H2.
Qed.

Lemma m_del_keys a m : map p_addr (m_del a m) = filter (fun b => negb (b =? a)) (map p_addr m).
Proof.
  unfold m_del. induction m as [|q m IH]; cbn; [reflexivity|].
  destruct (p_addr q =? a); cbn; rewrite IH; reflexivity.
Qed.

Lemma NoDup_filter {A} (f : A -> bool) l : NoDup l -> NoDup (filter f l).
Proof.
  induction 1 as [|x l Hx Hl IH]; cbn; [constructor|].
  destruct (f x); auto. constructor; auto. rewrite filter_In. tauto.
Qed.

Lemma NoDup_m_del a m : NoDup (map p_addr m) -> NoDup (map p_addr (m_del a m)).
Proof. intros H. rewrite m_del_keys. apply NoDup_filter; exact H. Qed.

Lemma NoDup_m_put p m : NoDup (map p_addr m) -> NoDup (map p_addr (m_put p m)).
Proof.
  intros H. unfold m_put. cbn [map]. constructor.
  - rewrite m_del_keys, filter_In. intros [_ H2]. rewrite N.eqb_refl in H2. discriminate.
  - apply NoDup_m_del; exact H.
Qed.

(* ---------- well-formed states ---------- *)
Definition role_map (r : Z) (m : pmap) : Prop :=
  (forall q, In q m -> p_role q = r) /\ NoDup (map p_addr m).
Definition wf (s : state) : Prop := role_map ROLE_PROVIDER (providers s) /\ role_map ROLE_BIDDER (bidders s).

Lemma role_map_put r p m : p_role p = r -> role_map r m -> role_map r (m_put p m).
Proof.
  intros Hp [H1 H2]. split.
  - intros q Hq. apply In_m_put in Hq. destruct Hq as [->|[Hq _]]; auto.
  - apply NoDup_m_put; exact H2.
Qed.
Lemma role_map_del r a m : role_map r m -> role_map r (m_del a m).
Proof.
  intros [H1 H2]. split.
  - intros q Hq. apply In_m_del in Hq. apply H1; tauto.
  - apply NoDup_m_del; exact H2.
Qed.

Lemma wf_init : wf init.
Proof. split; split; cbn; try constructor; intros q []. Qed.

Lemma wf_add p s : wf s -> wf (add p s).
Proof.
  intros [HP HB]. unfold add.
  destruct (Z.eqb_spec (p_role p) ROLE_PROVIDER) as [E|_].
  - split; cbn; auto using role_map_put.
  - destruct (Z.eqb_spec (p_role p) ROLE_BIDDER) as [E|_]; [|split; auto].
    split; cbn; auto using role_map_put.
Qed.
Lemma wf_remove p s : wf s -> wf (remove p s).
Proof.
  intros [HP HB]. unfold remove.
  destruct (p_role p =? ROLE_PROVIDER)%Z; [split; cbn; auto using role_map_del|].
  destruct (p_role p =? ROLE_BIDDER)%Z; split; cbn; auto using role_map_del.
Qed.
Lemma wf_inflight s l : wf s -> wf (mkState (providers s) (bidders s) l).
Proof. intros H; exact H. Qed.
Lemma wf_fold_add ps : forall s, wf s -> wf (fold_left (fun acc p => add p acc) ps s).
Proof. induction ps as [|p ps IH]; cbn; intros s H; auto using wf_add. Qed.

Lemma wf_step s e : wf s -> wf (fst (step s e)).
Proof.
  intros H. destruct e as [p lk ann|ps|p|from ok entries|u r]; cbn.
  - apply wf_add; exact H.
  - apply wf_fold_add; exact H.
  - apply wf_remove; exact H.
  - destruct ok; cbn; exact H.
  - destruct (in_flight u s); [|exact H]. destruct r as [p|]; cbn; [apply wf_add|]; exact H.
Qed.

Lemma run_from_app s l1 l2 : run_from s (l1 ++ l2) = run_from (run_from s l1) l2.
Proof. unfold run_from. apply fold_left_app. Qed.
Lemma run_snoc evs e : run (evs ++ [e]) = fst (step (run evs) e).
Proof. unfold run. rewrite run_from_app. reflexivity. Qed.

Lemma wf_run evs : wf (run evs).
Proof.
  induction evs as [|e evs IH] using rev_ind; [exact wf_init|].
  rewrite run_snoc. apply wf_step; exact IH.
Qed.

(* ---------- views ---------- *)
Definition is_role (r : Z) : Prop := r = ROLE_PROVIDER \/ r = ROLE_BIDDER.

Lemma get_peers_other r s : r <> ROLE_PROVIDER -> r <> ROLE_BIDDER -> get_peers r s = [].
Proof.
  intros H1 H2. unfold get_peers.
  destruct (Z.eqb_spec r ROLE_PROVIDER); [contradiction|].
  destruct (Z.eqb_spec r ROLE_BIDDER); [contradiction|]. reflexivity.
Qed.

Lemma view_add a r p s : is_role r ->
  In (mkPeer a r) (get_peers r (add p s)) <-> p = mkPeer a r \/ In (mkPeer a r) (get_peers r s).
Proof.
  intros Hr. unfold add, get_peers.
  assert (Hne : ROLE_BIDDER <> ROLE_PROVIDER) by discriminate.
  destruct Hr as [-> | ->]; cbn [Z.eqb ROLE_PROVIDER ROLE_BIDDER Pos.eqb];
  destruct (Z.eqb_spec (p_role p) ROLE_PROVIDER) as [E1|E1]; cbn [providers bidders];
  try destruct (Z.eqb_spec (p_role p) ROLE_BIDDER) as [E2|E2]; cbn [providers bidders];
  try rewrite In_m_put; cbn [p_addr];
  try (split; [intros [H|[H1 H2]]; auto | intros [H|H]; auto;
       destruct (N.eq_dec a (p_addr p)) as [Ea|Ea]; [left; destruct p; cbn in *; congruence | right; auto]]);
  try (split; [auto | intros [H|H]; auto; subst p; cbn in *; congruence]).
Qed.

(* ================= views ================= *)
Lemma view_fold_add a r ps : is_role r -> forall s,
  In (mkPeer a r) (get_peers r (fold_left (fun acc p => add p acc) ps s))
  <-> In (mkPeer a r) ps \/ In (mkPeer a r) (get_peers r s).
Proof.
  intros Hr. induction ps as [|p ps IH]; intros s; cbn [fold_left In].
  - tauto.
  - rewrite IH, view_add by exact Hr. split; intros H; intuition (subst; auto).
Qed.

Lemma view_remove a r p s : is_role r ->
  In (mkPeer a r) (get_peers r (remove p s))
  <-> In (mkPeer a r) (get_peers r s) /\ ~ (p_addr p = a /\ p_role p = r).
Proof.
  intros Hr. unfold remove, get_peers.
  destruct Hr as [-> | ->]; cbn [Z.eqb ROLE_PROVIDER ROLE_BIDDER Pos.eqb];
  destruct (Z.eqb_spec (p_role p) ROLE_PROVIDER) as [E1|E1]; cbn [providers bidders];
  try destruct (Z.eqb_spec (p_role p) ROLE_BIDDER) as [E2|E2]; cbn [providers bidders];
  try rewrite In_m_del; cbn [p_addr]; unfold ROLE_PROVIDER, ROLE_BIDDER in *;
  (split; intros H; repeat split; try tauto);
  try (intros [H3 H4]; destruct H as [_ H2]; congruence);
  try (intros [H3 H4]; congruence);
  try (intro H5; apply (proj2 H); split; congruence).
Qed.

Lemma view_inflight r s l : get_peers r (mkState (providers s) (bidders s) l) = get_peers r s.
Proof. reflexivity. Qed.

(* what an event drops from the views ([adds_of]: what it adds, is in model/Topology.v) *)
Definition drops (e : event) (a : addr) (r : Z) : Prop :=
  exists p, e = Disconnected p /\ p_addr p = a /\ p_role p = r.

Lemma view_step a r s e : is_role r ->
  In (mkPeer a r) (get_peers r (fst (step s e)))
  <-> In (mkPeer a r) (adds_of s e) \/ (In (mkPeer a r) (get_peers r s) /\ ~ drops e a r).
Proof.
  intros Hr. destruct e as [p lk ann|ps|p|from ok entries|u res]; cbn [step fst adds_of].
  - rewrite view_add by exact Hr. cbn [In]. split; intros [H|H]; auto.
    + right. split; auto. intros [q [Hq _]]; discriminate.
    + destruct H as [H|[]]; auto.
    + right; tauto.
  - rewrite view_fold_add by exact Hr. split; intros [H|H]; auto.
    + right. split; auto. intros [q [Hq _]]; discriminate.
    + right; tauto.
  - rewrite view_remove by exact Hr. cbn [In]. split.
    + intros [H1 H2]. right. split; auto. intros [q [Hq [Ha Hb]]]. inversion Hq; subst q. tauto.
    + intros [[]|[H1 H2]]. split; auto. intros [Ha Hb]. apply H2. exists p; auto.
  - assert (E : get_peers r (fst (if ok then (mkState (providers s) (bidders s) (inflight s ++ to_dial s entries),
                  map Dial (to_dial s entries)) else (s, []))) = get_peers r s) by (destruct ok; reflexivity).
    rewrite E. cbn [In]. split; [intros H; right; split; auto; intros [q [Hq _]]; discriminate | intros [[]|[H _]]; exact H].
  - destruct (in_flight u s).
    + destruct res as [p|]; cbn [fst].
      * rewrite view_add by exact Hr. rewrite view_inflight. cbn [In]. split; intros [H|H]; auto.
        -- right. split; auto. intros [q [Hq _]]; discriminate.
        -- destruct H as [H|[]]; auto.
        -- right; tauto.
      * rewrite view_inflight. cbn [In]. split; [intros H; right; split; auto; intros [q [Hq _]]; discriminate | intros [[]|[H _]]; exact H].
    + cbn [fst]. assert (E : (match res with Some _ => [] | None => [] end : list peer) = []) by (destruct res; reflexivity).
      rewrite E. cbn [In]. split; [intros H; right; split; auto; intros [q [Hq _]]; discriminate | intros [[]|[H _]]; exact H].
Qed.

(* the history characterisation *)
Definition live (a : addr) (r : Z) (evs : list event) : Prop :=
  exists pre e post, evs = pre ++ e :: post /\ In (mkPeer a r) (adds_of (run pre) e)
                     /\ forall e', In e' post -> ~ drops e' a r.

Lemma live_snoc a r evs e :
  live a r (evs ++ [e]) <-> In (mkPeer a r) (adds_of (run evs) e) \/ (live a r evs /\ ~ drops e a r).
Proof.
  split.
  - intros [pre [e0 [post [E [Hin Hpost]]]]].
    destruct (@exists_last _ (e0 :: post)) as [l' [x Hl]]; [discriminate|].
    destruct post as [|y post'] using rev_ind.
    + apply app_inj_tail in E. destruct E as [-> ->]. left; exact Hin.
    + clear IHpost'. rewrite app_comm_cons, app_assoc in E. apply app_inj_tail in E. destruct E as [-> ->].
      right. split.
      * exists pre, e0, post'. split; [reflexivity|]. split; [exact Hin|].
        intros e' He'. apply Hpost. apply in_or_app; left; exact He'.
      * apply Hpost. apply in_or_app; right; left; reflexivity.
  - intros [Hin | [[pre [e0 [post [E [Hin Hpost]]]]] Hd]].
    + exists evs, e, []. split; [reflexivity|]. split; [exact Hin|]. intros e' [].
    + exists pre, e0, (post ++ [e]). split; [subst evs; rewrite <- app_assoc; reflexivity|].
      split; [exact Hin|]. intros e' He'. apply in_app_or in He'. destruct He' as [He'|[<-|[]]]; auto.
Qed.

Theorem view_exact evs a r : is_role r ->
  (In (mkPeer a r) (get_peers r (run evs)) <-> live a r evs).
Proof.
  intros Hr. induction evs as [|e evs IH] using rev_ind.
  - split.
    + destruct Hr as [-> | ->]; intros [].
    + intros [pre [e [post [E _]]]]. destruct pre; discriminate.
  - rewrite run_snoc, live_snoc, view_step by exact Hr. rewrite IH. tauto.
Qed.

Lemma view_role_of evs r q : In q (get_peers r (run evs)) -> p_role q = r.
Proof.
  destruct (wf_run evs) as [[HP _] [HB _]]. unfold get_peers.
  destruct (Z.eqb_spec r ROLE_PROVIDER) as [->|_]; [apply HP|].
  destruct (Z.eqb_spec r ROLE_BIDDER) as [->|_]; [apply HB|]. intros [].
Qed.

Lemma view_nodup evs r : NoDup (map p_addr (get_peers r (run evs))).
Proof.
  destruct (wf_run evs) as [[_ HP] [_ HB]]. unfold get_peers.
  destruct (r =? ROLE_PROVIDER)%Z; [exact HP|].
  destruct (r =? ROLE_BIDDER)%Z; [exact HB|]. constructor.
Qed.

Lemma m_has_role r a m : role_map r m -> (m_has a m = true <-> In (mkPeer a r) m).
Proof.
  intros [Hr _]. rewrite m_has_In. split.
  - intros [q [Hq Ha]]. specialize (Hr q Hq). destruct q as [qa qr]; cbn in *; subst; exact Hq.
  - intros H. exists (mkPeer a r). split; auto.
Qed.

Theorem is_connected_exact evs a :
  is_connected a (run evs) = true <-> live a ROLE_PROVIDER evs \/ live a ROLE_BIDDER evs.
Proof.
  unfold is_connected. rewrite orb_true_iff.
  destruct (wf_run evs) as [HP HB].
  rewrite (m_has_role _ _ _ HP), (m_has_role _ _ _ HB).
  rewrite <- (view_exact evs a ROLE_PROVIDER) by (left; reflexivity).
  rewrite <- (view_exact evs a ROLE_BIDDER) by (right; reflexivity).
  reflexivity.
Qed.

(* ================= announcements ================= *)
Lemma peer_eqb_eq p q : peer_eqb p q = true <-> p = q.
Proof.
  unfold peer_eqb. rewrite andb_true_iff, N.eqb_eq, Z.eqb_eq.
  destruct p, q; cbn. split; [intros [-> ->]; reflexivity | intros H; inversion H; auto].
Qed.
Lemma peer_eqb_refl p : peer_eqb p p = true.
Proof. apply peer_eqb_eq; reflexivity. Qed.

(* ---------- projections of broadcast ---------- *)
Lemma announces_app a b : announces (a ++ b) = announces a ++ announces b.
Proof. unfold announces. apply flat_map_app. Qed.
Lemma wires_app a b : wires (a ++ b) = wires a ++ wires b.
Proof. unfold wires. apply flat_map_app. Qed.
Lemma dials_app a b : dials (a ++ b) = dials a ++ dials b.
Proof. unfold dials. apply flat_map_app. Qed.
Lemma adds_app a b : adds (a ++ b) = adds a ++ adds b.
Proof. unfold adds. apply flat_map_app. Qed.

Lemma announces_broadcast ann t recs : announces (broadcast ann t recs) = [(t, recs)].
Proof. unfold broadcast. destruct (stream_opens ann t); reflexivity. Qed.
Lemma wires_broadcast ann t recs :
  wires (broadcast ann t recs) = if stream_opens ann t then [(t, encode_records recs)] else [].
Proof. unfold broadcast. destruct (stream_opens ann t); reflexivity. Qed.
Lemma dials_broadcast ann t recs : dials (broadcast ann t recs) = [].
Proof. unfold broadcast. destruct (stream_opens ann t); reflexivity. Qed.
Lemma adds_broadcast ann t recs : adds (broadcast ann t recs) = [].
Proof. unfold broadcast. destruct (stream_opens ann t); reflexivity. Qed.

Definition fanout_msgs (s1 : state) (p : peer) (lk : list (peer * bytes)) : list (peer * list record) :=
  if (p_role p =? ROLE_PROVIDER)%Z then
    match tbl_get lk p with
    | None => []
    | Some u => map (fun b => (b, [(p_addr p, u)])) (get_peers ROLE_BIDDER s1)
    end
  else [].
Definition newcomer_msgs (s1 : state) (p : peer) (lk : list (peer * bytes)) : list (peer * list record) :=
  match records_for p lk (get_peers ROLE_PROVIDER s1) with
  | [] => []
  | recs => [(p, recs)]
  end.
Definition wires_for (ann : list (peer * N)) (ms : list (peer * list record)) : list (peer * list wire_record) :=
  flat_map (fun m => if stream_opens ann (fst m) then [(fst m, encode_records (snd m))] else []) ms.

Lemma announces_fan ann x bs :
  announces (flat_map (fun b => broadcast ann b [x]) bs) = map (fun b => (b, [x])) bs.
Proof.
  induction bs as [|b bs IH]; [reflexivity|]. cbn [flat_map map].
  rewrite announces_app, announces_broadcast, IH. reflexivity.
Qed.
Lemma wires_fan ann x bs :
  wires (flat_map (fun b => broadcast ann b [x]) bs) = wires_for ann (map (fun b => (b, [x])) bs).
Proof.
  induction bs as [|b bs IH]; [reflexivity|]. cbn [flat_map map].
  rewrite wires_app, wires_broadcast, IH. unfold wires_for. cbn [flat_map fst snd]. reflexivity.
Qed.
Lemma dials_fan ann x bs : dials (flat_map (fun b => broadcast ann b [x]) bs) = [].
Proof. induction bs as [|b bs IH]; [reflexivity|]. cbn [flat_map]. rewrite dials_app, dials_broadcast, IH. reflexivity. Qed.
Lemma adds_fan ann x bs : adds (flat_map (fun b => broadcast ann b [x]) bs) = [].
Proof. induction bs as [|b bs IH]; [reflexivity|]. cbn [flat_map]. rewrite adds_app, adds_broadcast, IH. reflexivity. Qed.

(* exact shape of what Connected announces *)
Lemma announces_connected s1 p lk ann :
  announces (connected_effects s1 p lk ann) = newcomer_msgs s1 p lk ++ fanout_msgs s1 p lk.
Proof.
  unfold connected_effects, newcomer_msgs, fanout_msgs. rewrite announces_app. f_equal.
  - destruct (records_for p lk (get_peers ROLE_PROVIDER s1)); [reflexivity|apply announces_broadcast].
  - destruct (p_role p =? ROLE_PROVIDER)%Z; [|reflexivity].
    destruct (tbl_get lk p); [apply announces_fan|reflexivity].
Qed.

Lemma wires_for_app ann a b : wires_for ann (a ++ b) = wires_for ann a ++ wires_for ann b.
Proof. unfold wires_for. apply flat_map_app. Qed.

Lemma wires_connected s1 p lk ann :
  wires (connected_effects s1 p lk ann) = wires_for ann (announces (connected_effects s1 p lk ann)).
Proof.
  rewrite announces_connected, wires_for_app.
  unfold connected_effects, newcomer_msgs, fanout_msgs. rewrite wires_app. f_equal.
  - destruct (records_for p lk (get_peers ROLE_PROVIDER s1)); [reflexivity|].
    rewrite wires_broadcast. unfold wires_for. cbn [flat_map fst snd]. rewrite app_nil_r. reflexivity.
  - destruct (p_role p =? ROLE_PROVIDER)%Z; [|reflexivity].
    destruct (tbl_get lk p); [apply wires_fan|reflexivity].
Qed.

Lemma no_dials_connected s1 p lk ann : dials (connected_effects s1 p lk ann) = [].
Proof.
  unfold connected_effects. rewrite dials_app.
  destruct (records_for p lk (get_peers ROLE_PROVIDER s1)); cbn [app];
  try rewrite dials_broadcast; cbn [app];
  (destruct (p_role p =? ROLE_PROVIDER)%Z; [|reflexivity]; destruct (tbl_get lk p); [apply dials_fan|reflexivity]).
Qed.
Lemma no_adds_connected s1 p lk ann : adds (connected_effects s1 p lk ann) = [].
Proof.
  unfold connected_effects. rewrite adds_app.
  destruct (records_for p lk (get_peers ROLE_PROVIDER s1)); cbn [app];
  try rewrite adds_broadcast; cbn [app];
  (destruct (p_role p =? ROLE_PROVIDER)%Z; [|reflexivity]; destruct (tbl_get lk p); [apply adds_fan|reflexivity]).
Qed.

(* which records: exactly the other providers whose lookup succeeded *)
Lemma In_records_for p lk provs a u :
  In (a, u) (records_for p lk provs)
  <-> exists q, In q provs /\ p_addr q = a /\ a <> p_addr p /\ tbl_get lk q = Some u.
Proof.
  unfold records_for. rewrite in_flat_map. split.
  - intros [q [Hq Hin]]. exists q. split; [exact Hq|].
    destruct (N.eqb_spec (p_addr q) (p_addr p)) as [E|E]; [destruct Hin|].
    destruct (tbl_get lk q) as [v|]; [|destruct Hin]. destruct Hin as [Hin|[]]. inversion Hin; subst. auto.
  - intros [q [Hq [Ha [Hne Hlk]]]]. exists q. split; [exact Hq|].
    destruct (N.eqb_spec (p_addr q) (p_addr p)) as [E|E]; [congruence|].
    rewrite Hlk. left. subst a. reflexivity.
Qed.

Definition known_provider (s : state) (a : addr) : Prop := In (mkPeer a ROLE_PROVIDER) (get_peers ROLE_PROVIDER s).
Definition known_bidder (s : state) (b : peer) : Prop := In b (get_peers ROLE_BIDDER s).

Lemma In_records_for_wf s1 p lk a u : wf s1 ->
  In (a, u) (records_for p lk (get_peers ROLE_PROVIDER s1))
  <-> a <> p_addr p /\ known_provider s1 a /\ tbl_get lk (mkPeer a ROLE_PROVIDER) = Some u.
Proof.
  intros [[HP _] _]. rewrite In_records_for. unfold known_provider. cbn [get_peers Z.eqb ROLE_PROVIDER Pos.eqb]. split.
  - intros [q [Hq [Ha [Hne Hlk]]]]. specialize (HP q Hq).
    assert (q = mkPeer a ROLE_PROVIDER) as -> by (destruct q; cbn in *; subst; reflexivity). auto.
  - intros [Hne [Hk Hlk]]. exists (mkPeer a ROLE_PROVIDER). auto.
Qed.

Section announce.
  (* any reachable state; the event under study *)
  Context (evs : list event) (p : peer) (lk : list (peer * bytes)) (ann : list (peer * N)).
  Let s := run evs.
  Let s' := fst (step s (Connected p lk ann)).
  Let eff := snd (step s (Connected p lk ann)).

  Lemma wf_s' : wf s'.
  Proof. apply wf_step, wf_run. Qed.

  Lemma ann_state : s' = add p s.
  Proof. reflexivity. Qed.

  Lemma ann_shape : announces eff = newcomer_msgs s' p lk ++ fanout_msgs s' p lk.
  Proof. apply announces_connected. Qed.

  Lemma not_in_fanout recs : ~ In (p, recs) (fanout_msgs s' p lk).
  Proof.
    unfold fanout_msgs. destruct (Z.eqb_spec (p_role p) ROLE_PROVIDER) as [E|E]; [|intros []].
    destruct (tbl_get lk p); [|intros []]. rewrite in_map_iff. intros [b0 [Hb Hin]]. inversion Hb; subst b0.
    destruct wf_s' as [_ [HB _]]. specialize (HB p Hin). rewrite E in HB. discriminate.
  Qed.

  (* the message to the newcomer *)
  Lemma ann_newcomer recs : In (p, recs) (announces eff) ->
    recs <> [] /\
    forall a u, In (a, u) recs <-> a <> p_addr p /\ known_provider s' a /\ tbl_get lk (mkPeer a ROLE_PROVIDER) = Some u.
  Proof.
    rewrite ann_shape. intros H. apply in_app_or in H. destruct H as [H|H]; [|exfalso; eapply not_in_fanout; exact H].
    unfold newcomer_msgs in H.
    destruct (records_for p lk (get_peers ROLE_PROVIDER s')) as [|r0 rs] eqn:E; [destruct H|].
    destruct H as [H|[]]. inversion H; subst recs. split; [discriminate|].
    intros a u. rewrite <- E. apply In_records_for_wf, wf_s'.
  Qed.

  Lemma ann_newcomer_sent a u :
    a <> p_addr p -> known_provider s' a -> tbl_get lk (mkPeer a ROLE_PROVIDER) = Some u ->
    exists recs, In (p, recs) (announces eff) /\ In (a, u) recs.
  Proof.
    intros H1 H2 H3. assert (H : In (a, u) (records_for p lk (get_peers ROLE_PROVIDER s')))
      by (apply In_records_for_wf; [apply wf_s'|auto]).
    rewrite ann_shape. unfold newcomer_msgs.
    destruct (records_for p lk (get_peers ROLE_PROVIDER s')) as [|r0 rs]; [destruct H|].
    exists (r0 :: rs). split; [left; reflexivity|exact H].
  Qed.

  Lemma ann_newcomer_once : (length (filter (fun m => peer_eqb (fst m) p) (announces eff)) <= 1)%nat.
  Proof.
    rewrite ann_shape, filter_app, app_length.
    assert (E : filter (fun m => peer_eqb (fst m) p) (fanout_msgs s' p lk) = []).
    { destruct (filter (fun m => peer_eqb (fst m) p) (fanout_msgs s' p lk)) as [|[t recs] l] eqn:E; [reflexivity|].
      assert (H : In (t, recs) (filter (fun m => peer_eqb (fst m) p) (fanout_msgs s' p lk))) by (rewrite E; left; reflexivity).
      apply filter_In in H. destruct H as [H1 H2]. cbn in H2. apply peer_eqb_eq in H2. subst t.
      exfalso. eapply not_in_fanout; exact H1. }
    rewrite E. unfold newcomer_msgs. destruct (records_for p lk (get_peers ROLE_PROVIDER s')); cbn; [lia|].
    destruct (peer_eqb p p); cbn; lia.
  Qed.

  (* the fan-out of a provider's own record *)
  Lemma ann_fanout t recs : In (t, recs) (announces eff) -> t <> p ->
    p_role p = ROLE_PROVIDER /\ known_bidder s' t /\ exists u, tbl_get lk p = Some u /\ recs = [(p_addr p, u)].
  Proof.
    rewrite ann_shape. intros H Hne. apply in_app_or in H. destruct H as [H|H].
    - unfold newcomer_msgs in H. destruct (records_for p lk (get_peers ROLE_PROVIDER s')); [destruct H|].
      destruct H as [H|[]]. inversion H; congruence.
    - unfold fanout_msgs in H. destruct (Z.eqb_spec (p_role p) ROLE_PROVIDER) as [E|E]; [|destruct H].
      destruct (tbl_get lk p) as [u|]; [|destruct H]. apply in_map_iff in H. destruct H as [b [Hb Hin]].
      inversion Hb; subst. split; [exact E|]. split; [exact Hin|]. exists u; auto.
  Qed.

  Lemma ann_fanout_sent u b : p_role p = ROLE_PROVIDER -> tbl_get lk p = Some u -> known_bidder s' b ->
    In (b, [(p_addr p, u)]) (announces eff).
  Proof.
    intros E Hlk Hb. rewrite ann_shape. apply in_or_app; right. unfold fanout_msgs.
    rewrite E, Hlk. cbn [Z.eqb ROLE_PROVIDER Pos.eqb]. apply in_map_iff. exists b; auto.
  Qed.

  Lemma ann_fanout_none : (p_role p <> ROLE_PROVIDER \/ tbl_get lk p = None) ->
    forall t recs, In (t, recs) (announces eff) -> t = p.
  Proof.
    intros H t recs Hin. destruct (peer_eqb t p) eqn:E; [apply peer_eqb_eq; exact E|].
    assert (Hne : t <> p) by (intros ->; rewrite peer_eqb_refl in E; discriminate).
    destruct (ann_fanout t recs Hin Hne) as [H1 [_ [u [H2 _]]]]. destruct H; congruence.
  Qed.

  (* announcement faults change nothing but what is written on the wire *)
  Lemma ann_faults ann2 :
    fst (step s (Connected p lk ann2)) = s' /\ announces (snd (step s (Connected p lk ann2))) = announces eff.
  Proof. split; [reflexivity|]. unfold eff. cbn [step snd]. rewrite !announces_connected. reflexivity. Qed.

  Lemma ann_wire : wires eff = wires_for ann (announces eff).
  Proof. apply wires_connected. Qed.

  Lemma ann_nothing_else : dials eff = [] /\ adds eff = [].
  Proof. split; [apply no_dials_connected|apply no_adds_connected]. Qed.
End announce.

Lemma addr_roundtrip a : a < 2 ^ 160 -> addr_of_bytes (addr_bytes a) = a.
Proof.
  intros H. unfold addr_of_bytes, addr_bytes. rewrite be_length. cbn [Nat.sub skipn].
  apply unbe_be. exact H.
Qed.

(* ================= gossip ================= *)
Lemma in_flight_In u s : in_flight u s = true <-> In u (inflight s).
Proof.
  unfold in_flight. rewrite existsb_exists. split.
  - intros [v [Hv E]]. apply bytes_eqb_eq in E. subst v. exact Hv.
  - intros H. exists u. split; [exact H|apply bytes_eqb_refl].
Qed.

Lemma In_to_dial s entries u :
  In u (to_dial s entries) <-> exists ea, In (ea, u) entries /\ is_connected (addr_of_bytes ea) s = false.
Proof.
  unfold to_dial. rewrite in_flat_map. split.
  - intros [[ea v] [He Hin]]. cbn [fst snd] in Hin.
    destruct (is_connected (addr_of_bytes ea) s) eqn:E; [destruct Hin|]. destruct Hin as [<-|[]].
    exists ea. auto.
  - intros [ea [He Hc]]. exists (ea, u). split; [exact He|]. cbn [fst snd]. rewrite Hc. left; reflexivity.
Qed.

Lemma dials_map_Dial l : dials (map Dial l) = l.
Proof. induction l as [|u l IH]; [reflexivity|]. cbn. f_equal. exact IH. Qed.
Lemma announces_map_Dial l : announces (map Dial l) = [].
Proof. induction l as [|u l IH]; [reflexivity|]. exact IH. Qed.
Lemma wires_map_Dial l : wires (map Dial l) = [].
Proof. induction l as [|u l IH]; [reflexivity|]. exact IH. Qed.
Lemma adds_map_Dial l : adds (map Dial l) = [].
Proof. induction l as [|u l IH]; [reflexivity|]. exact IH. Qed.

(* one received list: dialled iff read and the entry's address is not connected; views untouched *)
Lemma gossip_step s from ok entries :
  let s' := fst (step s (Gossip from ok entries)) in
  let eff := snd (step s (Gossip from ok entries)) in
  providers s' = providers s /\ bidders s' = bidders s /\
  dials eff = (if ok then to_dial s entries else []) /\
  inflight s' = inflight s ++ dials eff /\
  announces eff = [] /\ wires eff = [] /\ adds eff = [].
Proof.
  cbn [step]. destruct ok; cbn [fst snd providers bidders inflight].
  - rewrite dials_map_Dial, announces_map_Dial, wires_map_Dial, adds_map_Dial. auto 10.
  - rewrite app_nil_r. auto 10.
Qed.

Lemma gossip_dialled s from ok entries u :
  In (Dial u) (snd (step s (Gossip from ok entries)))
  <-> ok = true /\ exists ea, In (ea, u) entries /\ is_connected (addr_of_bytes ea) s = false.
Proof.
  cbn [step]. destruct ok; cbn [snd].
  - rewrite in_map_iff, <- In_to_dial. split.
    + intros [v [E Hv]]. inversion E; subst. auto.
    + intros [_ H]. exists u; auto.
  - split; [intros []|intros [H _]; discriminate].
Qed.

Lemma gossip_not_dialled_connected s from ok entries u :
  (forall ea, In (ea, u) entries -> is_connected (addr_of_bytes ea) s = true) ->
  ~ In (Dial u) (snd (step s (Gossip from ok entries))).
Proof.
  intros H Hin. apply gossip_dialled in Hin. destruct Hin as [_ [ea [He Hc]]].
  rewrite (H ea He) in Hc. discriminate.
Qed.

(* completion of a dial: the only way a worker adds a peer *)
Lemma done_step s u res :
  let s' := fst (step s (ConnectDone u res)) in
  let eff := snd (step s (ConnectDone u res)) in
  (in_flight u s = false -> s' = s /\ eff = []) /\
  (in_flight u s = true -> res = None ->
     providers s' = providers s /\ bidders s' = bidders s /\ inflight s' = remove1 u (inflight s) /\ eff = []) /\
  (in_flight u s = true -> forall p, res = Some p ->
     s' = add p (mkState (providers s) (bidders s) (remove1 u (inflight s))) /\ eff = [Add p]).
Proof.
  cbn [step]. destruct (in_flight u s); cbn [fst snd].
  - split; [discriminate|]. split.
    + intros _ ->. cbn. auto.
    + intros _ p ->. cbn. auto.
  - split; [auto|]. split; discriminate.
Qed.

Lemma add_effect_origin s e q : In (Add q) (snd (step s e)) ->
  exists u, e = ConnectDone u (Some q) /\ in_flight u s = true.
Proof.
  destruct e as [p lk ann|ps|p|from ok entries|u res]; cbn [step snd].
  - intros H. assert (Hq : In q (adds (connected_effects (add p s) p lk ann))).
    { unfold adds. apply in_flat_map. exists (Add q). split; [exact H|left; reflexivity]. }
    rewrite no_adds_connected in Hq. destruct Hq.
  - intros [].
  - intros [].
  - destruct ok; cbn [snd]; [|intros []]. rewrite in_map_iff. intros [v [E _]]; discriminate.
  - destruct (in_flight u s) eqn:E; cbn [snd]; [|intros []].
    destruct res as [p|]; cbn [snd]; [|intros []]. intros [H|[]]. inversion H; subst. exists u; auto.
Qed.

Lemma dial_effect_origin s e u : In (Dial u) (snd (step s e)) ->
  exists from entries ea, e = Gossip from true entries /\ In (ea, u) entries
                          /\ is_connected (addr_of_bytes ea) s = false.
Proof.
  destruct e as [p lk ann|ps|p|from ok entries|v res].
  - cbn [step snd]. intros H. assert (Hq : In u (dials (connected_effects (add p s) p lk ann))).
    { unfold dials. apply in_flat_map. exists (Dial u). split; [exact H|left; reflexivity]. }
    rewrite no_dials_connected in Hq. destruct Hq.
  - intros [].
  - intros [].
  - intros H. apply gossip_dialled in H. destruct H as [-> [ea [He Hc]]]. exists from, entries, ea. auto.
  - cbn [step snd]. destruct (in_flight v s); cbn [snd]; [|intros []].
    destruct res; cbn [snd]; [intros [H|[]]; discriminate|intros []].
Qed.

Lemma In_remove1 u v l : In v (remove1 u l) -> In v l.
Proof.
  induction l as [|w l IH]; cbn; [auto|]. destruct (bytes_eqb u w); [auto|].
  intros [H|H]; auto.
Qed.

Lemma inflight_add p s : inflight (add p s) = inflight s.
Proof. unfold add. destruct (p_role p =? ROLE_PROVIDER)%Z; [reflexivity|]. destruct (p_role p =? ROLE_BIDDER)%Z; reflexivity. Qed.
Lemma inflight_remove p s : inflight (remove p s) = inflight s.
Proof. unfold remove. destruct (p_role p =? ROLE_PROVIDER)%Z; [reflexivity|]. destruct (p_role p =? ROLE_BIDDER)%Z; reflexivity. Qed.
Lemma inflight_fold_add ps : forall s, inflight (fold_left (fun acc p => add p acc) ps s) = inflight s.
Proof. induction ps as [|p ps IH]; intros s; cbn; [reflexivity|]. rewrite IH. apply inflight_add. Qed.

(* every call in flight was started by a received list, for an entry whose address was not
   connected when the list was processed *)
Definition dialled_by_gossip (evs : list event) (u : bytes) : Prop :=
  exists pre from entries post ea,
    evs = pre ++ Gossip from true entries :: post /\ In (ea, u) entries
    /\ is_connected (addr_of_bytes ea) (run pre) = false.

Lemma dialled_by_gossip_snoc evs e u : dialled_by_gossip evs u -> dialled_by_gossip (evs ++ [e]) u.
Proof.
  intros [pre [from [entries [post [ea [E H]]]]]]. exists pre, from, entries, (post ++ [e]), ea.
  split; [subst evs; rewrite <- app_assoc; reflexivity|exact H].
Qed.

Theorem inflight_origin evs u : In u (inflight (run evs)) -> dialled_by_gossip evs u.
Proof.
  induction evs as [|e evs IH] using rev_ind; [intros []|].
  rewrite run_snoc. destruct e as [p lk ann|ps|p|from ok entries|v res]; cbn [step fst].
  - rewrite inflight_add. intros H. apply dialled_by_gossip_snoc; auto.
  - rewrite inflight_fold_add. intros H. apply dialled_by_gossip_snoc; auto.
  - rewrite inflight_remove. intros H. apply dialled_by_gossip_snoc; auto.
  - destruct ok; cbn [fst inflight]; [|intros H; apply dialled_by_gossip_snoc; auto].
    intros H. apply in_app_or in H. destruct H as [H|H]; [apply dialled_by_gossip_snoc; auto|].
    apply In_to_dial in H. destruct H as [ea [He Hc]].
    exists evs, from, entries, [], ea. auto.
  - destruct (in_flight v (run evs)); cbn [fst]; [|intros H; apply dialled_by_gossip_snoc; auto].
    destruct res as [p|]; cbn [fst]; [rewrite inflight_add|]; cbn [inflight]; intros H;
      apply dialled_by_gossip_snoc, IH; eapply In_remove1; exact H.
Qed.

(* a peer added by the discovery worker anywhere in a history is the peer returned by a
   successful Connect on an underlay that a received list made the node dial *)
Theorem worker_add_origin evs pre e post q :
  evs = pre ++ e :: post -> In (Add q) (snd (step (run pre) e)) ->
  exists u, e = ConnectDone u (Some q) /\ dialled_by_gossip pre u.
Proof.
  intros _ H. apply add_effect_origin in H. destruct H as [u [-> Hf]].
  exists u. split; [reflexivity|]. apply inflight_origin, in_flight_In; exact Hf.
Qed.

(* ================= the checker accepts the model ================= *)
(* ---------- multisets ---------- *)
Lemma ms_diff_refl {A} (eqb : A -> A -> bool) (Hrefl : forall a, eqb a a = true) l : ms_diff eqb l l = [].
Proof. induction l as [|a l IH]; [reflexivity|]. cbn. rewrite Hrefl. exact IH. Qed.
Lemma ms_eqb_refl {A} (eqb : A -> A -> bool) (Hrefl : forall a, eqb a a = true) l : ms_eqb eqb l l = true.
Proof. unfold ms_eqb. rewrite ms_diff_refl by exact Hrefl. reflexivity. Qed.
Lemma list_eqb_refl {A} (eqb : A -> A -> bool) (Hrefl : forall a, eqb a a = true) l : list_eqb eqb l l = true.
Proof. induction l as [|a l IH]; [reflexivity|]. cbn. rewrite Hrefl. exact IH. Qed.

Lemma record_eqb_refl r : record_eqb r r = true.
Proof. unfold record_eqb. rewrite N.eqb_refl, bytes_eqb_refl. reflexivity. Qed.
Lemma wire_eqb_refl r : wire_eqb r r = true.
Proof. unfold wire_eqb. rewrite !bytes_eqb_refl. reflexivity. Qed.
Lemma msg_eqb_refl m : msg_eqb m m = true.
Proof. unfold msg_eqb. rewrite peer_eqb_refl, ms_eqb_refl by exact record_eqb_refl. reflexivity. Qed.
Lemma wmsg_eqb_refl m : wmsg_eqb m m = true.
Proof. unfold wmsg_eqb. rewrite peer_eqb_refl, ms_eqb_refl by exact wire_eqb_refl. reflexivity. Qed.
Lemma effect_eqb_refl e : effect_eqb e e = true.
Proof.
  destruct e; cbn; rewrite ?peer_eqb_refl, ?bytes_eqb_refl; cbn;
  try apply ms_eqb_refl; auto using record_eqb_refl, wire_eqb_refl.
Qed.
Lemma obs_eqb_refl o : obs_eqb o o = true.
Proof.
  unfold obs_eqb. rewrite ms_eqb_refl by exact effect_eqb_refl.
  rewrite list_eqb_refl by (intros; apply ms_eqb_refl, peer_eqb_refl).
  rewrite list_eqb_refl by (intros []; reflexivity).
  rewrite list_eqb_refl by (intros; apply ms_eqb_refl, N.eqb_refl). reflexivity.
Qed.

(* the model agrees with itself: a case whose observation is the model's own is no mismatch *)
Lemma model_self_agrees pr l : list_eqb obs_eqb (run_obs pr init l) (run_obs pr init l) = true.
Proof. apply list_eqb_refl, obs_eqb_refl. Qed.

(* ---------- abstraction relation ---------- *)
Definition R (s : state) (A : abs) : Prop :=
  aP A = map p_addr (providers s) /\ aB A = map p_addr (bidders s) /\ aF A = inflight s.

Lemma keys_put p m : map p_addr (m_put p m) = aput (p_addr p) (map p_addr m).
Proof. unfold m_put, aput, adel. cbn [map]. rewrite m_del_keys. reflexivity. Qed.
Lemma keys_del a m : map p_addr (m_del a m) = adel a (map p_addr m).
Proof. unfold adel. apply m_del_keys. Qed.

Ltac Rsolve := unfold R; cbn [aP aB aF providers bidders inflight]; rewrite ?keys_put, ?keys_del; repeat split; congruence.
Lemma R_add p s A : R s A -> R (add p s) (abs_add p A).
Proof.
  intros [H1 [H2 H3]]. unfold add, abs_add.
  destruct (p_role p =? ROLE_PROVIDER)%Z; [Rsolve|].
  destruct (p_role p =? ROLE_BIDDER)%Z; Rsolve.
Qed.
Lemma R_remove p s A : R s A -> R (remove p s) (abs_remove p A).
Proof.
  intros [H1 [H2 H3]]. unfold remove, abs_remove.
  destruct (p_role p =? ROLE_PROVIDER)%Z; [Rsolve|].
  destruct (p_role p =? ROLE_BIDDER)%Z; Rsolve.
Qed.
Lemma R_fold_add ps : forall s A, R s A ->
  R (fold_left (fun acc p => add p acc) ps s) (fold_left (fun acc p => abs_add p acc) ps A).
Proof. induction ps as [|p ps IH]; intros s A H; cbn; [exact H|]. apply IH, R_add, H. Qed.

Lemma remove1_absent u l : existsb (bytes_eqb u) l = false -> remove1 u l = l.
Proof.
  induction l as [|v l IH]; cbn; [reflexivity|]. destruct (bytes_eqb u v); cbn; [discriminate|].
  intros H. rewrite IH by exact H. reflexivity.
Qed.

Lemma R_step s A e : R s A -> R (fst (step s e)) (abs_step A e (snd (step s e))).
Proof.
  intros H. destruct e as [p lk ann|ps|p|from ok entries|u res]; cbn [step fst snd abs_step].
  - apply R_add, H.
  - apply R_fold_add, H.
  - apply R_remove, H.
  - destruct H as [H1 [H2 H3]]. destruct ok; cbn [fst snd].
    + rewrite dials_map_Dial. Rsolve.
    + cbn [dials flat_map]. rewrite app_nil_r. Rsolve.
  - destruct H as [H1 [H2 H3]]. destruct (in_flight u s) eqn:E; cbn [fst snd].
    + destruct res as [p|]; cbn [fst snd adds flat_map app fold_left].
      * apply R_add. Rsolve.
      * Rsolve.
    + cbn [adds flat_map fold_left]. rewrite H3, remove1_absent by exact E. Rsolve.
Qed.

(* ---------- views ---------- *)
Lemma amem_keys a m : amem a (map p_addr m) = m_has a m.
Proof.
  unfold amem, m_has. induction m as [|q m IH]; [reflexivity|]. cbn. rewrite IH, (N.eqb_sym a). reflexivity.
Qed.
Lemma amem_In a l : amem a l = true <-> In a l.
Proof.
  unfold amem. rewrite existsb_exists. split.
  - intros [b [Hb E]]. apply N.eqb_eq in E. subst; exact Hb.
  - intros H. exists a. split; [exact H|apply N.eqb_refl].
Qed.
Lemma nodup_addrs_NoDup l : NoDup l -> nodup_addrs l = true.
Proof.
  induction 1 as [|a l Ha Hl IH]; [reflexivity|]. cbn. rewrite IH, andb_true_r.
  destruct (amem a l) eqn:E; [apply amem_In in E; contradiction|reflexivity].
Qed.
Lemma set_view_self r m : role_map r m -> set_view_ok r (map p_addr m) m = true.
Proof.
  intros [Hr Hn]. unfold set_view_ok. rewrite nodup_addrs_NoDup by exact Hn. rewrite andb_true_r.
  apply andb_true_iff. split; apply forallb_forall.
  - intros q Hq. rewrite (Hr q Hq), Z.eqb_refl. cbn. apply amem_In, in_map, Hq.
  - intros a Ha. apply amem_In, Ha.
Qed.
Lemma set_addrs_self l : NoDup l -> set_addrs_ok l l = true.
Proof.
  intros Hn. unfold set_addrs_ok. rewrite nodup_addrs_NoDup by exact Hn. rewrite andb_true_r.
  assert (H : forallb (fun a => amem a l) l = true) by (apply forallb_forall; intros a Ha; apply amem_In, Ha).
  rewrite H. reflexivity.
Qed.
Lemma connected_agrees s A a : R s A -> is_connected a s = abs_connected a A.
Proof. intros [H1 [H2 _]]. unfold is_connected, abs_connected. rewrite H1, H2, !amem_keys. reflexivity. Qed.

Lemma view_ok_model s A pr eff : wf s -> R s A -> view_ok A pr (observe pr s eff) = true.
Proof.
  intros [HP HB] HR. unfold view_ok, observe, Check_C15.view_roles. cbn [o_views o_conn map].
  destruct HR as [H1 [H2 H3]].
  change (get_peers ROLE_BOOTNODE s) with (@nil peer). change (get_peers (-1) s) with (@nil peer).
  change (get_peers ROLE_PROVIDER s) with (providers s). change (get_peers ROLE_BIDDER s) with (bidders s).
  cbn [is_nil andb]. rewrite H1, H2, (set_view_self _ _ HP), (set_view_self _ _ HB). cbn [andb].
  assert (E : map (fun a => is_connected a s) pr = map (fun a => abs_connected a A) pr).
  { apply map_ext. intros a. apply connected_agrees. repeat split; auto. }
  rewrite E, list_eqb_refl by (intros []; reflexivity).
  unfold api_view. cbn [o_api andb].
  change (get_peers ROLE_PROVIDER s) with (providers s). change (get_peers ROLE_BIDDER s) with (bidders s).
  rewrite (set_addrs_self _ (proj2 HP)), (set_addrs_self _ (proj2 HB)). reflexivity.
Qed.

(* ---------- announce clauses ---------- *)
Lemma expected_records_model s A p lk : wf s -> R s A ->
  expected_records A p lk = records_for p lk (get_peers ROLE_PROVIDER s).
Proof.
  intros [[HP _] _] [H1 _]. unfold expected_records, records_for. rewrite H1.
  change (get_peers ROLE_PROVIDER s) with (providers s).
  revert HP. generalize (providers s) as m. induction m as [|q m IH]; intros HP; [reflexivity|].
  cbn [map flat_map]. rewrite IH by (intros q' Hq'; apply HP; right; exact Hq').
  assert (E : mkPeer (p_addr q) ROLE_PROVIDER = q) by (rewrite <- (HP q (or_introl eq_refl)); destruct q; reflexivity).
  rewrite E. reflexivity.
Qed.
Lemma expected_fanout_model s A p lk : wf s -> R s A -> expected_fanout A p lk = fanout_msgs s p lk.
Proof.
  intros [_ [HB _]] [_ [H2 _]]. unfold expected_fanout, fanout_msgs.
  destruct (p_role p =? ROLE_PROVIDER)%Z; [|reflexivity]. destruct (tbl_get lk p) as [u|]; [|reflexivity].
  rewrite H2. change (get_peers ROLE_BIDDER s) with (bidders s). rewrite map_map. apply map_ext_in.
  intros q Hq. rewrite <- (HB q Hq). destruct q; reflexivity.
Qed.

Lemma filter_all {A} (f : A -> bool) l : (forall a, In a l -> f a = true) -> filter f l = l.
Proof.
  induction l as [|a l IH]; intros H; [reflexivity|]. cbn. rewrite (H a (or_introl eq_refl)).
  f_equal. apply IH. intros b Hb. apply H. right; exact Hb.
Qed.
Lemma filter_none {A} (f : A -> bool) l : (forall a, In a l -> f a = false) -> filter f l = [].
Proof.
  induction l as [|a l IH]; intros H; [reflexivity|]. cbn. rewrite (H a (or_introl eq_refl)).
  apply IH. intros b Hb. apply H. right; exact Hb.
Qed.
Lemma existsb_none {A} (f : A -> bool) l : (forall a, In a l -> f a = false) -> existsb f l = false.
Proof.
  induction l as [|a l IH]; intros H; [reflexivity|]. cbn. rewrite (H a (or_introl eq_refl)).
  apply IH. intros b Hb. apply H. right; exact Hb.
Qed.
Lemma rec_mem_In r l : In r l -> rec_mem r l = true.
Proof. intros H. unfold rec_mem. apply existsb_exists. exists r. split; [exact H|apply record_eqb_refl]. Qed.

Lemma fanout_not_to_p s p lk : wf s -> forall m, In m (fanout_msgs s p lk) -> peer_eqb (fst m) p = false.
Proof.
  intros [_ [HB _]] m Hm. unfold fanout_msgs in Hm.
  destruct (Z.eqb_spec (p_role p) ROLE_PROVIDER) as [E|E]; [|destruct Hm].
  destruct (tbl_get lk p); [|destruct Hm]. apply in_map_iff in Hm. destruct Hm as [b0 [<- Hb]]. cbn [fst].
  destruct (peer_eqb b0 p) eqn:Eq; [|reflexivity]. apply peer_eqb_eq in Eq. subst b0.
  specialize (HB p Hb). rewrite E in HB. discriminate.
Qed.

Lemma announce_clauses_model s A p lk ann : wf s -> R s A ->
  announce_clauses A p lk ann (connected_effects s p lk ann) = [].
Proof.
  intros Hwf HR. unfold announce_clauses.
  rewrite wires_connected, announces_connected.
  rewrite (expected_records_model s A p lk Hwf HR), (expected_fanout_model s A p lk Hwf HR).
  change expected_wires with wires_for.
  set (want := records_for p lk (get_peers ROLE_PROVIDER s)).
  set (fan := fanout_msgs s p lk).
  rewrite !filter_app.
  rewrite (filter_none (fun m => peer_eqb (fst m) p) fan) by (apply fanout_not_to_p; exact Hwf).
  rewrite (filter_all (fun m => negb (peer_eqb (fst m) p)) fan)
    by (intros m Hm; rewrite (fanout_not_to_p s p lk Hwf m Hm); reflexivity).
  assert (Hnew : newcomer_msgs s p lk = match want with [] => [] | _ => [(p, want)] end)
    by (unfold newcomer_msgs; fold want; destruct want; reflexivity).
  assert (Hto : filter (fun m => peer_eqb (fst m) p) (newcomer_msgs s p lk) = newcomer_msgs s p lk).
  { rewrite Hnew. destruct want; [reflexivity|]. cbn. rewrite peer_eqb_refl. reflexivity. }
  assert (Hot : filter (fun m => negb (peer_eqb (fst m) p)) (newcomer_msgs s p lk) = []).
  { rewrite Hnew. destruct want; [reflexivity|]. cbn. rewrite peer_eqb_refl. reflexivity. }
  rewrite Hto, Hot, app_nil_r. cbn [app].
  assert (Hgot : flat_map snd (newcomer_msgs s p lk) = want).
  { rewrite Hnew. destruct want; [reflexivity|]. cbn. rewrite app_nil_r. reflexivity. }
  rewrite Hgot.
  assert (Hself : existsb (fun r => fst r =? p_addr p) want = false).
  { apply existsb_none. intros [a u] Hin. apply In_records_for in Hin. destruct Hin as [q [_ [_ [Hne _]]]].
    cbn. apply N.eqb_neq. exact Hne. }
  rewrite Hself.
  rewrite (filter_none (fun r => negb (fst r =? p_addr p) && negb (rec_mem r want)) want)
    by (intros r Hr; rewrite (rec_mem_In r want Hr), andb_false_r; reflexivity).
  rewrite (filter_all (fun r => rec_mem r want) want) by (intros r Hr; apply rec_mem_In; exact Hr).
  assert (Hnil : existsb (fun m : peer * list record => is_nil (snd m)) (newcomer_msgs s p lk) = false).
  { rewrite Hnew. destruct want; reflexivity. }
  rewrite Hnil.
  rewrite !(ms_diff_refl record_eqb record_eqb_refl), !(ms_diff_refl msg_eqb msg_eqb_refl),
          !(ms_diff_refl wmsg_eqb wmsg_eqb_refl).
  reflexivity.
Qed.

(* ---------- gossip clauses ---------- *)
Lemma allowed_dials_model s A ok entries : R s A ->
  allowed_dials A ok entries = if ok then to_dial s entries else [].
Proof.
  intros HR. unfold allowed_dials, to_dial. destruct ok; [|reflexivity].
  apply flat_map_ext. intros e. rewrite (connected_agrees s A _ HR). reflexivity.
Qed.

Lemma no_announce_nil eff : announces eff = [] -> wires eff = [] -> no_announce eff = [].
Proof. intros H1 H2. unfold no_announce. rewrite H1, H2. reflexivity. Qed.
Lemma no_gossip_nil eff : dials eff = [] -> adds eff = [] -> no_gossip eff = [].
Proof. intros H1 H2. unfold no_gossip. rewrite H1, H2. reflexivity. Qed.

Lemma event_clauses_model s A pr e : wf s -> R s A ->
  event_clauses A pr e (observe pr (fst (step s e)) (snd (step s e))) = [].
Proof.
  intros Hwf HR. unfold event_clauses. cbn [o_eff observe].
  rewrite (view_ok_model (fst (step s e)) (abs_step A e (snd (step s e))) pr (snd (step s e)))
    by (auto using wf_step, R_step).
  cbn [negb flag]. rewrite app_nil_r.
  destruct e as [p lk ann|ps|p|from ok entries|u res].
  - cbn [step fst snd abs_step].
    rewrite (announce_clauses_model (add p s) (abs_add p A) p lk ann) by (auto using wf_add, R_add).
    rewrite no_gossip_nil by (auto using no_dials_connected, no_adds_connected). reflexivity.
  - reflexivity.
  - reflexivity.
  - destruct (gossip_step s from ok entries) as [_ [_ [Hd [_ [Ha [Hw Had]]]]]].
    rewrite no_announce_nil by assumption. cbn [app]. unfold gossip_clauses.
    rewrite Had, Hd, (allowed_dials_model s A ok entries HR).
    rewrite (ms_diff_refl bytes_eqb bytes_eqb_refl). reflexivity.
  - cbn [step]. destruct HR as [H1 [H2 H3]]. unfold done_clauses. rewrite H3. fold (in_flight u s).
    destruct (in_flight u s); cbn [snd].
    + destruct res as [p|]; cbn; rewrite ?peer_eqb_refl; reflexivity.
    + destruct res; reflexivity.
Qed.

Lemma trace_clauses_model pr evs : forall s A, wf s -> R s A ->
  trace_clauses A pr evs (run_obs pr s evs) = [].
Proof.
  induction evs as [|e evs IH]; intros s A Hwf HR; [reflexivity|].
  cbn [run_obs trace_clauses]. rewrite (event_clauses_model s A pr e Hwf HR). cbn [app].
  cbn [o_eff observe]. apply IH; auto using wf_step, R_step.
Qed.

(* For every history, the property checker (the one that is evaluated on the implementation's
   observations) finds nothing to object to in the model's own behaviour. *)
Theorem checker_accepts_model i roles pr evs :
  case_violations (mkCase i 0 roles pr evs (run_obs pr init evs)) = [].
Proof.
  unfold case_violations. cbn [c_mode N.eqb probes Check_C15.evs obs].
  rewrite (trace_clauses_model pr evs init abs_init wf_init) by (repeat split). reflexivity.
Qed.

(* concurrent runs: the final observation of the model passes the final-view clause *)
Lemma abs_run_R l : forall s A, wf s -> R s A -> wf (run_from s l) /\ R (run_from s l) (abs_run s A l).
Proof.
  induction l as [|e l IH]; intros s A Hwf HR; [split; assumption|].
  cbn [abs_run]. change (run_from s (e :: l)) with (run_from (fst (step s e)) l).
  apply IH; auto using wf_step, R_step.
Qed.
Theorem checker_accepts_final i m roles pr evs : m <> 0 ->
  case_violations (mkCase i m roles pr evs [final_obs pr evs]) = [].
Proof.
  intros Hm. unfold case_violations. cbn [c_mode probes Check_C15.evs obs].
  destruct (N.eqb_spec m 0) as [E|_]; [contradiction|].
  unfold final_clauses, final_obs.
  destruct (abs_run_R evs init abs_init wf_init) as [Hwf HR]; [repeat split|].
  fold (run evs) in Hwf, HR. rewrite (view_ok_model (run evs) _ pr [] Hwf HR). reflexivity.
Qed.

(* ================= facts about the regenerated constants ================= *)
Lemma c15_workers_fact : c15_check_workers = 10%Z.
Proof. reflexivity. Qed.
Lemma c15_wiring_announcer : c15_node_sets_announcer = true.
Proof. reflexivity. Qed.
Lemma c15_wiring_notifier : c15_node_sets_notifier = true.
Proof. reflexivity. Qed.
(* topology.New(p2pSvc, ...) : the p2p service is the address book;
   discovery.New(topo, p2pSvc, ...) : discovery sees the topology and dials through the p2p service *)
Lemma c15_wiring_topology : map (firstn 1) c15_node_topology_args = [[bos "p2pSvc"]].
Proof. reflexivity. Qed.
Lemma c15_wiring_discovery : map (firstn 2) c15_node_discovery_args = [[bos "topo"; bos "p2pSvc"]].
Proof. reflexivity. Qed.
(* debugapi.RegisterAPI(srv, topo, p2pSvc, ...) : GET /topology reads the same Topology *)
Lemma c15_wiring_debugapi : map (firstn 3) c15_node_debugapi_args = [[bos "srv"; bos "topo"; bos "p2pSvc"]].
Proof. reflexivity. Qed.

(* ================= non-vacuity ================= *)
Definition exP1 := mkPeer 1 ROLE_PROVIDER.
Definition exP2 := mkPeer 2 ROLE_PROVIDER.
Definition exB1 := mkPeer 3 ROLE_BIDDER.
Definition exB2 := mkPeer 4 ROLE_BIDDER.
Definition exLk : list (peer * bytes) := [(exP1, bos "u1"); (exP2, bos "u2"); (exB1, bos "u3")].
Definition exHistory : list event :=
  [Connected exP1 exLk []; Connected exB1 exLk []; Connected exB2 exLk [(exB2, 1)];
   Gossip exB1 true [(addr_bytes 1, bos "u1"); (addr_bytes 2, bos "u2"); (addr_bytes 2, bos "u2")];
   ConnectDone (bos "u2") (Some exP2); Disconnected exP1].

(* views: a provider proven by a completed dial is reported, a disconnected one is not *)
Example ex_view : get_peers ROLE_PROVIDER (run exHistory) = [exP2]
                  /\ is_connected 1 (run exHistory) = false /\ is_connected 2 (run exHistory) = true.
Proof. repeat split; reflexivity. Qed.
Example ex_live : live 2 ROLE_PROVIDER exHistory.
Proof. apply view_exact; [left; reflexivity|]. left; reflexivity. Qed.

(* announcements: the second provider gets the first one's record only (not its own, not a
   bidder's), both bidders get the newcomer's record, the stream to the second bidder fails *)
Example ex_announce :
  snd (step (run (firstn 3 exHistory)) (Connected exP2 exLk [(exB2, 1)]))
  = [Announce exP2 [(1, bos "u1")]; Wire exP2 [(addr_bytes 1, bos "u1")];
     Announce exB2 [(2, bos "u2")];
     Announce exB1 [(2, bos "u2")]; Wire exB1 [(addr_bytes 2, bos "u2")]].
Proof. reflexivity. Qed.

(* gossip: the connected address is skipped, the unknown one is dialled once per entry *)
Example ex_gossip : nth 3 (trace exHistory) [] = [Dial (bos "u2"); Dial (bos "u2")]
                    /\ nth 4 (trace exHistory) [] = [Add exP2]
                    /\ inflight (run exHistory) = [bos "u2"].
Proof. repeat split; reflexivity. Qed.
Example ex_dialled_by_gossip : dialled_by_gossip (firstn 4 exHistory) (bos "u2").
Proof. apply inflight_origin. left; reflexivity. Qed.

(* the checker is not trivially accepting: an observation in which the newcomer is sent its own
   record, a bidder's record, or a connected address is dialled, is flagged *)
Example ex_checker_rejects :
  case_violations (mkCase 0 0 [] [] [Connected exB1 exLk []; Connected exP1 exLk []]
     [mkObs [] [[]; []; [exB1]; []] [] [[]; [3]];
      mkObs [Announce exP1 [(1, bos "u1"); (3, bos "u3")]; Wire exP1 [(addr_bytes 1, bos "u1"); (addr_bytes 3, bos "u3")];
             Announce exB1 [(1, bos "u1")]; Wire exB1 [(addr_bytes 1, bos "u1")]] [[]; [exP1]; [exB1]; []] [] [[1]; [3]]])
  = ["announce:self"; "announce:bidder"]%string
  /\ case_violations (mkCase 0 0 [] [] [Connected exP1 exLk []; Gossip exB1 true [(addr_bytes 1, bos "u1")]]
     [mkObs [] [[]; [exP1]; []; []] [] [[1]; []]; mkObs [Dial (bos "u1")] [[]; [exP1]; []; []] [] [[1]; []]])
  = ["gossip:dialled-known"]%string
  /\ case_violations (mkCase 0 0 [] [] [Connected exP1 exLk []; Disconnected exP1]
     [mkObs [] [[]; [exP1]; []; []] [] [[1]; []]; mkObs [] [[]; [exP1]; []; []] [] [[1]; []]])
  = ["view"]%string
  /\ (* the debug API keeps reporting a provider after its disconnect although GetPeers is right *)
     case_violations (mkCase 0 0 [] [] [Connected exP1 exLk []; Disconnected exP1]
     [mkObs [] [[]; [exP1]; []; []] [] [[1]; []]; mkObs [] [[]; []; []; []] [] [[1]; []]])
  = ["view"]%string
  /\ (* a concurrent run that got stuck, and one that ended in the wrong provider set *)
     case_violations (mkCase 0 1 [] [] [Connected exP1 exLk []] []) = ["view:hang"]%string
  /\ case_violations (mkCase 0 1 [] [] [Connected exP1 exLk []; Disconnected exP1]
        [mkObs [] [[]; [exP1]; []; []] [] [[1]; []]]) = ["view"]%string.
Proof. repeat split; reflexivity. Qed.
