(* Lemmas about lib/Varint.v: varint, tag and field-list round trips. *)
From Coq Require Import String List NArith Bool Lia Arith.
From MevVerif Require Import lib.Bytes lib.Varint proofs.Bytes_proofs.
Import ListNotations.
Open Scope N_scope.

(* --- varint ---------------------------------------------------------------------------- *)
Lemma varint_enc_n_S k v :
  varint_enc_n (S k) v = if v <? 128 then [v] else (128 + v mod 128) :: varint_enc_n k (v / 128).
Proof. reflexivity. Qed.

Lemma varint_dec_n_S k b r :
  varint_dec_n (S k) (b :: r) =
  if b <? 128 then
    (match k with O => if 1 <? b then None else Some (b, r) | S _ => Some (b, r) end)
  else match varint_dec_n k r with
       | Some (v, r') => Some ((b - 128) + 128 * v, r')
       | None => None
       end.
Proof. reflexivity. Qed.

Lemma varint_dec_enc_n k : forall v rest,
  v < 2 * 128 ^ N.of_nat k ->
  varint_dec_n (S k) (varint_enc_n (S k) v ++ rest) = Some (v, rest).
Proof.
  induction k as [|j IH]; intros v rest Hv.
  - change (128 ^ N.of_nat 0) with 1 in Hv.
    rewrite varint_enc_n_S. destruct (v <? 128) eqn:E; [|apply N.ltb_ge in E; lia].
    cbn [app]. rewrite varint_dec_n_S, E.
    destruct (1 <? v) eqn:E1; [apply N.ltb_lt in E1; lia|reflexivity].
  - rewrite varint_enc_n_S. destruct (v <? 128) eqn:E.
    + cbn [app]. rewrite varint_dec_n_S, E. reflexivity.
    + apply N.ltb_ge in E. rewrite <- app_comm_cons, varint_dec_n_S.
      assert (Hb : 128 + v mod 128 <? 128 = false) by (apply N.ltb_ge; lia).
      rewrite Hb. rewrite IH.
      * f_equal. f_equal. pose proof (N.div_mod v 128 ltac:(lia)). lia.
      * rewrite Nat2N.inj_succ, N.pow_succ_r' in Hv.
        apply N.div_lt_upper_bound; lia.
Qed.

Lemma two64_eq : two64 = 2 * 128 ^ N.of_nat 9.
Proof. reflexivity. Qed.

Theorem varint_dec_enc v rest :
  v < two64 -> varint_dec (varint_enc v ++ rest) = Some (v, rest).
Proof. intros H. unfold varint_dec, varint_enc. apply varint_dec_enc_n. rewrite <- two64_eq. exact H. Qed.

Lemma varint_enc_n_nonempty k v : varint_enc_n (S k) v <> [].
Proof. rewrite varint_enc_n_S. destruct (v <? 128); discriminate. Qed.

Lemma varint_enc_nonempty v : varint_enc v <> [].
Proof. apply varint_enc_n_nonempty. Qed.

Lemma varint_enc_n_length k v : (length (varint_enc_n k v) <= k)%nat.
Proof.
  revert v. induction k as [|k IH]; intros v; cbn [varint_enc_n length]; [lia|].
  destruct (v <? 128); cbn [length]; [lia|]. specialize (IH (v / 128)). lia.
Qed.

Lemma varint_enc_length v : (1 <= length (varint_enc v) <= 10)%nat.
Proof.
  split; [|apply varint_enc_n_length].
  pose proof (varint_enc_nonempty v). destruct (varint_enc v); [congruence|cbn; lia].
Qed.

Lemma varint_enc_n_wf k v : wf_bytes (varint_enc_n k v).
Proof.
  revert v. induction k as [|k IH]; intros v; cbn [varint_enc_n]; [constructor|].
  destruct (v <? 128) eqn:E.
  - apply N.ltb_lt in E. constructor; [lia|constructor].
  - constructor; [|apply IH]. pose proof (N.mod_upper_bound v 128 ltac:(lia)). lia.
Qed.

Lemma varint_enc_wf v : wf_bytes (varint_enc v).
Proof. apply varint_enc_n_wf. Qed.

(* the first byte of an encoding below 128 is the value itself (used for the frame prefix) *)
Lemma varint_enc_small v : v < 128 -> varint_enc v = [v].
Proof. intros H. unfold varint_enc. rewrite varint_enc_n_S. apply N.ltb_lt in H. rewrite H. reflexivity. Qed.

Lemma varint_dec_n_shrinks n : forall l v r,
  varint_dec_n n l = Some (v, r) -> (length r < length l)%nat.
Proof.
  induction n as [|k IH]; intros l v r H; [discriminate|].
  destruct l as [|b t]; [discriminate|]. rewrite varint_dec_n_S in H.
  destruct (b <? 128).
  - destruct k; [destruct (1 <? b); [discriminate|]|]; injection H as <- <-; cbn; lia.
  - destruct (varint_dec_n k t) as [[v' r']|] eqn:E; [|discriminate].
    injection H as <- <-. apply IH in E. cbn. lia.
Qed.

Lemma varint_dec_shrinks l v r : varint_dec l = Some (v, r) -> (length r < length l)%nat.
Proof. apply varint_dec_n_shrinks. Qed.

(* decoded values always fit 64 bits (for well-formed bytes) *)
Lemma varint_dec_n_bound n : forall l v r, wf_bytes l ->
  varint_dec_n n l = Some (v, r) -> v < 2 * 128 ^ N.of_nat (pred n) /\ (n <> 0)%nat.
Proof.
  induction n as [|k IH]; intros l v r W H; [discriminate|].
  destruct l as [|b t]; [discriminate|]. rewrite varint_dec_n_S in H.
  inversion W as [|? ? Hb Wt]; subst. cbn [pred]. split; [|discriminate].
  destruct (b <? 128) eqn:E.
  - apply N.ltb_lt in E. destruct k.
    + destruct (1 <? b) eqn:E1; [discriminate|]. apply N.ltb_ge in E1. injection H as <- <-.
      change (128 ^ N.of_nat 0) with 1. lia.
    + injection H as <- <-. rewrite Nat2N.inj_succ, N.pow_succ_r'.
      assert (1 <= 128 ^ N.of_nat k) by (apply N.lt_pred_le, N.neq_0_lt_0, N.pow_nonzero; lia). nia.
  - apply N.ltb_ge in E. destruct (varint_dec_n k t) as [[v' r']|] eqn:E2; [|discriminate].
    injection H as <- <-. destruct (IH _ _ _ Wt E2) as [Hv Hk].
    destruct k as [|j]; [congruence|]. cbn [pred] in Hv.
    rewrite Nat2N.inj_succ, N.pow_succ_r'.
    change (match v' with 0 => 0 | N.pos q => N.pos q~0~0~0~0~0~0~0 end) with (128 * v'). lia.
Qed.

Lemma varint_dec_bound l v r : wf_bytes l -> varint_dec l = Some (v, r) -> v < two64.
Proof. intros W H. destruct (varint_dec_n_bound 10 l v r W H) as [Hv _]. exact Hv. Qed.

(* --- firstn / skipn helpers --------------------------------------------------------------- *)
Lemma firstn_app_exact {A} (a b : list A) : firstn (length a) (a ++ b) = a.
Proof. rewrite firstn_app, Nat.sub_diag, firstn_all. cbn. apply app_nil_r. Qed.

Lemma skipn_app_exact {A} (a b : list A) : skipn (length a) (a ++ b) = b.
Proof. rewrite skipn_app, Nat.sub_diag, skipn_all. reflexivity. Qed.

Lemma take_app n a b : length a = n -> take n (a ++ b) = Some (a, b).
Proof.
  intros <-. unfold take. rewrite app_length.
  destruct (Nat.ltb (length a + length b) (length a)) eqn:E; [apply Nat.ltb_lt in E; lia|].
  rewrite firstn_app_exact, skipn_app_exact. reflexivity.
Qed.

Lemma take_shrinks n l a r : take n l = Some (a, r) -> (length r + n = length l)%nat.
Proof.
  unfold take. destruct (Nat.ltb (length l) n) eqn:E; [discriminate|]. apply Nat.ltb_ge in E.
  intros [= <- <-]. rewrite skipn_length. lia.
Qed.

(* --- one field ------------------------------------------------------------------------------ *)
Lemma tag_split num wt : wt < 8 -> (8 * num + wt) / 8 = num /\ (8 * num + wt) mod 8 = wt.
Proof.
  intros H. split.
  - rewrite N.mul_comm, N.div_add_l by lia. rewrite N.div_small by lia. lia.
  - rewrite N.mul_comm, N.add_comm, N.mod_add by lia. apply N.mod_small; lia.
Qed.

Lemma wtype_lt8 w : wtype w < 8.
Proof. destruct w; cbn; lia. Qed.

Lemma max_field_two64 num : num <= max_field_num -> 8 * num + 7 < two64.
Proof. unfold max_field_num, two64. lia. Qed.

Theorem dec_field_enc f rest : wf_field f -> dec_field (enc_field f ++ rest) = FOk f rest.
Proof.
  destruct f as [num w]. intros (H1 & H2 & Hw). cbn [fst snd] in *.
  unfold dec_field, enc_field, enc_tag. cbn [fst snd]. rewrite <- app_assoc.
  pose proof (wtype_lt8 w) as Hlt. pose proof (max_field_two64 num H2) as Hm.
  rewrite varint_dec_enc by lia.
  destruct (tag_split num (wtype w) Hlt) as [-> ->].
  assert (E0 : (num =? 0) = false) by (apply N.eqb_neq; lia).
  assert (E1 : (max_field_num <? num) = false) by (apply N.ltb_ge; lia).
  rewrite E0, E1. cbn [orb].
  destruct w as [v|b|b|b]; cbn [wtype enc_val wf_val] in *; cbn [N.eqb Pos.eqb].
  - rewrite varint_dec_enc by exact Hw. reflexivity.
  - rewrite take_app by exact Hw. reflexivity.
  - unfold enc_len. rewrite <- app_assoc. rewrite varint_dec_enc by exact Hw.
    unfold len_of at 1. rewrite app_length.
    assert (E2 : (N.of_nat (length b + length rest) <? len_of b) = false)
      by (apply N.ltb_ge; unfold len_of; lia).
    rewrite E2. unfold len_of. rewrite Nat2N.id, firstn_app_exact, skipn_app_exact. reflexivity.
  - rewrite take_app by exact Hw. reflexivity.
Qed.

Lemma dec_field_shrinks l f rest : dec_field l = FOk f rest -> (length rest < length l)%nat.
Proof.
  unfold dec_field. destruct (varint_dec l) as [[tag r]|] eqn:E; [|discriminate].
  apply varint_dec_shrinks in E.
  destruct ((tag / 8 =? 0) || (max_field_num <? tag / 8)); [discriminate|].
  destruct (tag mod 8 =? 0).
  { destruct (varint_dec r) as [[v r']|] eqn:E2; [|discriminate]. apply varint_dec_shrinks in E2.
    intros [= <- <-]. lia. }
  destruct (tag mod 8 =? 1).
  { destruct (take 8 r) as [[b r']|] eqn:E2; [|discriminate]. apply take_shrinks in E2.
    intros [= <- <-]. lia. }
  destruct (tag mod 8 =? 2).
  { destruct (varint_dec r) as [[n r']|] eqn:E2; [|discriminate]. apply varint_dec_shrinks in E2.
    destruct (len_of r' <? n); [discriminate|]. intros [= <- <-]. rewrite skipn_length. lia. }
  destruct (tag mod 8 =? 5).
  { destruct (take 4 r) as [[b r']|] eqn:E2; [|discriminate]. apply take_shrinks in E2.
    intros [= <- <-]. lia. }
  destruct (tag mod 8 =? 3); discriminate.
Qed.

Lemma enc_field_nonempty f : enc_field f <> [].
Proof.
  unfold enc_field, enc_tag. pose proof (varint_enc_nonempty (8 * fst f + wtype (snd f))) as H.
  destruct (varint_enc _); [congruence|discriminate].
Qed.

(* --- field lists ------------------------------------------------------------------------------ *)
Lemma dec_fields_n_step k l : l <> [] ->
  dec_fields_n (S k) l =
  match dec_field l with
  | FBad => WBad
  | FGroup => WGroupSeen
  | FOk f rest => match dec_fields_n k rest with WFields fs => WFields (f :: fs) | r => r end
  end.
Proof. destruct l; [congruence|reflexivity]. Qed.

Lemma dec_fields_n_enc fs : forall fuel, Forall wf_field fs ->
  (length (enc_fields fs) <= fuel)%nat -> dec_fields_n fuel (enc_fields fs) = WFields fs.
Proof.
  induction fs as [|f fs IH]; intros fuel W Hf.
  - destruct fuel; reflexivity.
  - inversion W as [|? ? Wf Wr]; subst. cbn [enc_fields] in *.
    assert (Hne : enc_field f ++ enc_fields fs <> []).
    { intros E. apply app_eq_nil in E. destruct E as [E _]. exact (enc_field_nonempty f E). }
    assert (Hl : (1 <= length (enc_field f))%nat).
    { pose proof (enc_field_nonempty f) as Hn. destruct (enc_field f); [congruence|cbn; lia]. }
    rewrite app_length in Hf.
    destruct fuel as [|k]; [lia|].
    rewrite dec_fields_n_step by exact Hne.
    rewrite (dec_field_enc f (enc_fields fs) Wf).
    rewrite IH; [reflexivity|exact Wr|lia].
Qed.

Theorem dec_fields_enc fs : Forall wf_field fs -> dec_fields (enc_fields fs) = WFields fs.
Proof. intros W. unfold dec_fields. apply dec_fields_n_enc; [exact W|lia]. Qed.

Lemma enc_fields_app a b : enc_fields (a ++ b) = enc_fields a ++ enc_fields b.
Proof. induction a as [|f a IH]; cbn [app enc_fields]; [reflexivity|]. rewrite IH, app_assoc. reflexivity. Qed.

(* a length below 2^64 is always a well-formed length-delimited value *)
Lemma wf_len_field num b : 1 <= num -> num <= max_field_num -> len_of b < two64 -> wf_field (num, WLen b).
Proof. intros. repeat split; assumption. Qed.

(* --- utf8 --------------------------------------------------------------------------------------- *)
Lemma ascii_utf8_valid l : Forall (fun b => b < 128) l -> utf8_valid l = true.
Proof.
  induction 1 as [|b l Hb _ IH]; [reflexivity|]. cbn [utf8_valid].
  apply N.ltb_lt in Hb. rewrite Hb. exact IH.
Qed.

Example utf8_examples :
  utf8_valid (x "68c3a96c6c6f20e4b896e7958c20f09f9880") = true /\   (* "hello" with accents, CJK, emoji *)
  utf8_valid (x "c080") = false /\                                   (* overlong NUL *)
  utf8_valid (x "eda080") = false /\                                 (* surrogate *)
  utf8_valid (x "f4908080") = false /\                               (* above U+10FFFF *)
  utf8_valid (x "ff") = false /\ utf8_valid (x "e4b8") = false.
Proof. vm_compute. repeat split. Qed.

Example varint_examples :
  varint_enc 0 = x "00" /\ varint_enc 300 = x "ac02" /\
  varint_enc (two64 - 1) = x "ffffffffffffffffff01" /\
  varint_dec (x "8000") = Some (0, []) /\                             (* non-minimal spelling accepted *)
  varint_dec (x "ffffffffffffffffff02") = None /\                     (* 64-bit overflow *)
  varint_dec (x "8080808080808080808000") = None /\                   (* more than ten bytes *)
  varint_dec (x "80") = None.
Proof. vm_compute. repeat split. Qed.
