(* Composition of the handleBid machine with the signer model (model/Signer.v, model/Eip712.v):
   the VerifyBid answer and the allowance answer of every Arrive event are instantiated by
   [Signer.verify_bid K cr] on the bid as read from the wire and by an allowance function of the
   recovered signer address. *)
From Coq Require Import String List NArith ZArith Bool.
From MevVerif Require Import lib.Bytes model.Eip712 model.Signer proofs.Signer_proofs.
From MevVerif Require Import model.Rules model.ProviderSvc model.PreconfProvider proofs.PreconfProvider_proofs.
Import ListNotations.
Open Scope N_scope.

(* the bid as the handler uses it: nil and empty digest / signature are the same byte string *)
Definition of_wire (w : Eip712.bid) : ProviderSvc.bid :=
  {| ProviderSvc.b_tx := Eip712.b_tx w; ProviderSvc.b_amt := Eip712.b_amt w; ProviderSvc.b_bn := Eip712.b_bn w;
     ProviderSvc.b_ds := Eip712.b_ds w; ProviderSvc.b_de := Eip712.b_de w;
     ProviderSvc.b_dig := obytes (Eip712.b_dig w); ProviderSvc.b_sig := obytes (Eip712.b_sig w) |}.

(* VerifyBid as the signer model computes it; a panic of the recovery library crashes the node and is
   treated as a refusal here (no effect can follow either way) *)
Definition verify_of (x : outcome bytes) : verify_res :=
  match x with Ok a => VOk a | _ => VErr end.

(* the oracle record of a handler whose ReadMsg result is w (None: read error) and whose store
   answers allowf for the recovered signer *)
Definition oracle_of (K : bytes -> bytes) (cr : crypto) (allowf : bytes -> bool) (w : option Eip712.bid) : arrive_oracle :=
  {| o_read := option_map of_wire w;
     o_verify := match w with Some wb => verify_of (verify_bid K cr wb) | None => VErr end;
     o_allow := match w with
                | Some wb => match verify_bid K cr wb with Ok a => allowf a | _ => false end
                | None => false
                end |}.

Definition signed_history (K : bytes -> bytes) (cr : crypto) (evs : list event) : Prop :=
  forall h role o, In (Arrive h role o) evs -> exists allowf w, o = oracle_of K cr allowf w.

Theorem gate_signed K cr addr evs e :
  signed_history K cr evs ->
  In e (heff (run K rules_validators (node_wiring addr) evs)) -> is_commit_effect e = true ->
  exists role allowf w d sg a,
    In (Arrive (eff_handler e) role (oracle_of K cr allowf (Some w))) evs /\
    role = role_bidder /\
    (* the presented digest is the EIP-712 hash of exactly the bid's fields, the 65-byte signature
       recovers (v brought from 27/28 to 0/1) to a key that passes the low-S check, a is its address *)
    Eip712.b_dig w = Some d /\ Eip712.b_sig w = Some sg /\ bid_hash K w = Ok d /\ length sg = 65%nat /\
    (exists v pk, nth_error sg 64 = Some v /\ recover cr d (firstn 64 sg ++ [v_to01 v]) = Ok pk /\
                  verify_rs cr pk d (firstn 64 sg) = true /\ a = addr_of cr pk) /\
    (* the allowance check was made for that signer and said yes *)
    allowf a = true /\
    (* format rules on the bid's own fields *)
    provider_bid_ok (split comma (Eip712.b_tx w)) (Eip712.b_amt w) (Eip712.b_bn w) d (Eip712.b_ds w) (Eip712.b_de w) = true /\
    (* the engine accepted exactly this digest, and the handler received that status *)
    (exists sid, In (Lookup sid d status_accepted) evs) /\
    In (HTake (eff_handler e) status_accepted) (heff (run K rules_validators (node_wiring addr) evs)) /\
    (forall h c, e = HWrite h c -> c_bid c = of_wire w).
Proof.
  intros Hs Hin Hc.
  destruct (gate_node K addr evs e Hin Hc) as (role & o & b & a & HA & Hr & Hrd & Hv & Hal & Hf & Hl & Ht & Hw).
  destruct (Hs _ _ _ HA) as (allowf & w & ->). cbn in Hrd, Hv, Hal.
  destruct w as [wb|]; [|discriminate]. cbn in Hrd. injection Hrd as <-.
  destruct (verify_bid K cr wb) as [a'| |] eqn:Ev; cbn in Hv; try discriminate. injection Hv as ->.
  apply (verify_bid_iff K cr) in Ev. destruct Ev as (d & sg & Hd & Hsg & Hh & Hlen & Hrec).
  exists role, allowf, wb, d, sg, a. cbn in Hf, Hl. rewrite Hd in Hf, Hl. cbn in Hf, Hl.
  split; [exact HA|]. split; [exact Hr|]. split; [exact Hd|]. split; [exact Hsg|]. split; [exact Hh|].
  split; [exact Hlen|]. split; [exact Hrec|]. split; [exact Hal|]. split; [exact Hf|]. split; [exact Hl|].
  split; [exact Ht|exact Hw].
Qed.

(* non-vacuity: an oracle record built this way that passes the gates exists as soon as the crypto
   record has one verifying (digest, signature) pair -- here a toy record accepting everything *)
Definition toy_crypto : crypto :=
  {| recover := fun _ _ => Ok [7]; verify_rs := fun _ _ _ => true; addr_of := fun pk => pk; sign := fun _ => Ok (repeat 0 65) |}.
Definition K1 : bytes -> bytes := fun _ => [1; 2; 3; 4].
Definition wire0 : Eip712.bid :=
  {| Eip712.b_tx := repeat 97 64; Eip712.b_amt := [53]; Eip712.b_bn := 7%Z; Eip712.b_ds := 8%Z; Eip712.b_de := 9%Z;
     Eip712.b_dig := Some [1; 2; 3; 4]; Eip712.b_sig := Some (repeat 27 65) |}.
Definition signed_run : list event :=
  [Arrive 1 2%Z (oracle_of K1 toy_crypto (fun _ => true) (Some wire0)); EngineTake 1; Lookup 0 [1; 2; 3; 4] 1%Z; Callback 0;
   TakeDecision 1 (KOk [4; 4] [6]); StoreRes 1 true; WriteRes 1 true].

Example ex_signed_history : signed_history K1 toy_crypto signed_run.
Proof.
  intros h role o [H|[H|[H|[H|[H|[H|[H|[]]]]]]]]; try discriminate.
  injection H as _ _ <-. now exists (fun _ => true), (Some wire0).
Qed.

Example ex_signed_commits :
  verify_bid K1 toy_crypto wire0 = Ok [7] /\
  existsb is_commit_effect (heff (run K1 rules_validators (node_wiring (repeat 7 20)) signed_run)) = true.
Proof. vm_compute. split; reflexivity. Qed.
