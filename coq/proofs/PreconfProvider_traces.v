(* Complete classification of every handler's effect trace by its control state (model/PreconfProvider.v),
   and its consequences: a failed submission never leads to a commitment; the return class and the
   exact trace of every refusal; returned handlers are final. *)
From Coq Require Import String List NArith ZArith Bool Lia.
From MevVerif Require Import lib.Bytes lib.Abi proofs.Bytes_proofs model.Rules model.ProviderSvc
  proofs.ProviderSvc_proofs proofs.Rules_proofs model.PreconfProvider proofs.PreconfProvider_proofs.
Import ListNotations.
Open Scope N_scope.
Arguments nset {A} k v l : simpl never.
Arguments ndel {A} k l : simpl never.
Arguments pdel d l : simpl never.
Arguments calldata keccak amt c : simpl never.

Section Traces.
Variable K : bytes -> bytes.
Variable V : validators.
Variable W : wiring.

Definition of_h (h : N) (e : heffect) : bool := eff_handler e =? h.
(* the effects of handler h, newest first *)
Definition hist (h : N) (s : st) : list heffect := filter (of_h h) (heff s).

Definition storing_trace (h : N) (c : preconf) (amt : Z) : list heffect :=
  [HSend h (w_contract W) (calldata K amt c); HSign h (c_dig c); HTake h status_accepted].
Definition writing_trace (h : N) (c : preconf) (l : list heffect) : Prop :=
  (w_da_contract W = true /\ exists amt, parse_bigint (b_amt (c_bid c)) = Some amt /\
     l = HWrite h c :: HStored h true :: storing_trace h c amt) \/
  (w_da_contract W = false /\ l = [HWrite h c; HSign h (c_dig c); HTake h status_accepted]).

(* the complete effect trace of a handler that has returned with class r *)
Definition done_trace (h : N) (r : retclass) (l : list heffect) : Prop :=
  match r with
  | RRole | RRead | RVerify | RAllow | RFormat | RCtx => l = [HReturn h r]
  | RRejected => l = [HReturn h r; HTake h status_rejected]
  | RNil => exists stv, stv <> status_accepted /\ stv <> status_rejected /\ l = [HReturn h r; HTake h stv]
  | RConstruct => l = [HReturn h r; HTake h status_accepted] \/
                  exists d, l = [HReturn h r; HSign h d; HTake h status_accepted]
  | RPanic => exists d, l = [HReturn h r; HSign h d; HTake h status_accepted]
  | RStore => exists c amt, w_da_contract W = true /\ parse_bigint (b_amt (c_bid c)) = Some amt /\
                            l = HReturn h r :: HStored h false :: storing_trace h c amt
  | RWritten | RWriteErr => exists c l', writing_trace h c l' /\ l = HReturn h r :: l'
  end.

Definition shape (h : N) (v : option hstate) (l : list heffect) : Prop :=
  match v with
  | None | Some (HInSvc _ _) => l = []
  | Some (HStoring c) => w_da_contract W = true /\ exists amt, parse_bigint (b_amt (c_bid c)) = Some amt /\
                                                               l = storing_trace h c amt
  | Some (HWriting c) => writing_trace h c l
  | Some (HDone r) => done_trace h r l
  end.

Definition not_done (v : option hstate) : Prop := forall r, v <> Some (HDone r).

(* classification of the refusals in front of the engine *)
Definition GInv (s : st) : Prop :=
  forall h role o, nget h (arr s) = Some (role, o) ->
    (forall r, gate_class role o = Some r -> nget h (hs s) = Some (HDone r)) /\
    (forall b, gate_class role o = None -> o_read o = Some b -> w_processor_api W = true ->
               vbid V (to_engine b) = false -> nget h (hs s) = Some (HDone RFormat)).

Record XInv (s : st) : Prop := {
  x_shape : forall h, shape h (nget h (hs s)) (hist h s);
  x_gates : GInv s;
  x_arr : forall h ro, nget h (arr s) = Some ro -> nget h (hs s) <> None
}.

Lemma hist_app_own h new s s' :
  heff s' = new ++ heff s -> Forall (fun x => eff_handler x = h) new -> hist h s' = new ++ hist h s.
Proof.
  intros E F. unfold hist. rewrite E, filter_app. f_equal. clear E.
  induction F as [|x l Hx F IH]; [reflexivity|]. cbn [filter]. unfold of_h at 1. rewrite Hx, N.eqb_refl. now rewrite IH.
Qed.

Lemma hist_app_other h h' new s s' :
  heff s' = new ++ heff s -> Forall (fun x => eff_handler x = h) new -> h' <> h -> hist h' s' = hist h' s.
Proof.
  intros E F Hne. unfold hist. rewrite E, filter_app.
  replace (filter (of_h h') new) with (@nil heffect); [reflexivity|]. clear E.
  induction F as [|x l Hx F IH]; [reflexivity|]. cbn [filter]. unfold of_h at 1. rewrite Hx.
  destruct (N.eqb_spec h h') as [->|_]; [congruence|exact IH].
Qed.

(* one handler h moves to state v and emits the effects new *)
Lemma xinv_update s s' h v new :
  XInv s -> hs s' = nset h v (hs s) -> heff s' = new ++ heff s -> arr s' = arr s ->
  Forall (fun x => eff_handler x = h) new -> not_done (nget h (hs s)) -> nget h (hs s) <> None ->
  shape h (Some v) (new ++ hist h s) -> XInv s'.
Proof.
  intros [Sh G A] Eh Ee Ea F Nd Nn Hv. constructor.
  - intros h'. rewrite Eh, nget_nset. destruct (N.eqb_spec h' h) as [->|Hne].
    + rewrite (hist_app_own h new s s' Ee F). exact Hv.
    + rewrite (hist_app_other h h' new s s' Ee F Hne). apply Sh.
  - intros h' role o. rewrite Ea, Eh, nget_nset. intros Ha. destruct (G _ _ _ Ha) as (G1 & G2).
    destruct (N.eqb_spec h' h) as [->|Hne]; [|split; assumption]. split.
    + intros r Hg. exfalso. apply (Nd r). now apply G1.
    + intros b H1 H2 H3 H4. exfalso. apply (Nd RFormat). now apply (G2 b).
  - intros h' ro. rewrite Ea, Eh, nget_nset. intros Ha. destruct (h' =? h); [discriminate|now apply (A _ _ Ha)].
Qed.

Lemma xinv_same s s' : XInv s -> hs s' = hs s -> heff s' = heff s -> arr s' = arr s -> XInv s'.
Proof.
  intros [Sh G A] Eh Ee Ea. constructor.
  - intros h. unfold hist. rewrite Eh, Ee. apply Sh.
  - intros h role o. rewrite Ea, Eh. apply G.
  - intros h ro. rewrite Ea, Eh. apply A.
Qed.

Lemma xinv_init : XInv init.
Proof. constructor; cbn; [intros h; reflexivity|intros h role o H; discriminate|intros h ro H; discriminate]. Qed.

Ltac own := repeat constructor.
Ltac nd Hh := intros r0; rewrite Hh; discriminate.
Ltac nn Hh := rewrite Hh; discriminate.

Lemma xinv_on_status s h b a stv k :
  XInv s -> nget h (hs s) = Some (HInSvc b a) -> XInv (on_status K W h b stv k s).
Proof.
  intros X Hh. pose proof (x_shape _ X h) as Sh. rewrite Hh in Sh. cbn in Sh.
  unfold on_status.
  destruct (Z.eqb_spec stv status_rejected) as [->|Nr].
  { eapply (xinv_update s _ h (HDone RRejected) [HReturn h RRejected; HTake h status_rejected]);
      [exact X|reflexivity|reflexivity|reflexivity|own|nd Hh|nn Hh|]. rewrite Sh. reflexivity. }
  destruct (Z.eqb_spec stv status_accepted) as [->|Na].
  2:{ eapply (xinv_update s _ h (HDone RNil) [HReturn h RNil; HTake h stv]);
        [exact X|reflexivity|reflexivity|reflexivity|own|nd Hh|nn Hh|]. rewrite Sh. cbn. exists stv. auto. }
  destruct k as [|d|d sg].
  - eapply (xinv_update s _ h (HDone RConstruct) [HReturn h RConstruct; HTake h status_accepted]);
      [exact X|reflexivity|reflexivity|reflexivity|own|nd Hh|nn Hh|]. rewrite Sh. cbn. now left.
  - eapply (xinv_update s _ h (HDone RConstruct) [HReturn h RConstruct; HSign h d; HTake h status_accepted]);
      [exact X|reflexivity|reflexivity|reflexivity|own|nd Hh|nn Hh|]. rewrite Sh. cbn. right. now exists d.
  - destruct (w_da_contract W) eqn:Hda.
    + destruct (parse_bigint (b_amt b)) as [amt|] eqn:Hp.
      * set (c := {| c_bid := b; c_dig := d; c_sig := sg |}).
        eapply (xinv_update s _ h (HStoring c) (storing_trace h c amt));
          [exact X|reflexivity|reflexivity|reflexivity|own|nd Hh|nn Hh|]. rewrite Sh, app_nil_r. cbn.
        split; [exact Hda|]. exists amt. split; [exact Hp|reflexivity].
      * eapply (xinv_update s _ h (HDone RPanic) [HReturn h RPanic; HSign h d; HTake h status_accepted]);
          [exact X|reflexivity|reflexivity|reflexivity|own|nd Hh|nn Hh|]. rewrite Sh. cbn. now exists d.
    + set (c := {| c_bid := b; c_dig := d; c_sig := sg |}).
      eapply (xinv_update s _ h (HWriting c) [HWrite h c; HSign h d; HTake h status_accepted]);
        [exact X|reflexivity|reflexivity|reflexivity|own|nd Hh|nn Hh|]. rewrite Sh. cbn. right. split; [exact Hda|reflexivity].
Qed.

Lemma xinv_set_svc s x : XInv s -> XInv (set_svc x s).
Proof. intros X. apply (xinv_same s); [exact X|reflexivity|reflexivity|reflexivity]. Qed.

Lemma xinv_step s e : XInv s -> XInv (step K V W s e).
Proof.
  intros X. unfold step. destruct (panicked (svc s)); [exact X|].
  destruct e as [h role o|h|h|sid d stv|sid|sid|h k|h|h ok|h ok]; try (apply xinv_set_svc; exact X).
  - (* Arrive *) unfold arrive.
    destruct (nget h (hs s)) eqn:Hh; [exact X|]. destruct (nget h (calls (svc s))) eqn:Hc; [exact X|].
    pose proof (x_shape _ X h) as Sh. rewrite Hh in Sh. cbn in Sh.
    assert (Ha : nget h (arr s) = None).
    { destruct (nget h (arr s)) eqn:Ea; [|reflexivity]. exfalso. apply (x_arr _ X _ _ Ea). exact Hh. }
    (* generic: the new handler enters state v with effects new *)
    assert (New : forall s' v new,
              hs s' = nset h v (hs s) -> heff s' = new ++ heff s -> arr s' = nset h (role, o) (arr s) ->
              Forall (fun x => eff_handler x = h) new -> shape h (Some v) new ->
              ((forall r, gate_class role o = Some r -> v = HDone r) /\
               (forall b, gate_class role o = None -> o_read o = Some b -> w_processor_api W = true ->
                          vbid V (to_engine b) = false -> v = HDone RFormat)) ->
              XInv s').
    { intros s' v new Eh Ee Ea F Hv (Gv1 & Gv2). destruct X as [ShX G A]. constructor.
      - intros h'. rewrite Eh, nget_nset. destruct (N.eqb_spec h' h) as [->|Hne].
        + rewrite (hist_app_own h new s s' Ee F), Sh, app_nil_r. exact Hv.
        + rewrite (hist_app_other h h' new s s' Ee F Hne). apply ShX.
      - intros h' role' o'. rewrite Ea, Eh, !nget_nset. destruct (N.eqb_spec h' h) as [->|Hne].
        + intros [= <- <-]. split; [intros r Hg; now rewrite (Gv1 r Hg)|intros b H1 H2 H3 H4; now rewrite (Gv2 b H1 H2 H3 H4)].
        + apply G.
      - intros h' ro. rewrite Ea, Eh, !nget_nset. destruct (h' =? h); [discriminate|apply A]. }
    destruct (gate_class role o) as [r|] eqn:Hg.
    { apply (New _ (HDone r) [HReturn h r]); [reflexivity|reflexivity|reflexivity|own| |].
      - unfold gate_class in Hg. destruct (negb (role =? role_bidder)%Z); [injection Hg as <-; reflexivity|].
        destruct (o_read o); [|injection Hg as <-; reflexivity].
        destruct (o_verify o); [|injection Hg as <-; reflexivity].
        destruct (o_allow o); [discriminate|injection Hg as <-; reflexivity].
      - split; [intros r0 [= ->]; reflexivity|intros b0 H; discriminate]. }
    destruct (o_read o) as [b|] eqn:Hr.
    2:{ exfalso. unfold gate_class in Hg. rewrite Hr in Hg. destruct (negb (role =? role_bidder)%Z); discriminate. }
    destruct (w_processor_api W) eqn:Hw.
    + destruct (vbid V (to_engine b)) eqn:Hvb.
      * apply (New _ (HInSvc b false) []); [reflexivity|reflexivity|reflexivity|own|reflexivity|].
        split; [intros r0 H; discriminate|intros b0 _ [= <-] _ H; congruence].
      * apply (New _ (HDone RFormat) [HReturn h RFormat]); [reflexivity|reflexivity|reflexivity|own|reflexivity|].
        split; [intros r0 H; discriminate|reflexivity].
    + apply (New _ (HInSvc b true) []); [reflexivity|reflexivity|reflexivity|own|reflexivity|].
      split; [intros r0 H; discriminate|intros b0 _ _ H; discriminate].
  - (* EngineTake *) unfold engine_take. destruct (nget h (hs s)) as [[b [|]|c|c|r]|]; try exact X.
    apply xinv_set_svc; exact X.
  - (* Abandon *) unfold abandon_h. destruct (nget h (hs s)) as [[b [|]|c|c|r]|] eqn:Hh; try exact X.
    destruct (nget h (calls (svc s))) as [[b0|b0|b0|b0]|]; try exact X.
    pose proof (x_shape _ X h) as Sh. rewrite Hh in Sh. cbn in Sh.
    eapply (xinv_update s _ h (HDone RCtx) [HReturn h RCtx]);
      [exact X|reflexivity|reflexivity|reflexivity|own|nd Hh|nn Hh|]. rewrite Sh. reflexivity.
  - (* TakeDecision *) unfold take_decision. destruct (nget h (hs s)) as [[b [|]|c|c|r]|] eqn:Hh; try exact X.
    + eapply xinv_on_status; [exact X|exact Hh].
    + destruct (nget h (calls (svc s))) as [[b0|b0|b0|b0]|]; try exact X.
      destruct (chan_recv h (svc s)) as [[stv|] x]; [|exact X].
      eapply xinv_on_status; [apply xinv_set_svc; exact X|exact Hh].
  - (* DeadlineFire *) unfold deadline_fire. destruct (nget h (hs s)) as [[b [|]|c|c|r]|] eqn:Hh; try exact X;
      pose proof (x_shape _ X h) as Sh; rewrite Hh in Sh; cbn in Sh.
    + eapply (xinv_update s _ h (HDone RCtx) [HReturn h RCtx]);
        [exact X|reflexivity|reflexivity|reflexivity|own|nd Hh|nn Hh|]. rewrite Sh. reflexivity.
    + destruct (nget h (calls (svc s))) as [[b0|b0|b0|b0]|]; try exact X.
      eapply (xinv_update s _ h (HDone RCtx) [HReturn h RCtx]);
        [exact X|reflexivity|reflexivity|reflexivity|own|nd Hh|nn Hh|]. rewrite Sh. reflexivity.
  - (* StoreRes *) unfold store_res. destruct (nget h (hs s)) as [[b a|c|c|r]|] eqn:Hh; try exact X.
    pose proof (x_shape _ X h) as Sh. rewrite Hh in Sh. cbn in Sh. destruct Sh as (Hda & amt & Hp & Sh).
    destruct ok.
    + eapply (xinv_update s _ h (HWriting c) [HWrite h c; HStored h true]);
        [exact X|reflexivity|reflexivity|reflexivity|own|nd Hh|nn Hh|]. rewrite Sh. cbn. left.
      split; [exact Hda|]. exists amt. split; [exact Hp|reflexivity].
    + eapply (xinv_update s _ h (HDone RStore) [HReturn h RStore; HStored h false]);
        [exact X|reflexivity|reflexivity|reflexivity|own|nd Hh|nn Hh|]. rewrite Sh. cbn.
      exists c, amt. split; [exact Hda|]. split; [exact Hp|reflexivity].
  - (* WriteRes *) unfold write_res. destruct (nget h (hs s)) as [[b a|c|c|r]|] eqn:Hh; try exact X.
    pose proof (x_shape _ X h) as Sh. rewrite Hh in Sh. cbn in Sh.
    destruct ok.
    + eapply (xinv_update s _ h (HDone RWritten) [HReturn h RWritten]);
        [exact X|reflexivity|reflexivity|reflexivity|own|nd Hh|nn Hh|]. cbn. exists c, (hist h s). split; [exact Sh|reflexivity].
    + eapply (xinv_update s _ h (HDone RWriteErr) [HReturn h RWriteErr]);
        [exact X|reflexivity|reflexivity|reflexivity|own|nd Hh|nn Hh|]. cbn. exists c, (hist h s). split; [exact Sh|reflexivity].
Qed.

Lemma run_xinv evs : XInv (run K V W evs).
Proof.
  unfold run. assert (H : forall s, XInv s -> XInv (fold_left (step K V W) evs s)).
  { induction evs as [|e r IH]; cbn; intros s Hs; [exact Hs|]. apply IH, xinv_step, Hs. }
  apply H, xinv_init.
Qed.

(* ---- consequences of the trace classification ------------------------------------------------- *)
Lemma in_hist h s e : In e (hist h s) <-> In e (heff s) /\ eff_handler e = h.
Proof. unfold hist. rewrite filter_In. unfold of_h. now rewrite N.eqb_eq. Qed.

Theorem handler_trace evs h : shape h (nget h (hs (run K V W evs))) (hist h (run K V W evs)).
Proof. apply (x_shape _ (run_xinv evs)). Qed.

Ltac break :=
  repeat match goal with
         | H : _ /\ _ |- _ => destruct H
         | H : exists _, _ |- _ => destruct H
         | H : _ \/ _ |- _ => destruct H
         end.
Ltac trace_cases s h Sh :=
  pose proof (handler_trace s h) as Sh;
  destruct (nget h (hs (run K V W s))) as [[? ?|?|?|[]]|]; cbn in Sh; unfold writing_trace, storing_trace in *; break; subst.

(* 1(a): a failed submission -- the handler returns Internal ("failed to store commitment"), and no
   commitment is ever written by it *)
Theorem store_failure evs h :
  In (HStored h false) (heff (run K V W evs)) ->
  nget h (hs (run K V W evs)) = Some (HDone RStore) /\
  In (HReturn h RStore) (heff (run K V W evs)) /\
  forall c, ~ In (HWrite h c) (heff (run K V W evs)).
Proof.
  intros Hin. assert (Hh : In (HStored h false) (hist h (run K V W evs))) by (apply in_hist; auto).
  assert (Hw : forall c, In (HWrite h c) (heff (run K V W evs)) -> In (HWrite h c) (hist h (run K V W evs)))
    by (intros c Hc; apply in_hist; auto).
  assert (Hr : In (HReturn h RStore) (hist h (run K V W evs)) -> In (HReturn h RStore) (heff (run K V W evs)))
    by (intros Hc; apply in_hist in Hc; tauto).
  trace_cases evs h Sh;
    match goal with
    | E : hist h _ = _ |- _ => rewrite E in Hh, Hw, Hr; cbn in Hh, Hw, Hr
    end; try solve [exfalso; intuition discriminate].
  split; [reflexivity|]. split; [apply Hr; now left|]. intros c Hc. apply Hw in Hc. intuition discriminate.
Qed.

Lemma gate_class_range role o r :
  gate_class role o = Some r -> r = RRole \/ r = RRead \/ r = RVerify \/ r = RAllow.
Proof.
  unfold gate_class. destruct (negb (role =? role_bidder)%Z); [intros [= <-]; tauto|].
  destruct (o_read o); [|intros [= <-]; tauto]. destruct (o_verify o); [|intros [= <-]; tauto].
  destruct (o_allow o); [discriminate|intros [= <-]; tauto].
Qed.

(* 1(b): which return class each refusal gives, and that the handler's complete effect trace is that
   single return (newest first) *)
Theorem refusal_gate evs h role o r :
  nget h (arr (run K V W evs)) = Some (role, o) -> gate_class role o = Some r ->
  nget h (hs (run K V W evs)) = Some (HDone r) /\ hist h (run K V W evs) = [HReturn h r].
Proof.
  intros Ha Hg. destruct (x_gates _ (run_xinv evs) _ _ _ Ha) as (G1 & _). pose proof (G1 r Hg) as Hh.
  split; [exact Hh|]. pose proof (handler_trace evs h) as Sh. rewrite Hh in Sh. cbn in Sh.
  destruct (gate_class_range _ _ _ Hg) as [->|[->|[->| ->]]]; exact Sh.
Qed.

Theorem refusal_format evs h role o b :
  nget h (arr (run K V W evs)) = Some (role, o) -> gate_class role o = None -> o_read o = Some b ->
  w_processor_api W = true -> vbid V (to_engine b) = false ->
  nget h (hs (run K V W evs)) = Some (HDone RFormat) /\ hist h (run K V W evs) = [HReturn h RFormat].
Proof.
  intros Ha Hg Hr Hw Hv. destruct (x_gates _ (run_xinv evs) _ _ _ Ha) as (_ & G2).
  pose proof (G2 b Hg Hr Hw Hv) as Hh. split; [exact Hh|].
  pose proof (handler_trace evs h) as Sh. rewrite Hh in Sh. exact Sh.
Qed.

(* the engine said REJECTED: Internal "bid rejected", nothing else *)
Theorem refusal_reject evs h :
  In (HTake h status_rejected) (heff (run K V W evs)) ->
  nget h (hs (run K V W evs)) = Some (HDone RRejected) /\
  hist h (run K V W evs) = [HReturn h RRejected; HTake h status_rejected].
Proof.
  intros Hin. assert (Hh : In (HTake h status_rejected) (hist h (run K V W evs))) by (apply in_hist; auto).
  trace_cases evs h Sh;
    match goal with E : hist h _ = _ |- _ => rewrite E in Hh; cbn in Hh end;
    try solve [exfalso; intuition discriminate].
  - split; [reflexivity|assumption].
  - exfalso. destruct Hh as [Hh|[Hh|[]]]; [discriminate|]. injection Hh as ->. congruence.
Qed.

(* a status that is neither ACCEPTED nor REJECTED (the provider-API service never delivers one, C12):
   the handler returns nil and produces nothing *)
Theorem refusal_other_status evs h stv :
  In (HTake h stv) (heff (run K V W evs)) -> stv <> status_accepted -> stv <> status_rejected ->
  nget h (hs (run K V W evs)) = Some (HDone RNil) /\
  hist h (run K V W evs) = [HReturn h RNil; HTake h stv].
Proof.
  intros Hin N1 N2. assert (Hh : In (HTake h stv) (hist h (run K V W evs))) by (apply in_hist; auto).
  trace_cases evs h Sh;
    match goal with E : hist h _ = _ |- _ => rewrite E in Hh; cbn in Hh end;
    try solve [exfalso; intuition (try discriminate; try congruence)].
  destruct Hh as [Hh|[Hh|[]]]; [discriminate|]. injection Hh as ->. split; [reflexivity|assumption].
Qed.

(* silence: the deadline (or the parent context) ends the handler with the context error, nothing else *)
Theorem refusal_deadline evs h :
  nget h (hs (run K V W evs)) = Some (HDone RCtx) -> hist h (run K V W evs) = [HReturn h RCtx].
Proof. intros Hh. pose proof (handler_trace evs h) as Sh. rewrite Hh in Sh. exact Sh. Qed.

Theorem deadline_step s h b :
  panicked (svc s) = false -> nget h (hs s) = Some (HInSvc b false) ->
  (exists b0, nget h (calls (svc s)) = Some (PHanded b0)) ->
  nget h (hs (step K V W s (DeadlineFire h))) = Some (HDone RCtx).
Proof.
  intros Hp Hh (b0 & Hc). unfold step, deadline_fire. rewrite Hp, Hh, Hc. cbn. apply nget_nset_eq.
Qed.

Theorem abandon_step s h b b0 :
  panicked (svc s) = false -> nget h (hs s) = Some (HInSvc b false) -> nget h (calls (svc s)) = Some (POffered b0) ->
  nget h (hs (step K V W s (Abandon h))) = Some (HDone RCtx).
Proof.
  intros Hp Hh Hc. unfold step, abandon_h. rewrite Hp, Hh, Hc. cbn. apply nget_nset_eq.
Qed.

(* commit effects occur only in traces that start with the receipt of ACCEPTED; every returned handler
   whose class is a refusal has no commit effect in its trace *)
Definition refusal_class (r : retclass) : bool :=
  match r with
  | RRole | RRead | RVerify | RAllow | RFormat | RCtx | RRejected | RNil => true
  | _ => false
  end.

Theorem error_or_nothing evs h r :
  nget h (hs (run K V W evs)) = Some (HDone r) -> refusal_class r = true ->
  forall e, In e (heff (run K V W evs)) -> eff_handler e = h ->
            e = HReturn h r \/ exists stv, e = HTake h stv /\ stv <> status_accepted.
Proof.
  intros Hh Hr e Hin He. assert (Hi : In e (hist h (run K V W evs))) by (apply in_hist; auto).
  pose proof (handler_trace evs h) as Sh. rewrite Hh in Sh.
  destruct r; try discriminate; cbn in Sh; break; rewrite ?Sh in Hi;
    try match goal with E : hist h _ = _ |- _ => rewrite E in Hi end; cbn in Hi.
  all: try (destruct Hi as [<-|[]]; now left).
  - destruct Hi as [<-|[<-|[]]]; [now left|right]. exists status_rejected. split; [reflexivity|discriminate].
  - destruct Hi as [<-|[<-|[]]]; [now left|right]. eauto.
Qed.

(* ---- returned handlers are final: late and duplicate decisions, further events change nothing --- *)
Lemma on_status_local s h b stv k :
  exists v new, hs (on_status K W h b stv k s) = nset h v (hs s) /\
                heff (on_status K W h b stv k s) = new ++ heff s /\ Forall (fun x => eff_handler x = h) new.
Proof.
  unfold on_status. destruct (stv =? status_rejected)%Z.
  { eexists _, [_; _]. repeat split; own. }
  destruct (stv =? status_accepted)%Z.
  2:{ eexists _, [_; _]. repeat split; own. }
  destruct k.
  - eexists _, [_; _]. repeat split; own.
  - eexists _, [_; _; _]. repeat split; own.
  - destruct (w_da_contract W).
    + destruct (parse_bigint (b_amt b)).
      * eexists _, [_; _; _]. repeat split; own.
      * eexists _, [_; _; _]. repeat split; own.
    + eexists _, [_; _; _]. repeat split; own.
Qed.

Lemma step_local s e :
  (hs (step K V W s e) = hs s /\ heff (step K V W s e) = heff s) \/
  exists h v new, hs (step K V W s e) = nset h v (hs s) /\ heff (step K V W s e) = new ++ heff s /\
                  Forall (fun x => eff_handler x = h) new /\ not_done (nget h (hs s)).
Proof.
  unfold step. destruct (panicked (svc s)); [now left|].
  destruct e as [h role o|h|h|sid d stv|sid|sid|h k|h|h ok|h ok]; try (left; split; reflexivity).
  - unfold arrive. destruct (nget h (hs s)) eqn:Hh; [now left|]. destruct (nget h (calls (svc s))); [now left|].
    right. exists h.
    assert (Nd : not_done (nget h (hs s))) by (intros r0; rewrite Hh; discriminate).
    destruct (gate_class role o); [eexists _, [_]; repeat split; try exact Nd; own|].
    destruct (o_read o); [|eexists _, [_]; repeat split; try exact Nd; own].
    destruct (w_processor_api W); [|eexists _, []; repeat split; try exact Nd; own].
    destruct (vbid V (to_engine b)); [eexists _, []|eexists _, [_]]; repeat split; try exact Nd; own.
  - unfold engine_take. destruct (nget h (hs s)) as [[b [|]|c|c|r]|]; left; split; reflexivity.
  - unfold abandon_h. destruct (nget h (hs s)) as [[b [|]|c|c|r]|] eqn:Hh; try (left; split; reflexivity).
    destruct (nget h (calls (svc s))) as [[b0|b0|b0|b0]|]; try (left; split; reflexivity).
    right. exists h. eexists _, [_]. repeat split; own. nd Hh.
  - unfold take_decision. destruct (nget h (hs s)) as [[b [|]|c|c|r]|] eqn:Hh; try (left; split; reflexivity).
    + right. exists h. destruct (on_status_local s h b status_accepted k) as (v & new & E1 & E2 & F).
      exists v, new. repeat split; try assumption. nd Hh.
    + destruct (nget h (calls (svc s))) as [[b0|b0|b0|b0]|]; try (left; split; reflexivity).
      destruct (chan_recv h (svc s)) as [[stv|] x]; [|left; split; reflexivity].
      right. exists h. destruct (on_status_local (set_svc x s) h b stv k) as (v & new & E1 & E2 & F).
      exists v, new. repeat split; try assumption. nd Hh.
  - unfold deadline_fire. destruct (nget h (hs s)) as [[b [|]|c|c|r]|] eqn:Hh; try (left; split; reflexivity).
    + right. exists h. eexists _, [_]. repeat split; own. nd Hh.
    + destruct (nget h (calls (svc s))) as [[b0|b0|b0|b0]|]; try (left; split; reflexivity).
      right. exists h. eexists _, [_]. repeat split; own. nd Hh.
  - unfold store_res. destruct (nget h (hs s)) as [[b a|c|c|r]|] eqn:Hh; try (left; split; reflexivity).
    right. exists h. destruct ok; [eexists _, [_; _]|eexists _, [_; _]]; repeat split; own; nd Hh.
  - unfold write_res. destruct (nget h (hs s)) as [[b a|c|c|r]|] eqn:Hh; try (left; split; reflexivity).
    right. exists h. eexists _, [_]. repeat split; own. nd Hh.
Qed.

Lemma step_done_stable s e h r :
  nget h (hs s) = Some (HDone r) ->
  nget h (hs (step K V W s e)) = Some (HDone r) /\ hist h (step K V W s e) = hist h s.
Proof.
  intros Hh. destruct (step_local s e) as [(E1 & E2)|(h0 & v & new & E1 & E2 & F & Nd)].
  - unfold hist. now rewrite E1, E2.
  - assert (Hne : h <> h0) by (intros ->; apply (Nd r); exact Hh).
    rewrite E1, nget_nset_neq by congruence. split; [exact Hh|]. now apply (hist_app_other h0 h new s).
Qed.

Theorem done_final evs evs' h r :
  nget h (hs (run K V W evs)) = Some (HDone r) ->
  nget h (hs (run K V W (evs ++ evs'))) = Some (HDone r) /\
  hist h (run K V W (evs ++ evs')) = hist h (run K V W evs).
Proof.
  unfold run. rewrite fold_left_app. generalize (fold_left (step K V W) evs init) as s.
  induction evs' as [|e l IH]; intros s Hh; [split; [exact Hh|reflexivity]|]. cbn.
  destruct (step_done_stable s e h r Hh) as (H1 & H2). destruct (IH _ H1) as (H3 & H4).
  split; [exact H3|]. now rewrite H4.
Qed.
End Traces.

(* ---- handleBid never reaches the modelled crash (nil *big.Int in StoreCommitment) under the node's wiring:
   the published amount rule already forces the amount to parse (any number of handlers, any oracle answers) -- *)
Section NoRPanic.
Variable K : bytes -> bytes. Variable addr : bytes.
Let V := rules_validators. Let W := node_wiring addr.
Definition NoRP (s : st) : Prop := forall h, nget h (hs s) <> Some (HDone RPanic).
Lemma P_set_h h v s : v <> HDone RPanic -> NoRP s -> NoRP (set_h h v s).
Proof. intros Hv Hp h0. unfold set_h; cbn. rewrite nget_nset. destruct (h0 =? h); [congruence|apply Hp]. Qed.
Lemma P_add_heff e s : NoRP s -> NoRP (add_heff e s). Proof. intros Hp h0. apply Hp. Qed.
Lemma P_set_svc x s : NoRP s -> NoRP (set_svc x s). Proof. intros Hp h0. apply Hp. Qed.
Lemma P_finish h r s : r <> RPanic -> NoRP s -> NoRP (finish h r s).
Proof. intros Hr Hp. unfold finish. apply P_add_heff, P_set_h; [congruence|exact Hp]. Qed.
Lemma vbid_parses b : vbid V (to_engine b) = true -> exists amt, parse_bigint (b_amt b) = Some amt.
Proof. cbn. intros Hv. apply provider_bid_ok_spec in Hv. destruct Hv as (_ & Ha & _).
  apply amount_ok_spec, amount_ok_parse in Ha. destruct Ha as (v & Hp & _). cbn in Hp. eauto. Qed.
Lemma P_on_status h b stv k s :
  (exists amt, parse_bigint (b_amt b) = Some amt) -> NoRP s -> NoRP (on_status K W h b stv k s).
Proof. intros (amt & Ha) Hp. unfold on_status.
  destruct (stv =? status_rejected)%Z; [apply P_finish; [discriminate|now apply P_add_heff]|].
  destruct (stv =? status_accepted)%Z; [|apply P_finish; [discriminate|now apply P_add_heff]].
  destruct k.
  - apply P_finish; [discriminate|now apply P_add_heff].
  - apply P_finish; [discriminate|now repeat apply P_add_heff].
  - destruct (w_da_contract W).
    + rewrite Ha. apply P_set_h; [discriminate|]. now repeat apply P_add_heff.
    + apply P_set_h; [discriminate|]. now repeat apply P_add_heff. Qed.
Lemma gate_class_not_panic role o r : gate_class role o = Some r -> r <> RPanic.
Proof. unfold gate_class. destruct (negb (role =? role_bidder)%Z); [intros [= <-]; discriminate|].
  destruct (o_read o); [|intros [= <-]; discriminate]. destruct (o_verify o); [|intros [= <-]; discriminate].
  destruct (o_allow o); [discriminate|intros [= <-]; discriminate]. Qed.
Ltac solveP Hp := repeat first [ exact Hp | apply P_finish; [discriminate|] | apply P_set_h; [discriminate|]
                               | apply P_add_heff | apply P_set_svc ].
Lemma P_step evs s e : PInv K V W evs s -> NoRP s -> NoRP (step K V W s e).
Proof. intros I Hp. unfold step. destruct (panicked (svc s)); [exact Hp|]. destruct e.
  - unfold arrive. destruct (nget h (hs s)); [exact Hp|]. destruct (nget h (calls (svc s))); [exact Hp|].
    destruct (gate_class role o) eqn:G.
    + apply P_finish; [eapply gate_class_not_panic; eauto|]. intros h0; apply Hp.
    + destruct (o_read o).
      * destruct (w_processor_api W).
        -- destruct (vbid V (to_engine b)).
           ++ apply P_set_h; [discriminate|]. apply P_set_svc. intros h0; apply Hp.
           ++ apply P_finish; [discriminate|]. apply P_set_svc. intros h0; apply Hp.
        -- apply P_set_h; [discriminate|]. intros h0; apply Hp.
      * apply P_finish; [discriminate|]. intros h0; apply Hp.
  - unfold engine_take. destruct (nget h (hs s)) as [[b [|]|c|c|r]|]; solveP Hp.
  - unfold abandon_h. destruct (nget h (hs s)) as [[b [|]|c|c|r]|]; solveP Hp.
    destruct (nget h (calls (svc s))) as [[]|]; solveP Hp.
  - solveP Hp. - solveP Hp. - solveP Hp.
  - unfold take_decision. destruct (nget h (hs s)) as [[b [|]|c|c|r]|] eqn:Hh; solveP Hp.
    + destruct (pi_insvc _ _ _ _ _ I _ _ _ Hh) as (_ & Hw). unfold W in Hw. rewrite node_wiring_api in Hw. discriminate.
    + destruct (pi_insvc _ _ _ _ _ I _ _ _ Hh) as (_ & _ & Hv).
      destruct (nget h (calls (svc s))) as [[]|]; solveP Hp.
      destruct (chan_recv h (svc s)) as [[stv|] x]; solveP Hp.
      apply P_on_status; [now apply vbid_parses|]. solveP Hp.
  - unfold deadline_fire. destruct (nget h (hs s)) as [[b [|]|c|c|r]|]; solveP Hp.
    destruct (nget h (calls (svc s))) as [[]|]; solveP Hp.
  - unfold store_res. destruct (nget h (hs s)) as [[b a|c|c|r]|]; solveP Hp. destruct ok; solveP Hp.
  - unfold write_res. destruct (nget h (hs s)) as [[b a|c|c|r]|]; solveP Hp. destruct ok; solveP Hp. Qed.
Theorem no_rpanic_node evs h : nget h (hs (run K V W evs)) <> Some (HDone RPanic).
Proof. revert h. change (NoRP (run K V W evs)). induction evs as [|e evs IH] using rev_ind.
  - intros h. cbn. discriminate.
  - rewrite run_app. eapply P_step; [apply run_pinv|exact IH]. Qed.
End NoRPanic.   

(* ---- explicit order of the settlement steps of a written commitment (newest first) ---------------- *)
Theorem write_order_explicit K addr evs h c :
  let S := run K rules_validators (node_wiring addr) evs in
  In (HWrite h c) (heff S) ->
  exists amt pre, parse_bigint (b_amt (c_bid c)) = Some amt /\
    hist h S = pre ++ [HWrite h c; HStored h true; HSend h addr (calldata K amt c);
                       HSign h (c_dig c); HTake h status_accepted] /\
    (pre = [] \/ pre = [HReturn h RWritten] \/ pre = [HReturn h RWriteErr]).
Proof.
  cbn. intros Hin.
  assert (Hh : In (HWrite h c) (hist h (run K rules_validators (node_wiring addr) evs))) by (apply in_hist; auto).
  pose proof (handler_trace K rules_validators (node_wiring addr) evs h) as Sh.
  pose proof (node_wiring_da addr) as Hda.
  destruct (nget h (hs (run K rules_validators (node_wiring addr) evs))) as [[b a|c0|c0|r]|]; cbn [shape] in Sh.
  - rewrite Sh in Hh. destruct Hh.
  - destruct Sh as (_ & amt & _ & Sh). rewrite Sh in Hh. cbn in Hh. exfalso. intuition discriminate.
  - destruct Sh as [(_ & amt & Hp & Sh)|(Hf & _)]; [|congruence].
    rewrite Sh in Hh. cbn in Hh. destruct Hh as [E|Hh]; [|exfalso; intuition discriminate].
    injection E as ->. exists amt, []. split; [exact Hp|]. split; [exact Sh|now left].
  - destruct r; cbn [done_trace] in Sh;
      try solve [rewrite Sh in Hh; cbn in Hh; exfalso; intuition discriminate].
    + destruct Sh as [Sh|(d & Sh)]; rewrite Sh in Hh; cbn in Hh; exfalso; intuition discriminate.
    + destruct Sh as (c1 & amt & _ & _ & Sh). rewrite Sh in Hh. cbn in Hh. exfalso. intuition discriminate.
    + destruct Sh as (c1 & l' & [(_ & amt & Hp & Hl)|(Hf & _)] & Sh); [|congruence].
      rewrite Sh, Hl in Hh. cbn in Hh. destruct Hh as [E|[E|Hh]]; [discriminate| |exfalso; intuition discriminate].
      injection E as ->. exists amt, [HReturn h RWriteErr]. split; [exact Hp|]. split; [now rewrite Sh, Hl|tauto].
    + destruct Sh as (c1 & l' & [(_ & amt & Hp & Hl)|(Hf & _)] & Sh); [|congruence].
      rewrite Sh, Hl in Hh. cbn in Hh. destruct Hh as [E|[E|Hh]]; [discriminate| |exfalso; intuition discriminate].
      injection E as ->. exists amt, [HReturn h RWritten]. split; [exact Hp|]. split; [now rewrite Sh, Hl|tauto].
    + destruct Sh as (stv & _ & _ & Sh). rewrite Sh in Hh. cbn in Hh. exfalso. intuition discriminate.
    + destruct Sh as (d & Sh). rewrite Sh in Hh. cbn in Hh. exfalso. intuition discriminate.
  - rewrite Sh in Hh. destruct Hh.
Qed.

(* ---- which decision a handler acted on -------------------------------------------------------------- *)
Section Causality.
Variable K : bytes -> bytes.
Variable V : validators.
Variable W : wiring.

(* the decision event that, when it was processed, named the entry of channel ch on a serving stream *)
Definition Effective (evs : list event) (sid ch : N) (d : bytes) (st : Z) : Prop :=
  exists pre post, evs = pre ++ Lookup sid d st :: post /\
    pget d (pending (svc (run K V W pre))) = Some ch /\ sget sid (svc (run K V W pre)) = SIdle /\
    vresp V d st = true /\ panicked (svc (run K V W pre)) = false.

Lemma effective_mono evs e sid ch d st : Effective evs sid ch d st -> Effective (evs ++ [e]) sid ch d st.
Proof.
  intros (pre & post & -> & H). exists pre, (post ++ [e]). split; [|exact H]. now rewrite <- app_assoc.
Qed.

Lemma lookup_origin sid d st x sid' ch d' st' :
  In (sid', SCalling ch d' st') (streams (lookup V sid d st x)) ->
  In (sid', SCalling ch d' st') (streams x) \/
  (sid' = sid /\ d' = d /\ st' = st /\ pget d (pending x) = Some ch /\ sget sid x = SIdle /\ vresp V d st = true).
Proof.
  unfold lookup. destruct (sget sid x) eqn:Hs; try (now left).
  destruct (vresp V d st) eqn:Hv.
  - destruct (pget d (pending x)) as [ch0|] eqn:Hp; [|now left].
    cbn. unfold nset. cbn. intros [[= <- <- <- <-]|H]; [right; tauto|]. apply In_ndel in H. left. tauto.
  - cbn. unfold nset. cbn. intros [H|H]; [discriminate|]. apply In_ndel in H. left. tauto.
Qed.

Lemma on_status_svc h b stv k s : svc (on_status K W h b stv k s) = svc s.
Proof.
  unfold on_status. destruct (stv =? status_rejected)%Z; [reflexivity|].
  destruct (stv =? status_accepted)%Z; [|reflexivity].
  destruct k; try reflexivity. destruct (w_da_contract W); [|reflexivity].
  destruct (parse_bigint (b_amt b)); reflexivity.
Qed.

(* how one step of the handler machine moves the service *)
Inductive svc_move (e : event) (x x' : ProviderSvc.svc) : Prop :=
| mv_same : x' = x -> svc_move e x x'
| mv_submit h b : nget h (calls x) = None -> x' = submit V h b x -> svc_move e x x'
| mv_take h : x' = take h x -> svc_move e x x'
| mv_abandon h : x' = abandon h x -> svc_move e x x'
| mv_lookup sid d st : e = Lookup sid d st -> panicked x = false -> x' = lookup V sid d st x -> svc_move e x x'
| mv_callback sid : x' = callback sid x -> svc_move e x x'
| mv_recv_err sid : x' = recv_err sid x -> svc_move e x x'
| mv_chan h : x' = snd (chan_recv h x) -> svc_move e x x'.

Lemma step_svc_move s e : svc_move e (svc s) (svc (step K V W s e)).
Proof.
  unfold step. destruct (panicked (svc s)) eqn:Hp; [now apply mv_same|].
  destruct e as [h role o|h|h|sid d stv|sid|sid|h k|h|h ok|h ok].
  - unfold arrive. destruct (nget h (hs s)); [now apply mv_same|].
    destruct (nget h (calls (svc s))) eqn:Hc; [now apply mv_same|].
    destruct (gate_class role o); [now apply mv_same|]. destruct (o_read o) as [b|]; [|now apply mv_same].
    destruct (w_processor_api W); [|now apply mv_same].
    destruct (vbid V (to_engine b)); apply (mv_submit _ _ _ h b); auto.
  - unfold engine_take. destruct (nget h (hs s)) as [[b [|]|c|c|r]|]; try (now apply mv_same). now apply (mv_take _ _ _ h).
  - unfold abandon_h. destruct (nget h (hs s)) as [[b [|]|c|c|r]|]; try (now apply mv_same).
    destruct (nget h (calls (svc s))) as [[b0|b0|b0|b0]|]; try (now apply mv_same). now apply (mv_abandon _ _ _ h).
  - now apply (mv_lookup _ _ _ sid d stv).
  - now apply (mv_callback _ _ _ sid).
  - now apply (mv_recv_err _ _ _ sid).
  - unfold take_decision. destruct (nget h (hs s)) as [[b [|]|c|c|r]|]; try (now apply mv_same).
    + rewrite on_status_svc. now apply mv_same.
    + destruct (nget h (calls (svc s))) as [[b0|b0|b0|b0]|]; try (now apply mv_same).
      destruct (chan_recv h (svc s)) as [[stv|] x] eqn:Hcr; [|now apply mv_same].
      rewrite on_status_svc. apply (mv_chan _ _ _ h). now rewrite Hcr.
  - unfold deadline_fire. destruct (nget h (hs s)) as [[b [|]|c|c|r]|]; try (now apply mv_same).
    destruct (nget h (calls (svc s))) as [[b0|b0|b0|b0]|]; now apply mv_same.
  - unfold store_res. destruct (nget h (hs s)) as [[b a|c|c|r]|]; try (now apply mv_same). destruct ok; now apply mv_same.
  - unfold write_res. destruct (nget h (hs s)) as [[b a|c|c|r]|]; now apply mv_same.
Qed.

Record QInv (evs : list event) : Prop := {
  q_calling : forall sid ch d st, In (sid, SCalling ch d st) (streams (svc (run K V W evs))) -> Effective evs sid ch d st;
  q_deliver : forall ch d st, In (EDeliver ch d st) (eff (svc (run K V W evs))) -> exists sid, Effective evs sid ch d st
}.

Lemma qinv_step evs e : QInv evs -> QInv (evs ++ [e]).
Proof.
  intros [Qc Qd]. set (S := run K V W evs) in *.
  pose proof (pi_full _ _ _ _ _ (run_pinv K V W evs)) as F. fold S in F.
  assert (Mc : forall sid ch d st, In (sid, SCalling ch d st) (streams (svc S)) -> Effective (evs ++ [e]) sid ch d st)
    by (intros; apply effective_mono; auto).
  assert (Md : forall ch d st, In (EDeliver ch d st) (eff (svc S)) -> exists sid, Effective (evs ++ [e]) sid ch d st).
  { intros ch d st H. destruct (Qd _ _ _ H) as (sid & HE). exists sid. now apply effective_mono. }
  assert (Quiet : forall x', DelivFrom (svc S) x' -> CallingSub (svc S) x' ->
            (forall sid ch d st, In (sid, SCalling ch d st) (streams x') -> Effective (evs ++ [e]) sid ch d st) /\
            (forall ch d st, In (EDeliver ch d st) (eff x') -> exists sid, Effective (evs ++ [e]) sid ch d st)).
  { intros x' D C. split.
    - intros sid ch d st H. apply Mc. now apply C.
    - intros ch d st H. destruct (D _ _ _ H) as [H1|(sid & H1)]; [now apply Md|]. exists sid. now apply Mc. }
  assert (G : (forall sid ch d st, In (sid, SCalling ch d st) (streams (svc (step K V W S e))) -> Effective (evs ++ [e]) sid ch d st) /\
              (forall ch d st, In (EDeliver ch d st) (eff (svc (step K V W S e))) -> exists sid, Effective (evs ++ [e]) sid ch d st));
    [|destruct G as (G1 & G2); constructor; rewrite (run_app K V W); assumption].
  destruct (step_svc_move S e) as [E|h b Hn E|h E|h E|sid d st Ee Hp E|sid E|sid E|h E]; rewrite E.
  - split; assumption.
  - destruct (submit_facts V h b (svc S) F Hn) as (_ & Ee & Es & _). split.
    + intros sid ch d st. rewrite Es. apply Mc.
    + intros ch d st. rewrite Ee. apply Md.
  - destruct (take_facts h (svc S) F) as (_ & D & C & _). apply (Quiet _ D C).
  - destruct (abandon_facts h (svc S) F) as (_ & D & C & _). apply (Quiet _ D C).
  - destruct (lookup_facts V sid d st (svc S) F) as (_ & D & _ & _). split.
    + intros sid' ch d' st' H. destruct (lookup_origin _ _ _ _ _ _ _ _ H) as [H1|(-> & -> & -> & Hg & Hs & Hv)]; [now apply Mc|].
      exists evs, []. subst e. split; [reflexivity|]. fold S. auto.
    + intros ch d' st' H. destruct (D _ _ _ H) as [H1|(sid' & H1)]; [now apply Md|]. exists sid'. now apply Mc.
  - destruct (callback_facts sid (svc S) F) as (_ & D & C & _). apply (Quiet _ D C).
  - destruct (recv_err_facts sid (svc S) F) as (_ & D & C & _). apply (Quiet _ D C).
  - destruct (chan_recv_facts h (svc S) F) as (_ & Ee & Es & _). split.
    + intros sid ch d st. rewrite Es. apply Mc.
    + intros ch d st. rewrite Ee. apply Md.
Qed.

Lemma run_qinv evs : QInv evs.
Proof.
  induction evs as [|e evs IH] using rev_ind; [|now apply qinv_step].
  constructor; cbn; intros; tauto.
Qed.

Lemma on_status_take h b stv k s h' st' :
  In (HTake h' st') (heff (on_status K W h b stv k s)) -> In (HTake h' st') (heff s) \/ (h' = h /\ st' = stv).
Proof.
  unfold on_status. destruct (stv =? status_rejected)%Z.
  { cbn. intros [H|[H|H]]; [discriminate|injection H as <- <-; now right|now left]. }
  destruct (stv =? status_accepted)%Z.
  2:{ cbn. intros [H|[H|H]]; [discriminate|injection H as <- <-; now right|now left]. }
  destruct k.
  - cbn. intros [H|[H|H]]; [discriminate|injection H as <- <-; now right|now left].
  - cbn. intros [H|[H|[H|H]]]; [discriminate|discriminate|injection H as <- <-; now right|now left].
  - destruct (w_da_contract W).
    + destruct (parse_bigint (b_amt b)); cbn.
      * intros [H|[H|[H|H]]]; [discriminate|discriminate|injection H as <- <-; now right|now left].
      * intros [H|[H|[H|H]]]; [discriminate|discriminate|injection H as <- <-; now right|now left].
    + cbn. intros [H|[H|[H|H]]]; [discriminate|discriminate|injection H as <- <-; now right|now left].
Qed.

(* a status reaches a handler only out of its own channel (or from the auto-accepting processor) *)
Lemma step_take s e h st :
  In (HTake h st) (heff (step K V W s e)) ->
  In (HTake h st) (heff s) \/
  (exists b, nget h (hs s) = Some (HInSvc b true)) \/
  (exists b, nget h (hs s) = Some (HInSvc b false) /\ cget h (svc s) = CFull st).
Proof.
  unfold step. destruct (panicked (svc s)); [now left|].
  destruct e as [h0 role o|h0|h0|sid d stv|sid|sid|h0 k|h0|h0 ok|h0 ok]; try (now left).
  - unfold arrive. destruct (nget h0 (hs s)); [now left|]. destruct (nget h0 (calls (svc s))); [now left|].
    destruct (gate_class role o); [cbn; intros [H|H]; [discriminate|now left]|].
    destruct (o_read o); [|cbn; intros [H|H]; [discriminate|now left]].
    destruct (w_processor_api W); [|now left].
    destruct (vbid V (to_engine b)); [now left|cbn; intros [H|H]; [discriminate|now left]].
  - unfold engine_take. destruct (nget h0 (hs s)) as [[b [|]|c|c|r]|]; now left.
  - unfold abandon_h. destruct (nget h0 (hs s)) as [[b [|]|c|c|r]|]; try (now left).
    destruct (nget h0 (calls (svc s))) as [[b0|b0|b0|b0]|]; try (now left). cbn. intros [H|H]; [discriminate|now left].
  - unfold take_decision. destruct (nget h0 (hs s)) as [[b [|]|c|c|r]|] eqn:Hh; try (now left).
    + intros H. apply on_status_take in H. destruct H as [H|(-> & ->)]; [now left|]. right. left. eauto.
    + destruct (nget h0 (calls (svc s))) as [[b0|b0|b0|b0]|]; try (now left).
      destruct (chan_recv h0 (svc s)) as [[stv|] x] eqn:Hcr; [|now left].
      intros H. apply on_status_take in H. destruct H as [H|(-> & ->)]; [now left|]. right. right. exists b.
      split; [exact Hh|]. unfold chan_recv in Hcr. destruct (cget h0 (svc s)); try discriminate. now injection Hcr as <- _.
  - unfold deadline_fire. destruct (nget h0 (hs s)) as [[b [|]|c|c|r]|]; try (now left).
    + cbn. intros [H|H]; [discriminate|now left].
    + destruct (nget h0 (calls (svc s))) as [[b0|b0|b0|b0]|]; try (now left). cbn. intros [H|H]; [discriminate|now left].
  - unfold store_res. destruct (nget h0 (hs s)) as [[b a|c|c|r]|]; try (now left).
    destruct ok; cbn; [intros [H|[H|H]]|intros [H|[H|H]]]; try discriminate; now left.
  - unfold write_res. destruct (nget h0 (hs s)) as [[b a|c|c|r]|]; try (now left). cbn. intros [H|H]; [discriminate|now left].
Qed.

Lemma take_effective evs h st :
  w_processor_api W = true -> In (HTake h st) (heff (run K V W evs)) -> exists sid d, Effective evs sid h d st.
Proof.
  intros Hw. induction evs as [|e evs IH] using rev_ind; [intros []|].
  rewrite (run_app K V W). intros H. apply step_take in H. destruct H as [H|[(b & Hh)|(b & Hh & Hc)]].
  - destruct (IH H) as (sid & d & HE). exists sid, d. now apply effective_mono.
  - destruct (pi_insvc _ _ _ _ _ (run_pinv K V W evs) _ _ _ Hh) as (_ & Hf). congruence.
  - destruct (pi_full _ _ _ _ _ (run_pinv K V W evs) _ _ Hc) as (d & Hd).
    destruct (q_deliver _ (run_qinv evs) _ _ _ Hd) as (sid & HE). exists sid, d. now apply effective_mono.
Qed.

(* the decision a handler acted on: a Lookup event that comes AFTER the handler's Arrive and that, when it was
   processed on a serving stream, found the entry registered by THIS handler under the decided digest *)
Theorem decision_for_handler evs h st :
  w_processor_api W = true -> In (HTake h st) (heff (run K V W evs)) ->
  exists sid d pre post,
    evs = pre ++ Lookup sid d st :: post /\
    pget d (pending (svc (run K V W pre))) = Some h /\ sget sid (svc (run K V W pre)) = SIdle /\
    vresp V d st = true /\
    (exists role o b, In (Arrive h role o) pre /\ nget h (arr (run K V W pre)) = Some (role, o) /\
                      o_read o = Some b /\ b_dig b = d).
Proof.
  intros Hw Hin. destruct (take_effective evs h st Hw Hin) as (sid & d & pre & post & -> & Hp & Hs & Hv & _).
  exists sid, d, pre, post. repeat split; try assumption.
  pose proof (run_pinv K V W pre) as P.
  destruct (inv_owner _ _ (pi_svc _ _ _ _ _ P) _ _ (pget_In _ _ _ Hp)) as (c & Hc & _ & Hd).
  destruct (pi_calls _ _ _ _ _ P _ _ Hc) as (_ & role & o & Ha & Hr).
  exists role, o, (call_bid c). split; [now apply (arr_origin K V W)|]. split; [exact Ha|]. split; [exact Hr|].
  destruct c; exact Hd.
Qed.
End Causality.

(* ---- the 5 s deadline of handleBid, as a statement ------------------------------------------------ *)
Lemma deadline_ms_value : deadline_ms = 5000.
Proof. reflexivity. Qed.

(* a handler that is waiting for the engine when [pre] ends; whatever happens from deadline_ms = 5000 ms
   after it started waiting on (decisions, store and write results, anything), it returns the context
   error and its complete effect trace is that return: no signature, no transaction, no commitment *)
(* no history panics the service: the "nothing happens after a panic" clause of [step] is dead *)
Lemma never_panicked K V W evs : panicked (svc (run K V W evs)) = false.
Proof. exact (inv_nopanic _ _ (pi_svc _ _ _ _ _ (run_pinv K V W evs))). Qed.

Theorem late_events_no_effect K V W pre after h b t :
  deadline_ms <= t ->
  nget h (hs (run K V W pre)) = Some (HInSvc b false) ->
  (exists b0, nget h (calls (svc (run K V W pre))) = Some (PHanded b0)) ->
  let S := run K V W (timed_history h t pre after) in
  nget h (hs S) = Some (HDone RCtx) /\ hist h S = [HReturn h RCtx].
Proof.
  intros Ht Hh Hc. pose proof (never_panicked K V W pre) as Hp.
  unfold timed_history. destruct (N.ltb_spec t deadline_ms) as [Hlt|_]; [lia|].
  cbn zeta. rewrite app_assoc.
  assert (H1 : nget h (hs (run K V W (pre ++ [DeadlineFire h]))) = Some (HDone RCtx)).
  { rewrite (run_app K V W). now apply (deadline_step K V W _ h b). }
  destruct (done_final K V W (pre ++ [DeadlineFire h]) after h RCtx H1) as (H2 & H3).
  split; [exact H2|]. now apply refusal_deadline.
Qed.

(* arrival records are never rewritten *)
Lemma step_arr K V W s e :
  arr (step K V W s e) = arr s \/
  exists h0 role o, nget h0 (hs s) = None /\ arr (step K V W s e) = nset h0 (role, o) (arr s).
Proof.
  unfold step. destruct (panicked (svc s)); [now left|].
  destruct e as [h0 role o|h0|h0|sid d stv|sid|sid|h0 k|h0|h0 ok|h0 ok]; try (now left).
  - unfold arrive. destruct (nget h0 (hs s)) eqn:Hh; [now left|]. destruct (nget h0 (calls (svc s))); [now left|].
    right. exists h0, role, o. split; [exact Hh|].
    destruct (gate_class role o); [reflexivity|]. destruct (o_read o); [|reflexivity].
    destruct (w_processor_api W); [|reflexivity]. destruct (vbid V (to_engine b)); reflexivity.
  - unfold engine_take. destruct (nget h0 (hs s)) as [[b [|]|c|c|r]|]; now left.
  - unfold abandon_h. destruct (nget h0 (hs s)) as [[b [|]|c|c|r]|]; try (now left).
    destruct (nget h0 (calls (svc s))) as [[b0|b0|b0|b0]|]; now left.
  - unfold take_decision. destruct (nget h0 (hs s)) as [[b [|]|c|c|r]|]; try (now left).
    + left. apply on_status_arr.
    + destruct (nget h0 (calls (svc s))) as [[b0|b0|b0|b0]|]; try (now left).
      destruct (chan_recv h0 (svc s)) as [[stv|] x]; [|now left]. left. now rewrite on_status_arr.
  - unfold deadline_fire. destruct (nget h0 (hs s)) as [[b [|]|c|c|r]|]; try (now left).
    destruct (nget h0 (calls (svc s))) as [[b0|b0|b0|b0]|]; now left.
  - unfold store_res. destruct (nget h0 (hs s)) as [[b a|c|c|r]|]; try (now left). destruct ok; now left.
  - unfold write_res. destruct (nget h0 (hs s)) as [[b a|c|c|r]|]; now left.
Qed.

Lemma arr_final K V W pre rest h ro :
  nget h (arr (run K V W pre)) = Some ro -> nget h (arr (run K V W (pre ++ rest))) = Some ro.
Proof.
  induction rest as [|e rest IH] using rev_ind; [now rewrite app_nil_r|].
  intros Ha. specialize (IH Ha). rewrite app_assoc, (run_app K V W).
  destruct (step_arr K V W (run K V W (pre ++ rest)) e) as [E|(h0 & role & o & Hn & E)]; rewrite E; [exact IH|].
  rewrite nget_nset_neq; [exact IH|]. intros ->.
  apply (pi_arr _ _ _ _ _ (run_pinv K V W (pre ++ rest)) _ _ IH). exact Hn.
Qed.

(* C01_gate with the decision placed in the history *)
Theorem gate_ordered_node K addr evs e :
  In e (heff (run K rules_validators (node_wiring addr) evs)) -> is_commit_effect e = true ->
  exists role o b a sid pre post,
    evs = pre ++ Lookup sid (b_dig b) status_accepted :: post /\
    In (Arrive (eff_handler e) role o) pre /\
    role = role_bidder /\ o_read o = Some b /\ o_verify o = VOk a /\ o_allow o = true /\
    vbid rules_validators (to_engine b) = true /\
    pget (b_dig b) (pending (svc (run K rules_validators (node_wiring addr) pre))) = Some (eff_handler e) /\
    sget sid (svc (run K rules_validators (node_wiring addr) pre)) = SIdle /\
    In (HTake (eff_handler e) status_accepted) (heff (run K rules_validators (node_wiring addr) evs)) /\
    (forall h c, e = HWrite h c -> c_bid c = b).
Proof.
  intros Hin Hc. set (V := rules_validators). set (W := node_wiring addr).
  destruct (pi_eff _ _ _ _ _ (run_pinv K V W evs) _ Hin Hc)
    as (b & ((role & o & a & Ha & Hr & Hrd & Hv & Hal) & En & T) & Hw).
  destruct (En (node_wiring_api addr)) as (Hvb & _).
  destruct (decision_for_handler K V W evs (eff_handler e) status_accepted (node_wiring_api addr) T)
    as (sid & d & pre & post & Ee & Hp & Hs & _ & role' & o' & b' & HA & Ha' & Hrd' & Hd).
  rewrite Ee in Ha. rewrite (arr_final K V W pre (Lookup sid d status_accepted :: post) _ _ Ha') in Ha.
  injection Ha as -> ->. rewrite Hrd in Hrd'. injection Hrd' as <-. subst d.
  exists role, o, b, a, sid, pre, post. repeat split; assumption.
Qed.

(* ---- headline: what a written commitment implies about the submitted transaction, no history premise --- *)
Theorem written_implies_settled K addr evs h c :
  let S := run K rules_validators (node_wiring addr) evs in
  In (HWrite h c) (heff S) ->
  (4 <= length (K (Abi.method_sig store_name store_tys)))%nat ->
  (b_bn (c_bid c) < 9223372036854775808)%Z -> (b_ds (c_bid c) < 9223372036854775808)%Z ->
  (b_de (c_bid c) < 9223372036854775808)%Z ->
  wf_bytes (b_tx (c_bid c)) -> wf_bytes (b_sig (c_bid c)) -> wf_bytes (c_sig c) ->
  (forall amt, Abi.blen (Abi.encode (store_args amt c)) < Abi.two63) ->
  exists amt cd,
    (0 < amt < 18446744073709551616)%Z /\ parse_bigint (b_amt (c_bid c)) = Some amt /\
    In (HSend h addr cd) (heff S) /\ In (HStored h true) (heff S) /\
    Abi.decode_call store_tys cd =
    Some (Abi.selector K (Abi.method_sig store_name store_tys),
          [Abi.VUint64 (Z.to_N amt); Abi.VUint64 (Z.to_N (b_bn (c_bid c))); Abi.VString (b_tx (c_bid c));
           Abi.VUint64 (Z.to_N (b_ds (c_bid c))); Abi.VUint64 (Z.to_N (b_de (c_bid c)));
           Abi.VBytes (b_sig (c_bid c)); Abi.VBytes (c_sig c)]).
Proof.
  cbn zeta. intros Hin Hk Hbn Hds Hde W1 W2 W3 Hl.
  destruct (order_node K addr evs h c Hin) as (Hst & amt & Hp & Hsend).
  destruct (gate_node K addr evs (HWrite h c) Hin eq_refl) as (role & o & b & a & _ & _ & _ & _ & _ & Hv & _ & _ & Hw).
  assert (Hb : c_bid c = b) by (apply (Hw h c); reflexivity). subst b.
  destruct (args_validated K c amt Hk Hv Hbn Hds Hde W1 W2 W3 (Hl amt) Hp) as (Ha & Hd).
  exists amt, (calldata K amt c). repeat split; try assumption; apply Ha.
Qed.
