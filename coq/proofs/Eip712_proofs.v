(* Eip712.v: the code's encoders are the generic EIP-712 hash of the published schema (for
   every hash function), facts about the literals extracted from signer.go, injectivity of
   the word encoders, and binding of the digests as a reduction to an explicit collision. *)
From Coq Require Import String List NArith ZArith Bool Lia ZifyN ZifyNat ZifyBool.
From MevVerif Require Import lib.Bytes lib.Keccak gen.Generated model.Eip712 proofs.Bytes_proofs.
Import ListNotations.
Open Scope N_scope.

(* --- the literals of signer.go are the published schema -------------------------------- *)
Lemma bid_type_string_readable :
  encode_type bid_schema =
  bos "PreConfBid(string txnHash,uint64 bid,uint64 blockNumber,uint64 decayStartTimeStamp,uint64 decayEndTimeStamp)".
Proof. vm_compute. reflexivity. Qed.
Lemma commitment_type_string_readable :
  encode_type commitment_schema =
  bos "PreConfCommitment(string txnHash,uint64 bid,uint64 blockNumber,uint64 decayStartTimeStamp,uint64 decayEndTimeStamp,string bidHash,string signature)".
Proof. vm_compute. reflexivity. Qed.
Lemma domain_type_string_readable :
  encode_type domain_schema = bos "EIP712Domain(string name,string version)".
Proof. vm_compute. reflexivity. Qed.

Lemma gen_bid_domain_type : lit_domain_type c03_bid_strings = encode_type domain_schema.
Proof. vm_compute. reflexivity. Qed.
Lemma gen_bid_name : lit_name c03_bid_strings = bos "PreConfBid".
Proof. vm_compute. reflexivity. Qed.
Lemma gen_bid_version : lit_version c03_bid_strings = bos "1".
Proof. vm_compute. reflexivity. Qed.
Lemma gen_bid_struct_type : lit_struct_type c03_bid_strings = encode_type bid_schema.
Proof. vm_compute. reflexivity. Qed.
Lemma gen_bid_prefix : lit_prefix c03_bid_strings = [25; 1].
Proof. vm_compute. reflexivity. Qed.

Lemma gen_commit_domain_type : lit_domain_type c03_commit_strings = encode_type domain_schema.
Proof. vm_compute. reflexivity. Qed.
Lemma gen_commit_name : lit_name c03_commit_strings = bos "PreConfCommitment".
Proof. vm_compute. reflexivity. Qed.
Lemma gen_commit_version : lit_version c03_commit_strings = bos "1".
Proof. vm_compute. reflexivity. Qed.
Lemma gen_commit_struct_type : lit_struct_type c03_commit_strings = encode_type commitment_schema.
Proof. vm_compute. reflexivity. Qed.
Lemma gen_commit_prefix : lit_prefix c03_commit_strings = [25; 1].
Proof. vm_compute. reflexivity. Qed.

Lemma schema_facts :
  lit_domain_type c03_bid_strings = encode_type domain_schema /\
  lit_domain_type c03_commit_strings = encode_type domain_schema /\
  encode_type domain_schema = bos "EIP712Domain(string name,string version)" /\
  lit_name c03_bid_strings = bos "PreConfBid" /\ lit_name c03_commit_strings = bos "PreConfCommitment" /\
  lit_version c03_bid_strings = bos "1" /\ lit_version c03_commit_strings = bos "1" /\
  lit_struct_type c03_bid_strings = encode_type bid_schema /\
  encode_type bid_schema =
    bos "PreConfBid(string txnHash,uint64 bid,uint64 blockNumber,uint64 decayStartTimeStamp,uint64 decayEndTimeStamp)" /\
  lit_struct_type c03_commit_strings = encode_type commitment_schema /\
  encode_type commitment_schema =
    bos "PreConfCommitment(string txnHash,uint64 bid,uint64 blockNumber,uint64 decayStartTimeStamp,uint64 decayEndTimeStamp,string bidHash,string signature)" /\
  lit_prefix c03_bid_strings = [25; 1] /\ lit_prefix c03_commit_strings = [25; 1].
Proof.
  exact (conj gen_bid_domain_type (conj gen_commit_domain_type (conj domain_type_string_readable
        (conj gen_bid_name (conj gen_commit_name (conj gen_bid_version (conj gen_commit_version
        (conj gen_bid_struct_type (conj bid_type_string_readable (conj gen_commit_struct_type
        (conj commitment_type_string_readable (conj gen_bid_prefix gen_commit_prefix)))))))))))).
Qed.

(* --- the order of the append chain, from the source ------------------------------------------ *)
Lemma data_chain_order :
  map classify_item c03_bid_data_chain = map Some bid_item_order /\
  forallb appends_to_data (tl c03_bid_data_chain) = true /\
  map classify_item c03_commit_data_chain = map Some commitment_item_order /\
  forallb appends_to_data (tl c03_commit_data_chain) = true.
Proof. vm_compute. repeat split. Qed.

Lemma bid_data_in_order K b A :
  bid_data K b A = concat (map (item_bytes K c03_bid_strings b A) bid_item_order).
Proof.
  unfold bid_data, bid_item_order. cbn [map concat item_bytes]. rewrite app_nil_r, <- !app_assoc. reflexivity.
Qed.

Lemma commitment_data_in_order K b A :
  commitment_data K b A = concat (map (item_bytes K c03_commit_strings b A) commitment_item_order).
Proof.
  unfold commitment_data, commitment_item_order, bid_item_order. cbn [map concat item_bytes app].
  rewrite app_nil_r, <- !app_assoc. reflexivity.
Qed.

Lemma field_order_facts :
  (map classify_item c03_bid_data_chain = map Some bid_item_order /\
   forallb appends_to_data (tl c03_bid_data_chain) = true /\
   map classify_item c03_commit_data_chain = map Some commitment_item_order /\
   forallb appends_to_data (tl c03_commit_data_chain) = true) /\
  (forall K b A, bid_hash_tail K b A =
     K (lit_prefix c03_bid_strings ++ domain_separator_of K c03_bid_strings ++
        K (concat (map (item_bytes K c03_bid_strings b A) bid_item_order)))) /\
  (forall K b A, commitment_hash_tail K b A =
     K (lit_prefix c03_commit_strings ++ domain_separator_of K c03_commit_strings ++
        K (concat (map (item_bytes K c03_commit_strings b A) commitment_item_order)))).
Proof.
  split; [exact data_chain_order|]. split.
  - intros K b A. rewrite <- bid_data_in_order. reflexivity.
  - intros K b A. rewrite <- commitment_data_in_order. reflexivity.
Qed.

(* --- U256Bytes ------------------------------------------------------------------------- *)
Lemma two256_pos : (0 < two256)%Z.
Proof. unfold two256. apply Z.pow_pos_nonneg; lia. Qed.

Lemma two256_N : 256 ^ N.of_nat 32 = Z.to_N two256.
Proof. vm_compute. reflexivity. Qed.

Lemma u256bytes_small v : (0 <= v < two256)%Z -> u256bytes v = be 32 (Z.to_N v).
Proof. intros H. unfold u256bytes. rewrite Z.mod_small by exact H. reflexivity. Qed.

Lemma u256bytes_length v : length (u256bytes v) = 32%nat.
Proof. apply be_length. Qed.

Lemma u256bytes_wf v : wf_bytes (u256bytes v).
Proof. apply be_wf. Qed.

(* equal words <-> congruent modulo 2^256 *)
Lemma u256bytes_mod a b : u256bytes a = u256bytes b -> (a mod two256 = b mod two256)%Z.
Proof.
  unfold u256bytes. intros H.
  pose proof two256_pos as Hp.
  pose proof (Z.mod_pos_bound a two256 Hp) as Ha.
  pose proof (Z.mod_pos_bound b two256 Hp) as Hb.
  apply be_inj in H.
  - apply Z2N.inj in H; lia.
  - rewrite two256_N. apply Z2N.inj_lt; lia.
  - rewrite two256_N. apply Z2N.inj_lt; lia.
Qed.

Lemma u256bytes_mod_iff a b : u256bytes a = u256bytes b <-> (a mod two256 = b mod two256)%Z.
Proof. split; [apply u256bytes_mod|]. unfold u256bytes. intros ->. reflexivity. Qed.

(* on [0, 2^256) the word determines the integer *)
Lemma u256bytes_inj_range a b :
  (0 <= a < two256)%Z -> (0 <= b < two256)%Z -> u256bytes a = u256bytes b -> a = b.
Proof.
  intros Ha Hb H. apply u256bytes_mod in H. rewrite !Z.mod_small in H by assumption. exact H.
Qed.

(* on the int64 range (two's complement) as well *)
Definition int64 (z : Z) : Prop := (- 2 ^ 63 <= z < 2 ^ 63)%Z.

Lemma u256bytes_inj_int64 a b : int64 a -> int64 b -> u256bytes a = u256bytes b -> a = b.
Proof.
  unfold int64. intros Ha Hb H. apply u256bytes_mod in H.
  assert (E : two256 = (2 ^ 256)%Z) by reflexivity.
  assert (H63 : (2 ^ 63 * 2 ^ 193 = 2 ^ 256)%Z) by (rewrite <- Z.pow_add_r by lia; reflexivity).
  assert (P193 : (0 < 2 ^ 193)%Z) by (apply Z.pow_pos_nonneg; lia).
  assert (P63 : (0 < 2 ^ 63)%Z) by (apply Z.pow_pos_nonneg; lia).
  set (t := (2 ^ 256)%Z) in *. set (h := (2 ^ 63)%Z) in *. set (k := (2 ^ 193)%Z) in *.
  rewrite E in H.
  assert (Hbig : (2 * h <= t)%Z) by nia.
  (* a mod t = b mod t with |a - b| < t *)
  assert (Hd : ((a - b) mod t = 0)%Z).
  { rewrite Zminus_mod, H, Z.sub_diag. apply Z.mod_0_l. lia. }
  apply Z.mod_divide in Hd; [|lia]. destruct Hd as [q Hq].
  assert (q = 0)%Z by nia. lia.
Qed.

(* --- big.Int.SetString dialect --------------------------------------------------------- *)
Lemma parse_amount_show_dec n : parse_amount (show_dec n) = Some (Z.of_N n).
Proof.
  pose proof (parse_show_dec n) as H.
  unfold parse_amount.
  destruct (show_dec n) as [|c r] eqn:E; [cbn in H; discriminate|].
  assert (Hd : is_digit c = true).
  { unfold parse_dec in H. destruct (all_digits (c :: r)) eqn:A; [|discriminate].
    cbn in A. apply andb_true_iff in A. tauto. }
  unfold is_digit in Hd.
  destruct (N.eqb_spec c 43) as [->|N1]; [cbn in Hd; discriminate|].
  destruct (N.eqb_spec c 45) as [->|N2]; [cbn in Hd; discriminate|].
  assert (Hc : match c with 43 => false | 45 => false | _ => true end = true).
  { destruct c as [|p]; [reflexivity|].
    do 6 (destruct p as [p|p|]; try reflexivity); exfalso; (apply N1 + apply N2); reflexivity. }
  destruct c as [|p]; [rewrite H; reflexivity|].
  do 6 (destruct p as [p|p|]; try (rewrite H; reflexivity)); discriminate.
Qed.

(* a successfully parsed amount is an integer whatever its spelling; two spellings of one
   integer are one value (examples) *)
Example parse_amount_spellings :
  parse_amount (bos "5") = Some 5%Z /\ parse_amount (bos "05") = Some 5%Z /\
  parse_amount (bos "+5") = Some 5%Z /\ parse_amount (bos "-0") = Some 0%Z /\
  parse_amount (bos "-5") = Some (-5)%Z /\ parse_amount (bos "") = None /\
  parse_amount (bos "+") = None /\ parse_amount (bos "5 ") = None /\
  parse_amount (bos "--5") = None /\ parse_amount (bos "1_0") = None /\ parse_amount (bos "0x5") = None.
Proof. vm_compute. repeat split. Qed.

(* --- C03: the code's digest is the EIP-712 hash, for every hash function ---------------- *)
Section C03.
  Variable K : bytes -> bytes.

  Lemma domain_separator_bid :
    domain_separator_of K c03_bid_strings = hash_struct K domain_schema bid_domain.
  Proof.
    unfold domain_separator_of, hash_struct, type_hash.
    rewrite gen_bid_domain_type, gen_bid_name, gen_bid_version.
    unfold bid_domain, encode_data. cbn [map concat encode_value]. rewrite app_nil_r. reflexivity.
  Qed.

  Lemma domain_separator_commit :
    domain_separator_of K c03_commit_strings = hash_struct K domain_schema commitment_domain.
  Proof.
    unfold domain_separator_of, hash_struct, type_hash.
    rewrite gen_commit_domain_type, gen_commit_name, gen_commit_version.
    unfold commitment_domain, encode_data. cbn [map concat encode_value]. rewrite app_nil_r. reflexivity.
  Qed.

  Definition u64 (z : Z) : Prop := (0 <= z < 2 ^ 64)%Z.
  Definition u63 (z : Z) : Prop := (0 <= z < 2 ^ 63)%Z.

  Lemma u64_in_range z : u64 z -> (0 <= z < two256)%Z.
  Proof.
    unfold u64, two256. intros H.
    assert ((2 ^ 64 <= 2 ^ 256)%Z) by (apply Z.pow_le_mono_r; lia). lia.
  Qed.
  Lemma u63_u64 z : u63 z -> u64 z.
  Proof.
    unfold u63, u64. intros H.
    assert ((2 ^ 63 <= 2 ^ 64)%Z) by (apply Z.pow_le_mono_r; lia). lia.
  Qed.
  Lemma u64_typed z : u64 z -> value_has_type (TUint 64) (VUint (Z.to_N z)) = true.
  Proof.
    unfold u64. intros H. cbn [value_has_type].
    apply andb_true_iff. split; [reflexivity|]. apply N.ltb_lt.
    change (2 ^ 64) with (Z.to_N (2 ^ 64)%Z). apply Z2N.inj_lt; lia.
  Qed.

  Lemma hash_struct_bid tx A bn ds de :
    hash_struct K bid_schema (bid_values tx A bn ds de) =
    K (K (encode_type bid_schema) ++ K tx ++ be 32 A ++ be 32 bn ++ be 32 ds ++ be 32 de).
  Proof.
    unfold hash_struct, type_hash, bid_values, encode_data.
    cbn [map concat encode_value]. rewrite app_nil_r. reflexivity.
  Qed.

  Lemma hash_struct_commitment tx A bn ds de dig sig :
    hash_struct K commitment_schema (commitment_values tx A bn ds de dig sig) =
    K (K (encode_type commitment_schema) ++ K tx ++ be 32 A ++ be 32 bn ++ be 32 ds ++ be 32 de ++
       K (hex dig) ++ K (hex sig)).
  Proof.
    unfold hash_struct, type_hash, commitment_values, bid_values, encode_data.
    cbn [map concat encode_value app]. rewrite app_nil_r. reflexivity.
  Qed.

  Lemma bid_tail_is_eip712 b A :
    u64 A -> u63 (b_bn b) -> u63 (b_ds b) -> u63 (b_de b) ->
    bid_hash_tail K b A =
    eip712_bid K (b_tx b) (Z.to_N A) (Z.to_N (b_bn b)) (Z.to_N (b_ds b)) (Z.to_N (b_de b)).
  Proof.
    intros HA Hbn Hds Hde.
    unfold bid_hash_tail, eip712_bid, eip712_hash.
    rewrite domain_separator_bid, gen_bid_prefix, gen_bid_struct_type.
    rewrite !u256bytes_small by (apply u64_in_range; auto using u63_u64).
    rewrite hash_struct_bid, <- !app_assoc. reflexivity.
  Qed.

  Theorem bid_hash_is_eip712 b A :
    parse_amount (b_amt b) = Some A ->
    u64 A -> u63 (b_bn b) -> u63 (b_ds b) -> u63 (b_de b) ->
    bid_hash K b =
      Ok (eip712_bid K (b_tx b) (Z.to_N A) (Z.to_N (b_bn b)) (Z.to_N (b_ds b)) (Z.to_N (b_de b)))
    /\ well_typed (s_members bid_schema)
         (bid_values (b_tx b) (Z.to_N A) (Z.to_N (b_bn b)) (Z.to_N (b_ds b)) (Z.to_N (b_de b))) = true.
  Proof.
    intros HP HA Hbn Hds Hde. split.
    - unfold bid_hash. rewrite HP.
      pose proof (u64_in_range A HA) as HR.
      unfold amount_out_of_range.
      destruct (Z.ltb_spec A 0); [lia|]. destruct (Z.leb_spec two256 A); [lia|]. cbn [orb].
      rewrite bid_tail_is_eip712 by assumption. reflexivity.
    - cbn [well_typed s_members bid_schema bid_members bid_values m_type].
      rewrite !u64_typed by auto using u63_u64. reflexivity.
  Qed.

  Lemma commitment_tail_is_eip712 b A :
    u64 A -> u63 (b_bn b) -> u63 (b_ds b) -> u63 (b_de b) ->
    commitment_hash_tail K b A =
    eip712_commitment K (b_tx b) (Z.to_N A) (Z.to_N (b_bn b)) (Z.to_N (b_ds b)) (Z.to_N (b_de b))
                      (obytes (b_dig b)) (obytes (b_sig b)).
  Proof.
    intros HA Hbn Hds Hde.
    unfold commitment_hash_tail, eip712_commitment, eip712_hash.
    rewrite domain_separator_commit, gen_commit_prefix, gen_commit_struct_type.
    rewrite !u256bytes_small by (apply u64_in_range; auto using u63_u64).
    rewrite hash_struct_commitment, <- !app_assoc. reflexivity.
  Qed.

  Theorem commitment_hash_is_eip712 c b A :
    c_bid c = Some b ->
    parse_amount (b_amt b) = Some A ->
    u64 A -> u63 (b_bn b) -> u63 (b_ds b) -> u63 (b_de b) ->
    commitment_hash K c =
      Ok (eip712_commitment K (b_tx b) (Z.to_N A) (Z.to_N (b_bn b)) (Z.to_N (b_ds b)) (Z.to_N (b_de b))
                            (obytes (b_dig b)) (obytes (b_sig b)))
    /\ well_typed (s_members commitment_schema)
         (commitment_values (b_tx b) (Z.to_N A) (Z.to_N (b_bn b)) (Z.to_N (b_ds b)) (Z.to_N (b_de b))
                            (obytes (b_dig b)) (obytes (b_sig b))) = true.
  Proof.
    intros HB HP HA Hbn Hds Hde. split.
    - unfold commitment_hash. rewrite HB, HP.
      pose proof (u64_in_range A HA) as HR.
      unfold amount_out_of_range.
      destruct (Z.ltb_spec A 0); [lia|]. destruct (Z.leb_spec two256 A); [lia|]. cbn [orb].
      rewrite commitment_tail_is_eip712 by assumption. reflexivity.
    - cbn [well_typed s_members commitment_schema bid_members commitment_values bid_values m_type app].
      rewrite !u64_typed by auto using u63_u64. reflexivity.
  Qed.
End C03.

(* delimiting the claim: amounts in [2^64, 2^256) ARE hashed (and signed) by the node although
   no uint64 member of the published schema can hold them *)
Theorem bid_hash_outside_schema K b A :
  parse_amount (b_amt b) = Some A -> (2 ^ 64 <= A < two256)%Z ->
  (exists d, bid_hash K b = Ok d) /\
  forall bn ds de, well_typed (s_members bid_schema) (bid_values (b_tx b) (Z.to_N A) bn ds de) = false.
Proof.
  intros P [Hlo Hhi]. split.
  - unfold bid_hash. rewrite P. unfold amount_out_of_range.
    assert (0 < 2 ^ 64)%Z by (apply Z.pow_pos_nonneg; lia).
    destruct (Z.ltb_spec A 0); [lia|]. destruct (Z.leb_spec two256 A); [lia|]. cbn [orb]. eexists. reflexivity.
  - intros bn ds de. cbn [well_typed s_members bid_schema bid_members bid_values m_type value_has_type].
    assert (E : (Z.to_N A <? 2 ^ 64) = false).
    { apply N.ltb_ge. change (2 ^ 64) with (Z.to_N (2 ^ 64)%Z). apply Z2N.inj_le; lia. }
    rewrite E. cbn [andb]. reflexivity.
Qed.

(* The two Solidity-sourced vectors of TestHashing (pkg/signer/preconfsigner/signer_test.go)
   pin the GENERIC specification, evaluated with the executable Keccak-256, to values that
   come from the settlement contract. *)
Example contract_vector_bid :
  hex (eip712_bid keccak256 (bos "0xkartik") 200 3000 10 30) =
  bos "a837b0c680d4b9b11011ac6225670498d845e65f1dc340b00694d74a6ca0a049".
Proof. vm_compute. reflexivity. Qed.
Example contract_vector_commitment :
  hex (eip712_commitment keccak256 (bos "0xkartik") 2 2 10 20
         (x "a0327970258c49b922969af74d60299a648c50f69a2d98d6ab43f32f64ac2100")
         (x "876c1216c232828be9fabb14981c8788cebdf6ed66e563c4a2ccc82a577d052543207aeeb158a32d8977736797ae250c63ef69a82cd85b727da21e20d030fb311b")) =
  bos "54c118e537dd7cf63b5388a5fc8322f0286a978265d0338b108a8ca9d155dccc".
Proof. vm_compute. reflexivity. Qed.

(* hex.EncodeToString renders in lowercase: every character is 0-9 or a-f *)
Lemma hex_digit_lower n : n < 16 ->
  (48 <= hex_digit n <= 57) \/ (97 <= hex_digit n <= 102).
Proof. unfold hex_digit. intros H. destruct (N.ltb_spec n 10); lia. Qed.

Lemma hex_lowercase l : wf_bytes l ->
  Forall (fun c => (48 <= c <= 57) \/ (97 <= c <= 102)) (hex l).
Proof.
  induction 1 as [|b r Hb _ IH]; cbn [hex]; [constructor|].
  constructor; [|constructor; [|exact IH]]; apply hex_digit_lower.
  - apply N.div_lt_upper_bound; lia.
  - apply N.mod_lt. lia.
Qed.

(* non-vacuity of C03: a bid in the claimed domain, spelled canonically *)
Definition c03_example_bid : bid :=
  {| b_tx := bos "0xkartik"; b_amt := show_dec 18446744073709551615; b_bn := 3000;
     b_ds := 10; b_de := 9223372036854775807; b_dig := None; b_sig := None |}.
Example c03_domain_inhabited :
  parse_amount (b_amt c03_example_bid) = Some 18446744073709551615%Z /\ u64 18446744073709551615 /\
  u63 (b_bn c03_example_bid) /\ u63 (b_ds c03_example_bid) /\ u63 (b_de c03_example_bid).
Proof.
  split; [apply (parse_amount_show_dec 18446744073709551615)|].
  unfold u64, u63, c03_example_bid; cbn [b_bn b_ds b_de]. lia.
Qed.

(* --- binding: equal digests give equal fields or a NAMED collision ----------------------- *)
(* Auditor's observation (harness/audit): a bare "exists x y, x <> y /\ K x = K y" is TRUE of
   every K whose images have one length (pigeonhole; Keccak-256 included), so a binding
   theorem ending in that disjunct says nothing at the real hash.  The disjunct below is
   therefore [collision_among K ps] with ps the explicit, finite list of position-wise
   pre-image pairs of the two computations: the colliding strings are exhibited, and for the
   real hash the disjunct is a concrete Keccak-256 collision between two given strings. *)
Section Binding.
  Variable K : bytes -> bytes.

  (* the anonymous form, kept for the corollaries only *)
  Definition collision : Prop := exists x y : bytes, x <> y /\ K x = K y.

  Lemma collision_among_collision ps : collision_among K ps -> collision.
  Proof. intros (x & y & _ & H). exists x, y. exact H. Qed.

  Lemma collision_among_incl ps qs : incl ps qs -> collision_among K ps -> collision_among K qs.
  Proof. intros I (x & y & Hin & H). exists x, y. split; [apply I, Hin|exact H]. Qed.

  Lemma K_inj_or_named ps a b : In (a, b) ps -> K a = K b -> a = b \/ collision_among K ps.
  Proof.
    intros Hin H. destruct (list_eq_dec N.eq_dec a b) as [E|NE]; [left; exact E|].
    right. exists a, b. repeat split; assumption.
  Qed.

  Lemma bid_tail_raw b A : bid_hash_tail K b A = K (bid_raw K b A).
  Proof. reflexivity. Qed.
  Lemma commitment_tail_raw b A : commitment_hash_tail K b A = K (commitment_raw K b A).
  Proof. reflexivity. Qed.

  Lemma app_inv_len_l {A} (a b c d : list A) :
    length a = length c -> a ++ b = c ++ d -> a = c /\ b = d.
  Proof.
    revert c. induction a as [|u a IH]; intros [|v c] Hl H; cbn in *; try discriminate.
    - split; [reflexivity|exact H].
    - injection H as -> H. injection Hl as Hl. destruct (IH c Hl H) as [-> ->]. split; reflexivity.
  Qed.

  Lemma app_inv_len_r {A} (a b c d : list A) :
    length b = length d -> a ++ b = c ++ d -> a = c /\ b = d.
  Proof.
    intros Hl H. apply app_inv_len_l; [|exact H].
    apply (f_equal (@length A)) in H. rewrite !app_length in H. lia.
  Qed.

  (* the four integer words *)
  Lemma words4_inv a1 b1 c1 d1 a2 b2 c2 d2 :
    u256bytes a1 ++ u256bytes b1 ++ u256bytes c1 ++ u256bytes d1 =
    u256bytes a2 ++ u256bytes b2 ++ u256bytes c2 ++ u256bytes d2 ->
    u256bytes a1 = u256bytes a2 /\ u256bytes b1 = u256bytes b2 /\
    u256bytes c1 = u256bytes c2 /\ u256bytes d1 = u256bytes d2.
  Proof.
    intros H.
    apply app_inv_len_l in H; [|rewrite !u256bytes_length; reflexivity]. destruct H as [Ha H].
    apply app_inv_len_l in H; [|rewrite !u256bytes_length; reflexivity]. destruct H as [Hb H].
    apply app_inv_len_l in H; [|rewrite !u256bytes_length; reflexivity]. destruct H as [Hc Hd].
    repeat split; assumption.
  Qed.

  Lemma words4_length a b c d :
    length (u256bytes a ++ u256bytes b ++ u256bytes c ++ u256bytes d) = 128%nat.
  Proof. rewrite !app_length, !u256bytes_length. reflexivity. Qed.

  Definition bid_pairs_at (b1 : bid) (A1 : Z) (b2 : bid) (A2 : Z) : list (bytes * bytes) :=
    [ (bid_raw K b1 A1, bid_raw K b2 A2); (bid_data K b1 A1, bid_data K b2 A2); (b_tx b1, b_tx b2) ].
  Definition commitment_pairs_at (b1 : bid) (A1 : Z) (b2 : bid) (A2 : Z) : list (bytes * bytes) :=
    [ (commitment_raw K b1 A1, commitment_raw K b2 A2); (commitment_data K b1 A1, commitment_data K b2 A2);
      (b_tx b1, b_tx b2); (hex (obytes (b_dig b1)), hex (obytes (b_dig b2)));
      (hex (obytes (b_sig b1)), hex (obytes (b_sig b2))) ].

  Lemma parsed_amount b A : parse_amount (b_amt b) = Some A -> bid_amount b = A.
  Proof. unfold bid_amount. intros ->. reflexivity. Qed.

  (* what the bid digest binds: tx bytes, the amount modulo 2^256, the three int64 words *)
  Lemma bid_tail_binding b1 A1 b2 A2 :
    bid_hash_tail K b1 A1 = bid_hash_tail K b2 A2 ->
    (b_tx b1 = b_tx b2 /\ u256bytes A1 = u256bytes A2 /\ u256bytes (b_bn b1) = u256bytes (b_bn b2) /\
     u256bytes (b_ds b1) = u256bytes (b_ds b2) /\ u256bytes (b_de b1) = u256bytes (b_de b2))
    \/ collision_among K (bid_pairs_at b1 A1 b2 A2).
  Proof.
    rewrite !bid_tail_raw. intros H.
    apply (K_inj_or_named (bid_pairs_at b1 A1 b2 A2)) in H; [|left; reflexivity].
    destruct H as [H|C]; [|right; exact C].
    unfold bid_raw in H. apply app_inv_head in H. apply app_inv_head in H.
    apply (K_inj_or_named (bid_pairs_at b1 A1 b2 A2)) in H; [|right; left; reflexivity].
    destruct H as [H|C]; [|right; exact C].
    unfold bid_data in H. rewrite <- !app_assoc in H.
    apply app_inv_head in H.
    apply app_inv_len_r in H; [|rewrite !words4_length; reflexivity].
    destruct H as [Htx Hw].
    apply (K_inj_or_named (bid_pairs_at b1 A1 b2 A2)) in Htx; [|right; right; left; reflexivity].
    destruct Htx as [Htx|C]; [|right; exact C].
    apply words4_inv in Hw. left. tauto.
  Qed.

  Theorem bid_hash_binding b1 b2 A1 A2 d :
    int64 (b_bn b1) -> int64 (b_ds b1) -> int64 (b_de b1) ->
    int64 (b_bn b2) -> int64 (b_ds b2) -> int64 (b_de b2) ->
    parse_amount (b_amt b1) = Some A1 -> parse_amount (b_amt b2) = Some A2 ->
    bid_hash K b1 = Ok d -> bid_hash K b2 = Ok d ->
    (b_tx b1 = b_tx b2 /\ A1 = A2 /\ b_bn b1 = b_bn b2 /\ b_ds b1 = b_ds b2 /\ b_de b1 = b_de b2)
    \/ collision_among K (bid_preimage_pairs K b1 b2).
  Proof.
    intros I1 I2 I3 I4 I5 I6 P1 P2 H1 H2.
    unfold bid_preimage_pairs. rewrite (parsed_amount b1 A1 P1), (parsed_amount b2 A2 P2).
    unfold bid_hash in H1, H2. rewrite P1 in H1. rewrite P2 in H2.
    destruct (amount_out_of_range A1) eqn:R1; [discriminate|].
    destruct (amount_out_of_range A2) eqn:R2; [discriminate|].
    injection H1 as H1. injection H2 as H2.
    unfold amount_out_of_range in R1, R2.
    apply orb_false_iff in R1 as [R1a R1b]. apply orb_false_iff in R2 as [R2a R2b].
    apply Z.ltb_ge in R1a, R2a. apply Z.leb_gt in R1b, R2b.
    destruct (bid_tail_binding b1 A1 b2 A2) as [(Htx & HA & Hbn & Hds & Hde)|C];
      [congruence| |right; exact C].
    left. repeat split.
    - exact Htx.
    - apply u256bytes_inj_range; [lia|lia|exact HA].
    - apply u256bytes_inj_int64; assumption.
    - apply u256bytes_inj_int64; assumption.
    - apply u256bytes_inj_int64; assumption.
  Qed.

  (* the pre-fix encoder binds the amount only modulo 2^256 *)
  Theorem bid_hash_v0_binding_mod b1 b2 A1 A2 d :
    parse_amount (b_amt b1) = Some A1 -> parse_amount (b_amt b2) = Some A2 ->
    bid_hash_v0 K b1 = Ok d -> bid_hash_v0 K b2 = Ok d ->
    (A1 mod two256 = A2 mod two256)%Z \/ collision_among K (bid_preimage_pairs K b1 b2).
  Proof.
    intros P1 P2 H1 H2.
    unfold bid_preimage_pairs. rewrite (parsed_amount b1 A1 P1), (parsed_amount b2 A2 P2).
    unfold bid_hash_v0 in H1, H2. rewrite P1 in H1. rewrite P2 in H2.
    injection H1 as H1. injection H2 as H2.
    destruct (bid_tail_binding b1 A1 b2 A2) as [(_ & HA & _)|C]; [congruence| |right; exact C].
    left. apply u256bytes_mod, HA.
  Qed.

  (* the commitment digest additionally binds the bid's digest and signature bytes; this
     needs the images of K to have one length (32 for Keccak-256: Keccak_proofs) *)
  Section FixedLength.
    Variable klen : nat.
    Hypothesis K_len : forall m, length (K m) = klen.

    Lemma commitment_tail_binding b1 A1 b2 A2 :
      wf_bytes (obytes (b_dig b1)) -> wf_bytes (obytes (b_sig b1)) ->
      wf_bytes (obytes (b_dig b2)) -> wf_bytes (obytes (b_sig b2)) ->
      commitment_hash_tail K b1 A1 = commitment_hash_tail K b2 A2 ->
      (b_tx b1 = b_tx b2 /\ u256bytes A1 = u256bytes A2 /\ u256bytes (b_bn b1) = u256bytes (b_bn b2) /\
       u256bytes (b_ds b1) = u256bytes (b_ds b2) /\ u256bytes (b_de b1) = u256bytes (b_de b2) /\
       obytes (b_dig b1) = obytes (b_dig b2) /\ obytes (b_sig b1) = obytes (b_sig b2))
      \/ collision_among K (commitment_pairs_at b1 A1 b2 A2).
    Proof.
      intros W1 W2 W3 W4. rewrite !commitment_tail_raw. intros H.
      set (ps := commitment_pairs_at b1 A1 b2 A2).
      apply (K_inj_or_named ps) in H; [|left; reflexivity].
      destruct H as [H|C]; [|right; exact C].
      unfold commitment_raw in H. apply app_inv_head in H. apply app_inv_head in H.
      apply (K_inj_or_named ps) in H; [|right; left; reflexivity].
      destruct H as [H|C]; [|right; exact C].
      unfold commitment_data in H. rewrite <- !app_assoc in H.
      apply app_inv_head in H.
      apply app_inv_len_l in H; [|rewrite !K_len; reflexivity]. destruct H as [Htx H].
      rewrite !app_assoc in H.
      apply app_inv_len_r in H; [|rewrite !K_len; reflexivity]. destruct H as [H Hs].
      apply app_inv_len_r in H; [|rewrite !K_len; reflexivity]. destruct H as [Hw Hd].
      rewrite <- !app_assoc in Hw. apply words4_inv in Hw.
      apply (K_inj_or_named ps) in Htx; [|right; right; left; reflexivity].
      destruct Htx as [Htx|C]; [|right; exact C].
      apply (K_inj_or_named ps) in Hd; [|right; right; right; left; reflexivity].
      destruct Hd as [Hd|C]; [|right; exact C].
      apply (K_inj_or_named ps) in Hs; [|right; right; right; right; left; reflexivity].
      destruct Hs as [Hs|C]; [|right; exact C].
      apply hex_inj in Hd; [|assumption|assumption].
      apply hex_inj in Hs; [|assumption|assumption].
      left. tauto.
    Qed.

    Theorem commitment_hash_binding c1 c2 b1 b2 A1 A2 d :
      c_bid c1 = Some b1 -> c_bid c2 = Some b2 ->
      int64 (b_bn b1) -> int64 (b_ds b1) -> int64 (b_de b1) ->
      int64 (b_bn b2) -> int64 (b_ds b2) -> int64 (b_de b2) ->
      wf_bytes (obytes (b_dig b1)) -> wf_bytes (obytes (b_sig b1)) ->
      wf_bytes (obytes (b_dig b2)) -> wf_bytes (obytes (b_sig b2)) ->
      parse_amount (b_amt b1) = Some A1 -> parse_amount (b_amt b2) = Some A2 ->
      commitment_hash K c1 = Ok d -> commitment_hash K c2 = Ok d ->
      (b_tx b1 = b_tx b2 /\ A1 = A2 /\ b_bn b1 = b_bn b2 /\ b_ds b1 = b_ds b2 /\ b_de b1 = b_de b2 /\
       obytes (b_dig b1) = obytes (b_dig b2) /\ obytes (b_sig b1) = obytes (b_sig b2))
      \/ collision_among K (commitment_preimage_pairs K b1 b2).
    Proof.
      intros B1 B2 I1 I2 I3 I4 I5 I6 W1 W2 W3 W4 P1 P2 H1 H2.
      unfold commitment_preimage_pairs. rewrite (parsed_amount b1 A1 P1), (parsed_amount b2 A2 P2).
      unfold commitment_hash in H1, H2. rewrite B1, P1 in H1. rewrite B2, P2 in H2.
      destruct (amount_out_of_range A1) eqn:R1; [discriminate|].
      destruct (amount_out_of_range A2) eqn:R2; [discriminate|].
      injection H1 as H1. injection H2 as H2.
      unfold amount_out_of_range in R1, R2.
      apply orb_false_iff in R1 as [R1a R1b]. apply orb_false_iff in R2 as [R2a R2b].
      apply Z.ltb_ge in R1a, R2a. apply Z.leb_gt in R1b, R2b.
      destruct (commitment_tail_binding b1 A1 b2 A2 W1 W2 W3 W4)
        as [(Htx & HA & Hbn & Hds & Hde & Hd & Hs)|C]; [congruence| |right; exact C].
      left. repeat split; try assumption.
      - apply u256bytes_inj_range; [lia|lia|exact HA].
      - apply u256bytes_inj_int64; assumption.
      - apply u256bytes_inj_int64; assumption.
      - apply u256bytes_inj_int64; assumption.
    Qed.
  End FixedLength.
End Binding.

(* The auditor's observation as a lemma: the anonymous disjunct holds for EVERY function with
   zero-length images (and, by pigeonhole, for every fixed length) -- hence useless. *)
Lemma anonymous_collision_is_free (K : bytes -> bytes) :
  (forall m, length (K m) = 0%nat) -> collision K.
Proof.
  intros L. exists [], [0]. split; [discriminate|].
  pose proof (L []) as H1. pose proof (L [0]) as H2.
  destruct (K []); [|discriminate]. destruct (K [0]); [|discriminate]. reflexivity.
Qed.

(* Non-vacuity of the reduction: for the constant hash the two example bids below differ in the
   tx string, have one digest, and the NAMED disjunct holds -- the pair of tx strings itself is
   the exhibited collision. *)
Definition Kconst : bytes -> bytes := fun _ => [].
Definition nv_b1 : bid := {| b_tx := bos "aa"; b_amt := bos "5"; b_bn := 2; b_ds := 10; b_de := 20;
                            b_dig := None; b_sig := None |}.
Definition nv_b2 : bid := {| b_tx := bos "bb"; b_amt := bos "5"; b_bn := 2; b_ds := 10; b_de := 20;
                            b_dig := None; b_sig := None |}.
Example named_collision_inhabited :
  bid_hash Kconst nv_b1 = bid_hash Kconst nv_b2 /\ b_tx nv_b1 <> b_tx nv_b2 /\
  collision_among Kconst (bid_preimage_pairs Kconst nv_b1 nv_b2).
Proof.
  split; [reflexivity|]. split; [vm_compute; discriminate|].
  exists (b_tx nv_b1), (b_tx nv_b2). split; [right; right; left; reflexivity|].
  split; [vm_compute; discriminate|reflexivity].
Qed.

(* --- the pre-fix encoder did not bind the amount (regression lemma for 7ab670a) ---------- *)
Definition refute_b1 : bid :=
  {| b_tx := bos "0xkartik"; b_amt := bos "5"; b_bn := 2; b_ds := 10; b_de := 20;
     b_dig := None; b_sig := None |}.
Definition refute_b2 : bid :=
  {| b_tx := bos "0xkartik";
     b_amt := bos "115792089237316195423570985008687907853269984665640564039457584007913129639941";
     b_bn := 2; b_ds := 10; b_de := 20; b_dig := None; b_sig := None |}.
Definition refute_b3 : bid :=
  {| b_tx := bos "0xkartik";
     b_amt := bos "-115792089237316195423570985008687907853269984665640564039457584007913129639931";
     b_bn := 2; b_ds := 10; b_de := 20; b_dig := None; b_sig := None |}.

Lemma refute_amounts :
  parse_amount (b_amt refute_b1) = Some 5%Z /\
  parse_amount (b_amt refute_b2) = Some (two256 + 5)%Z /\
  parse_amount (b_amt refute_b3) = Some (5 - two256)%Z.
Proof. vm_compute. repeat split. Qed.

(* for EVERY hash function the three bids had the same digest before the repair ... *)
Theorem bid_hash_v0_amount_refuted : forall K,
  bid_hash_v0 K refute_b1 = bid_hash_v0 K refute_b2 /\
  bid_hash_v0 K refute_b1 = bid_hash_v0 K refute_b3 /\
  exists d, bid_hash_v0 K refute_b1 = Ok d.
Proof.
  intros K. destruct refute_amounts as (P1 & P2 & P3).
  unfold bid_hash_v0. rewrite P1, P2, P3.
  assert (E2 : u256bytes (two256 + 5) = u256bytes 5) by (vm_compute; reflexivity).
  assert (E3 : u256bytes (5 - two256) = u256bytes 5) by (vm_compute; reflexivity).
  unfold bid_hash_tail. cbn [b_tx b_bn b_ds b_de refute_b1 refute_b2 refute_b3].
  rewrite E2, E3. repeat split. eexists. reflexivity.
Qed.

(* ... and the repaired encoder refuses the two aliases *)
Lemma bid_hash_amount_aliases_refused : forall K,
  bid_hash K refute_b2 = Err E_AMOUNT /\ bid_hash K refute_b3 = Err E_AMOUNT /\
  exists d, bid_hash K refute_b1 = Ok d.
Proof.
  intros K. destruct refute_amounts as (P1 & P2 & P3).
  unfold bid_hash. rewrite P1, P2, P3.
  assert (R1 : amount_out_of_range 5 = false) by (vm_compute; reflexivity).
  assert (R2 : amount_out_of_range (two256 + 5) = true) by (vm_compute; reflexivity).
  assert (R3 : amount_out_of_range (5 - two256) = true) by (vm_compute; reflexivity).
  rewrite R1, R2, R3. repeat split. eexists. reflexivity.
Qed.
