(* Proofs about model/TxMonitor.v (property C09): the invariant of the monitor, provenance of the
   history variables in the event history, resolution and pending-list lemmas, refutations for the
   three pre-fix variants, non-vacuity examples. *)
From Coq Require Import String List NArith Bool Lia.
From MevVerif Require Import lib.Bytes gen.Generated model.TxMonitor.
Import ListNotations.
Open Scope N_scope.

(* ------------------------------------------------------------------------------------ *)
Definition with_wcd (s : mon) (w : list (N*N*N)) (c : list N) (d : list (N * wout)) : mon :=
  {| wait := w; closed := closed s; wl_exited := wl_exited s; drained := drained s;
     last_block := last_block s; last_conf := last_conf s; chk := chk s; closedch := c; pending := pending s;
     internal := internal s; flagged := flagged s; next := next s; delivered := d; watchers := watchers s; refused := refused s;
     sent := sent s; confs := confs s; answers := answers s; panicked := panicked s |}.

Lemma memN_false a l : ~ In a l -> memN a l = false.
Proof.
  unfold memN. intro H. destruct (existsb (N.eqb a) l) eqn:E; [|reflexivity].
  apply existsb_exists in E. destruct E as (y & Hy & Heq). apply N.eqb_eq in Heq. subst. contradiction.
Qed.
Lemma memN_true a l : In a l -> memN a l = true.
Proof. intro H. unfold memN. apply existsb_exists. exists a. split; [exact H|apply N.eqb_refl]. Qed.

Lemma send_ok s w o : ~ In w (closedch s) ->
  send s w o = with_wcd s (wait s) (closedch s ++ [w]) (delivered s ++ [(w, o)]).
Proof. intro H. unfold send. rewrite (memN_false _ _ H). reflexivity. Qed.

Lemma send_fold o : forall ws s, (forall w, In w ws -> ~ In w (closedch s)) -> NoDup ws ->
  fold_left (fun s w => send s w o) ws s =
  with_wcd s (wait s) (closedch s ++ ws) (delivered s ++ map (fun w => (w, o)) ws).
Proof.
  induction ws as [|a ws IH]; intros s Hn Hd.
  - destruct s; cbn. rewrite !app_nil_r. reflexivity.
  - cbn [fold_left]. rewrite send_ok by (apply Hn; left; reflexivity).
    inversion Hd as [|? ? Ha Hd']; subst.
    rewrite IH; [| |exact Hd'].
    + destruct s; cbn. rewrite <- !app_assoc. reflexivity.
    + intros w Hw. cbn [closedch with_wcd]. intro Hin. apply in_app_or in Hin. destruct Hin as [Hin|[->|[]]].
      * exact (Hn w (or_intror Hw) Hin).
      * exact (Ha Hw).
Qed.

(* ------------------------------------------------------------------------------------ *)
Definition just (s : mon) (o : wout) (n h : N) : Prop :=
  match o with
  | OReceipt h' st => h' = h /\ exists c, In (c, h, RReceipt st) (answers s)
  | OCancelled => exists c r, In (c, h, r) (answers s) /\ no_receipt r = true /\ n < c /\ In c (confs s)
  | OClosed => closed s = true
  end.

Definition chk_ok (s : mon) : Prop :=
  match chk s with
  | Idle => True
  | Handed c => In c (confs s)
  | InFlight c snap q => In c (confs s) /\ (forall n h, In (n, h) snap -> n < c) /\
                         (forall n h r, In (n, h, r) q -> n < c)
  end.

Record Inv (s : mon) : Prop := {
  i_nopanic : panicked s = false;
  i_open : forall e, In e (wait s) -> ~ In (waiter_of e) (closedch s);
  i_nodupw : NoDup (map waiter_of (wait s));
  i_deliv : map fst (delivered s) = closedch s;
  i_nodupc : NoDup (closedch s);
  i_ltw : forall e, In e (wait s) -> waiter_of e < next s;
  i_ltc : forall w, In w (closedch s) -> w < next s;
  i_drained : drained s = true -> wait s = [] /\ wl_exited s = true;
  i_exited : wl_exited s = true -> closed s = true;
  i_wait_watch : forall n h w, In (n, h, w) (wait s) -> In (w, h, n) (watchers s);
  i_watch_acc : forall w h n, In (w, h, n) (watchers s) -> In (n, h, w) (wait s) \/ In w (closedch s);
  i_ltwatch : forall w h n, In (w, h, n) (watchers s) -> w < next s;
  i_nodupwatch : NoDup (map (fun e => fst (fst e)) (watchers s));
  i_receipt : forall w h st, In (w, OReceipt h st) (delivered s) ->
     exists n c, In (w, h, n) (watchers s) /\ In (c, h, RReceipt st) (answers s);
  i_cancel : forall w, In (w, OCancelled) (delivered s) ->
     exists h n c r, In (w, h, n) (watchers s) /\ In (c, h, r) (answers s) /\ no_receipt r = true /\
                     n < c /\ In c (confs s);
  i_closed : forall w, In (w, OClosed) (delivered s) -> closed s = true;
  i_chk : chk_ok s;
  i_pending : forall h n, In (h, n) (pending s) -> In h (sent s);
  i_exdr : wl_exited s = true -> drained s = true
}.

Lemma NoDup_map_inj {A B} (f : A -> B) l a b :
  NoDup (map f l) -> In a l -> In b l -> f a = f b -> a = b.
Proof.
  induction l as [|x l IH]; cbn; intros Hd Ha Hb Hf; [contradiction|].
  inversion Hd as [|? ? Hx Hd']; subst.
  destruct Ha as [->|Ha], Hb as [->|Hb].
  - reflexivity.
  - exfalso. apply Hx. rewrite Hf. apply in_map, Hb.
  - exfalso. apply Hx. rewrite <- Hf. apply in_map, Ha.
  - exact (IH Hd' Ha Hb Hf).
Qed.

Lemma NoDup_map_filter {A B} (f : A -> B) (p : A -> bool) l :
  NoDup (map f l) -> NoDup (map f (filter p l)).
Proof.
  induction l as [|x l IH]; cbn; intro Hd; [constructor|].
  inversion Hd as [|? ? Hx Hd']; subst.
  destruct (p x); cbn; [constructor|]; auto.
  intro Hin. apply Hx. apply in_map_iff in Hin. destruct Hin as (y & Hy & Hyl).
  apply filter_In in Hyl. apply in_map_iff. exists y. tauto.
Qed.

Lemma NoDup_app_intro {A} (l1 l2 : list A) :
  NoDup l1 -> NoDup l2 -> (forall a, In a l1 -> ~ In a l2) -> NoDup (l1 ++ l2).
Proof.
  induction l1 as [|x l1 IH]; cbn; intros H1 H2 Hd; [exact H2|].
  inversion H1 as [|? ? Hx H1']; subst. constructor.
  - intro Hin. apply in_app_or in Hin. destruct Hin as [Hin|Hin]; [exact (Hx Hin)|].
    exact (Hd x (or_introl eq_refl) Hin).
  - apply IH; auto.
Qed.

Lemma deliver_inv s (sel : N * N * N -> bool) o :
  Inv s ->
  (forall n h w, In (n, h, w) (wait s) -> sel (n, h, w) = true -> just s o n h) ->
  let ws := map waiter_of (filter sel (wait s)) in
  Inv (with_wcd s (filter (fun e => negb (sel e)) (wait s)) (closedch s ++ ws)
                (delivered s ++ map (fun w => (w, o)) ws)).
Proof.
  intros I J ws. destruct I as [i_nopanic0 i_open0 i_nodupw0 i_deliv0 i_nodupc0 i_ltw0 i_ltc0 i_drained0 i_exited0 i_wait_watch0 i_watch_acc0 i_ltwatch0 i_nodupwatch0 i_receipt0 i_cancel0 i_closed0 i_chk0 i_pending0 i_exdr0].
  assert (Hws : forall w, In w ws -> exists n h, In (n, h, w) (wait s) /\ sel (n, h, w) = true).
  { intros w Hw. apply in_map_iff in Hw. destruct Hw as ([[n h] w'] & Heq & Hin). cbn in Heq. subst w'.
    apply filter_In in Hin. exists n, h. exact Hin. }
  constructor; cbn [with_wcd wait closedch delivered panicked next drained wl_exited closed watchers
                    answers confs chk pending sent].
  - assumption.
  - intros e He Hin. apply filter_In in He. destruct He as [He Hs].
    apply in_app_or in Hin. destruct Hin as [Hin|Hin]; [exact (i_open0 e He Hin)|].
    destruct (Hws _ Hin) as (n & h & Hin' & Hsel).
    assert (e = (n, h, waiter_of e)).
    { apply (NoDup_map_inj waiter_of (wait s)); auto. }
    rewrite H in Hs. rewrite Hsel in Hs. discriminate.
  - apply NoDup_map_filter. assumption.
  - rewrite map_app, map_map. cbn. rewrite map_id. f_equal. assumption.
  - apply NoDup_app_intro; [assumption| |].
    + unfold ws. apply NoDup_map_filter. assumption.
    + intros a Ha Hin. destruct (Hws _ Hin) as (n & h & Hin' & _). exact (i_open0 _ Hin' Ha).
  - intros e He. apply filter_In in He. apply i_ltw0. tauto.
  - intros w Hw. apply in_app_or in Hw. destruct Hw as [Hw|Hw]; [auto|].
    destruct (Hws _ Hw) as (n & h & Hin' & _). exact (i_ltw0 _ Hin').
  - intro Hd. destruct (i_drained0 Hd) as [Hw He]. rewrite Hw. cbn. auto.
  - assumption.
  - intros n h w Hin. apply filter_In in Hin. apply i_wait_watch0. tauto.
  - intros w h n Hw. destruct (i_watch_acc0 _ _ _ Hw) as [Hin|Hin].
    + destruct (sel (n, h, w)) eqn:Hs.
      * right. apply in_or_app. right. unfold ws. apply in_map_iff. exists (n, h, w). split; [reflexivity|].
        apply filter_In. auto.
      * left. apply filter_In. rewrite Hs. auto.
    + right. apply in_or_app. auto.
  - assumption.
  - assumption.
  - intros w h st Hin. apply in_app_or in Hin. destruct Hin as [Hin|Hin]; [auto|].
    apply in_map_iff in Hin. destruct Hin as (w' & Heq & Hw'). inversion Heq; subst.
    destruct (Hws _ Hw') as (n & h' & Hin' & Hsel). specialize (J _ _ _ Hin' Hsel). cbn in J.
    destruct J as [<- [c Hc]]. exists n, c. split; auto.
  - intros w Hin. apply in_app_or in Hin. destruct Hin as [Hin|Hin]; [auto|].
    apply in_map_iff in Hin. destruct Hin as (w' & Heq & Hw'). inversion Heq; subst.
    destruct (Hws _ Hw') as (n & h' & Hin' & Hsel). specialize (J _ _ _ Hin' Hsel). cbn in J.
    destruct J as (c & r & Hc & Hr & Hlt & Hcf). exists h', n, c, r. repeat split; auto.
  - intros w Hin. apply in_app_or in Hin. destruct Hin as [Hin|Hin]; [eauto|].
    apply in_map_iff in Hin. destruct Hin as (w' & Heq & Hw'). inversion Heq; subst.
    destruct (Hws _ Hw') as (n & h' & Hin' & Hsel). exact (J _ _ _ Hin' Hsel).
  - exact i_chk0.
  - assumption.
  - assumption.
Qed.

(* ------------------------------------------------------------------------------------ *)
Lemma notify_eq s n h o : Inv s ->
  notify s n h o =
  let ws := map waiter_of (filter (key_is n h) (wait s)) in
  with_wcd s (filter (fun e => negb (key_is n h e)) (wait s)) (closedch s ++ ws)
           (delivered s ++ map (fun w => (w, o)) ws).
Proof.
  intro I. unfold notify. rewrite send_fold.
  - destruct s; reflexivity.
  - intros w Hw. apply in_map_iff in Hw. destruct Hw as (e & <- & He). apply filter_In in He.
    apply (i_open _ I). tauto.
  - apply NoDup_map_filter. apply (i_nodupw _ I).
Qed.

Lemma key_is_spec n h n' h' w : key_is n h (n', h', w) = true -> n' = n /\ h' = h.
Proof. cbn. intro H. apply andb_prop in H. destruct H as [H1 H2]. apply N.eqb_eq in H1, H2. auto. Qed.

Lemma notify_inv s n h o : Inv s -> just s o n h -> Inv (notify s n h o).
Proof.
  intros I J. rewrite notify_eq by exact I. cbv zeta. apply deliver_inv; [exact I|].
  intros n' h' w _ Hk. apply key_is_spec in Hk. destruct Hk as [-> ->]. exact J.
Qed.

(* states that differ only in fields the core invariant does not read, or read monotonically *)
Lemma add_answer_inv s a : Inv s -> Inv (add_answer s a).
Proof.
  intro I. destruct I as [i_nopanic0 i_open0 i_nodupw0 i_deliv0 i_nodupc0 i_ltw0 i_ltc0 i_drained0 i_exited0 i_wait_watch0 i_watch_acc0 i_ltwatch0 i_nodupwatch0 i_receipt0 i_cancel0 i_closed0 i_chk0 i_pending0 i_exdr0]. constructor; cbn [add_answer wait closedch delivered panicked next drained wl_exited closed
    watchers answers confs chk pending sent]; auto.
  - intros w h st Hin. destruct (i_receipt0 _ _ _ Hin) as (n & c & H1 & H2). exists n, c. split; auto.
    apply in_or_app. auto.
  - intros w Hin. destruct (i_cancel0 _ Hin) as (h & n & c & r & H1 & H2 & H3). exists h, n, c, r.
    split; auto. split; [apply in_or_app; auto|exact H3].
Qed.

Lemma set_chk_inv s k : Inv s ->
  match k with
  | Idle => True
  | Handed c => In c (confs s)
  | InFlight c snap q => In c (confs s) /\ (forall n h, In (n, h) snap -> n < c) /\
                         (forall n h r, In (n, h, r) q -> n < c)
  end -> Inv (set_chk s k).
Proof.
  intros I Hk. destruct I as [i_nopanic0 i_open0 i_nodupw0 i_deliv0 i_nodupc0 i_ltw0 i_ltc0 i_drained0 i_exited0 i_wait_watch0 i_watch_acc0 i_ltwatch0 i_nodupwatch0 i_receipt0 i_cancel0 i_closed0 i_chk0 i_pending0 i_exdr0]. constructor; cbn [set_chk wait closedch delivered panicked next drained wl_exited closed
    watchers answers confs chk pending sent]; auto.
Qed.

Lemma finish_ok (s : mon) c snap q :
  In c (confs s) -> (forall n h, In (n, h) snap -> n < c) -> (forall n h r, In (n, h, r) q -> n < c) ->
  match finish c snap q with
  | Idle => True
  | Handed c => In c (confs s)
  | InFlight c snap q => In c (confs s) /\ (forall n h, In (n, h) snap -> n < c) /\
                         (forall n h r, In (n, h, r) q -> n < c)
  end.
Proof. intros. unfold finish. destruct snap; destruct q; auto. Qed.

Lemma set_pending_inv s p : Inv s -> (forall h n, In (h, n) p -> In h (sent s)) -> Inv (set_pending s p).
Proof.
  intros I Hp. destruct I as [i_nopanic0 i_open0 i_nodupw0 i_deliv0 i_nodupc0 i_ltw0 i_ltc0 i_drained0 i_exited0 i_wait_watch0 i_watch_acc0 i_ltwatch0 i_nodupwatch0 i_receipt0 i_cancel0 i_closed0 i_chk0 i_pending0 i_exdr0]. constructor; cbn [set_pending wait closedch delivered panicked next drained wl_exited closed
    watchers answers confs chk pending sent]; auto.
Qed.
Lemma set_internal_inv s p : Inv s -> Inv (set_internal s p).
Proof.
  intros I. destruct I as [i_nopanic0 i_open0 i_nodupw0 i_deliv0 i_nodupc0 i_ltw0 i_ltc0 i_drained0 i_exited0 i_wait_watch0 i_watch_acc0 i_ltwatch0 i_nodupwatch0 i_receipt0 i_cancel0 i_closed0 i_chk0 i_pending0 i_exdr0]. constructor; cbn [set_internal wait closedch delivered panicked next drained wl_exited closed
    watchers answers confs chk pending sent]; auto.
Qed.

Lemma set_flagged_inv s p : Inv s -> Inv (set_flagged s p).
Proof.
  intros I. destruct I as [i_nopanic0 i_open0 i_nodupw0 i_deliv0 i_nodupc0 i_ltw0 i_ltc0 i_drained0 i_exited0 i_wait_watch0 i_watch_acc0 i_ltwatch0 i_nodupwatch0 i_receipt0 i_cancel0 i_closed0 i_chk0 i_pending0 i_exdr0]. constructor; cbn [set_flagged wait closedch delivered panicked next drained wl_exited closed
    watchers answers confs chk pending sent]; auto.
Qed.

Lemma remove_key_sub h l a : In a (remove_key h l) -> In a l.
Proof. unfold remove_key. intro H. apply filter_In in H. tauto. Qed.

(* a fresh waiter identity, with arbitrary changes to the client-side bookkeeping *)
Definition side (s : mon) p i r st fl : mon :=
  {| wait := wait s; closed := closed s; wl_exited := wl_exited s; drained := drained s;
     last_block := last_block s; last_conf := last_conf s; chk := chk s; closedch := closedch s; pending := p;
     internal := i; flagged := fl; next := next s + 1; delivered := delivered s; watchers := watchers s; refused := r;
     sent := st; confs := confs s; answers := answers s; panicked := panicked s |}.

Lemma side_inv s p i r st fl : Inv s -> (forall h n, In (h, n) p -> In h st) -> Inv (side s p i r st fl).
Proof.
  intros I Hp. destruct I as [i_nopanic0 i_open0 i_nodupw0 i_deliv0 i_nodupc0 i_ltw0 i_ltc0 i_drained0 i_exited0 i_wait_watch0 i_watch_acc0 i_ltwatch0 i_nodupwatch0 i_receipt0 i_cancel0 i_closed0 i_chk0 i_pending0 i_exdr0]. constructor; cbn [side wait closedch delivered panicked next drained wl_exited closed
    watchers answers confs chk pending sent]; auto.
  - intros e He. specialize (i_ltw0 e He). lia.
  - intros w Hw. specialize (i_ltc0 w Hw). lia.
  - intros w h n Hw. specialize (i_ltwatch0 w h n Hw). lia.
Qed.

Lemma watch_tx_inv s w h n : Inv s -> next s = w + 1 ->
  (forall e, In e (wait s) -> waiter_of e < w) -> (forall x, In x (closedch s) -> x < w) ->
  (forall w' h' n', In (w', h', n') (watchers s) -> w' < w) ->
  Inv (watch_tx current s w h n).
Proof.
  intros I Hn Hw Hc Hwa. unfold watch_tx. cbn [fix_drain current andb drained].
  destruct I as [i_nopanic0 i_open0 i_nodupw0 i_deliv0 i_nodupc0 i_ltw0 i_ltc0 i_drained0 i_exited0 i_wait_watch0 i_watch_acc0 i_ltwatch0 i_nodupwatch0 i_receipt0 i_cancel0 i_closed0 i_chk0 i_pending0 i_exdr0]. destruct (drained s) eqn:Hd.
  - destruct (i_drained0 eq_refl) as [Hwt Hex]. rewrite send_ok.
    2:{ cbn [closedch]. intro Hin. specialize (Hc _ Hin). lia. }
    constructor; cbn [with_wcd wait closedch delivered panicked next drained wl_exited closed
      watchers answers confs chk pending sent]; auto.
    + rewrite Hwt. intros e [].
    + rewrite map_app. cbn. f_equal. assumption.
    + apply NoDup_app_intro; auto. { constructor; [intros []|constructor]. }
      intros a Ha [<-|[]]. specialize (Hc _ Ha). lia.
    + intros x Hx. apply in_app_or in Hx. destruct Hx as [Hx|[<-|[]]]; [auto|lia].
    + intros n0 h0 w0 Hin. apply in_or_app. left. auto.
    + intros w0 h0 n0 Hin. apply in_app_or in Hin. destruct Hin as [Hin|[Heq|[]]].
      * destruct (i_watch_acc0 _ _ _ Hin); [left; assumption|right; apply in_or_app; auto].
      * inversion Heq; subst. right. apply in_or_app. right. left. reflexivity.
    + intros w0 h0 n0 Hin. apply in_app_or in Hin. destruct Hin as [Hin|[Heq|[]]]; [eauto|].
      inversion Heq; subst. lia.
    + rewrite map_app. cbn. apply NoDup_app_intro; auto. { constructor; [intros []|constructor]. }
      intros a Ha [<-|[]]. apply in_map_iff in Ha. destruct Ha as ([[w1 h1] n1] & Heq & Hin). cbn in Heq. subst.
      specialize (Hwa _ _ _ Hin). lia.
    + intros w0 h0 st Hin. apply in_app_or in Hin. destruct Hin as [Hin|[Heq|[]]]; [|discriminate].
      destruct (i_receipt0 _ _ _ Hin) as (n1 & c & H1 & H2). exists n1, c. split; [apply in_or_app; auto|auto].
    + intros w0 Hin. apply in_app_or in Hin. destruct Hin as [Hin|[Heq|[]]]; [|discriminate].
      destruct (i_cancel0 _ Hin) as (h1 & n1 & c & r & H1 & H2). exists h1, n1, c, r.
      split; [apply in_or_app; auto|auto].
  - constructor; cbn [set_wait wait closedch delivered panicked next drained wl_exited closed
      watchers answers confs chk pending sent]; auto.
    + intros e He Hin. apply in_app_or in He. destruct He as [He|[<-|[]]]; [exact (i_open0 e He Hin)|].
      cbn in Hin. specialize (Hc _ Hin). lia.
    + rewrite map_app. cbn. apply NoDup_app_intro; auto. { constructor; [intros []|constructor]. }
      intros a Ha [<-|[]]. apply in_map_iff in Ha. destruct Ha as (e & Heq & Hin). specialize (Hw _ Hin). lia.
    + intros e He. apply in_app_or in He. destruct He as [He|[<-|[]]]; [auto|]. cbn. lia.
    + intro Hd'. try rewrite Hd in Hd'. discriminate.
    + intros n0 h0 w0 Hin. apply in_app_or in Hin. destruct Hin as [Hin|[Heq|[]]].
      * apply in_or_app. left. auto.
      * inversion Heq; subst. apply in_or_app. right. left. reflexivity.
    + intros w0 h0 n0 Hin. apply in_app_or in Hin. destruct Hin as [Hin|[Heq|[]]].
      * destruct (i_watch_acc0 _ _ _ Hin); [left; apply in_or_app; auto|right; assumption].
      * inversion Heq; subst. left. apply in_or_app. right. left. reflexivity.
    + intros w0 h0 n0 Hin. apply in_app_or in Hin. destruct Hin as [Hin|[Heq|[]]]; [eauto|].
      inversion Heq; subst. lia.
    + rewrite map_app. cbn. apply NoDup_app_intro; auto. { constructor; [intros []|constructor]. }
      intros a Ha [<-|[]]. apply in_map_iff in Ha. destruct Ha as ([[w1 h1] n1] & Heq & Hin). cbn in Heq. subst.
      specialize (Hwa _ _ _ Hin). lia.
    + intros w0 h0 st Hin. destruct (i_receipt0 _ _ _ Hin) as (n1 & c & H1 & H2). exists n1, c.
      split; [apply in_or_app; auto|auto].
    + intros w0 Hin. destruct (i_cancel0 _ Hin) as (h1 & n1 & c & r & H1 & H2). exists h1, n1, c, r.
      split; [apply in_or_app; auto|auto].
Qed.

(* ------------------------------------------------------------------------------------ *)
Ltac dI I := destruct I as [i_nopanic0 i_open0 i_nodupw0 i_deliv0 i_nodupc0 i_ltw0 i_ltc0 i_drained0 i_exited0
  i_wait_watch0 i_watch_acc0 i_ltwatch0 i_nodupwatch0 i_receipt0 i_cancel0 i_closed0 i_chk0 i_pending0 i_exdr0].
Ltac projs := cbn [with_wcd set_flagged flagged set_wait set_chk set_pending set_internal add_answer side wait closedch delivered
  panicked next drained wl_exited closed watchers answers confs chk pending sent internal refused last_block last_conf].

Lemma dedup_sub l a : In a (dedup l) -> In a l.
Proof.
  induction l as [|[n h] l IH]; cbn; [tauto|]. intros [<-|H]; [auto|].
  apply filter_In in H. right. apply IH. tauto.
Qed.
Lemma older_lt c w n h : In (n, h) (older c w) -> n < c.
Proof.
  unfold older. intro H. apply dedup_sub in H. apply in_map_iff in H. destruct H as ([[n' h'] w'] & Heq & Hin).
  cbn in Heq. inversion Heq; subst. apply filter_In in Hin. destruct Hin as [_ Hlt]. cbn in Hlt.
  apply N.ltb_lt. exact Hlt.
Qed.

Lemma find_hash_in h snap n : find_hash h snap = Some n -> In (n, h) snap.
Proof.
  induction snap as [|[n' h'] snap IH]; cbn; [discriminate|].
  destruct (h' =? h) eqn:E; [|auto]. apply N.eqb_eq in E. subst. intros [= ->]. auto.
Qed.
Lemma drop_hash_sub h snap a : In a (drop_hash h snap) -> In a snap.
Proof. unfold drop_hash. intro H. apply filter_In in H. tauto. Qed.

Lemma take_batch_ok c : forall rs snap snap' q,
  (forall n h, In (n, h) snap -> n < c) -> take_batch snap rs = (snap', q) ->
  (forall n h, In (n, h) snap' -> n < c) /\ (forall n h r, In (n, h, r) q -> n < c).
Proof.
  induction rs as [|[h r] rs IH]; cbn; intros snap snap' q Hs Ht.
  - inversion Ht; subst. split; [exact Hs|intros ? ? ? []].
  - destruct (find_hash h snap) as [n|] eqn:Ef.
    + destruct (take_batch (drop_hash h snap) rs) as [s2 q2] eqn:Et. inversion Ht; subst.
      destruct (IH _ _ _ (fun n0 h0 Hin => Hs n0 h0 (drop_hash_sub _ _ _ Hin)) Et) as [H1 H2].
      split; [exact H1|]. intros n0 h0 r0 [Heq|Hin]; [|eauto]. inversion Heq; subst.
      apply (Hs n0 h0). apply find_hash_in. exact Ef.
    + eauto.
Qed.

Lemma send_confs s w o : confs (send s w o) = confs s /\ answers (send s w o) = answers s /\ chk (send s w o) = chk s.
Proof. unfold send. destruct (memN w (closedch s)); auto. Qed.
Lemma send_fold_confs o : forall ws s,
  confs (fold_left (fun s w => send s w o) ws s) = confs s.
Proof. induction ws; cbn; intros; [reflexivity|]. rewrite IHws. apply send_confs. Qed.
Lemma notify_confs s n h o : confs (notify s n h o) = confs s.
Proof. unfold notify. cbv zeta. cbn [set_wait confs]. apply send_fold_confs. Qed.

Lemma proc_confs s c n h r fb : confs (proc current s c n h r fb) = confs s.
Proof.
  unfold proc. cbn [fix_fallback current].
  destruct r; [| |destruct fb as [[]|]..]; rewrite ?notify_confs; reflexivity.
Qed.

Lemma in_answers_add s a : In a (answers (add_answer s a)).
Proof. cbn. apply in_or_app. right. left. reflexivity. Qed.

Lemma proc_inv s c n h r fb : Inv s -> n < c -> In c (confs s) -> Inv (proc current s c n h r fb).
Proof.
  intros I Hlt Hc. unfold proc. cbn [fix_fallback current].
  pose proof (add_answer_inv s (c, h, r) I) as I1.
  destruct r.
  - apply notify_inv; [exact I1|]. cbn [just]. split; [reflexivity|]. exists c. apply in_answers_add.
  - apply notify_inv; [exact I1|]. cbn [just]. exists c, RNotFound. split; [apply in_answers_add|]. auto.
  - destruct fb as [[st| | |]|]; try exact I1.
    + apply notify_inv; [apply add_answer_inv; exact I1|]. cbn [just]. split; [reflexivity|]. exists c. apply in_answers_add.
    + apply notify_inv; [apply add_answer_inv; exact I1|]. cbn [just]. exists c, RNotFound.
      split; [apply in_answers_add|]. auto.
  - destruct fb as [[st| | |]|]; try exact I1.
    + apply notify_inv; [apply add_answer_inv; exact I1|]. cbn [just]. split; [reflexivity|]. exists c. apply in_answers_add.
    + apply notify_inv; [apply add_answer_inv; exact I1|]. cbn [just]. exists c, RNotFound.
      split; [apply in_answers_add|]. auto.
Qed.

Lemma filter_all {A} (l : list A) : filter (fun _ => true) l = l.
Proof. induction l; cbn; congruence. Qed.
Lemma filter_none {A} (l : list A) : filter (fun _ => negb true) l = [].
Proof. induction l; cbn; auto. Qed.

Lemma step_inv s e : Inv s -> Inv (step current s e).
Proof.
  intro I. unfold step. rewrite (i_nopanic _ I).
  destruct e as [h n|h|h n|blk nonce newtx| |rs| |fb|w| |].
  - (* Sent *)
    cbn [fresh]. cbv zeta. projs.
    change (Inv (watch_tx current (side s ((h, n) :: remove_key h (pending s)) (internal s ++ [(next s, h)])
                                       (refused s) (sent s ++ [h]) (filter (fun k => negb (k =? h)) (flagged s))) (next s) h n)).
    apply watch_tx_inv.
    + apply side_inv; [exact I|]. intros h0 n0 [Heq|Hin].
      * inversion Heq; subst. apply in_or_app. right. left. reflexivity.
      * apply in_or_app. left. apply remove_key_sub in Hin. exact (i_pending _ I _ _ Hin).
    + reflexivity.
    + exact (i_ltw _ I).
    + exact (i_ltc _ I).
    + exact (i_ltwatch _ I).
  - (* Watch *)
    cbn [fresh]. cbv zeta. projs. destruct (lookup h (pending s)) as [n|].
    + change (Inv (watch_tx current (side s (pending s) (internal s) (refused s) (sent s) (flagged s)) (next s) h n)).
      apply watch_tx_inv; [apply side_inv; [exact I|exact (i_pending _ I)]|reflexivity|exact (i_ltw _ I)|
                           exact (i_ltc _ I)|exact (i_ltwatch _ I)].
    + change (Inv (side s (pending s) (internal s) (refused s ++ [next s]) (sent s) (flagged s))).
      apply side_inv; [exact I|exact (i_pending _ I)].
  - (* WatchRaw *)
    cbn [fresh]. cbv zeta.
    change (Inv (watch_tx current (side s (pending s) (internal s) (refused s) (sent s) (flagged s)) (next s) h n)).
    apply watch_tx_inv; [apply side_inv; [exact I|exact (i_pending _ I)]|reflexivity|exact (i_ltw _ I)|
                         exact (i_ltc _ I)|exact (i_ltwatch _ I)].
  - (* Poll *)
    destruct (wl_exited s) eqn:Hex; [exact I|]. destruct blk as [b|]; [|exact I].
    destruct ((b <=? last_block s) && negb newtx); [exact I|]. destruct nonce as [c|]; [|exact I].
    dI I. constructor; projs; auto.
    + intro Hd. destruct (i_drained0 Hd) as [_ H]. rewrite Hex in H. discriminate.
    + discriminate.
    + intros w Hin. destruct (i_cancel0 _ Hin) as (h1 & n1 & c1 & r & H1 & H2 & H3 & H4 & H5).
      exists h1, n1, c1, r. repeat split; auto. apply in_or_app. auto.
    + unfold chk_ok in *. projs. destruct (chk s) as [|c0|c0 snap q].
      * apply in_or_app. right. left. reflexivity.
      * apply in_or_app. auto.
      * destruct i_chk0 as (H1 & H2 & H3). split; [apply in_or_app; auto|auto].
    + discriminate.
  - (* CheckBegin *)
    pose proof (i_chk _ I) as Hk. unfold chk_ok in Hk. destruct (chk s) as [|c|c snap q]; try exact I.
    apply set_chk_inv; [exact I|]. apply finish_ok; [exact Hk| |intros ? ? ? []].
    intros n h. apply older_lt.
  - (* BatchReply *)
    pose proof (i_chk _ I) as Hk. unfold chk_ok in Hk. destruct (chk s) as [|c|c snap q]; try exact I.
    destruct q; [|exact I]. destruct (take_batch snap rs) as [snap' q] eqn:Et.
    destruct Hk as (H1 & H2 & _). destruct (take_batch_ok c _ _ _ _ H2 Et) as [H3 H4].
    apply set_chk_inv; [exact I|]. apply finish_ok; auto.
  - (* BatchFail *)
    destruct (chk s) as [|c|c snap q]; try exact I. destruct q; [|exact I].
    apply set_chk_inv; [exact I|exact Logic.I].
  - (* Proc *)
    pose proof (i_chk _ I) as Hk. unfold chk_ok in Hk. destruct (chk s) as [|c|c snap q]; try exact I.
    destruct q as [|[[n h] r] q]; [exact I|]. destruct Hk as (H1 & H2 & H3).
    apply set_chk_inv.
    + apply proc_inv; [exact I| |exact H1]. apply (H3 n h r). left. reflexivity.
    + rewrite proc_confs. apply finish_ok; [exact H1|exact H2|]. intros n0 h0 r0 Hin. apply (H3 n0 h0 r0). right. exact Hin.
  - (* InternalRun *)
    destruct (lookup w (internal s)) as [h|]; [|exact I]. destruct (out_of w (delivered s)) as [o|]; [|exact I].
    pose proof (set_internal_inv s (remove_key w (internal s)) I) as I1.
    assert (Hrm : Inv (set_pending (set_internal s (remove_key w (internal s)))
                          (remove_key h (pending (set_internal s (remove_key w (internal s))))))).
    { apply set_pending_inv; [exact I1|]. intros h0 n0 Hin. apply remove_key_sub in Hin. exact (i_pending _ I1 _ _ Hin). }
    destruct o; cbn [fix_pending current]; [exact Hrm| |exact I1].
    destruct (lookup h (pending (set_internal s (remove_key w (internal s))))); [apply set_flagged_inv|]; exact I1.
  - (* Close *)
    dI I. constructor; projs; auto.
  - (* Drain *)
    destruct (closed s) eqn:Hcl; [|exact I]. destruct (wl_exited s) eqn:Hex; [exact I|]. cbn [andb negb].
    rewrite send_fold.
    2:{ intros w Hw. apply in_map_iff in Hw. destruct Hw as (e & <- & He). exact (i_open _ I e He). }
    2:{ exact (i_nodupw _ I). }
    cbn [fix_drain current]. projs.
    pose proof (deliver_inv s (fun _ => true) OClosed I) as D. cbv zeta in D.
    rewrite filter_all, filter_none in D.
    assert (J : forall n h w, In (n, h, w) (wait s) -> true = true -> just s OClosed n h).
    { intros. cbn. exact Hcl. }
    specialize (D J). clear J. dI D. revert i_nopanic0 i_open0 i_nodupw0 i_deliv0 i_nodupc0 i_ltw0 i_ltc0 i_drained0
      i_exited0 i_wait_watch0 i_watch_acc0 i_ltwatch0 i_nodupwatch0 i_receipt0 i_cancel0 i_closed0 i_chk0 i_pending0 i_exdr0.
    projs. intros. constructor; projs; auto.
Qed.

Theorem inv_init : Inv init.
Proof.
  constructor; cbn; try (intros; contradiction); try constructor; auto; try discriminate.
Qed.

Theorem inv_run : forall evs, Inv (run current evs).
Proof.
  intro evs. unfold run. assert (H : forall s, Inv s -> Inv (fold_left (step current) evs s)).
  { induction evs as [|e evs IH]; cbn; intros s Hs; [exact Hs|]. apply IH, step_inv, Hs. }
  apply H, inv_init.
Qed.

(* ------------------------------------------------------------------------------------ *)
(* ---- provenance: every history variable is explained by an event of the history ---------- *)
Definition frame (s s' : mon) : Prop :=
  closed s' = closed s /\ confs s' = confs s /\ answers s' = answers s /\ chk s' = chk s /\ sent s' = sent s.

Lemma frame_refl s : frame s s. Proof. repeat split. Qed.
Lemma frame_trans a b c : frame a b -> frame b c -> frame a c.
Proof. unfold frame. intros (A1 & A2 & A3 & A4 & A5) (B1 & B2 & B3 & B4 & B5). repeat split; congruence. Qed.
Lemma frame_send s w o : frame s (send s w o).
Proof. unfold send. destruct (memN w (closedch s)); repeat split. Qed.
Lemma frame_fold o : forall ws s, frame s (fold_left (fun s w => send s w o) ws s).
Proof.
  induction ws; cbn; intro s; [apply frame_refl|]. eapply frame_trans; [apply frame_send|apply IHws].
Qed.
Lemma frame_notify s n h o : frame s (notify s n h o).
Proof.
  unfold notify. cbv zeta. destruct (frame_fold o (map waiter_of (filter (key_is n h) (wait s))) s) as (A & B & C & D & E).
  repeat split; cbn [set_wait closed confs answers chk sent]; assumption.
Qed.
Lemma frame_watch v s w h n : frame s (watch_tx v s w h n).
Proof.
  unfold watch_tx. cbv zeta. cbn [drained]. destruct (fix_drain v && drained s).
  - eapply frame_trans; [|apply frame_send]. repeat split.
  - repeat split.
Qed.

Definition from_node (evs : list event) (h : N) (r : reply) : Prop :=
  (exists rs, In (BatchReply rs) evs /\ In (h, r) rs) \/ In (Proc (Some r)) evs.

Record Src (evs : list event) (s : mon) : Prop := {
  s_closed : closed s = true -> In Close evs;
  s_confs : forall c, In c (confs s) -> exists b nt, In (Poll (Some b) (Some c) nt) evs;
  s_answers : forall c h r, In (c, h, r) (answers s) -> from_node evs h r;
  s_queue : match chk s with
            | InFlight c snap q => forall n h r, In (n, h, r) q -> exists rs, In (BatchReply rs) evs /\ In (h, r) rs
            | _ => True
            end;
  s_sent : forall h, In h (sent s) -> exists n, In (Sent h n) evs
}.

Lemma src_weaken evs e s s' : Src evs s -> frame s s' -> Src (evs ++ [e]) s'.
Proof.
  intros [A B C D E] (F1 & F2 & F3 & F4 & F5). constructor.
  - rewrite F1. intro H. apply in_or_app. auto.
  - rewrite F2. intros c Hc. destruct (B c Hc) as (b & nt & H). exists b, nt. apply in_or_app. auto.
  - rewrite F3. intros c h r H. destruct (C c h r H) as [(rs & H1 & H2)|H1].
    + left. exists rs. split; [apply in_or_app; auto|exact H2].
    + right. apply in_or_app. auto.
  - rewrite F4. destruct (chk s); auto. intros n h r H. destruct (D n h r H) as (rs & H1 & H2). exists rs.
    split; [apply in_or_app; auto|exact H2].
  - rewrite F5. intros h H. destruct (E h H) as (n & Hn). exists n. apply in_or_app. auto.
Qed.

Lemma take_batch_src : forall rs snap snap' q, take_batch snap rs = (snap', q) ->
  forall n h r, In (n, h, r) q -> In (h, r) rs.
Proof.
  induction rs as [|[h0 r0] rs IH]; cbn; intros snap snap' q Ht n h r Hin.
  - inversion Ht; subst. destruct Hin.
  - destruct (find_hash h0 snap) as [n0|].
    + destruct (take_batch (drop_hash h0 snap) rs) as [s2 q2] eqn:Et. inversion Ht; subst.
      destruct Hin as [Heq|Hin]; [inversion Heq; subst; auto|]. right. eapply IH; eauto.
    + right. eapply IH; eauto.
Qed.

Lemma proc_frame s c n h r fb :
  closed (proc current s c n h r fb) = closed s /\ confs (proc current s c n h r fb) = confs s /\
  sent (proc current s c n h r fb) = sent s /\
  (forall a, In a (answers (proc current s c n h r fb)) ->
     In a (answers s) \/ a = (c, h, r) \/ exists r', fb = Some r' /\ a = (c, h, r')).
Proof.
  unfold proc. cbn [fix_fallback current].
  assert (G : forall t o, frame t (notify t n h o)) by (intros; apply frame_notify).
  assert (A1 : forall a, In a (answers (add_answer s (c, h, r))) -> In a (answers s) \/ a = (c, h, r)).
  { cbn. intros a Ha. apply in_app_or in Ha. destruct Ha as [Ha|[<-|[]]]; auto. }
  destruct r; [| |destruct fb as [[st| | |]|]..];
    repeat match goal with |- context [notify ?t n h ?o] =>
      let F := fresh in destruct (G t o) as (?F1 & ?F2 & ?F3 & ?F4 & ?F5); rewrite ?F1, ?F2, ?F3, ?F5; clear G end;
    cbn [add_answer closed confs sent answers]; repeat split; intros a Ha;
    repeat (apply in_app_or in Ha; destruct Ha as [Ha|Ha]); auto;
    try (destruct Ha as [<-|[]]; auto); right; right; eexists; split; reflexivity.
Qed.

Lemma src_step evs s e : Inv s -> Src evs s -> Src (evs ++ [e]) (step current s e).
Proof.
  intros I S. unfold step. rewrite (i_nopanic _ I).
  assert (W : forall s', frame s s' -> Src (evs ++ [e]) s') by (intros; eapply src_weaken; eauto).
  destruct e as [h n|h|h n|blk nonce newtx| |rs| |fb|w| |].
  - cbn [fresh]. cbv zeta. destruct S as [A B C D E]. constructor.
    + match goal with |- closed (watch_tx ?v ?t ?w ?h ?n) = true -> _ => destruct (frame_watch v t w h n) as (F1 & _); rewrite F1 end.
      cbn. intro H. apply in_or_app. auto.
    + match goal with |- forall c, In c (confs (watch_tx ?v ?t ?w ?h ?n)) -> _ => destruct (frame_watch v t w h n) as (_ & F2 & _); rewrite F2 end.
      cbn. intros c Hc. destruct (B c Hc) as (b & nt & H). exists b, nt. apply in_or_app. auto.
    + match goal with |- forall c h r, In _ (answers (watch_tx ?v ?t ?w ?h0 ?n)) -> _ => destruct (frame_watch v t w h0 n) as (_ & _ & F3 & _); rewrite F3 end.
      cbn. intros c h0 r H. destruct (C c h0 r H) as [(rs & H1 & H2)|H1].
      * left. exists rs. split; [apply in_or_app; auto|exact H2].
      * right. apply in_or_app. auto.
    + match goal with |- match chk (watch_tx ?v ?t ?w ?h0 ?n) with _ => _ end => destruct (frame_watch v t w h0 n) as (_ & _ & _ & F4 & _); rewrite F4 end.
      cbn. destruct (chk s); auto. intros n0 h0 r H. destruct (D n0 h0 r H) as (rs & H1 & H2). exists rs.
      split; [apply in_or_app; auto|exact H2].
    + match goal with |- forall h, In h (sent (watch_tx ?v ?t ?w ?h0 ?n)) -> _ => destruct (frame_watch v t w h0 n) as (_ & _ & _ & _ & F5); rewrite F5 end.
      cbn. intros h0 H. apply in_app_or in H. destruct H as [H|[<-|[]]].
      * destruct (E h0 H) as (n0 & Hn). exists n0. apply in_or_app. auto.
      * exists n. apply in_or_app. right. left. reflexivity.
  - cbn [fresh]. cbv zeta. cbn [pending]. destruct (lookup h (pending s)).
    + apply W. eapply frame_trans; [|apply frame_watch]. repeat split.
    + apply W. repeat split.
  - cbn [fresh]. cbv zeta. apply W. eapply frame_trans; [|apply frame_watch]. repeat split.
  - destruct (wl_exited s); [apply W, frame_refl|]. destruct blk as [b|]; [|apply W, frame_refl].
    destruct ((b <=? last_block s) && negb newtx); [apply W, frame_refl|]. destruct nonce as [c|]; [|apply W, frame_refl].
    destruct S as [A B C D E]. constructor; cbn [closed confs answers chk sent].
    + intro H. apply in_or_app. auto.
    + intros c0 Hc. apply in_app_or in Hc. destruct Hc as [Hc|[<-|[]]].
      * destruct (B c0 Hc) as (b0 & nt & H). exists b0, nt. apply in_or_app. auto.
      * exists b, newtx. apply in_or_app. right. left. reflexivity.
    + intros c0 h r H. destruct (C c0 h r H) as [(rs & H1 & H2)|H1].
      * left. exists rs. split; [apply in_or_app; auto|exact H2].
      * right. apply in_or_app. auto.
    + destruct (chk s); auto. intros n0 h0 r H. destruct (D n0 h0 r H) as (rs & H1 & H2). exists rs.
      split; [apply in_or_app; auto|exact H2].
    + intros h H. destruct (E h H) as (n & Hn). exists n. apply in_or_app. auto.
  - destruct (chk s) as [|c|c snap q] eqn:Ek; try (apply W, frame_refl).
    destruct (src_weaken evs CheckBegin s s S (frame_refl s)) as [A B C D E].
    constructor; cbn [set_chk closed confs answers chk sent]; auto.
    unfold finish. destruct (older c (wait s)); auto. intros ? ? ? [].
  - destruct (chk s) as [|c|c snap q] eqn:Ek; try (apply W, frame_refl).
    destruct q; [|apply W, frame_refl]. destruct (take_batch snap rs) as [snap' q] eqn:Et.
    destruct (src_weaken evs (BatchReply rs) s s S (frame_refl s)) as [A B C D E].
    constructor; cbn [set_chk closed confs answers chk sent]; auto.
    unfold finish. destruct snap'; destruct q; auto; intros n h r Hin; exists rs;
      (split; [apply in_or_app; right; left; reflexivity|eapply take_batch_src; eauto]).
  - destruct (chk s) as [|c|c snap q] eqn:Ek; try (apply W, frame_refl).
    destruct q; [|apply W, frame_refl].
    destruct (src_weaken evs BatchFail s s S (frame_refl s)) as [A B C D E].
    constructor; cbn [set_chk closed confs answers chk sent]; auto.
  - destruct (chk s) as [|c|c snap q] eqn:Ek; try (apply W, frame_refl).
    destruct q as [|[[n h] r] q]; [apply W, frame_refl|].
    destruct (proc_frame s c n h r fb) as (P1 & P2 & P3 & P4).
    destruct (src_weaken evs (Proc fb) s s S (frame_refl s)) as [A B C D E]. rewrite Ek in D.
    constructor; cbn [set_chk closed confs answers chk sent]; rewrite ?P1, ?P2, ?P3; auto.
    + intros c0 h0 r0 Hin. destruct (P4 _ Hin) as [H|[H|(r' & -> & H)]].
      * eauto.
      * inversion H; subst. left. apply (D n h r). left. reflexivity.
      * inversion H; subst. right. apply in_or_app. right. left. reflexivity.
    + unfold finish. destruct snap; destruct q; auto; intros n0 h0 r0 Hin; apply (D n0 h0 r0); right; exact Hin.
  - destruct (lookup w (internal s)) as [hh|]; [|apply W, frame_refl]. destruct (out_of w (delivered s)) as [o|]; [|apply W, frame_refl].
    destruct o; cbn [fix_pending current]; [apply W; repeat split| |apply W; repeat split].
    destruct (lookup hh (pending (set_internal s (remove_key w (internal s))))); apply W; repeat split.
  - destruct (src_weaken evs Close s s S (frame_refl s)) as [A B C D E].
    constructor; cbn [closed confs answers chk sent]; auto. intros _. apply in_or_app. right. left. reflexivity.
  - destruct (closed s && negb (wl_exited s)); [|apply W, frame_refl].
    destruct (frame_fold OClosed (map waiter_of (wait s)) s) as (F1 & F2 & F3 & F4 & F5).
    apply W. repeat split; cbn [closed confs answers chk sent]; assumption.
Qed.

Lemma run_snoc v evs e : run v (evs ++ [e]) = step v (run v evs) e.
Proof. unfold run. rewrite fold_left_app. reflexivity. Qed.

Theorem src_run : forall evs, Src evs (run current evs).
Proof.
  intro evs. induction evs as [|e evs IH] using rev_ind.
  - constructor; cbn; try discriminate; try (intros; contradiction); auto.
  - rewrite run_snoc. apply src_step; [apply inv_run|exact IH].
Qed.

(* ------------------------------------------------------------------------------------ *)
(* ================= the property, over unbounded event histories ========================= *)

Theorem no_panic : forall evs, panicked (run current evs) = false.
Proof. intro evs. apply (i_nopanic _ (inv_run evs)). Qed.

Theorem at_most_one : forall evs, NoDup (map fst (delivered (run current evs))).
Proof. intro evs. pose proof (inv_run evs) as I. rewrite (i_deliv _ I). apply (i_nodupc _ I). Qed.

Lemma in_closedch_delivered s w : Inv s -> In w (closedch s) -> exists o, In (w, o) (delivered s).
Proof.
  intros I H. rewrite <- (i_deliv _ I) in H. apply in_map_iff in H. destruct H as ([w' o] & Heq & Hin).
  cbn in Heq. subst. eauto.
Qed.

Lemma in_delivered_closedch s w o : Inv s -> In (w, o) (delivered s) -> In w (closedch s).
Proof. intros I H. rewrite <- (i_deliv _ I). apply in_map_iff. exists (w, o). auto. Qed.

Lemma NoDup_fst_unique {A B} (l : list (A * B)) a b1 b2 :
  NoDup (map fst l) -> In (a, b1) l -> In (a, b2) l -> b1 = b2.
Proof.
  intros Hd H1 H2. assert (E : (a, b1) = (a, b2)).
  { apply (NoDup_map_inj fst l); auto. }
  inversion E. reflexivity.
Qed.

(* every registered waiter is either still registered, with an empty channel, or holds exactly
   one outcome and is no longer registered *)
Theorem one_outcome_or_waiting : forall evs w h n, let s := run current evs in
  In (w, h, n) (watchers s) ->
  (In (n, h, w) (wait s) /\ forall o, ~ In (w, o) (delivered s)) \/
  ((forall n' h', ~ In (n', h', w) (wait s)) /\
   exists o, In (w, o) (delivered s) /\ forall o', In (w, o') (delivered s) -> o' = o).
Proof.
  intros evs w h n s Hw. pose proof (inv_run evs) as I. fold s in I.
  destruct (i_watch_acc _ I _ _ _ Hw) as [Hin|Hc].
  - left. split; [exact Hin|]. intros o Ho. apply (i_open _ I _ Hin). cbn. eapply in_delivered_closedch; eauto.
  - right. split.
    + intros n' h' Hin. apply (i_open _ I _ Hin). exact Hc.
    + destruct (in_closedch_delivered s w I Hc) as (o & Ho). exists o. split; [exact Ho|].
      intros o' Ho'. eapply NoDup_fst_unique; [|exact Ho'|exact Ho]. rewrite (i_deliv _ I). apply (i_nodupc _ I).
Qed.

(* waiter identities are not reused: "its" transaction is well defined *)
Theorem waiter_tx_unique : forall evs w h n h' n', let s := run current evs in
  In (w, h, n) (watchers s) -> In (w, h', n') (watchers s) -> h = h' /\ n = n'.
Proof.
  intros evs w h n h' n' s H1 H2. pose proof (inv_run evs) as I. fold s in I.
  assert (E : (w, h, n) = (w, h', n')).
  { apply (NoDup_map_inj (fun e => fst (fst e)) (watchers s)); auto. apply (i_nodupwatch _ I). }
  inversion E. auto.
Qed.

Theorem truthful_receipt : forall evs w h st, In (w, OReceipt h st) (delivered (run current evs)) ->
  (exists n, In (w, h, n) (watchers (run current evs))) /\ from_node evs h (RReceipt st).
Proof.
  intros evs w h st H. destruct (i_receipt _ (inv_run evs) _ _ _ H) as (n & c & H1 & H2).
  split; [eauto|]. exact (s_answers _ _ (src_run evs) _ _ _ H2).
Qed.

Theorem truthful_cancel : forall evs w, In (w, OCancelled) (delivered (run current evs)) ->
  exists h n c r b nt, In (w, h, n) (watchers (run current evs)) /\
    In (Poll (Some b) (Some c) nt) evs /\ n < c /\
    from_node evs h r /\ no_receipt r = true.
Proof.
  intros evs w H. destruct (i_cancel _ (inv_run evs) _ H) as (h & n & c & r & H1 & H2 & H3 & H4 & H5).
  destruct (s_confs _ _ (src_run evs) _ H5) as (b & nt & Hp).
  exists h, n, c, r, b, nt. repeat split; auto. exact (s_answers _ _ (src_run evs) _ _ _ H2).
Qed.

Theorem truthful_closed : forall evs w, In (w, OClosed) (delivered (run current evs)) -> In Close evs.
Proof. intros evs w H. apply (s_closed _ _ (src_run evs)). exact (i_closed _ (inv_run evs) _ H). Qed.

(* ---- resolution ---------------------------------------------------------------------------- *)
Lemma dedup_complete l a : In a l -> In a (dedup l).
Proof.
  induction l as [|[n h] l IH]; cbn; [tauto|]. intros [<-|H]; [auto|].
  destruct a as [n' h']. destruct ((n' =? n) && (h' =? h)) eqn:E.
  - apply andb_prop in E. destruct E as [E1 E2]. apply N.eqb_eq in E1, E2. subst. auto.
  - right. apply filter_In. split; [auto|]. cbn. rewrite E. reflexivity.
Qed.

Theorem snapshot_covers : forall s c n h w, panicked s = false -> chk s = Handed c ->
  In (n, h, w) (wait s) -> n < c ->
  exists snap, chk (step current s CheckBegin) = InFlight c snap [] /\ In (n, h) snap.
Proof.
  intros s c n h w Hp Hk Hin Hlt. unfold step. rewrite Hp, Hk. cbn [set_chk chk].
  assert (Ho : In (n, h) (older c (wait s))).
  { unfold older. apply dedup_complete. apply in_map_iff. exists (n, h, w). split; [reflexivity|].
    apply filter_In. split; [exact Hin|]. cbn. apply N.ltb_lt. exact Hlt. }
  unfold finish. destruct (older c (wait s)) as [|a l]; [destruct Ho|]. exists (a :: l). auto.
Qed.

Definition resolves (h : N) (r : reply) (fb : option reply) : option wout :=
  match r with
  | RReceipt st => Some (OReceipt h st)
  | RNotFound => Some OCancelled
  | _ => match fb with
         | Some (RReceipt st) => Some (OReceipt h st)
         | Some RNotFound => Some OCancelled
         | _ => None
         end
  end.

Lemma key_is_true n h w : key_is n h (n, h, w) = true.
Proof. cbn. rewrite !N.eqb_refl. reflexivity. Qed.

Lemma notify_resolves s n h o : Inv s ->
  (forall w, In (n, h, w) (wait s) -> In (w, o) (delivered (notify s n h o))) /\
  (forall w, ~ In (n, h, w) (wait (notify s n h o))).
Proof.
  intro I. rewrite notify_eq by exact I. cbv zeta. cbn [with_wcd delivered wait]. split.
  - intros w Hin. apply in_or_app. right. apply in_map_iff. exists w. split; [reflexivity|].
    apply in_map_iff. exists (n, h, w). split; [reflexivity|]. apply filter_In. split; [exact Hin|apply key_is_true].
  - intros w Hin. apply filter_In in Hin. destruct Hin as [_ Hk]. rewrite key_is_true in Hk. discriminate.
Qed.

Theorem proc_resolves : forall s c snap n h r q fb o, Inv s ->
  chk s = InFlight c snap ((n, h, r) :: q) -> resolves h r fb = Some o ->
  let s' := step current s (Proc fb) in
  (forall w, In (n, h, w) (wait s) -> In (w, o) (delivered s')) /\ (forall w, ~ In (n, h, w) (wait s')).
Proof.
  intros s c snap n h r q fb o I Hk Hr s'. unfold s', step. rewrite (i_nopanic _ I), Hk.
  cbn [set_chk delivered wait]. unfold proc. cbn [fix_fallback current].
  pose proof (add_answer_inv s (c, h, r) I) as I1.
  destruct r; cbn in Hr.
  - inversion Hr; subst. apply (notify_resolves _ n h _ I1).
  - inversion Hr; subst. apply (notify_resolves _ n h _ I1).
  - destruct fb as [[st| | |]|]; inversion Hr; subst.
    + apply (notify_resolves _ n h _ (add_answer_inv _ _ I1)).
    + apply (notify_resolves _ n h _ (add_answer_inv _ _ I1)).
  - destruct fb as [[st| | |]|]; inversion Hr; subst.
    + apply (notify_resolves _ n h _ (add_answer_inv _ _ I1)).
    + apply (notify_resolves _ n h _ (add_answer_inv _ _ I1)).
Qed.

(* after the shutdown drain every waiter ever registered -- before or after it -- holds exactly
   one outcome, at every later point of the history *)
Theorem drained_all_answered : forall evs w h n, let s := run current evs in
  drained s = true -> In (w, h, n) (watchers s) ->
  exists o, In (w, o) (delivered s) /\ forall o', In (w, o') (delivered s) -> o' = o.
Proof.
  intros evs w h n s Hd Hw. destruct (one_outcome_or_waiting evs w h n Hw) as [[Hin _]|[_ H]]; [|exact H].
  fold s in Hin. destruct (i_drained _ (inv_run evs) Hd) as [Hwt _]. fold s in Hwt. rewrite Hwt in Hin. destruct Hin.
Qed.

Theorem drain_completes : forall evs, closed (run current evs) = true ->
  drained (run current (evs ++ [Drain])) = true /\ wait (run current (evs ++ [Drain])) = [].
Proof.
  intros evs Hc. pose proof (inv_run (evs ++ [Drain])) as I. rewrite run_snoc in *.
  set (s := run current evs) in *. pose proof (inv_run evs) as I0. fold s in I0.
  assert (Hd : drained (step current s Drain) = true).
  { unfold step. rewrite (i_nopanic _ I0), Hc. destruct (wl_exited s) eqn:Hex; cbn [andb negb].
    - exact (i_exdr _ I0 Hex).
    - reflexivity. }
  split; [exact Hd|]. exact (proj1 (i_drained _ I Hd)).
Qed.

Lemma drained_step s e : Inv s -> drained s = true -> drained (step current s e) = true.
Proof.
  intros I Hd. pose proof (step_inv s e I) as I'.
  destruct (i_drained _ I Hd) as [_ Hex]. apply (i_exdr _ I').
  (* wl_exited is never reset *)
  unfold step. rewrite (i_nopanic _ I).
  assert (Fs : forall t w o, wl_exited (send t w o) = wl_exited t).
  { intros. unfold send. destruct (memN w (closedch t)); reflexivity. }
  assert (Ff : forall o ws t, wl_exited (fold_left (fun s w => send s w o) ws t) = wl_exited t).
  { intros o ws. induction ws; cbn; intros; [reflexivity|]. rewrite IHws. apply Fs. }
  assert (Fn : forall t n h o, wl_exited (notify t n h o) = wl_exited t).
  { intros. unfold notify. cbv zeta. cbn [set_wait wl_exited]. apply Ff. }
  assert (Fw : forall t w h n, wl_exited (watch_tx current t w h n) = wl_exited t).
  { intros. unfold watch_tx. cbv zeta. cbn [drained]. destruct (fix_drain current && drained t); [rewrite Fs|]; reflexivity. }
  destruct e as [h n|h|h n|blk nonce newtx| |rs| |fb|w| |].
  - cbn [fresh]. cbv zeta. rewrite Fw. exact Hex.
  - cbn [fresh]. cbv zeta. cbn [pending]. destruct (lookup h (pending s)); [rewrite Fw|]; exact Hex.
  - cbn [fresh]. cbv zeta. rewrite Fw. exact Hex.
  - rewrite Hex. exact Hex.
  - destruct (chk s); exact Hex.
  - destruct (chk s) as [| |c snap q]; try exact Hex. destruct q; [|exact Hex]. destruct (take_batch snap rs). exact Hex.
  - destruct (chk s) as [| |c snap q]; try exact Hex. destruct q; exact Hex.
  - destruct (chk s) as [| |c snap q]; try exact Hex. destruct q as [|[[n h] r] q]; [exact Hex|].
    cbn [set_chk wl_exited]. unfold proc. cbn [fix_fallback current].
    destruct r; [| |destruct fb as [[]|]..]; rewrite ?Fn; exact Hex.
  - destruct (lookup w (internal s)) as [hh|]; [|exact Hex]. destruct (out_of w (delivered s)) as [o|]; [|exact Hex].
    destruct o; cbn [fix_pending current]; try exact Hex.
    destruct (lookup hh (pending (set_internal s (remove_key w (internal s))))); exact Hex.
  - exact Hex.
  - rewrite Hex. rewrite andb_false_r. exact Hex.
Qed.

Theorem drained_forever : forall evs evs', drained (run current evs) = true ->
  drained (run current (evs ++ evs')) = true.
Proof.
  intros evs evs'. induction evs' as [|e evs' IH] using rev_ind; intro Hd.
  - rewrite app_nil_r. exact Hd.
  - rewrite app_assoc, run_snoc. apply drained_step; [apply inv_run|auto].
Qed.

(* a waiter that registers after the drain is answered "monitor closed" inside watchTx *)
Theorem late_waiter_closed : forall evs h n, drained (run current evs) = true ->
  let s' := run current (evs ++ [WatchRaw h n]) in
  In (next (run current evs), h, n) (watchers s') /\ In (next (run current evs), OClosed) (delivered s').
Proof.
  intros evs h n Hd s'. unfold s'. rewrite run_snoc. set (s := run current evs) in *.
  pose proof (inv_run evs) as I. fold s in I.
  unfold step. rewrite (i_nopanic _ I). cbn [fresh]. cbv zeta. unfold watch_tx. cbv zeta.
  cbn [drained fix_drain current andb]. rewrite Hd. rewrite send_ok.
  - cbn [with_wcd watchers delivered]. split; apply in_or_app; right; left; reflexivity.
  - cbn [closedch]. intro Hin. pose proof (i_ltc _ I _ Hin). lia.
Qed.

(* ---- the pending list ------------------------------------------------------------------------ *)
Theorem pending_sent : forall evs h n, In (h, n) (pending (run current evs)) -> exists n', In (Sent h n') evs.
Proof.
  intros evs h n H. apply (s_sent _ _ (src_run evs)). exact (i_pending _ (inv_run evs) _ _ H).
Qed.

Lemma remove_key_not h l n : ~ In (h, n) (remove_key h l).
Proof. unfold remove_key. intro H. apply filter_In in H. destruct H as [_ H]. cbn in H. rewrite N.eqb_refl in H. discriminate. Qed.

Lemma lookup_none h l : lookup h l = None -> ~ In h (map fst l).
Proof.
  induction l as [|[k v] l IH]; cbn; [tauto|]. destruct (k =? h) eqn:E; [discriminate|].
  intros Hl [Hk|Hin]; [subst; rewrite N.eqb_refl in E; discriminate|exact (IH Hl Hin)].
Qed.

Theorem pending_listed_sent : forall evs h, In h (pending_hashes (run current evs)) -> exists n, In (Sent h n) evs.
Proof.
  intros evs h H. unfold pending_hashes in H. apply filter_In in H. destruct H as [H _].
  apply in_map_iff in H. destruct H as ([h' n] & Heq & Hin). cbn in Heq. subst. eapply pending_sent; eauto.
Qed.

(* once the client's own waiter has consumed a receipt or a cancellation, the transaction is not listed *)
Theorem internal_run_clears : forall s w h o, panicked s = false ->
  lookup w (internal s) = Some h -> out_of w (delivered s) = Some o -> o <> OClosed ->
  ~ In h (pending_hashes (step current s (InternalRun w))).
Proof.
  intros s w h o Hp Hl Ho Hne. unfold step. rewrite Hp, Hl, Ho. unfold pending_hashes.
  destruct o; cbn [fix_pending current]; [| |congruence].
  - cbn [set_pending set_internal pending flagged]. intro H. apply filter_In in H. destruct H as [H _].
    apply in_map_iff in H. destruct H as ([h' n] & Heq & Hin). cbn in Heq. subst. exact (remove_key_not _ _ _ Hin).
  - cbn [set_internal pending]. destruct (lookup h (pending s)) eqn:El.
    + cbn [set_flagged set_internal pending flagged]. intro H. apply filter_In in H. destruct H as [_ H].
      cbn [memN existsb] in H. rewrite N.eqb_refl in H. discriminate.
    + cbn [set_internal pending flagged]. intro H. apply filter_In in H. destruct H as [H _].
      exact (lookup_none _ _ El H).
Qed.

(* a flagged (cancelled) entry keeps its nonce: a late WaitForReceipt still registers a waiter *)
Theorem late_watch_registers : forall s h n, panicked s = false -> drained s = false ->
  lookup h (pending s) = Some n ->
  In (n, h, next s) (wait (step current s (Watch h))).
Proof.
  intros s h n Hp Hd Hl. unfold step. rewrite Hp. cbn [fresh]. cbv zeta. cbn [pending]. rewrite Hl.
  unfold watch_tx. cbv zeta. cbn [drained fix_drain current andb]. rewrite Hd. cbn [set_wait wait].
  apply in_or_app. right. left. reflexivity.
Qed.

(* ---- the code before the three repairs ------------------------------------------------------- *)
Example no_panic_refuted :
  panicked (run v0_drain [Sent 1 0; Poll (Some 1) (Some 1) true; CheckBegin; Close; Drain;
                          BatchReply [(1, RReceipt 1)]; Proc None]) = true.
Proof. vm_compute. reflexivity. Qed.

Example late_waiter_refuted :
  let s := run v0_drain [Close; Drain; WatchRaw 1 0] in
  In (0, 1, 0) (watchers s) /\ delivered s = [] /\ wl_exited s = true.
Proof. vm_compute. auto. Qed.

Example resolved_refuted :
  let s := run v0_fallback [Sent 1 0; Poll (Some 1) (Some 1) true; CheckBegin;
                            BatchReply [(1, RNullOverWire)]; Proc (Some RNotFound)] in
  chk s = Idle /\ wait s = [(0, 1, 0)] /\ delivered s = [].
Proof. vm_compute. auto. Qed.

Example pending_refuted :
  let s := run v0_pending [Sent 1 0; Poll (Some 1) (Some 1) true; CheckBegin;
                           BatchReply [(1, RNotFound)]; Proc None; InternalRun 0] in
  delivered s = [(0, OCancelled)] /\ internal s = [] /\ pending_hashes s = [1].
Proof. vm_compute. auto. Qed.

(* the same histories on the current code *)
Example no_panic_now :
  let s := run current [Sent 1 0; Poll (Some 1) (Some 1) true; CheckBegin; Close; Drain;
                        BatchReply [(1, RReceipt 1)]; Proc None] in
  panicked s = false /\ delivered s = [(0, OClosed)].
Proof. vm_compute. auto. Qed.
Example resolved_now :
  let s := run current [Sent 1 0; Poll (Some 1) (Some 1) true; CheckBegin;
                        BatchReply [(1, RNullOverWire)]; Proc (Some RNotFound)] in
  wait s = [] /\ delivered s = [(0, OCancelled)].
Proof. vm_compute. auto. Qed.
Example pending_now :
  let s := run current [Sent 1 0; Poll (Some 1) (Some 1) true; CheckBegin;
                        BatchReply [(1, RNotFound)]; Proc None; InternalRun 0] in
  pending_hashes s = [] /\ pending s = [(1, 0)] /\ flagged s = [1].
Proof. vm_compute. auto. Qed.

(* ---- non-vacuity: histories that exercise every outcome kind ------------------------------ *)
Definition demo : list event :=
  [Sent 1 0; Sent 2 1; Sent 3 2; Watch 1; WatchRaw 2 1; Watch 9;
   Poll (Some 5) (Some 2) false; CheckBegin; Watch 2;
   BatchReply [(2, RNullOverWire); (1, RReceipt 1)]; Proc (Some RNotFound); Proc None;
   InternalRun 0; InternalRun 1; Close; Watch 3; Drain; WatchRaw 3 2; InternalRun 2].
Example demo_delivered :
  delivered (run current demo) =
  [(1, OCancelled); (4, OCancelled); (6, OCancelled); (0, OReceipt 1 1); (3, OReceipt 1 1);
   (2, OClosed); (7, OClosed); (8, OClosed)] /\
  refused (run current demo) = [5] /\ pending_hashes (run current demo) = [3] /\ flagged (run current demo) = [2] /\
  drained (run current demo) = true.
Proof. vm_compute. auto. Qed.

(* ------------------------------------------------------------------------------------ *)
(* ---- facts about the current source text (gen/Generated.v is rewritten from /repo on every run):
   the model's [current] variant is the code that has all three repairs ------------------------ *)
Lemma src_batch_size : c09_batchSize = 64.
Proof. reflexivity. Qed.
(* waitForTxn tests the receipt's error, not the watch error (877a545) *)
Lemma src_wait_tests_receipt_err :
  c09_waitForTxn_errors_is = [[bos "receipt.Err"; bos "ErrTxnCancelled"]].
Proof. reflexivity. Qed.
(* check() asks for the receipt individually when a batch element fails (0a270d8) *)
Lemma src_check_has_fallback : c09_check_has_fallback = fix_fallback current.
Proof. reflexivity. Qed.
(* the three notify call sites of check(): fallback receipt, cancelled, batch receipt *)
Lemma src_check_notifies :
  map (fun a => nth 2 a []) c09_check_notify_calls =
  [bos "Result{receipt, nil}"; bos "Result{nil, ErrTxnCancelled}"; bos "Result{result.Result.(*types.Receipt), nil}"].
Proof. reflexivity. Qed.
(* the shutdown drain re-creates the wait map (49ec96f) *)
Lemma src_drain_resets_map : c09_drain_resets_map = fix_drain current.
Proof. reflexivity. Qed.
